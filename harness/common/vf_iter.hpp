// vf_iter.hpp - bounds-checked iterator wrappers carrying the etl iterator tags and a
// call monitor for "predicate / move / write applied outside the ranges handed out" (DESIGN 3.7).
//
// * vf::it::Monitor  : while a library call is in flight (`active`), every address reported
//   through touch_read()/touch_write() that lies inside a registered harness *block* must lie
//   inside a registered *handed* sub-range of it.  Addresses outside every block (locals,
//   temporaries made by the algorithm) are fine.  Iterator wrappers report misuse through
//   violation().  The first symptom of a call is kept; the harness turns it into one `diverge`.
// * fwd_it / bidi_it / ra_it : multi-pass wrappers over [lo,hi); stepping outside, dereferencing
//   outside (or at hi) and comparing iterators of different ranges are violations.  The wrapper
//   then *clamps* (stays in range / yields a dummy object) so the process keeps running.
// * in_it  : single-pass input iterator (reference = T const&): once any copy has been
//   incremented, older copies may neither be dereferenced, incremented nor compared.
// * out_it : single-pass write-only output iterator: one assignment per position, in order,
//   never beyond the capacity; not comparable, not readable.
#pragma once
#include "vf.hpp"

#include <etl/iterator.hpp>

#include <cstddef>
#include <type_traits>
#include <utility>

namespace vf::it {

struct Monitor {
    struct R {
        char const* lo;
        char const* hi;
    };
    static constexpr int kMax = 12;
    R blocks[kMax];
    int nb = 0;
    R handed[kMax];
    bool writable[kMax];
    int nh             = 0;
    bool active        = false;
    unsigned count     = 0;
    char const* first  = nullptr;
    unsigned long long pred_calls = 0;
};
inline Monitor& mon()
{
    static Monitor m;
    return m;
}
inline void violation(char const* sym)
{
    Monitor& m = mon();
    if (!m.active) { return; }
    if (m.count++ == 0) { m.first = sym; }
    if (m.count > 20000) {
        // the algorithm is spinning on a clamped iterator: report and leave (parent logs exit:79 as well)
        vf::diverge(m.first, "more than 20000 iterator/range violations in one call (runaway)", "none");
        std::fflush(nullptr);
        std::_Exit(79);
    }
}
inline int add_block(void const* lo, void const* hi)
{
    Monitor& m = mon();
    if (m.nb >= Monitor::kMax) { return -1; }
    m.blocks[m.nb] = {static_cast<char const*>(lo), static_cast<char const*>(hi)};
    return m.nb++;
}
inline int add_handed(void const* lo, void const* hi, bool writable)
{
    Monitor& m = mon();
    if (m.nh >= Monitor::kMax) { return -1; }
    m.handed[m.nh]   = {static_cast<char const*>(lo), static_cast<char const*>(hi)};
    m.writable[m.nh] = writable;
    return m.nh++;
}
inline void clear_ranges()
{
    Monitor& m = mon();
    m.nb = m.nh = 0;
}
// 0 = not in any block, 1 = in a handed range (and writable if asked), 2 = in a block but outside what was handed
inline int classify(void const* pv, std::size_t sz, bool write)
{
    Monitor& m    = mon();
    char const* p = static_cast<char const*>(pv);
    bool in_block = false;
    for (int i = 0; i < m.nb; ++i) {
        if (p >= m.blocks[i].lo && p < m.blocks[i].hi) { in_block = true; }
    }
    if (!in_block) { return 0; }
    for (int i = 0; i < m.nh; ++i) {
        if (p >= m.handed[i].lo && p + sz <= m.handed[i].hi && (!write || m.writable[i])) { return 1; }
    }
    return 2;
}
inline void touch_read(void const* p, std::size_t sz, char const* sym)
{
    if (mon().active && classify(p, sz, false) == 2) { violation(sym); }
}
inline void touch_write(void const* p, std::size_t sz, char const* sym)
{
    if (mon().active && classify(p, sz, true) == 2) { violation(sym); }
}

// run one library call under the monitor; afterwards emits at most one diverge record for it.
// returns true when the call was clean.
struct CallGuard {
    CallGuard()
    {
        Monitor& m = mon();
        m.count    = 0;
        m.first    = nullptr;
        m.active   = true;
    }
    ~CallGuard() { mon().active = false; }
};
inline bool finish_call()
{
    Monitor& m = mon();
    m.active   = false;
    if (m.count == 0) { return true; }
    char obs[96];
    std::snprintf(obs, sizeof obs, "%u violation(s) during the call, first: %s", m.count, m.first);
    vf::diverge(m.first, obs, "none");
    m.count = 0;
    return false;
}

// ------------------------------------------------------------------ range descriptor
template <typename T>
struct Desc {
    T* lo                   = nullptr;
    T* hi                   = nullptr;
    std::ptrdiff_t frontier = 0;  // single-pass iterators: furthest position reached by any copy
    std::ptrdiff_t assigned = -1; // out_it: last position assigned through
    std::ptrdiff_t writes   = 0;  // out_it: number of assignments performed
    void reset(T* l, T* h)
    {
        lo       = l;
        hi       = h;
        frontier = 0;
        assigned = -1;
        writes   = 0;
    }
};
template <typename T>
inline std::remove_cv_t<T>& dummy()
{
    static std::remove_cv_t<T> d{};
    return d;
}

namespace detail {
template <typename T>
T* checked(T* p, Desc<T> const* d)
{
    if (!d || p < d->lo || p > d->hi) {
        violation("iter:deref-outside-range");
        return &dummy<T>();
    }
    if (p == d->hi) {
        violation("iter:deref-at-end");
        return &dummy<T>();
    }
    return p;
}
template <typename T>
void step(T*& p, Desc<T> const* d, std::ptrdiff_t n)
{
    if (n == 0) { return; }
    if (!d) {
        violation("iter:step-singular");
        return;
    }
    if (n > 0 && n > d->hi - p) {
        violation("iter:inc-past-end");
        p = d->hi;
        return;
    }
    if (n < 0 && -n > p - d->lo) {
        violation("iter:dec-before-begin");
        p = d->lo;
        return;
    }
    p += n;
}
template <typename T>
void same(Desc<T> const* a, Desc<T> const* b)
{
    if (a != b) { violation("iter:compare-different-ranges"); }
}
} // namespace detail

// ------------------------------------------------------------------ forward
template <typename T>
struct fwd_it {
    using iterator_category = etl::forward_iterator_tag;
    using value_type        = std::remove_cv_t<T>;
    using difference_type   = std::ptrdiff_t;
    using pointer           = T*;
    using reference         = T&;
    T* p                    = nullptr;
    Desc<T>* d              = nullptr;
    fwd_it()                = default;
    fwd_it(T* pp, Desc<T>* dd) : p(pp), d(dd) { }
    reference operator*() const { return *detail::checked(p, d); }
    pointer operator->() const { return detail::checked(p, d); }
    fwd_it& operator++()
    {
        detail::step(p, d, 1);
        return *this;
    }
    fwd_it operator++(int)
    {
        fwd_it t = *this;
        detail::step(p, d, 1);
        return t;
    }
    friend bool operator==(fwd_it const& a, fwd_it const& b)
    {
        detail::same(a.d, b.d);
        return a.p == b.p;
    }
    friend bool operator!=(fwd_it const& a, fwd_it const& b)
    {
        detail::same(a.d, b.d);
        return a.p != b.p;
    }
};

// ------------------------------------------------------------------ bidirectional
template <typename T>
struct bidi_it {
    using iterator_category = etl::bidirectional_iterator_tag;
    using value_type        = std::remove_cv_t<T>;
    using difference_type   = std::ptrdiff_t;
    using pointer           = T*;
    using reference         = T&;
    T* p                    = nullptr;
    Desc<T>* d              = nullptr;
    bidi_it()               = default;
    bidi_it(T* pp, Desc<T>* dd) : p(pp), d(dd) { }
    reference operator*() const { return *detail::checked(p, d); }
    pointer operator->() const { return detail::checked(p, d); }
    bidi_it& operator++()
    {
        detail::step(p, d, 1);
        return *this;
    }
    bidi_it operator++(int)
    {
        bidi_it t = *this;
        detail::step(p, d, 1);
        return t;
    }
    bidi_it& operator--()
    {
        detail::step(p, d, -1);
        return *this;
    }
    bidi_it operator--(int)
    {
        bidi_it t = *this;
        detail::step(p, d, -1);
        return t;
    }
    friend bool operator==(bidi_it const& a, bidi_it const& b)
    {
        detail::same(a.d, b.d);
        return a.p == b.p;
    }
    friend bool operator!=(bidi_it const& a, bidi_it const& b)
    {
        detail::same(a.d, b.d);
        return a.p != b.p;
    }
};

// ------------------------------------------------------------------ random access
template <typename T>
struct ra_it {
    using iterator_category = etl::random_access_iterator_tag;
    using value_type        = std::remove_cv_t<T>;
    using difference_type   = std::ptrdiff_t;
    using pointer           = T*;
    using reference         = T&;
    T* p                    = nullptr;
    Desc<T>* d              = nullptr;
    ra_it()                 = default;
    ra_it(T* pp, Desc<T>* dd) : p(pp), d(dd) { }
    reference operator*() const { return *detail::checked(p, d); }
    pointer operator->() const { return detail::checked(p, d); }
    reference operator[](difference_type n) const
    {
        ra_it t = *this;
        t += n;
        return *t;
    }
    ra_it& operator++()
    {
        detail::step(p, d, 1);
        return *this;
    }
    ra_it operator++(int)
    {
        ra_it t = *this;
        detail::step(p, d, 1);
        return t;
    }
    ra_it& operator--()
    {
        detail::step(p, d, -1);
        return *this;
    }
    ra_it operator--(int)
    {
        ra_it t = *this;
        detail::step(p, d, -1);
        return t;
    }
    ra_it& operator+=(difference_type n)
    {
        detail::step(p, d, n);
        return *this;
    }
    ra_it& operator-=(difference_type n)
    {
        detail::step(p, d, -n);
        return *this;
    }
    friend ra_it operator+(ra_it a, difference_type n)
    {
        a += n;
        return a;
    }
    friend ra_it operator+(difference_type n, ra_it a)
    {
        a += n;
        return a;
    }
    friend ra_it operator-(ra_it a, difference_type n)
    {
        a -= n;
        return a;
    }
    friend difference_type operator-(ra_it const& a, ra_it const& b)
    {
        detail::same(a.d, b.d);
        return a.p - b.p;
    }
    friend bool operator==(ra_it const& a, ra_it const& b)
    {
        detail::same(a.d, b.d);
        return a.p == b.p;
    }
    friend bool operator!=(ra_it const& a, ra_it const& b)
    {
        detail::same(a.d, b.d);
        return a.p != b.p;
    }
    friend bool operator<(ra_it const& a, ra_it const& b)
    {
        detail::same(a.d, b.d);
        return a.p < b.p;
    }
    friend bool operator>(ra_it const& a, ra_it const& b)
    {
        detail::same(a.d, b.d);
        return a.p > b.p;
    }
    friend bool operator<=(ra_it const& a, ra_it const& b)
    {
        detail::same(a.d, b.d);
        return a.p <= b.p;
    }
    friend bool operator>=(ra_it const& a, ra_it const& b)
    {
        detail::same(a.d, b.d);
        return a.p >= b.p;
    }
};

// ------------------------------------------------------------------ single-pass input
template <typename T>
struct in_it {
    using iterator_category = etl::input_iterator_tag;
    using value_type        = std::remove_cv_t<T>;
    using difference_type   = std::ptrdiff_t;
    using pointer           = T const*;
    using reference         = T const&;
    T* p                    = nullptr;
    Desc<T>* d              = nullptr;
    in_it()                 = default;
    in_it(T* pp, Desc<T>* dd) : p(pp), d(dd) { }
    bool stale() const { return d && p != d->hi && (p - d->lo) < d->frontier; }
    reference operator*() const
    {
        if (stale()) { violation("input-iter:deref-of-invalidated-copy"); }
        return *detail::checked(p, d);
    }
    pointer operator->() const { return &**this; }
    in_it& operator++()
    {
        if (stale()) { violation("input-iter:inc-of-invalidated-copy"); }
        detail::step(p, d, 1);
        if (d && (p - d->lo) > d->frontier) { d->frontier = p - d->lo; }
        return *this;
    }
    struct post {
        value_type v;
        value_type const& operator*() const { return v; }
    };
    post operator++(int)
    {
        post r{**this};
        ++*this;
        return r;
    }
    friend bool operator==(in_it const& a, in_it const& b)
    {
        detail::same(a.d, b.d);
        if (a.stale() || b.stale()) { violation("input-iter:compare-of-invalidated-copy"); }
        return a.p == b.p;
    }
    friend bool operator!=(in_it const& a, in_it const& b) { return !(a == b); }
};

// ------------------------------------------------------------------ single-pass output
template <typename T>
struct out_it {
    using iterator_category = etl::output_iterator_tag;
    using value_type        = void;
    using difference_type   = std::ptrdiff_t;
    using pointer           = void;
    using reference         = void;
    T* p                    = nullptr;
    Desc<T>* d              = nullptr;
    bool post               = false; // result of it++ : may be assigned through exactly once
    out_it()                = default;
    out_it(T* pp, Desc<T>* dd) : p(pp), d(dd) { }
    struct proxy {
        out_it const* self;
        template <typename U>
        proxy const& operator=(U&& v) const
        {
            self->assign(std::forward<U>(v));
            return *this;
        }
    };
    template <typename U>
    void assign(U&& v) const
    {
        if (!d) {
            violation("output-iter:assign-through-singular");
            return;
        }
        std::ptrdiff_t const idx = p - d->lo;
        std::ptrdiff_t const cur = post ? d->frontier - 1 : d->frontier;
        if (idx != cur) {
            violation("output-iter:assign-through-invalidated-copy");
            return;
        }
        if (p >= d->hi) {
            violation("output-iter:write-past-capacity");
            return;
        }
        if (d->assigned == idx) {
            violation("output-iter:second-assignment-to-same-position");
            return;
        }
        d->assigned = idx;
        d->writes++;
        *p = std::forward<U>(v);
    }
    proxy operator*() const { return proxy{this}; }
    out_it& operator++()
    {
        if (d && (p - d->lo) != d->frontier) { violation("output-iter:inc-of-invalidated-copy"); }
        if (d && p >= d->hi) {
            violation("output-iter:inc-past-capacity");
            return *this;
        }
        if (d) {
            ++p;
            d->frontier = p - d->lo;
        }
        return *this;
    }
    out_it operator++(int)
    {
        out_it t = *this;
        ++*this;
        t.post = true;
        return t;
    }
};

} // namespace vf::it
