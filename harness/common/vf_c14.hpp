// vf_c14.hpp - shared machinery of the C14 monitors (bit and integer utilities).
//
// A *task* is one function family instantiated for one type (pair); its case space is
//   enumerated blocks:  argument sets enumerated without repetition
//       unary  : every value of an 8/16-bit type, the structured set of a 32/64-bit type
//       binary : dense(A) x dense(B)   (dense = every value of an 8-bit type, structured set otherwise)
//                all16(A) x grid(B)    when A is 16 bits wide
//                grid(A)  x all16(B)   when B is 16 bits wide
//                custom second-argument sets (rotation counts, bit positions, exponents)
//   random blocks: kRandBlock seeded draws (mixture of uniform / log-uniform / boundary / related values)
// The inner loops call reference and implementation back to back; the breadcrumb is set once per
// block and refined (subject/op/situation/arguments) only when a mismatch is reported.
#pragma once
#include "vf.hpp"

#include <algorithm>
#include <bit>
#include <cstdint>
#include <cstdlib>
#include <limits>
#include <string>
#include <type_traits>
#include <vector>

namespace c14 {
using i128 = __int128;
using u128 = unsigned __int128;

// ------------------------------------------------------------------ type names / limits
template <class T>
struct TN;
#define C14_TN(T, S)                                                                                                   \
    template <>                                                                                                        \
    struct TN<T> {                                                                                                     \
        static constexpr char const* v = S;                                                                            \
    }
C14_TN(bool, "bool");
C14_TN(char, "char");
C14_TN(signed char, "int8_t");
C14_TN(unsigned char, "uint8_t");
C14_TN(short, "int16_t");
C14_TN(unsigned short, "uint16_t");
C14_TN(int, "int32_t");
C14_TN(unsigned, "uint32_t");
C14_TN(long, "int64_t");
C14_TN(unsigned long, "uint64_t");
C14_TN(long long, "long long");
C14_TN(unsigned long long, "unsigned long long");
#undef C14_TN

template <class T>
inline constexpr int W = int(sizeof(T) * 8);
template <class T>
inline constexpr i128 lo = i128(std::numeric_limits<T>::min());
template <class T>
inline constexpr i128 hi = i128(std::numeric_limits<T>::max());
template <class T>
constexpr bool fits(i128 v)
{
    return v >= lo<T> && v <= hi<T>;
}

inline std::string s128(i128 v)
{
    if (v == 0) { return "0"; }
    bool neg = v < 0;
    u128 u   = neg ? u128(0) - u128(v) : u128(v);
    std::string s;
    while (u != 0) {
        s += char('0' + int(u % 10));
        u /= 10;
    }
    if (neg) { s += '-'; }
    std::reverse(s.begin(), s.end());
    return s;
}
inline std::string show(bool b) { return b ? "true" : "false"; }
template <class T>
    requires(std::is_integral_v<T> && !std::is_same_v<T, bool>)
std::string show(T v)
{
    using U = std::make_unsigned_t<T>;
    char b[40];
    std::snprintf(b, sizeof b, " (0x%0*llx)", int(sizeof(T) * 2), (unsigned long long)U(v));
    return s128(i128(v)) + b;
}
inline std::string show(i128 v) { return s128(v); }

// ------------------------------------------------------------------ value sets (sorted, unique)
template <class T>
std::vector<T> finish(std::vector<T> v)
{
    std::sort(v.begin(), v.end());
    v.erase(std::unique(v.begin(), v.end()), v.end());
    return v;
}

// every single bit, every low mask, +-1 neighbours, their negations/complements, limits, small values,
// byte patterns, powers of ten
template <class T>
std::vector<T> make_structured()
{
    using U   = std::make_unsigned_t<T>;
    using ull = unsigned long long;
    std::vector<T> v;
    auto add = [&](ull x) { v.push_back(T(U(x))); };
    for (int k = 0; k < W<T>; ++k) {
        ull p = 1ull << k;
        add(p);
        add(p - 1);
        add(p + 1);
        add(0 - p);
        add(0 - p - 1);
        add(0 - p + 1);
        add(p | (p >> 1));
        add(p | 1);
        add(~(p | (p >> 1)));
    }
    for (ull s = 0; s <= 17; ++s) {
        add(s);
        add(0 - s);
    }
    ull const pats[] = {0x5555555555555555ull, 0xAAAAAAAAAAAAAAAAull, 0x3333333333333333ull, 0xCCCCCCCCCCCCCCCCull,
        0x0F0F0F0F0F0F0F0Full, 0xF0F0F0F0F0F0F0F0ull, 0x00FF00FF00FF00FFull, 0xFF00FF00FF00FF00ull, 0x0123456789ABCDEFull,
        0xFEDCBA9876543210ull, 0x8000000000000001ull, 0x0102040810204080ull, 0xDEADBEEFCAFEF00Dull, 0x0000FFFF0000FFFFull,
        0xFFFF0000FFFF0000ull, 0x00000000FFFFFFFFull, 0xFFFFFFFF00000000ull};
    for (ull p : pats) {
        add(p);
        add(p >> (64 - W<T>));
    }
    ull t = 1;
    for (int i = 0; i < 20; ++i) {
        add(t);
        add(0 - t);
        add(t - 1);
        add(t + 1);
        t *= 10;
    }
    ull const small[] = {6, 12, 18, 24, 30, 36, 48, 60, 72, 96, 100, 120, 210, 2310, 30030, 255 * 3, 65535 * 3ull, 46341, 46340, 3037000499ull,
        3037000500ull, 4294967295ull * 3, 2147483647ull, 2147483629ull, 65521, 251, 127, 6700417, 641};
    for (ull s : small) {
        add(s);
        add(0 - s);
    }
    return finish(std::move(v));
}

// the small boundary grid used against a full 16-bit sweep of the other argument
template <class T>
std::vector<T> make_grid()
{
    using U   = std::make_unsigned_t<T>;
    using ull = unsigned long long;
    std::vector<T> v;
    auto add = [&](ull x) { v.push_back(T(U(x))); };
    for (ull s = 0; s <= 3; ++s) {
        add(s);
        add(0 - s);
    }
    for (int k : {7, 8, 15, 16, 31, 32, 63}) {
        if (k >= W<T>) { continue; }
        ull p = 1ull << k;
        for (ull d : {p - 1, p, p + 1}) {
            add(d);
            add(0 - d);
        }
    }
    ull top = 1ull << (W<T> - 1); // signed min / unsigned middle
    for (ull d = 0; d <= 2; ++d) {
        add(top + d);
        add(top - 1 - d);
        add(0 - 1 - d); // unsigned max - d  /  -1 - d
    }
    add(0x5555555555555555ull);
    add(0xAAAAAAAAAAAAAAAAull);
    add(10);
    add(100);
    add(0 - 10ull);
    add(6);
    add(12);
    return finish(std::move(v));
}

template <class T>
std::vector<T> make_all()
{
    std::vector<T> v;
    if constexpr (W<T> <= 16) {
        v.reserve(std::size_t(1) << W<T>);
        for (long i = long(lo<T>); i <= long(hi<T>); ++i) { v.push_back(T(i)); }
    }
    return v;
}

template <class T>
std::vector<T> const& structured()
{
    static std::vector<T> const v = make_structured<T>();
    return v;
}
template <class T>
std::vector<T> const& grid()
{
    static std::vector<T> const v = make_grid<T>();
    return v;
}
template <class T>
std::vector<T> const& allvals()
{
    static std::vector<T> const v = make_all<T>();
    return v;
}
template <class T>
std::vector<T> const& dense()
{
    if constexpr (W<T> == 8) {
        return allvals<T>();
    } else {
        return structured<T>();
    }
}
// unary enumerated domain: everything up to 16 bits, structured beyond
template <class T>
std::vector<T> const& unary_set()
{
    if constexpr (W<T> <= 16) {
        return allvals<T>();
    } else {
        return structured<T>();
    }
}
template <class T>
bool in_set(std::vector<T> const& v, T x)
{
    return std::binary_search(v.begin(), v.end(), x);
}

enum VK : unsigned char { VK_ALL, VK_DENSE, VK_GRID, VK_UNARY, VK_CUSTOM };
template <class T>
std::vector<T> const& vals(VK k)
{
    switch (k) {
    case VK_ALL: return allvals<T>();
    case VK_DENSE: return dense<T>();
    case VK_GRID: return grid<T>();
    default: return unary_set<T>();
    }
}

// ------------------------------------------------------------------ random values
template <class T>
T rnd(vf::Rng& r)
{
    using U             = std::make_unsigned_t<T>;
    using ull           = unsigned long long;
    constexpr int w     = W<T>;
    std::uint64_t m     = r.next();
    unsigned const mode = unsigned(m & 15);
    m >>= 4;
    auto delta = [&]() -> ull { return ull(0) + (m >> 8) % 5 - 2; }; // -2..2 (wraps)
    switch (mode) {
    case 0:
    case 1:
    case 2:
    case 3: return T(U(r.next())); // uniform bit pattern
    case 4:
    case 5:
    case 6: { // log-uniform magnitude, random sign
        int len = int((m & 0xff) % unsigned(w + 1));
        ull v   = len == 0 ? 0 : (r.next() >> (64 - len));
        if ((m >> 20) & 1) { v = 0 - v; }
        return T(U(v));
    }
    case 7: { // small
        ull v = (m & 0xff) % 34;
        if ((m >> 20) & 1) { v = 0 - v; }
        return T(U(v));
    }
    case 8: { // near the limits
        ull d = (m & 0xff) % 4;
        switch ((m >> 20) & 3) {
        case 0: return T(U(ull(hi<T>) - d));
        case 1: return T(U(ull(lo<T>) + d));
        case 2: return T(U((1ull << (w - 1)) - 1 - d));
        default: return T(U((1ull << (w - 1)) + d));
        }
    }
    case 9:
    case 10: { // single bit +- delta, maybe negated
        ull v = (1ull << ((m & 0xff) % unsigned(w))) + delta();
        if ((m >> 20) & 1) { v = 0 - v; }
        return T(U(v));
    }
    case 11: { // low mask +- delta, maybe complemented
        ull v = ((1ull << ((m & 0xff) % unsigned(w))) - 1) + delta();
        if ((m >> 20) & 1) { v = ~v; }
        return T(U(v));
    }
    case 12: { // two random bits
        ull v = (1ull << ((m & 0xff) % unsigned(w))) | (1ull << (((m >> 8) & 0xff) % unsigned(w)));
        return T(U(v));
    }
    case 13: { // a run of ones at a random position
        int len = 1 + int((m & 0xff) % unsigned(w));
        int pos = int(((m >> 8) & 0xff) % unsigned(w));
        ull v   = (len >= 64 ? ~0ull : ((1ull << len) - 1)) << pos;
        return T(U(v));
    }
    default: { // a structured value
        auto const& s = structured<T>();
        return s[r.below(s.size())];
    }
    }
}

// related pairs: independent, equal, neighbours, negation, common factor
template <class A, class B>
void rnd_pair(vf::Rng& r, A& x, B& y)
{
    using UA  = std::make_unsigned_t<A>;
    using UB  = std::make_unsigned_t<B>;
    using ull = unsigned long long;
    x         = rnd<A>(r);
    std::uint64_t m = r.next();
    switch (m & 15) {
    case 0: y = B(UB(ull(UA(x)))); break;
    case 1: y = B(i128(x)); break; // value-preserving when representable
    case 2: y = B(UB(ull(i128(x)) + (m >> 8) % 5 - 2)); break;
    case 3: y = B(UB(0 - ull(i128(x)))); break;
    case 4:
    case 5: { // common factor g, small cofactors
        int gl   = int((m >> 8) % unsigned(std::min(W<A>, W<B>)));
        ull g    = gl == 0 ? 1 : (r.next() >> (64 - gl)) | 1;
        ull a    = 1 + (m >> 20) % 30;
        ull b    = 1 + (m >> 30) % 30;
        ull xv = g * a, yv = g * b;
        if ((m >> 40) & 1) { xv = 0 - xv; }
        if ((m >> 41) & 1) { yv = 0 - yv; }
        x = A(UA(xv));
        y = B(UB(yv));
        break;
    }
    case 6: { // y a small divisor-like value
        ull v = 1 + (m >> 8) % 16;
        if ((m >> 40) & 1) { v = 0 - v; }
        y = B(UB(v));
        break;
    }
    default: y = rnd<B>(r); break;
    }
}

// ------------------------------------------------------------------ result kinds
struct QR {
    i128 q, r;
};
inline bool same(i128 a, i128 b) { return a == b; }
inline bool same(bool a, bool b) { return a == b; }
inline bool same(QR a, QR b) { return a.q == b.q && a.r == b.r; }
inline std::string show(QR v) { return "{quot=" + s128(v.q) + ",rem=" + s128(v.r) + "}"; }

inline std::string sym_int(char const* name, i128 o, i128 e)
{
    char b[96];
    i128 d = o - e;
    if (d >= -2 && d <= 2) {
        std::snprintf(b, sizeof b, "%s:%+d", name, int(d));
    } else if (o == -e) {
        std::snprintf(b, sizeof b, "%s:negated", name);
    } else if (o == 0) {
        std::snprintf(b, sizeof b, "%s:zero", name);
    } else {
        std::snprintf(b, sizeof b, "%s:%s", name, d > 0 ? "greater" : "less");
    }
    return b;
}
inline std::string sym(i128 o, i128 e) { return sym_int("ret", o, e); }
inline std::string sym(bool o, bool) { return o ? "ret:true-for-false" : "ret:false-for-true"; }
inline std::string sym(QR o, QR e) { return o.q != e.q ? sym_int("quot", o.q, e.q) : sym_int("rem", o.r, e.r); }

// ------------------------------------------------------------------ tasks
constexpr std::uint32_t kRandBlock = 16384;
constexpr std::uint32_t kMaxBlock  = 1u << 17;

struct BlockDesc {
    VK xk, yk;
    std::uint32_t ylo, yhi; // range of indices into the y set (unary: into the x set)
    unsigned char overlap;  // 0: nothing enumerated elsewhere; 1: all16 x grid; 2: grid x all16
    char const* cls;
};
struct Task;
using RunFn = void (*)(Task const&, int block, vf::Case&);
struct Task {
    std::string label; // evidence label == subject: "popcount<uint16_t>"
    std::string op;    // "popcount(x)"
    std::vector<BlockDesc> blocks;
    RunFn run       = nullptr;
    bool has_random = true;
};
inline std::vector<Task>& tasks()
{
    static std::vector<Task> t;
    return t;
}

struct Ctx {
    Task const& t;
    char const* cls;
    int block;
    std::uint64_t lh;
    std::uint64_t evals = 0, distinct = 0;
    bool trace;
    Ctx(Task const& task, char const* c, int b) : t(task), cls(c), block(b), lh(vf::fnv(task.label.c_str()))
    {
        trace = vf::g().verbose && std::getenv("C14_TRACE") != nullptr;
        crumb();
    }
    void crumb() const { vf::crumb(t.label.c_str(), t.op.c_str(), cls, "block %d", block); }
    void report(char const* sit, std::string const& symptom, std::string const& args, std::string const& obs, std::string const& exp) const
    {
        vf::crumb(t.label.c_str(), t.op.c_str(), sit, "%s", args.c_str());
        vf::diverge(symptom.c_str(), obs, exp);
        crumb();
    }
    void finish_enum()
    {
        // synthetic distinct ids for an enumerated block (inputs are enumerated without repetition)
        vf::cover_bulk(t.label.c_str(), evals, vf::mix(lh, std::uint64_t(block) + 0x1000), distinct);
    }
    void finish_random() { vf::cover_bulk(t.label.c_str(), evals, 0, 0); }
    void distinct_random(std::uint64_t h)
    {
        if (vf::g().sh) { vf::dset_insert(vf::mix(h, lh)); }
    }
};

inline void add_unary_blocks(std::vector<BlockDesc>& out, std::size_t count, char const* cls)
{
    std::uint32_t n = std::uint32_t(count);
    for (std::uint32_t s = 0; s < n; s += kMaxBlock) { out.push_back({VK_UNARY, VK_UNARY, s, std::min(n, s + kMaxBlock), 0, cls}); }
}
inline void add_chunks(std::vector<BlockDesc>& out, VK xk, VK yk, std::size_t nx, std::size_t ny, unsigned char ov, char const* cls)
{
    if (nx == 0 || ny == 0) { return; }
    std::uint32_t per = std::uint32_t(std::max<std::size_t>(1, kMaxBlock / nx));
    for (std::uint32_t s = 0; s < ny; s += per) { out.push_back({xk, yk, s, std::uint32_t(std::min<std::size_t>(ny, s + per)), ov, cls}); }
}
template <class A, class B>
void add_binary_blocks(std::vector<BlockDesc>& out)
{
    add_chunks(out, VK_DENSE, VK_DENSE, dense<A>().size(), dense<B>().size(), 0,
        (W<A> == 8 && W<B> == 8) ? "all-pairs-8bit" : "structured-pairs");
    if constexpr (W<A> == 16) { add_chunks(out, VK_ALL, VK_GRID, allvals<A>().size(), grid<B>().size(), 1, "all16-x-grid"); }
    if constexpr (W<B> == 16) { add_chunks(out, VK_GRID, VK_ALL, grid<A>().size(), allvals<B>().size(), 2, "grid-x-all16"); }
}
template <class A, class B>
bool binary_enumerated(A x, B y)
{
    if (in_set(dense<A>(), x) && in_set(dense<B>(), y)) { return true; }
    if constexpr (W<A> == 16) {
        if (in_set(grid<B>(), y)) { return true; }
    }
    if constexpr (W<B> == 16) {
        if (in_set(grid<A>(), x)) { return true; }
    }
    return false;
}

template <class Op>
concept HasYset = requires { Op::yset(); };
template <class Op>
concept HasRnd = requires(vf::Rng& r, typename Op::A& a, typename Op::B& b) { Op::rnd(r, a, b); };
template <class Op>
concept HasRnd1 = requires(vf::Rng& r, typename Op::A& a) { Op::rnd(r, a); };

template <class Op>
concept HasXset = requires { Op::xset(); };
template <class Op>
std::vector<typename Op::A> const& xvals()
{
    if constexpr (HasXset<Op>) {
        return Op::xset();
    } else {
        return unary_set<typename Op::A>();
    }
}

// ---- out-of-line reporting (keeps the per-instantiation code small)
struct Arg {
    i128 v;
    int width;
};
template <class T>
Arg arg(T x)
{
    return Arg{i128(x), W<T>};
}
inline std::string show(Arg a)
{
    char b[40];
    unsigned long long u = (unsigned long long)(a.v);
    if (a.width < 64) { u &= (1ull << a.width) - 1; }
    std::snprintf(b, sizeof b, " (0x%0*llx)", a.width / 4, u);
    return s128(a.v) + b;
}
template <class R>
__attribute__((noinline, cold)) void report1(Ctx const& c, char const* sit, Arg x, R o, R e)
{
    c.report(sit, sym(o, e), "x=" + show(x), show(o), show(e));
}
template <class R>
__attribute__((noinline, cold)) void report2(Ctx const& c, char const* sit, Arg x, Arg y, R o, R e)
{
    c.report(sit, sym(o, e), "x=" + show(x) + " y=" + show(y), show(o), show(e));
}
__attribute__((noinline, cold)) inline void trace_args(Ctx const& c, Arg x, Arg const* y)
{
    std::fprintf(stderr, "    %s x=%s%s%s\n", c.t.label.c_str(), show(x).c_str(), y ? " y=" : "", y ? show(*y).c_str() : "");
}
template <class R>
__attribute__((noinline, cold)) void sample1(Task const& t, BlockDesc const& b, Arg x, R r)
{
    vf::sample(t.label.c_str(), "%s x=%s -> %s  [%s block of %u values]", t.op.c_str(), show(x).c_str(), show(r).c_str(), b.cls, b.yhi - b.ylo);
}
template <class R>
__attribute__((noinline, cold)) void sample2(Task const& t, BlockDesc const& b, Arg x, Arg y, R r, std::size_t nx)
{
    vf::sample(t.label.c_str(), "%s x=%s y=%s -> %s  [%s block: %zu x %u tuples]", t.op.c_str(), show(x).c_str(), show(y).c_str(), show(r).c_str(),
        b.cls, nx, b.yhi - b.ylo);
}

// ---- unary
template <class Op>
inline void eval1(Ctx& c, typename Op::A x)
{
    using R = typename Op::R;
    if (c.trace) { trace_args(c, arg(x), nullptr); }
    R e = Op::ref(x);
    R o = Op::impl(x);
    if (!same(o, e)) { report1<R>(c, Op::sit(x), arg(x), o, e); }
}
template <class Op>
void run_unary(Task const& t, int block, vf::Case& cs)
{
    using A = typename Op::A;
    if (block >= 0) {
        BlockDesc const& b = t.blocks[std::size_t(block)];
        Ctx c(t, b.cls, block);
        auto const& xs = xvals<Op>();
        bool sampled   = !vf::want_sample(t.label.c_str());
        for (std::uint32_t i = b.ylo; i < b.yhi; ++i) {
            A x = xs[i];
            if (!Op::dom(x)) { continue; }
            eval1<Op>(c, x);
            ++c.evals;
            if (!sampled && (x > A(1) || i + 1 == b.yhi)) {
                sample1<typename Op::R>(t, b, arg(x), Op::ref(x));
                sampled = true;
            }
        }
        c.distinct = c.evals;
        c.finish_enum();
    } else {
        Ctx c(t, "random", block);
        auto const& xs = xvals<Op>();
        for (std::uint32_t i = 0; i < kRandBlock; ++i) {
            A x;
            if constexpr (HasRnd1<Op>) {
                Op::rnd(cs.rng, x);
            } else {
                x = rnd<A>(cs.rng);
            }
            if (!Op::dom(x)) { continue; }
            eval1<Op>(c, x);
            ++c.evals;
            if (!in_set(xs, x)) { c.distinct_random(vf::mix(std::uint64_t(x), 1)); }
        }
        c.finish_random();
    }
}
template <class Op>
void reg_unary(bool random = true)
{
    using A = typename Op::A;
    Task t;
    t.label = Op::subject();
    t.op    = Op::name;
    add_unary_blocks(t.blocks, xvals<Op>().size(), HasXset<Op> ? "custom-set" : W<A> <= 16 ? "all-values" : "structured");
    t.run        = &run_unary<Op>;
    t.has_random = random && W<A> > 16;
    tasks().push_back(std::move(t));
}

// ---- binary
template <class Op>
inline void eval2(Ctx& c, typename Op::A x, typename Op::B y)
{
    using R = typename Op::R;
    if (c.trace) {
        Arg ya = arg(y);
        trace_args(c, arg(x), &ya);
    }
    R e = Op::ref(x, y);
    R o = Op::impl(x, y);
    if (!same(o, e)) { report2<R>(c, Op::sit(x, y), arg(x), arg(y), o, e); }
}
template <class Op>
std::vector<typename Op::B> const& yvals(VK k)
{
    if constexpr (HasYset<Op>) {
        if (k == VK_CUSTOM) { return Op::yset(); }
    }
    return vals<typename Op::B>(k);
}
template <class Op>
void run_binary(Task const& t, int block, vf::Case& cs)
{
    using A = typename Op::A;
    using B = typename Op::B;
    if (block >= 0) {
        BlockDesc const& b = t.blocks[std::size_t(block)];
        Ctx c(t, b.cls, block);
        auto const& xs = vals<A>(b.xk);
        auto const& ys = yvals<Op>(b.yk);
        bool sampled   = !vf::want_sample(t.label.c_str());
        for (std::uint32_t j = b.ylo; j < b.yhi; ++j) {
            B y          = ys[j];
            bool y_dense = false, y_grid = false;
            if (b.overlap) {
                y_dense = in_set(dense<B>(), y);
                y_grid  = in_set(grid<B>(), y);
            }
            for (A x : xs) {
                if (!Op::dom(x, y)) { continue; }
                eval2<Op>(c, x, y);
                ++c.evals;
                if (b.overlap == 0) {
                    ++c.distinct;
                } else {
                    // do not count tuples that another enumerated block already has
                    bool dup = (y_dense && in_set(dense<A>(), x)) || (b.overlap == 2 && W<A> == 16 && y_grid);
                    c.distinct += dup ? 0 : 1;
                }
            }
            if (!sampled && c.evals > 0) {
                A x = xs[xs.size() / 3];
                if (Op::dom(x, y)) {
                    sample2<typename Op::R>(t, b, arg(x), arg(y), Op::ref(x, y), xs.size());
                    sampled = true;
                }
            }
        }
        c.finish_enum();
    } else {
        Ctx c(t, "random", block);
        for (std::uint32_t i = 0; i < kRandBlock; ++i) {
            A x;
            B y;
            if constexpr (HasRnd<Op>) {
                Op::rnd(cs.rng, x, y);
            } else {
                rnd_pair<A, B>(cs.rng, x, y);
            }
            if (!Op::dom(x, y)) { continue; }
            eval2<Op>(c, x, y);
            ++c.evals;
            bool enumerated;
            if constexpr (HasYset<Op>) {
                enumerated = in_set(unary_set<A>(), x) && in_set(Op::yset(), y);
            } else {
                enumerated = binary_enumerated<A, B>(x, y);
            }
            if (!enumerated) { c.distinct_random(vf::mix(std::uint64_t(x), std::uint64_t(y) + 0x9e37)); }
        }
        c.finish_random();
    }
}
template <class Op>
void reg_binary(bool random = true)
{
    using A = typename Op::A;
    using B = typename Op::B;
    Task t;
    t.label = Op::subject();
    t.op    = Op::name;
    if constexpr (HasYset<Op>) {
        add_chunks(t.blocks, VK_UNARY, VK_CUSTOM, unary_set<A>().size(), Op::yset().size(), 0,
            W<A> <= 16 ? "all-values-x-second-arg-set" : "structured-x-second-arg-set");
        t.has_random = random && W<A> > 8;
    } else {
        add_binary_blocks<A, B>(t.blocks);
        t.has_random = random && !(W<A> == 8 && W<B> == 8);
    }
    t.run = &run_binary<Op>;
    tasks().push_back(std::move(t));
}

// ------------------------------------------------------------------ plan / case mapping
struct Plan {
    std::vector<std::uint64_t> prefix; // prefix[i] = first enumerated case of task i; back() = n_enum
    std::vector<std::uint32_t> rnd;
};
void register_all(); // defined by the unit
inline Plan const& plan()
{
    static Plan const p = [] {
        register_all();
        Plan q;
        std::uint64_t n = 0;
        auto& ts        = tasks();
        for (std::size_t i = 0; i < ts.size(); ++i) {
            q.prefix.push_back(n);
            n += ts[i].blocks.size();
            if (ts[i].has_random) { q.rnd.push_back(std::uint32_t(i)); }
        }
        q.prefix.push_back(n);
        return q;
    }();
    return p;
}
inline vf::Spec make_spec(vf::Tier t, std::uint32_t rounds_quick, std::uint32_t rounds_thorough)
{
    Plan const& p = plan();
    vf::Spec s;
    s.n_enum     = p.prefix.back();
    s.n_random   = std::uint64_t(p.rnd.size()) * (t == vf::Tier::thorough ? rounds_thorough : rounds_quick);
    s.batch      = 8;
    s.timeout_s  = 300;
    s.exhaustive = true;
    return s;
}
inline void run_case(vf::Case& c)
{
    Plan const& p = plan();
    auto& ts      = tasks();
    if (c.enumerated) {
        auto it       = std::upper_bound(p.prefix.begin(), p.prefix.end(), c.index);
        std::size_t t = std::size_t(it - p.prefix.begin()) - 1;
        ts[t].run(ts[t], int(c.index - p.prefix[t]), c);
    } else {
        std::size_t t = p.rnd[c.index % p.rnd.size()];
        ts[t].run(ts[t], -1, c);
    }
}
} // namespace c14
