// vf_c14.hpp - shared machinery of the C14 monitors (bit and integer utilities).
//
// A *task* is one function family instantiated for one type (pair); its case space is
//   enumerated blocks:  argument sets enumerated without repetition
//       unary  : every value of an 8/16-bit type, the structured set of a 32/64-bit type
//       binary : dense(A) x dense(B)   (dense = every value of an 8-bit type, structured set otherwise)
//                all16(A) x grid(B)    when A is 16 bits wide
//                grid(A)  x all16(B)   when B is 16 bits wide
//                custom second-argument sets (rotation counts, bit positions, exponents)
//   random blocks: kRandBlock seeded draws (mixture of uniform / log-uniform / boundary / related values)
// The inner loops call reference and implementation back to back; the breadcrumb is set once per
// block and refined (subject/op/situation/arguments) only when a mismatch is reported.
//
// To keep the translation units small the loops are written once over type-erased arguments
// (every argument/result of a <= 64-bit integer type is carried in an __int128); an operation
// contributes only four small wrappers (dom / ref / impl / sit).
#pragma once
#include "vf.hpp"

#include <algorithm>
#include <bit>
#include <cstdint>
#include <cstdlib>
#include <limits>
#include <string>
#include <type_traits>
#include <vector>

namespace c14 {
using i128 = __int128;
using u128 = unsigned __int128;
using ull  = unsigned long long;

// ------------------------------------------------------------------ type names / limits
template <class T>
struct TN;
#define C14_TN(T, S)                                                                                                   \
    template <>                                                                                                        \
    struct TN<T> {                                                                                                     \
        static constexpr char const* v = S;                                                                            \
    }
C14_TN(bool, "bool");
C14_TN(char, "char");
C14_TN(signed char, "int8_t");
C14_TN(unsigned char, "uint8_t");
C14_TN(short, "int16_t");
C14_TN(unsigned short, "uint16_t");
C14_TN(int, "int32_t");
C14_TN(unsigned, "uint32_t");
C14_TN(long, "int64_t");
C14_TN(unsigned long, "uint64_t");
C14_TN(long long, "long long");
C14_TN(unsigned long long, "unsigned long long");
C14_TN(wchar_t, "wchar_t");
C14_TN(char8_t, "char8_t");
C14_TN(char16_t, "char16_t");
C14_TN(char32_t, "char32_t");
#undef C14_TN

template <class T>
inline constexpr int W = int(sizeof(T) * 8);
template <class T>
inline constexpr i128 lo = i128(std::numeric_limits<T>::min());
template <class T>
inline constexpr i128 hi = i128(std::numeric_limits<T>::max());
template <class T>
constexpr bool fits(i128 v)
{
    return v >= lo<T> && v <= hi<T>;
}

inline std::string s128(i128 v)
{
    if (v == 0) { return "0"; }
    bool neg = v < 0;
    u128 u   = neg ? u128(0) - u128(v) : u128(v);
    std::string s;
    while (u != 0) {
        s += char('0' + int(u % 10));
        u /= 10;
    }
    if (neg) { s += '-'; }
    std::reverse(s.begin(), s.end());
    return s;
}

// the value of the w-bit pattern `bits` read as a signed / unsigned integer
inline i128 from_bits(ull bits, int w, bool sgn)
{
    if (w < 64) { bits &= (1ull << w) - 1; }
    if (sgn && ((bits >> (w - 1)) & 1)) { return i128(bits) - (i128(1) << w); }
    return i128(bits);
}
inline std::string show_arg(i128 v, int w)
{
    char b[40];
    ull u = ull(v);
    if (w < 64) { u &= (1ull << w) - 1; }
    std::snprintf(b, sizeof b, " (0x%0*llx)", w / 4, u);
    return s128(v) + b;
}

// ------------------------------------------------------------------ value sets (sorted, unique, as i128)
using Set = std::vector<i128>;
inline Set finish(Set v)
{
    std::sort(v.begin(), v.end());
    v.erase(std::unique(v.begin(), v.end()), v.end());
    return v;
}
template <class T>
std::vector<T> finish_t(std::vector<T> v)
{
    std::sort(v.begin(), v.end());
    v.erase(std::unique(v.begin(), v.end()), v.end());
    return v;
}
inline bool in_set(Set const& v, i128 x) { return std::binary_search(v.begin(), v.end(), x); }

// every single bit, every low mask, +-1 neighbours, their negations/complements, limits, small values,
// byte patterns, powers of ten, a few composites/primes
inline Set make_structured(int w, bool sgn)
{
    Set v;
    auto add = [&](ull x) { v.push_back(from_bits(x, w, sgn)); };
    for (int k = 0; k < w; ++k) {
        ull p = 1ull << k;
        add(p);
        add(p - 1);
        add(p + 1);
        add(0 - p);
        add(0 - p - 1);
        add(0 - p + 1);
        add(p | (p >> 1));
        add(p | 1);
        add(~(p | (p >> 1)));
    }
    for (ull s = 0; s <= 17; ++s) {
        add(s);
        add(0 - s);
    }
    ull const pats[] = {0x5555555555555555ull, 0xAAAAAAAAAAAAAAAAull, 0x3333333333333333ull, 0xCCCCCCCCCCCCCCCCull,
        0x0F0F0F0F0F0F0F0Full, 0xF0F0F0F0F0F0F0F0ull, 0x00FF00FF00FF00FFull, 0xFF00FF00FF00FF00ull, 0x0123456789ABCDEFull,
        0xFEDCBA9876543210ull, 0x8000000000000001ull, 0x0102040810204080ull, 0xDEADBEEFCAFEF00Dull, 0x0000FFFF0000FFFFull,
        0xFFFF0000FFFF0000ull, 0x00000000FFFFFFFFull, 0xFFFFFFFF00000000ull};
    for (ull p : pats) {
        add(p);
        add(p >> (64 - w));
    }
    ull t = 1;
    for (int i = 0; i < 20; ++i) {
        add(t);
        add(0 - t);
        add(t - 1);
        add(t + 1);
        t *= 10;
    }
    ull const small[] = {6, 12, 18, 24, 30, 36, 48, 60, 72, 96, 100, 120, 210, 2310, 30030, 255 * 3, 65535 * 3ull, 46341, 46340, 3037000499ull,
        3037000500ull, 4294967295ull * 3, 2147483647ull, 2147483629ull, 65521, 251, 127, 6700417, 641};
    for (ull s : small) {
        add(s);
        add(0 - s);
    }
    return finish(std::move(v));
}
// the small boundary grid used against a full 16-bit sweep of the other argument
inline Set make_grid(int w, bool sgn)
{
    Set v;
    auto add = [&](ull x) { v.push_back(from_bits(x, w, sgn)); };
    for (ull s = 0; s <= 3; ++s) {
        add(s);
        add(0 - s);
    }
    for (int k : {7, 8, 15, 16, 31, 32, 63}) {
        if (k >= w) { continue; }
        ull p = 1ull << k;
        for (ull d : {p - 1, p, p + 1}) {
            add(d);
            add(0 - d);
        }
    }
    ull top = 1ull << (w - 1); // signed min / unsigned middle
    for (ull d = 0; d <= 2; ++d) {
        add(top + d);
        add(top - 1 - d);
        add(0 - 1 - d); // unsigned max - d  /  -1 - d
    }
    add(0x5555555555555555ull);
    add(0xAAAAAAAAAAAAAAAAull);
    add(10);
    add(100);
    add(0 - 10ull);
    add(6);
    add(12);
    return finish(std::move(v));
}
inline Set make_all(int w, bool sgn)
{
    Set v;
    if (w <= 16) {
        for (ull i = 0; i < (1ull << w); ++i) { v.push_back(from_bits(i, w, sgn)); }
    }
    return finish(std::move(v));
}
struct Sets {
    Set structured, grid, all;
    Set const& dense(int w) const { return w == 8 ? all : structured; }
    Set const& unary(int w) const { return w <= 16 ? all : structured; }
};
inline Sets const& sets_of(int w, bool sgn)
{
    static Sets const* cache[2][65] = {};
    Sets const*& p = cache[sgn ? 1 : 0][w];
    if (!p) { p = new Sets{make_structured(w, sgn), make_grid(w, sgn), make_all(w, sgn)}; }
    return *p;
}
template <class T>
Sets const& sets()
{
    return sets_of(W<T>, std::is_signed_v<T>);
}
template <class T>
Set to_set(std::vector<T> const& v)
{
    Set s;
    for (T x : v) { s.push_back(i128(x)); }
    return finish(std::move(s));
}

// ------------------------------------------------------------------ random values
inline i128 rnd_bits(vf::Rng& r, int w, bool sgn)
{
    std::uint64_t m     = r.next();
    unsigned const mode = unsigned(m & 15);
    m >>= 4;
    auto delta = [&]() -> ull { return ull(0) + (m >> 8) % 5 - 2; }; // -2..2 (wraps)
    ull v      = 0;
    switch (mode) {
    case 0:
    case 1:
    case 2:
    case 3: v = r.next(); break; // uniform bit pattern
    case 4:
    case 5:
    case 6: { // log-uniform magnitude, random sign
        int len = int((m & 0xff) % unsigned(w + 1));
        v       = len == 0 ? 0 : (r.next() >> (64 - len));
        if ((m >> 20) & 1) { v = 0 - v; }
        break;
    }
    case 7: // small
        v = (m & 0xff) % 34;
        if ((m >> 20) & 1) { v = 0 - v; }
        break;
    case 8: { // near the limits of the signed and the unsigned reading
        ull d = (m & 0xff) % 4;
        switch ((m >> 20) & 3) {
        case 0: v = 0 - 1 - d; break;
        case 1: v = d; break;
        case 2: v = (1ull << (w - 1)) - 1 - d; break;
        default: v = (1ull << (w - 1)) + d; break;
        }
        break;
    }
    case 9:
    case 10: // single bit +- delta, maybe negated
        v = (1ull << ((m & 0xff) % unsigned(w))) + delta();
        if ((m >> 20) & 1) { v = 0 - v; }
        break;
    case 11: // low mask +- delta, maybe complemented
        v = ((1ull << ((m & 0xff) % unsigned(w))) - 1) + delta();
        if ((m >> 20) & 1) { v = ~v; }
        break;
    case 12: // two random bits
        v = (1ull << ((m & 0xff) % unsigned(w))) | (1ull << (((m >> 8) & 0xff) % unsigned(w)));
        break;
    case 13: { // a run of ones at a random position
        int len = 1 + int((m & 0xff) % unsigned(w));
        int pos = int(((m >> 8) & 0xff) % unsigned(w));
        v       = (len >= 64 ? ~0ull : ((1ull << len) - 1)) << pos;
        break;
    }
    default: { // a structured value
        Set const& s = sets_of(w, sgn).structured;
        return s[r.below(s.size())];
    }
    }
    return from_bits(v, w, sgn);
}
template <class T>
T rnd(vf::Rng& r)
{
    return T(rnd_bits(r, W<T>, std::is_signed_v<T>));
}
// related pairs: independent, equal, neighbours, negation, common factor
inline void rnd_pair_bits(vf::Rng& r, int wa, bool sa, int wb, bool sb, i128& x, i128& y)
{
    x               = rnd_bits(r, wa, sa);
    std::uint64_t m = r.next();
    switch (m & 15) {
    case 0: // same bit pattern
    case 1: y = from_bits(ull(x), wb, sb); break;
    case 2: y = from_bits(ull(x) + (m >> 8) % 5 - 2, wb, sb); break;
    case 3: y = from_bits(0 - ull(x), wb, sb); break;
    case 4:
    case 5: { // common factor g, small cofactors
        int gl = int((m >> 8) % unsigned(std::min(wa, wb)));
        ull g  = gl == 0 ? 1 : (r.next() >> (64 - gl)) | 1;
        ull a  = 1 + (m >> 20) % 30;
        ull b  = 1 + (m >> 30) % 30;
        ull xv = g * a, yv = g * b;
        if ((m >> 40) & 1) { xv = 0 - xv; }
        if ((m >> 41) & 1) { yv = 0 - yv; }
        x = from_bits(xv, wa, sa);
        y = from_bits(yv, wb, sb);
        break;
    }
    case 6: { // y a small divisor-like value
        ull v = 1 + (m >> 8) % 16;
        if ((m >> 40) & 1) { v = 0 - v; }
        y = from_bits(v, wb, sb);
        break;
    }
    default: y = rnd_bits(r, wb, sb); break;
    }
}

// ------------------------------------------------------------------ result kinds
struct QR {
    i128 q, r;
};
struct Res {
    i128 a, b;
};
enum RK : unsigned char { RK_INT, RK_BOOL, RK_QR };
inline Res pack(i128 v) { return Res{v, 0}; }
inline Res pack(bool v) { return Res{v ? 1 : 0, 0}; }
inline Res pack(QR v) { return Res{v.q, v.r}; }
template <class R>
constexpr RK rk_of()
{
    if constexpr (std::is_same_v<R, bool>) {
        return RK_BOOL;
    } else if constexpr (std::is_same_v<R, QR>) {
        return RK_QR;
    } else {
        static_assert(std::is_same_v<R, i128>);
        return RK_INT;
    }
}
inline std::string show_res(RK k, Res v)
{
    switch (k) {
    case RK_BOOL: return v.a ? "true" : "false";
    case RK_QR: return "{quot=" + s128(v.a) + ",rem=" + s128(v.b) + "}";
    default: return s128(v.a);
    }
}
inline std::string sym_int(char const* name, i128 o, i128 e)
{
    char b[96];
    i128 d = o - e;
    if (d >= -2 && d <= 2) {
        std::snprintf(b, sizeof b, "%s:%+d", name, int(d));
    } else if (o == -e) {
        std::snprintf(b, sizeof b, "%s:negated", name);
    } else if (o == 0) {
        std::snprintf(b, sizeof b, "%s:zero", name);
    } else {
        std::snprintf(b, sizeof b, "%s:%s", name, d > 0 ? "greater" : "less");
    }
    return b;
}
inline std::string sym_res(RK k, Res o, Res e)
{
    switch (k) {
    case RK_BOOL: return o.a ? "ret:true-for-false" : "ret:false-for-true";
    case RK_QR: return o.a != e.a ? sym_int("quot", o.a, e.a) : sym_int("rem", o.b, e.b);
    default: return sym_int("ret", o.a, e.a);
    }
}

// ------------------------------------------------------------------ tasks
constexpr std::uint32_t kRandBlock = 16384;
constexpr std::uint32_t kMaxBlock  = 1u << 17;
inline std::uint32_t& max_block()
{
    static std::uint32_t v = kMaxBlock; // evaluations per enumerated block (bulk units raise it)
    return v;
}

enum VK : unsigned char { VK_ALL, VK_DENSE, VK_GRID, VK_UNARY, VK_CUSTOM };
struct BlockDesc {
    VK xk, yk;
    std::uint32_t ylo, yhi; // range of indices into the y set (unary: into the x set)
    unsigned char overlap;  // 0: nothing enumerated elsewhere; 1: all16 x grid; 2: grid x all16; 3: all16 x all16 (bulk units)
    char const* cls;
};
struct Task {
    std::string label; // evidence label == subject: "popcount<uint16_t>"
    std::string op;    // "popcount(x)"
    std::vector<BlockDesc> blocks;
    bool has_random = true;
    bool unary      = false;
    RK rk           = RK_INT;
    int wx = 0, wy = 0;
    bool (*dom)(i128, i128)         = nullptr;
    Res (*ref)(i128, i128)          = nullptr;
    Res (*impl)(i128, i128)         = nullptr;
    char const* (*sit)(i128, i128)  = nullptr;
    void (*rnd)(vf::Rng&, i128&, i128&) = nullptr;
    Sets const* sx = nullptr;
    Sets const* sy = nullptr;
    Set const* custom_x = nullptr; // unary: replaces the unary set
    Set const* custom_y = nullptr; // binary: replaces the standard block structure

    Set const& xset(VK k) const
    {
        switch (k) {
        case VK_ALL: return sx->all;
        case VK_DENSE: return sx->dense(wx);
        case VK_GRID: return sx->grid;
        default: return custom_x ? *custom_x : sx->unary(wx);
        }
    }
    Set const& yset(VK k) const
    {
        switch (k) {
        case VK_ALL: return sy->all;
        case VK_DENSE: return sy->dense(wy);
        case VK_GRID: return sy->grid;
        case VK_CUSTOM: return *custom_y;
        default: return sy->unary(wy);
        }
    }
    bool enumerated(i128 x, i128 y) const
    {
        if (unary) { return in_set(xset(VK_UNARY), x); }
        if (custom_y) { return in_set(xset(VK_UNARY), x) && in_set(*custom_y, y); }
        if (in_set(sx->dense(wx), x) && in_set(sy->dense(wy), y)) { return true; }
        if (wx == 16 && in_set(sy->grid, y)) { return true; }
        if (wy == 16 && in_set(sx->grid, x)) { return true; }
        return false;
    }
};
inline std::vector<Task>& tasks()
{
    static std::vector<Task> t;
    return t;
}

struct Ctx {
    Task const& t;
    char const* cls;
    int block;
    std::uint64_t lh;
    std::uint64_t evals = 0, distinct = 0;
    bool trace;
    Ctx(Task const& task, char const* c, int b) : t(task), cls(c), block(b), lh(vf::fnv(task.label.c_str()))
    {
        trace = vf::g().verbose && std::getenv("C14_TRACE") != nullptr;
        crumb();
    }
    void crumb() const { vf::crumb(t.label.c_str(), t.op.c_str(), cls, "block %d", block); }
    std::string args(i128 x, i128 y) const
    {
        std::string a = "x=" + show_arg(x, t.wx);
        if (!t.unary) { a += " y=" + show_arg(y, t.wy); }
        return a;
    }
    __attribute__((noinline, cold)) void report(i128 x, i128 y, Res o, Res e) const
    {
        vf::crumb(t.label.c_str(), t.op.c_str(), t.sit(x, y), "%s", args(x, y).c_str());
        vf::diverge(sym_res(t.rk, o, e).c_str(), show_res(t.rk, o), show_res(t.rk, e));
        crumb();
    }
    __attribute__((noinline, cold)) void tracecall(i128 x, i128 y) const
    {
        std::fprintf(stderr, "    %s %s\n", t.label.c_str(), args(x, y).c_str());
    }
    __attribute__((noinline, cold)) void sample(BlockDesc const& b, i128 x, i128 y, std::size_t nx) const
    {
        if (t.unary) {
            vf::sample(t.label.c_str(), "%s %s -> %s  [%s block of %u values]", t.op.c_str(), args(x, y).c_str(), show_res(t.rk, t.ref(x, y)).c_str(),
                b.cls, b.yhi - b.ylo);
        } else {
            vf::sample(t.label.c_str(), "%s %s -> %s  [%s block: %zu x %u argument tuples]", t.op.c_str(), args(x, y).c_str(),
                show_res(t.rk, t.ref(x, y)).c_str(), b.cls, nx, b.yhi - b.ylo);
        }
    }
    inline void eval(i128 x, i128 y)
    {
        if (trace) { tracecall(x, y); }
        Res e = t.ref(x, y);
        Res o = t.impl(x, y);
        if (o.a != e.a || o.b != e.b) { report(x, y, o, e); }
        ++evals;
    }
    void finish_enum()
    {
        // synthetic distinct ids for an enumerated block (inputs are enumerated without repetition)
        vf::cover_bulk(t.label.c_str(), evals, vf::mix(lh, std::uint64_t(block) + 0x1000), distinct);
    }
    void finish_random() { vf::cover_bulk(t.label.c_str(), evals, 0, 0); }
    void distinct_random(i128 x, i128 y)
    {
        if (vf::g().sh) { vf::dset_insert(vf::mix(vf::mix(std::uint64_t(x), std::uint64_t(y) + 0x9e37), lh)); }
    }
};

inline void run_task(Task const& t, int block, vf::Case& cs)
{
    if (block < 0) {
        Ctx c(t, "random", block);
        for (std::uint32_t i = 0; i < kRandBlock; ++i) {
            i128 x = 0, y = 0;
            t.rnd(cs.rng, x, y);
            if (!t.dom(x, y)) { continue; }
            c.eval(x, y);
            if (!t.enumerated(x, y)) { c.distinct_random(x, y); }
        }
        c.finish_random();
        return;
    }
    BlockDesc const& b = t.blocks[std::size_t(block)];
    Ctx c(t, b.cls, block);
    bool sampled = !vf::want_sample(t.label.c_str());
    if (t.unary) {
        Set const& xs = t.xset(VK_UNARY);
        for (std::uint32_t i = b.ylo; i < b.yhi; ++i) {
            i128 x = xs[i];
            if (!t.dom(x, 0)) { continue; }
            c.eval(x, 0);
            if (!sampled && (x > 1 || i + 1 == b.yhi)) {
                c.sample(b, x, 0, 1);
                sampled = true;
            }
        }
        c.distinct = c.evals;
        c.finish_enum();
        return;
    }
    Set const& xs = t.xset(b.xk);
    Set const& ys = t.yset(b.yk);
    // tuples that another enumerated block (of this or of the standard units) already owns are not counted as distinct
    std::vector<unsigned char> xflag; // bit0: x in grid(A), bit1: x in dense(A)
    if (b.overlap) {
        xflag.resize(xs.size());
        for (std::size_t i = 0; i < xs.size(); ++i) {
            xflag[i] = (unsigned char)((in_set(t.sx->grid, xs[i]) ? 1 : 0) | (in_set(t.sx->dense(t.wx), xs[i]) ? 2 : 0));
        }
    }
    for (std::uint32_t j = b.ylo; j < b.yhi; ++j) {
        i128 y       = ys[j];
        bool y_dense = false, y_grid = false;
        if (b.overlap) {
            y_dense = in_set(t.sy->dense(t.wy), y);
            y_grid  = in_set(t.sy->grid, y);
        }
        std::size_t i = 0;
        for (i128 x : xs) {
            std::size_t k = i++;
            if (!t.dom(x, y)) { continue; }
            c.eval(x, y);
            if (b.overlap == 0) {
                ++c.distinct;
            } else {
                bool dup = (y_dense && (xflag[k] & 2));
                if (b.overlap == 2) { dup = dup || (t.wx == 16 && y_grid); }
                if (b.overlap == 3) { dup = dup || (t.wx == 16 && y_grid) || (t.wy == 16 && (xflag[k] & 1)); }
                c.distinct += dup ? 0 : 1;
            }
        }
        if (!sampled && c.evals > 0) {
            i128 x = xs[xs.size() / 3];
            if (t.dom(x, y)) {
                c.sample(b, x, y, xs.size());
                sampled = true;
            }
        }
    }
    c.finish_enum();
}

inline void add_unary_blocks(std::vector<BlockDesc>& out, std::size_t count, char const* cls)
{
    std::uint32_t n = std::uint32_t(count);
    for (std::uint32_t s = 0; s < n; s += kMaxBlock) { out.push_back({VK_UNARY, VK_UNARY, s, std::min(n, s + kMaxBlock), 0, cls}); }
}
inline void add_chunks(std::vector<BlockDesc>& out, VK xk, VK yk, std::size_t nx, std::size_t ny, unsigned char ov, char const* cls)
{
    if (nx == 0 || ny == 0) { return; }
    std::uint32_t per = std::uint32_t(std::max<std::size_t>(1, max_block() / nx));
    for (std::uint32_t s = 0; s < ny; s += per) { out.push_back({xk, yk, s, std::uint32_t(std::min<std::size_t>(ny, s + per)), ov, cls}); }
}

template <class Op>
concept HasYset = requires { Op::yset(); };
template <class Op>
concept HasXset = requires { Op::xset(); };
template <class Op>
concept HasRnd = requires(vf::Rng& r, typename Op::A& a, typename Op::B& b) { Op::rnd(r, a, b); };
template <class Op>
concept HasRnd1 = requires(vf::Rng& r, typename Op::A& a) { Op::rnd(r, a); };

// ---- per-operation wrappers (the only code instantiated per operation)
template <class Op>
struct U1 {
    using A = typename Op::A;
    static bool dom(i128 x, i128) { return Op::dom(A(x)); }
    static Res ref(i128 x, i128) { return pack(typename Op::R(Op::ref(A(x)))); }
    static Res impl(i128 x, i128) { return pack(typename Op::R(Op::impl(A(x)))); }
    static char const* sit(i128 x, i128) { return Op::sit(A(x)); }
    static void rnd(vf::Rng& r, i128& x, i128& y)
    {
        y = 0;
        if constexpr (HasRnd1<Op>) {
            A a{};
            Op::rnd(r, a);
            x = i128(a);
        } else {
            x = rnd_bits(r, W<A>, std::is_signed_v<A>);
        }
    }
};
template <class Op>
struct U2 {
    using A = typename Op::A;
    using B = typename Op::B;
    static bool dom(i128 x, i128 y) { return Op::dom(A(x), B(y)); }
    static Res ref(i128 x, i128 y) { return pack(typename Op::R(Op::ref(A(x), B(y)))); }
    static Res impl(i128 x, i128 y) { return pack(typename Op::R(Op::impl(A(x), B(y)))); }
    static char const* sit(i128 x, i128 y) { return Op::sit(A(x), B(y)); }
    static void rnd(vf::Rng& r, i128& x, i128& y)
    {
        if constexpr (HasRnd<Op>) {
            A a{};
            B b{};
            Op::rnd(r, a, b);
            x = i128(a);
            y = i128(b);
        } else {
            rnd_pair_bits(r, W<A>, std::is_signed_v<A>, W<B>, std::is_signed_v<B>, x, y);
        }
    }
};

template <class Op>
void reg_unary(bool random = true)
{
    using A = typename Op::A;
    Task t;
    t.label = Op::subject();
    t.op    = Op::name;
    t.unary = true;
    t.rk    = rk_of<typename Op::R>();
    t.wx    = W<A>;
    t.sx    = &sets<A>();
    t.sy    = t.sx;
    t.dom   = &U1<Op>::dom;
    t.ref   = &U1<Op>::ref;
    t.impl  = &U1<Op>::impl;
    t.sit   = &U1<Op>::sit;
    t.rnd   = &U1<Op>::rnd;
    if constexpr (HasXset<Op>) {
        static Set const xs = to_set(Op::xset());
        t.custom_x          = &xs;
    }
    add_unary_blocks(t.blocks, t.xset(VK_UNARY).size(), HasXset<Op> ? "custom-set" : W<A> <= 16 ? "all-values" : "structured");
    t.has_random = random && W<A> > 16;
    tasks().push_back(std::move(t));
}
template <class Op>
void reg_binary(bool random = true, unsigned char custom_overlap = 0, char const* custom_cls = nullptr)
{
    using A = typename Op::A;
    using B = typename Op::B;
    Task t;
    t.label = Op::subject();
    t.op    = Op::name;
    t.rk    = rk_of<typename Op::R>();
    t.wx    = W<A>;
    t.wy    = W<B>;
    t.sx    = &sets<A>();
    t.sy    = &sets<B>();
    t.dom   = &U2<Op>::dom;
    t.ref   = &U2<Op>::ref;
    t.impl  = &U2<Op>::impl;
    t.sit   = &U2<Op>::sit;
    t.rnd   = &U2<Op>::rnd;
    if constexpr (HasYset<Op>) {
        static Set const ys = to_set(Op::yset());
        t.custom_y          = &ys;
        add_chunks(t.blocks, VK_UNARY, VK_CUSTOM, t.xset(VK_UNARY).size(), ys.size(), custom_overlap,
            custom_cls ? custom_cls : W<A> <= 16 ? "all-values-x-second-arg-set" : "structured-x-second-arg-set");
        t.has_random = random && W<A> > 8;
    } else {
        add_chunks(t.blocks, VK_DENSE, VK_DENSE, t.sx->dense(t.wx).size(), t.sy->dense(t.wy).size(), 0,
            (W<A> == 8 && W<B> == 8) ? "all-pairs-8bit" : "structured-pairs");
        if constexpr (W<A> == 16) { add_chunks(t.blocks, VK_ALL, VK_GRID, t.sx->all.size(), t.sy->grid.size(), 1, "all16-x-grid"); }
        if constexpr (W<B> == 16) { add_chunks(t.blocks, VK_GRID, VK_ALL, t.sx->grid.size(), t.sy->all.size(), 2, "grid-x-all16"); }
        t.has_random = random && !(W<A> == 8 && W<B> == 8);
    }
    tasks().push_back(std::move(t));
}

// bulk wrapper: the second argument sweeps every Stride-th value of a (16-bit) type, the first every value
template <class Op, int Stride = 1>
struct AllY : Op {
    static std::vector<typename Op::B> const& yset()
    {
        using B = typename Op::B;
        static std::vector<B> const v = [] {
            std::vector<B> r;
            for (long i = long(lo<B>); i <= long(hi<B>); ++i) {
                if ((i - long(lo<B>)) % Stride == Stride / 2) { r.push_back(B(i)); }
            }
            return r;
        }();
        return v;
    }
};

// ------------------------------------------------------------------ plan / case mapping
struct Plan {
    std::vector<std::uint64_t> prefix; // prefix[i] = first enumerated case of task i; back() = n_enum
    std::vector<std::uint32_t> rnd;
};
void register_all(); // defined by the unit
inline Plan const& plan()
{
    static Plan const p = [] {
        register_all();
        Plan q;
        std::uint64_t n = 0;
        auto& ts        = tasks();
        for (std::size_t i = 0; i < ts.size(); ++i) {
            q.prefix.push_back(n);
            n += ts[i].blocks.size();
            if (ts[i].has_random) { q.rnd.push_back(std::uint32_t(i)); }
        }
        q.prefix.push_back(n);
        return q;
    }();
    return p;
}
// the tier is known before the plan is built (units may register more work in the thorough tier)
inline vf::Tier& tier_hint()
{
    static vf::Tier t = vf::Tier::quick;
    return t;
}
inline vf::Spec make_spec(vf::Tier t, std::uint32_t rounds_quick, std::uint32_t rounds_thorough, std::uint32_t batch = 8)
{
    tier_hint()   = t;
    Plan const& p = plan();
    vf::Spec s;
    s.n_enum     = p.prefix.back();
    s.n_random   = std::uint64_t(p.rnd.size()) * (t == vf::Tier::thorough ? rounds_thorough : rounds_quick);
    s.batch      = batch;
    s.timeout_s  = 60;
    s.exhaustive = true;
    return s;
}
inline void run_case(vf::Case& c)
{
    Plan const& p = plan();
    auto& ts      = tasks();
    if (c.enumerated) {
        auto it       = std::upper_bound(p.prefix.begin(), p.prefix.end(), c.index);
        std::size_t t = std::size_t(it - p.prefix.begin()) - 1;
        run_task(ts[t], int(c.index - p.prefix[t]), c);
    } else {
        std::size_t t = p.rnd[c.index % p.rnd.size()];
        run_task(ts[t], -1, c);
    }
}
} // namespace c14
