// vf_c19.hpp - shared pieces of the C19 monitors (DESIGN 4, C19):
//   * the extents pattern list (type list generated from (rank, static/dynamic mask, static assignment)),
//   * the closed-form reference model of a layout mapping (offset = sum i_k * stride_k),
//   * enumeration helpers (shapes in {0..4}^rank, all multi-indices of a shape),
//   * BufVec<T>: a caller-side container (exact-size guarded heap block) for mdarray.
// Public tetl names only.
#pragma once
#include "vf.hpp"

#include <etl/array.hpp>
#include <etl/mdspan.hpp>
#include <etl/span.hpp>

#include <array>
#include <limits>
#include <string>
#include <type_traits>
#include <utility>
#include <vector>

#ifndef VF_IDX
    #define VF_IDX int
    #define VF_IDX_NAME "int32"
#endif
#ifndef VF_PLO
    #define VF_PLO 0
#endif
#ifndef VF_PHI
    #define VF_PHI 83
#endif
#ifndef VF_PSTEP
    #define VF_PSTEP 1
#endif
// compile-cost knobs: how many pattern->pattern conversion targets per source pattern (extents / mapping / mdspan level)
// and whether the etl::static_vector-backed mdarray variants are instantiated (props choose smaller values for the slices)
#ifndef VF_CONV_EXT
    #define VF_CONV_EXT 1000
#endif
#ifndef VF_CONV_MAP
    #define VF_CONV_MAP 4
#endif
#ifndef VF_CONV_MD
    #define VF_CONV_MD 3
#endif
#ifndef VF_SVEC
    #define VF_SVEC 1
#endif

namespace c19 {

using Idx                  = VF_IDX;
constexpr char const* IDXN = VF_IDX_NAME;
constexpr std::size_t dyn  = etl::dynamic_extent;
constexpr std::size_t MAXR = 4;
using LL                   = long long;
using Arr                  = std::array<LL, MAXR>;

// ------------------------------------------------------------------ pattern list
// static positions take their value from one of three fixed assignments (zero appears at positions 0, 1 and 3)
constexpr int SV[3][4] = {{2, 3, 4, 1}, {0, 4, 1, 3}, {3, 0, 2, 0}};

constexpr std::size_t np(std::size_t R) { return 1 + ((std::size_t(1) << R) - 1) * 3; } // patterns of rank R
constexpr std::size_t pbase(std::size_t R)
{
    std::size_t b = 0;
    for (std::size_t r = 0; r < R; ++r) { b += np(r); }
    return b;
}
constexpr std::size_t NG = pbase(MAXR + 1); // 83 patterns, ranks 0..4
constexpr std::size_t rank_of(std::size_t g)
{
    std::size_t r = 0;
    while (g >= pbase(r + 1)) { ++r; }
    return r;
}
constexpr unsigned mask_of(std::size_t g)
{
    std::size_t pid = g - pbase(rank_of(g));
    return pid == 0 ? 0U : unsigned((pid - 1) / 3 + 1);
}
constexpr unsigned assign_of(std::size_t g)
{
    std::size_t pid = g - pbase(rank_of(g));
    return pid == 0 ? 0U : unsigned((pid - 1) % 3);
}

template <typename I, unsigned Mask, unsigned A, typename Seq>
struct mk;
template <typename I, unsigned Mask, unsigned A, std::size_t... K>
struct mk<I, Mask, A, std::index_sequence<K...>> {
    using type = etl::extents<I, (((Mask >> K) & 1U) ? std::size_t(SV[A][K]) : dyn)...>;
};
template <typename I, std::size_t G>
using gpat_t = typename mk<I, mask_of(G), assign_of(G), std::make_index_sequence<rank_of(G)>>::type;

// ---- conversion targets: other patterns of the same rank whose static extents are compatible with a source pattern
// (at every position: one side dynamic, or equal static values), e.g. <3,d> -> <d,2>, <d,4,d> -> <d,d,3>.
constexpr std::size_t st_of(std::size_t g, std::size_t k) { return ((mask_of(g) >> k) & 1U) ? std::size_t(SV[assign_of(g)][k]) : dyn; }
constexpr unsigned popcount4(unsigned m) { return (m & 1U) + ((m >> 1) & 1U) + ((m >> 2) & 1U) + ((m >> 3) & 1U); }
constexpr bool conv_ok(std::size_t ge, std::size_t gf)
{
    if (ge == gf || rank_of(ge) != rank_of(gf)) { return false; }
    if (mask_of(ge) == 0 || mask_of(gf) == 0) { return false; } // <-> all-dynamic is covered by its own operation
    for (std::size_t k = 0; k < rank_of(ge); ++k) {
        std::size_t const a = st_of(ge, k), b = st_of(gf, k);
        if (a != dyn && b != dyn && a != b) { return false; }
    }
    return true;
}
constexpr bool conv_same_rd(std::size_t ge, std::size_t gf) { return popcount4(mask_of(ge)) == popcount4(mask_of(gf)); }
// order in which the targets of ge are taken when only a few are wanted: same rank_dynamic (at other positions) first,
// then by cyclic distance from ge inside the rank's block (so that different sources pick different targets)
constexpr std::size_t conv_order(std::size_t ge, std::size_t gf)
{
    std::size_t const n = np(rank_of(ge)), b = pbase(rank_of(ge));
    return (conv_same_rd(ge, gf) ? 0 : n) + ((gf - b) + n - (ge - b)) % n;
}
constexpr std::size_t conv_rank(std::size_t ge, std::size_t gf) // number of valid targets of ge taken before gf
{
    std::size_t c = 0;
    std::size_t const b = pbase(rank_of(ge));
    for (std::size_t t = b; t < b + np(rank_of(ge)); ++t) {
        if (conv_ok(ge, t) && conv_order(ge, t) < conv_order(ge, gf)) { ++c; }
    }
    return c;
}
// f.template operator()<F, GF>() for (at most Limit) conversion targets F of the pattern with global id GE
template <typename I, std::size_t GE, std::size_t Limit, typename Fn>
void for_each_target(Fn&& f)
{
    constexpr std::size_t B = pbase(rank_of(GE));
    [&]<std::size_t... J>(std::index_sequence<J...>) {
        ((void)[&]<std::size_t GF>(std::integral_constant<std::size_t, GF>) {
            if constexpr (conv_ok(GE, GF)) {
                if constexpr (conv_rank(GE, GF) < Limit) { f.template operator()<gpat_t<I, GF>, GF>(); }
            }
        }(std::integral_constant<std::size_t, B + J>{}),
            ...);
    }(std::make_index_sequence<np(rank_of(GE))>{});
}

static_assert(VF_PLO < VF_PHI && VF_PHI <= NG && VF_PSTEP >= 1);
constexpr std::size_t NSEL = (VF_PHI - VF_PLO + VF_PSTEP - 1) / VF_PSTEP; // patterns compiled into this unit
template <std::size_t K>
using sel_t = gpat_t<Idx, VF_PLO + K * VF_PSTEP>;

// run-time description of a pattern
struct PInfo {
    std::size_t rank{};
    std::size_t rd{}; // rank_dynamic
    std::size_t st[MAXR]{};
    std::uint64_t nshapes{}; // 5^rd
    char name[64]{};         // e.g. "d,3,d"
    char const* cls{};       // all-dynamic | all-static | mixed | rank0
};
template <typename E>
PInfo pinfo()
{
    PInfo p;
    p.rank    = E::rank();
    p.rd      = E::rank_dynamic();
    p.nshapes = 1;
    std::string n;
    for (std::size_t r = 0; r < p.rank; ++r) {
        p.st[r] = E::static_extent(r);
        if (p.st[r] == dyn) {
            p.nshapes *= 5;
            n += "d";
        } else {
            n += std::to_string(p.st[r]);
        }
        if (r + 1 < p.rank) { n += ","; }
    }
    vf::copy_str(p.name, sizeof p.name, n.c_str());
    p.cls = p.rank == 0 ? "rank0" : (p.rd == p.rank ? "all-dynamic" : (p.rd == 0 ? "all-static" : "mixed"));
    return p;
}
template <std::size_t... K>
std::array<PInfo, NSEL> all_pinfo(std::index_sequence<K...>)
{
    return {pinfo<sel_t<K>>()...};
}
inline std::array<PInfo, NSEL> const& pinfos()
{
    static auto const t = all_pinfo(std::make_index_sequence<NSEL>{});
    return t;
}

// shape number s (base-5 digits on the dynamic positions) of a pattern
inline Arr shape_of(PInfo const& p, std::uint64_t s, unsigned base = 5)
{
    Arr a{};
    for (std::size_t r = 0; r < p.rank; ++r) {
        if (p.st[r] == dyn) {
            a[r] = (LL)(s % base);
            s /= base;
        } else {
            a[r] = (LL)p.st[r];
        }
    }
    return a;
}
template <typename F>
bool shape_matches(Arr const& shape) // the shape is in the domain of a conversion to F: it agrees with F's static extents
{
    for (std::size_t r = 0; r < F::rank(); ++r) {
        if (F::static_extent(r) != dyn && (LL)F::static_extent(r) != shape[r]) { return false; }
    }
    return true;
}
// a second shape of the same pattern that differs from `shape` at every dynamic position (two-object operations)
inline Arr other_shape(PInfo const& p, Arr const& shape)
{
    Arr a = shape;
    for (std::size_t r = 0; r < p.rank; ++r) {
        if (p.st[r] == dyn) { a[r] = (shape[r] + 1 + (LL)r) % 5; }
    }
    return a;
}
inline std::string show(Arr const& a, std::size_t R)
{
    std::string s = "(";
    for (std::size_t r = 0; r < R; ++r) {
        s += std::to_string(a[r]);
        if (r + 1 < R) { s += ","; }
    }
    return s + ")";
}
inline LL product(Arr const& a, std::size_t R)
{
    LL p = 1;
    for (std::size_t r = 0; r < R; ++r) { p *= a[r]; }
    return p;
}
template <typename I>
constexpr bool fits(LL v)
{
    return v >= 0 && (unsigned long long)v <= (unsigned long long)std::numeric_limits<I>::max();
}

// ------------------------------------------------------------------ closed-form model
struct Model {
    std::size_t R{};
    Arr e{};  // extents
    Arr st{}; // strides
    LL size() const { return product(e, R); }
    // one past the largest offset (0 when the index space is empty; 1 for rank 0)
    LL span() const
    {
        LL s = 1;
        for (std::size_t r = 0; r < R; ++r) {
            if (e[r] == 0) { return 0; }
            s += (e[r] - 1) * st[r];
        }
        return s;
    }
    LL off(Arr const& i) const
    {
        LL o = 0;
        for (std::size_t r = 0; r < R; ++r) { o += i[r] * st[r]; }
        return o;
    }
    bool empty() const { return size() == 0; }
    LL max_stride() const
    {
        LL m = 0;
        for (std::size_t r = 0; r < R; ++r) { m = st[r] > m ? st[r] : m; }
        return m;
    }
};
inline Model model_left(Arr const& e, std::size_t R) // column-major: stride_k = prod_{j<k} e_j
{
    Model m;
    m.R  = R;
    m.e  = e;
    LL s = 1;
    for (std::size_t r = 0; r < R; ++r) {
        m.st[r] = s;
        s *= e[r];
    }
    return m;
}
inline Model model_right(Arr const& e, std::size_t R) // row-major: stride_k = prod_{j>k} e_j
{
    Model m;
    m.R  = R;
    m.e  = e;
    LL s = 1;
    for (std::size_t r = R; r-- > 0;) {
        m.st[r] = s;
        s *= e[r];
    }
    return m;
}
// strides laid out along a permutation of the dimensions (perm[0] fastest) with `pad` extra elements per
// level and an overall `scale`; unique by construction (each level's stride >= span of the levels below).
inline Model model_strided(Arr const& e, std::size_t R, unsigned perm_no, LL pad, LL scale)
{
    Model m;
    m.R = R;
    m.e = e;
    std::size_t p[MAXR] = {0, 1, 2, 3};
    // perm_no-th permutation of 0..R-1 (factorial number system)
    {
        std::size_t pool[MAXR] = {0, 1, 2, 3};
        std::size_t n          = R;
        unsigned k             = perm_no;
        for (std::size_t i = 0; i < R; ++i) {
            std::size_t j = k % n;
            k /= (unsigned)n;
            p[i] = pool[j];
            for (std::size_t t = j; t + 1 < n; ++t) { pool[t] = pool[t + 1]; }
            --n;
        }
    }
    LL s = scale;
    for (std::size_t i = 0; i < R; ++i) {
        m.st[p[i]] = s;
        LL ext     = e[p[i]] > 0 ? e[p[i]] : 1;
        s          = s * ext + pad;
    }
    return m;
}
constexpr unsigned factorial(std::size_t n) { return n <= 1 ? 1U : unsigned(n) * factorial(n - 1); }

// odometer over all multi-indices of a shape (last index fastest). Usage:
//   Arr i{}; if (!m.empty()) do { ... } while (next(i, m.e, m.R));
inline bool next(Arr& i, Arr const& e, std::size_t R)
{
    for (std::size_t r = R; r-- > 0;) {
        if (++i[r] < e[r]) { return true; }
        i[r] = 0;
    }
    return false;
}
inline std::uint64_t hash_arr(Arr const& a, std::size_t R, std::uint64_t h = 7)
{
    for (std::size_t r = 0; r < R; ++r) { h = vf::mix(h, (std::uint64_t)a[r] + 1); }
    return h;
}

// offsets observed over all multi-indices of m (odometer order) against the model: formula, range, injectivity
__attribute__((noinline)) inline void judge_offsets(char const* op, std::vector<LL> const& got, Model const& m, std::uint64_t h, char const* what = "offset")
{
    LL const span = m.span();
    std::vector<unsigned char> seen((std::size_t)(span > 0 ? span : 0), 0);
    Arr i{};
    std::size_t n    = 0;
    bool bad_formula = false, bad_range = false, bad_unique = false;
    std::string const w = what;
    if (!m.empty()) {
        do {
            if (n >= got.size()) { break; }
            LL const g = got[n++];
            LL const e = m.off(i);
            if (g != e && !bad_formula) {
                bad_formula = true;
                vf::eq_int(what, g, e);
            }
            if (g < 0 || g >= span) {
                if (!bad_range) {
                    bad_range = true;
                    vf::diverge((w + ":outside-required-span").c_str(), vf::to_s(g), "in [0," + vf::to_s(span) + ")");
                }
            } else {
                if (seen[(std::size_t)g] && !bad_unique) {
                    bad_unique = true;
                    vf::diverge((w + ":collision").c_str(), vf::to_s(g) + " reached twice", "distinct offsets");
                }
                seen[(std::size_t)g] = 1;
            }
        } while (next(i, m.e, m.R));
    }
    if (n != (std::size_t)m.size() || n != got.size()) { vf::diverge("harness:sweep-count", vf::to_su(got.size()), vf::to_s(m.size())); }
    vf::cover_bulk(op, n, h, n);
}

// situation label: rank + pattern class + empty/non-empty index space
inline std::string situation(PInfo const& p, Arr const& shape)
{
    std::string s = "rank" + std::to_string(p.rank) + "," + p.cls;
    if (p.rank > 0) { s += product(shape, p.rank) == 0 ? ",zero-extent" : ",nonempty"; }
    return s;
}

// call f(i_0, ..., i_{R-1}) with the first R entries of an index array converted to type A
template <typename A, typename F, std::size_t... Is>
decltype(auto) call_with(F&& f, Arr const& i, std::index_sequence<Is...>)
{
    return f(static_cast<A>(i[Is])...);
}
template <typename A, std::size_t R, typename F>
decltype(auto) call_idx(F&& f, Arr const& i)
{
    return call_with<A>(static_cast<F&&>(f), i, std::make_index_sequence<R>{});
}
// the dynamic extents of a shape, in order, as a tuple-call
template <typename E, typename F>
decltype(auto) call_dynamic(F&& f, Arr const& shape)
{
    constexpr std::size_t R = E::rank();
    std::array<LL, MAXR> d{};
    std::size_t n = 0;
    for (std::size_t r = 0; r < R; ++r) {
        if (E::static_extent(r) == dyn) { d[n++] = shape[r]; }
    }
    return [&]<std::size_t... Is>(std::index_sequence<Is...>) -> decltype(auto) {
        return f(static_cast<typename E::index_type>(d[Is])...);
    }(std::make_index_sequence<E::rank_dynamic()>{});
}
template <typename E>
__attribute__((noinline)) E make_extents(Arr const& shape) // the one constructor every other monitor relies on: E(dynamic extents...)
{
    return call_dynamic<E>([](auto... v) { return E(v...); }, shape);
}

// ------------------------------------------------------------------ caller-side container for mdarray
template <typename T>
struct BufVec {
    using value_type      = T;
    using reference       = T&;
    using const_reference = T const&;
    using pointer         = T*;
    using const_pointer   = T const*;
    using iterator        = T*;
    using const_iterator  = T const*;
    using size_type       = std::size_t;

    BufVec() = default;
    explicit BufVec(std::size_t n) : _n(n), _b(new vf::Buf<T>(n))
    {
        for (std::size_t i = 0; i < n; ++i) { new (_b->data() + i) T{}; }
    }
    BufVec(std::size_t n, T const& v) : _n(n), _b(new vf::Buf<T>(n))
    {
        for (std::size_t i = 0; i < n; ++i) { new (_b->data() + i) T(v); }
    }
    BufVec(BufVec const& o) : _n(o._n), _b(o._b ? new vf::Buf<T>(o._n) : nullptr)
    {
        for (std::size_t i = 0; i < _n; ++i) { new (_b->data() + i) T(o._b->data()[i]); }
    }
    BufVec(BufVec&& o) noexcept : _n(o._n), _b(o._b)
    {
        o._n = 0;
        o._b = nullptr;
    }
    BufVec& operator=(BufVec o) noexcept
    {
        std::swap(_n, o._n);
        std::swap(_b, o._b);
        return *this;
    }
    ~BufVec() { delete _b; }
    friend void swap(BufVec& a, BufVec& b) noexcept
    {
        std::swap(a._n, b._n);
        std::swap(a._b, b._b);
    }
    T* begin() { return _b ? _b->data() : nullptr; }
    T const* begin() const { return _b ? _b->data() : nullptr; }
    T const* cbegin() const { return begin(); }
    T* end() { return begin() + _n; }
    T const* end() const { return begin() + _n; }
    T const* cend() const { return end(); }
    T* data() { return begin(); }
    T const* data() const { return begin(); }
    std::size_t size() const { return _n; }
    // deliberately unchecked: an out-of-range index lands in the ASan red zone / canary band
    T& operator[](std::size_t i) { return begin()[i]; }
    T const& operator[](std::size_t i) const { return begin()[i]; }
    bool intact() const { return !_b || _b->intact(); }

private:
    std::size_t _n{0};
    vf::Buf<T>* _b{nullptr};
};

// element stored in every view's storage: its own linear index + a tag the write-through checks flip
struct Cell {
    int lin;
    int tag;
};

// dispatch a run-time pattern number to the compiled instantiation
template <template <std::size_t> class Fn, typename... Args>
void dispatch(std::size_t k, Args&... args)
{
    [&]<std::size_t... K>(std::index_sequence<K...>) {
        using fn_t              = void (*)(Args&...);
        static fn_t const tab[] = {&Fn<K>::run...};
        tab[k](args...);
    }(std::make_index_sequence<NSEL>{});
}

// enumerated case space shared by the ext/map/md monitors: (pattern, shape) pairs, optionally x groups
struct Space {
    std::uint64_t total{};
    std::array<std::uint64_t, NSEL + 1> first{};
    Space()
    {
        auto const& ps = pinfos();
        for (std::size_t k = 0; k < NSEL; ++k) {
            first[k] = total;
            total += ps[k].nshapes;
        }
        first[NSEL] = total;
    }
    void decode(std::uint64_t id, std::size_t& k, std::uint64_t& s) const
    {
        k = 0;
        while (id >= first[k + 1]) { ++k; }
        s = id - first[k];
    }
};
inline Space const& space()
{
    static Space const sp;
    return sp;
}

// random shape for the seeded part: dynamic extents 0..hi, kept small enough that the index space
// (and `slack` times it, for padded strides) is representable in the index type and <= 4096 elements
template <typename I>
Arr random_shape(PInfo const& p, vf::Rng& rng, LL hi, LL slack)
{
    for (;;) {
        Arr a{};
        for (std::size_t r = 0; r < p.rank; ++r) { a[r] = p.st[r] == dyn ? rng.range(0, hi) : (LL)p.st[r]; }
        LL lim = 4096;
        if ((unsigned long long)std::numeric_limits<I>::max() < (unsigned long long)lim) { lim = (LL)std::numeric_limits<I>::max(); }
        LL prod = 1;
        for (std::size_t r = 0; r < p.rank; ++r) { prod *= (a[r] > 0 ? a[r] : 1); }
        if (prod * slack <= lim || hi == 0) { return a; } // callers still filter with fits<>()
        --hi;
    }
}

} // namespace c19
