// vf.hpp - runner for the tetl runtime monitors: fork isolation, breadcrumb,
// watchdog, record emission, violation keys, coverage accounting.
// Single-threaded by construction (one child at a time per shard process).
#pragma once
#include <cerrno>
#include <cinttypes>
#include <csignal>
#include <cstdarg>
#include <cstdint>
#include <cstdio>
#include <cstdlib>
#include <cstring>
#include <fcntl.h>
#include <string>
#include <sys/mman.h>
#include <sys/stat.h>
#include <sys/wait.h>
#include <time.h>
#include <type_traits>
#include <unistd.h>
#include <vector>

#if defined(__SANITIZE_ADDRESS__)
    #define VF_ASAN 1
#elif defined(__has_feature)
    #if __has_feature(address_sanitizer)
        #define VF_ASAN 1
    #else
        #define VF_ASAN 0
    #endif
#else
    #define VF_ASAN 0
#endif

namespace vf {

enum class Tier { quick, thorough };

// ---------------------------------------------------------------- rng
inline std::uint64_t splitmix(std::uint64_t& s)
{
    std::uint64_t z = (s += 0x9E3779B97F4A7C15ull);
    z               = (z ^ (z >> 30)) * 0xBF58476D1CE4E5B9ull;
    z               = (z ^ (z >> 27)) * 0x94D049BB133111EBull;
    return z ^ (z >> 31);
}
inline std::uint64_t mix(std::uint64_t a, std::uint64_t b)
{
    std::uint64_t s = a * 0x9E3779B97F4A7C15ull ^ (b + 0x7F4A7C159E3779B9ull + (a << 6) + (a >> 2));
    return splitmix(s);
}
struct Rng {
    std::uint64_t s;
    explicit Rng(std::uint64_t seed = 1) : s(seed) { }
    std::uint64_t next() { return splitmix(s); }
    // uniform in [0,n) ; n>0
    std::uint64_t below(std::uint64_t n) { return n == 0 ? 0 : next() % n; }
    // uniform in [lo,hi]
    std::int64_t range(std::int64_t lo, std::int64_t hi) { return lo + (std::int64_t)below((std::uint64_t)(hi - lo) + 1); }
    bool coin() { return (next() >> 17) & 1; }
    bool chance(unsigned num, unsigned den) { return below(den) < num; }
    template <typename T, std::size_t N>
    T const& pick(T const (&a)[N]) { return a[below(N)]; }
};

// ---------------------------------------------------------------- chooser
// Enumerate-by-re-running: an operation draws its arguments with pick(n); in
// enumeration mode the chooser is an odometer over all choice sequences
// (do { c.begin(); op(c); } while (c.next());), in random mode it draws from rng.
struct Chooser {
    std::vector<unsigned> choice, limit;
    std::size_t idx = 0;
    Rng* rng        = nullptr;
    explicit Chooser(Rng* r = nullptr) : rng(r) { }
    bool random() const { return rng != nullptr; }
    void begin() { idx = 0; }
    unsigned pick(unsigned n)
    {
        if (n <= 1) { return 0; }
        if (rng) { return (unsigned)rng->below(n); }
        if (idx == choice.size()) {
            choice.push_back(0);
            limit.push_back(n);
        }
        return choice[idx++];
    }
    // pick an index out of n, but in random mode with an explicit draw
    bool flag() { return pick(2) == 1; }
    bool next()
    {
        if (rng) { return false; }
        while (!choice.empty()) {
            if (++choice.back() < limit.back()) { return true; }
            choice.pop_back();
            limit.pop_back();
        }
        return false;
    }
    std::uint64_t hash() const
    {
        std::uint64_t h = 0x1234;
        for (unsigned c : choice) { h = mix(h, c); }
        return h;
    }
};

// ---------------------------------------------------------------- shared page
constexpr int kKeys    = 2048;
constexpr int kKeyLen  = 240;
constexpr int kOps     = 1024;
constexpr int kOpLen   = 72;
constexpr int kSits    = 8192;
constexpr int kSitLen  = 120;

struct KeyEnt {
    std::uint64_t hash;
    std::uint64_t count;
    char key[kKeyLen];
};
struct OpEnt {
    std::uint64_t hash;
    std::uint64_t n;
    std::uint32_t samples;
    char name[kOpLen];
};

struct SitEnt {
    std::uint64_t hash;
    std::uint64_t n;
    char name[kSitLen];
};

struct Shared {
    // breadcrumb
    std::uint64_t case_id;
    std::uint32_t step;
    char subject[96];
    char op[96];
    char sit[96];
    char args[600];
    // contract trap
    int contract_expected; // a C05 scenario is in flight: handler is the wanted outcome
    int contract_fired;
    int c_line;
    int c_unmodified; // -1 unknown, 0 modified, 1 unmodified
    int c_canary_ok;  // -1 unknown
    char c_file[200];
    char c_func[300];
    char c_expr[300];
    // counters
    std::uint64_t evals;
    std::uint64_t cases_done;
    std::uint64_t records_emitted;
    std::uint64_t records_suppressed;
    // tables
    KeyEnt keys[kKeys];
    OpEnt ops[kOps];
    SitEnt sits[kSits];
    // distinct set
    std::uint64_t dcap; // power of two
    std::uint64_t dn;
    std::uint64_t doverflow;
    std::uint64_t dset[1]; // dcap entries follow
};

struct Globals {
    Shared* sh       = nullptr;
    int out_fd       = 1;
    bool verbose     = false;
    bool in_child    = false;
    Tier tier        = Tier::quick;
    std::uint64_t seed = 1;
    char const* prop = "";
    char const* harness = "";
    std::uint32_t full_per_key = 3;
};
inline Globals& g()
{
    static Globals gl;
    return gl;
}

inline std::uint64_t fnv(char const* s, std::uint64_t h = 1469598103934665603ull)
{
    for (; *s; ++s) { h = (h ^ (unsigned char)*s) * 1099511628211ull; }
    return h;
}
inline std::uint64_t fnv_bytes(void const* p, std::size_t n, std::uint64_t h = 1469598103934665603ull)
{
    auto const* b = static_cast<unsigned char const*>(p);
    for (std::size_t i = 0; i < n; ++i) { h = (h ^ b[i]) * 1099511628211ull; }
    return h;
}

// ---------------------------------------------------------------- json out
inline void json_escape(std::string& o, char const* s)
{
    for (; *s; ++s) {
        unsigned char c = (unsigned char)*s;
        switch (c) {
        case '"': o += "\\\""; break;
        case '\\': o += "\\\\"; break;
        case '\n': o += "\\n"; break;
        case '\t': o += "\\t"; break;
        case '\r': o += "\\r"; break;
        default:
            if (c < 0x20 || c >= 0x7f) {
                char b[8];
                std::snprintf(b, sizeof b, "\\u%04x", c);
                o += b;
            } else {
                o += (char)c;
            }
        }
    }
}
inline void write_all(int fd, char const* p, std::size_t n)
{
    while (n > 0) {
        ssize_t w = ::write(fd, p, n);
        if (w < 0) {
            if (errno == EINTR) { continue; }
            return;
        }
        p += w;
        n -= (std::size_t)w;
    }
}
struct Json {
    std::string s{"{"};
    bool first = true;
    Json& str(char const* k, char const* v)
    {
        sep();
        s += '"';
        s += k;
        s += "\":\"";
        json_escape(s, v);
        s += '"';
        return *this;
    }
    Json& str(char const* k, std::string const& v) { return str(k, v.c_str()); }
    Json& num(char const* k, std::uint64_t v)
    {
        sep();
        char b[64];
        std::snprintf(b, sizeof b, "\"%s\":%" PRIu64, k, v);
        s += b;
        return *this;
    }
    void sep()
    {
        if (!first) { s += ','; }
        first = false;
    }
    void emit()
    {
        s += "}\n";
        write_all(g().out_fd, s.data(), s.size());
    }
};

// ---------------------------------------------------------------- breadcrumb
inline void copy_str(char* dst, std::size_t cap, char const* src)
{
    std::size_t n = std::strlen(src);
    if (n >= cap) { n = cap - 1; }
    std::memcpy(dst, src, n);
    dst[n] = 0;
}

// crumb: who/what/situation. args via printf.  Called before every library call.
#if defined(__GNUC__)
__attribute__((format(printf, 4, 5)))
#endif
inline void crumb(char const* subject, char const* op, char const* sit, char const* fmt = "", ...)
{
    Shared* sh = g().sh;
    if (!sh) { return; }
    copy_str(sh->subject, sizeof sh->subject, subject);
    copy_str(sh->op, sizeof sh->op, op);
    copy_str(sh->sit, sizeof sh->sit, sit);
    va_list ap;
    va_start(ap, fmt);
    std::vsnprintf(sh->args, sizeof sh->args, fmt, ap);
    va_end(ap);
    sh->step++;
    { // situation hit counter (evidence: which (operation, situation) pairs were reached, how often)
        std::uint64_t h = (fnv(sit, fnv(op)) * 0x9E3779B97F4A7C15ull) | 1;
        for (int i = 0; i < 16; ++i) {
            SitEnt& e = sh->sits[(h + (std::uint64_t)i) % kSits];
            if (e.hash == h) {
                e.n++;
                break;
            }
            if (e.hash == 0) {
                e.hash = h;
                e.n    = 1;
                std::snprintf(e.name, kSitLen, "%s | %s", op, sit);
                break;
            }
        }
    }
    if (g().verbose) {
        std::fprintf(stderr, "[case %" PRIu64 " step %u] %s | %s | %s | %s\n", sh->case_id, sh->step, sh->subject, sh->op,
            sh->sit, sh->args);
    }
}
inline void crumb_sit(char const* sit)
{
    if (g().sh) { copy_str(g().sh->sit, sizeof g().sh->sit, sit); }
}

// ---------------------------------------------------------------- key table / ops table
inline KeyEnt* key_slot(char const* key)
{
    Shared* sh      = g().sh;
    std::uint64_t h = fnv(key) | 1;
    for (int i = 0; i < kKeys; ++i) {
        KeyEnt& e = sh->keys[(h + (std::uint64_t)i) % kKeys];
        if (e.hash == h && std::strncmp(e.key, key, kKeyLen - 1) == 0) { return &e; }
        if (e.hash == 0) {
            e.hash = h;
            copy_str(e.key, kKeyLen, key);
            return &e;
        }
    }
    return nullptr;
}
inline OpEnt* op_slot(char const* name)
{
    Shared* sh      = g().sh;
    std::uint64_t h = fnv(name) | 1;
    for (int i = 0; i < kOps; ++i) {
        OpEnt& e = sh->ops[(h + (std::uint64_t)i) % kOps];
        if (e.hash == h) { return &e; }
        if (e.hash == 0) {
            e.hash = h;
            copy_str(e.name, kOpLen, name);
            return &e;
        }
    }
    return nullptr;
}
inline void dset_insert(std::uint64_t h)
{
    Shared* sh = g().sh;
    if (h == 0) { h = 1; }
    if (sh->dn * 4 >= sh->dcap * 3) {
        sh->doverflow++;
        return;
    }
    std::uint64_t m = sh->dcap - 1;
    std::uint64_t i = (h * 0x9E3779B97F4A7C15ull >> 7) & m;
    for (;;) {
        if (sh->dset[i] == h) { return; }
        if (sh->dset[i] == 0) {
            sh->dset[i] = h;
            sh->dn++;
            return;
        }
        i = (i + 1) & m;
    }
}

// cover: one oracle-compared evaluation of `label`; `h` identifies the
// (configuration, state, op, arguments) tuple; nontrivial per the property's rule.
inline void cover(char const* label, std::uint64_t h, bool nontrivial = true)
{
    Shared* sh = g().sh;
    if (!sh) { return; }
    sh->evals++;
    if (OpEnt* e = op_slot(label)) { e->n++; }
    if (nontrivial) { dset_insert(mix(h, fnv(label))); }
}
// bulk variant for exhaustive sweeps: n evaluations over n_distinct distinct inputs
// (enumerated without repetition by construction of the loop that calls it).
inline void cover_bulk(char const* label, std::uint64_t n, std::uint64_t first_hash, std::uint64_t n_distinct)
{
    Shared* sh = g().sh;
    if (!sh) { return; }
    sh->evals += n;
    if (OpEnt* e = op_slot(label)) { e->n += n; }
    // distinct inputs are registered as a run of synthetic hashes (capped)
    std::uint64_t cap = n_distinct < 4096 ? n_distinct : 4096;
    for (std::uint64_t i = 0; i < cap; ++i) { dset_insert(mix(first_hash + i, fnv(label))); }
    if (n_distinct > cap) {
        Json j;
        j.str("k", "bulk").str("label", label).num("n", n).num("distinct", n_distinct - cap).emit();
    }
}

// sample: a concrete case written out for the evidence (first few per label)
#if defined(__GNUC__)
__attribute__((format(printf, 2, 3)))
#endif
inline void sample(char const* label, char const* fmt, ...)
{
    Shared* sh = g().sh;
    if (!sh) { return; }
    OpEnt* e = op_slot(label);
    if (!e || e->samples >= 2) { return; }
    e->samples++;
    char buf[700];
    va_list ap;
    va_start(ap, fmt);
    std::vsnprintf(buf, sizeof buf, fmt, ap);
    va_end(ap);
    Json j;
    j.str("k", "sample").str("label", label).str("text", buf).num("case", sh->case_id).emit();
}
inline bool want_sample(char const* label)
{
    if (!g().sh) { return false; }
    OpEnt* e = op_slot(label);
    return e && e->samples < 2;
}

// ---------------------------------------------------------------- violation records
inline void record(char const* kind, char const* sym, char const* obs, char const* exp)
{
    Shared* sh = g().sh;
    if (!sh) { return; }
    char key[kKeyLen];
    std::snprintf(key, sizeof key, "%s|%s|%s|%s|%s", kind, sh->subject, sh->op, sh->sit, sym);
    KeyEnt* e = key_slot(key);
    if (e) {
        e->count++;
        if (e->count > g().full_per_key) {
            sh->records_suppressed++;
            return;
        }
    }
    sh->records_emitted++;
    Json j;
    j.str("k", kind).str("key", key).str("subject", sh->subject).str("op", sh->op).str("sit", sh->sit).str("sym", sym);
    j.str("obs", obs).str("exp", exp).str("args", sh->args).num("case", sh->case_id).num("step", sh->step);
    j.emit();
    if (g().verbose) { std::fprintf(stderr, "  ** %s: obs=%s exp=%s\n", key, obs, exp); }
}
inline void diverge(char const* sym, char const* obs, char const* exp) { record("diverge", sym, obs, exp); }
inline void diverge(char const* sym, std::string const& obs, std::string const& exp)
{
    record("diverge", sym, obs.c_str(), exp.c_str());
}

inline std::string to_s(long long v) { return std::to_string(v); }
inline std::string to_su(unsigned long long v) { return std::to_string(v); }

// integer comparison with a *classified* symptom so that a different wrong
// value produces a different key: name:+1, name:-1, name:npos-for-val, ...
template <typename A, typename B>
inline bool eq_int(char const* name, A obs, B exp, bool npos_aware = false)
{
    using L = long long;
    if ((L)obs == (L)exp) { return true; }
    char sym[96];
    __int128 const dd = (__int128)(L)obs - (__int128)(L)exp; // the difference of two 64-bit values may not fit 64 bits
    L d = dd > 2 ? 3 : (dd < -2 ? -3 : (L)dd);
    if (npos_aware && (L)obs == -1) {
        std::snprintf(sym, sizeof sym, "%s:npos-for-val", name);
    } else if (npos_aware && (L)exp == -1) {
        std::snprintf(sym, sizeof sym, "%s:val-for-npos", name);
    } else if (d >= -2 && d <= 2) {
        std::snprintf(sym, sizeof sym, "%s:%+lld", name, d);
    } else if ((L)obs == 0) {
        std::snprintf(sym, sizeof sym, "%s:zero", name);
    } else {
        std::snprintf(sym, sizeof sym, "%s:%s", name, d > 0 ? "greater" : "less");
    }
    diverge(sym, to_s((L)obs), to_s((L)exp));
    return false;
}
inline bool eq_bool(char const* name, bool obs, bool exp)
{
    if (obs == exp) { return true; }
    char sym[96];
    std::snprintf(sym, sizeof sym, "%s:%s", name, obs ? "true-for-false" : "false-for-true");
    diverge(sym, obs ? "true" : "false", exp ? "true" : "false");
    return false;
}
inline int sgn(long long v) { return (v > 0) - (v < 0); }
inline bool eq_sign(char const* name, long long obs, long long exp)
{
    if (sgn(obs) == sgn(exp)) { return true; }
    char sym[96];
    std::snprintf(sym, sizeof sym, "%s:sign%+d-for%+d", name, sgn(obs), sgn(exp));
    diverge(sym, to_s(obs), to_s(exp));
    return false;
}
inline bool eq_str(char const* name, std::string const& obs, std::string const& exp)
{
    if (obs == exp) { return true; }
    char sym[96];
    char const* cls = "differs";
    if (obs.size() < exp.size() && exp.compare(0, obs.size(), obs) == 0) {
        cls = "prefix-of-expected";
    } else if (obs.size() > exp.size() && obs.compare(0, exp.size(), exp) == 0) {
        cls = "extends-expected";
    } else if (obs.size() == exp.size()) {
        cls = "same-length-differs";
    } else if (obs.size() < exp.size()) {
        cls = "shorter";
    } else {
        cls = "longer";
    }
    std::snprintf(sym, sizeof sym, "%s:%s", name, cls);
    diverge(sym, obs, exp);
    return false;
}

// ---------------------------------------------------------------- guarded buffers
// Under ASan an exact-size heap block is already fenced to the byte on both
// sides.  In other flavours a canary band on both sides is checked afterwards.
template <typename T>
struct Buf {
    static constexpr std::size_t band = VF_ASAN ? 0 : 64;
    unsigned char* raw{};
    std::size_t n{};
    explicit Buf(std::size_t count) : n(count)
    {
        raw = static_cast<unsigned char*>(std::malloc(n * sizeof(T) + 2 * band + (n == 0 && band == 0 ? 0 : 0)));
        if (band) {
            std::memset(raw, 0xA5, band);
            std::memset(raw + band + n * sizeof(T), 0xA5, band);
        }
        std::memset(raw + band, 0xCD, n * sizeof(T));
    }
    Buf(Buf const&)            = delete;
    Buf& operator=(Buf const&) = delete;
    ~Buf() { std::free(raw); }
    T* data() { return reinterpret_cast<T*>(raw + band); }
    T const* data() const { return reinterpret_cast<T const*>(raw + band); }
    T* end() { return data() + n; }
    T& operator[](std::size_t i) { return data()[i]; }
    T const& operator[](std::size_t i) const { return data()[i]; }
    std::size_t size() const { return n; }
    bool intact() const
    {
        for (std::size_t i = 0; i < band; ++i) {
            if (raw[i] != 0xA5 || raw[band + n * sizeof(T) + i] != 0xA5) { return false; }
        }
        return true;
    }
    // emits a crash-class record if a canary band was overwritten
    void check(char const* what = "canary")
    {
        if (!intact()) { record("crash", "canary-overwritten", what, "intact"); }
    }
};

// ---------------------------------------------------------------- fork_call (used by fault-enumeration harnesses)
struct ForkOutcome {
    bool exited  = false;
    int code     = -1;
    int sig      = 0;
    bool timeout = false;
};
// runs f() in a forked child; the child leaves with status 5 when f returns normally
template <typename F>
inline ForkOutcome fork_call(F&& f, double timeout_s = 20.0)
{
    std::fflush(nullptr);
    pid_t pid = ::fork();
    if (pid < 0) {
        std::perror("fork");
        std::_Exit(2);
    }
    if (pid == 0) {
        f();
        std::fflush(nullptr);
        std::_Exit(5);
    }
    timespec t0;
    clock_gettime(CLOCK_MONOTONIC, &t0);
    int status     = 0;
    useconds_t nap = 50;
    ForkOutcome o;
    for (;;) {
        pid_t r = ::waitpid(pid, &status, WNOHANG);
        if (r == pid) { break; }
        timespec t1;
        clock_gettime(CLOCK_MONOTONIC, &t1);
        double el = (double)(t1.tv_sec - t0.tv_sec) + 1e-9 * (double)(t1.tv_nsec - t0.tv_nsec);
        if (el > timeout_s) {
            ::kill(pid, SIGKILL);
            ::waitpid(pid, &status, 0);
            o.timeout = true;
            return o;
        }
        ::usleep(nap);
        if (nap < 2000) { nap *= 2; }
    }
    if (WIFEXITED(status)) {
        o.exited = true;
        o.code   = WEXITSTATUS(status);
    } else if (WIFSIGNALED(status)) {
        o.sig = WTERMSIG(status);
    }
    return o;
}

// ---------------------------------------------------------------- runner
struct Spec {
    std::uint64_t n_enum    = 0;  // enumerated cases (deterministic, independent of seed)
    std::uint64_t n_random  = 0;  // seeded random cases
    std::uint32_t batch     = 256;
    std::uint32_t timeout_s = 120;
    bool exhaustive         = false; // the enumerated part is a complete enumeration of a finite scope
};
struct Case {
    std::uint64_t id;     // global id
    bool enumerated;      // id < n_enum
    std::uint64_t index;  // id (enumerated) or id - n_enum (random)
    Rng rng;
    Tier tier;
};

inline double now_s()
{
    timespec ts;
    clock_gettime(CLOCK_MONOTONIC, &ts);
    return (double)ts.tv_sec + 1e-9 * (double)ts.tv_nsec;
}

inline std::string slug(char const* s, std::size_t maxlen = 60)
{
    std::string o;
    bool dash = false;
    for (; *s && o.size() < maxlen; ++s) {
        unsigned char c = (unsigned char)*s;
        if ((c >= 'a' && c <= 'z') || (c >= 'A' && c <= 'Z') || c == '_' || c == ':' || c == '<' || c == '>' || c == '='
            || c == '!' || c == '(' || c == ')' || c == '.' || c == '+' || c == '*' || c == '&') {
            o += (char)c;
            dash = false;
        } else if (c >= '0' && c <= '9') {
            o += (char)c;
            dash = false;
        } else if (!dash && !o.empty()) {
            o += '-';
            dash = true;
        }
    }
    while (!o.empty() && o.back() == '-') { o.pop_back(); }
    return o;
}

inline std::string read_file(char const* path, std::size_t maxn)
{
    std::string s;
    int fd = ::open(path, O_RDONLY);
    if (fd < 0) { return s; }
    s.resize(maxn);
    ssize_t r = ::read(fd, s.data(), maxn);
    ::close(fd);
    s.resize(r > 0 ? (std::size_t)r : 0);
    return s;
}

// classify sanitizer output -> symptom
inline std::string classify_stderr(std::string const& err)
{
    auto p = err.find("ERROR: AddressSanitizer: ");
    if (p != std::string::npos) {
        p += std::strlen("ERROR: AddressSanitizer: ");
        std::string t;
        while (p < err.size() && err[p] != ' ' && err[p] != '\n') { t += err[p++]; }
        std::string rw;
        if (err.find("\nREAD of size") != std::string::npos) { rw = ":READ"; }
        if (err.find("\nWRITE of size") != std::string::npos) { rw = ":WRITE"; }
        return "asan:" + t + rw;
    }
    p = err.find("runtime error: ");
    if (p != std::string::npos) {
        p += std::strlen("runtime error: ");
        std::string t;
        while (p < err.size() && err[p] != '\n' && err[p] != ':' && !(err[p] >= '0' && err[p] <= '9') && err[p] != '-' && err[p] != '\''
               && t.size() < 48) {
            t += err[p++];
        }
        return "ubsan:" + slug(t.c_str());
    }
    if (err.find("LeakSanitizer") != std::string::npos) { return "lsan:leak"; }
    if (err.find("depends on uninitialised value") != std::string::npos) { return "vg:uninitialised-value-decides-branch"; }
    if (err.find("Use of uninitialised value") != std::string::npos) { return "vg:use-of-uninitialised-value"; }
    if (err.find("contains uninitialised byte") != std::string::npos) { return "vg:uninitialised-bytes-passed-on"; }
    if (err.find("Invalid read of size") != std::string::npos) { return "vg:invalid-read"; }
    if (err.find("Invalid write of size") != std::string::npos) { return "vg:invalid-write"; }
    return "";
}

struct Runner {
    Spec spec;
    void (*run)(Case&);
    std::string out_path;
    std::string err_path;
    unsigned shard_i = 0, shard_n = 1;
    pid_t last_child = 0;
    unsigned stride = 1; // run only every stride-th batch (reduced slices of a workload, e.g. under valgrind)
    std::uint64_t crashes = 0, hangs = 0, spurious = 0;

    Case make_case(std::uint64_t id)
    {
        Case c{id, id < spec.n_enum, id < spec.n_enum ? id : id - spec.n_enum, Rng{mix(g().seed, id ^ fnv(g().harness))}, g().tier};
        if (c.enumerated) { c.rng = Rng{mix(0x5eed, id)}; } // enumerated part is seed-independent
        return c;
    }

    void run_range_in_process(std::uint64_t lo, std::uint64_t hi)
    {
        for (std::uint64_t id = lo; id < hi; ++id) {
            Shared* sh  = g().sh;
            sh->case_id = id;
            sh->step    = 0;
            copy_str(sh->subject, sizeof sh->subject, "?");
            copy_str(sh->op, sizeof sh->op, "case-start");
            copy_str(sh->sit, sizeof sh->sit, "?");
            sh->args[0] = 0;
            Case c      = make_case(id);
            run(c);
            sh->cases_done++;
        }
    }

    // returns: id of the case that was running when the child died, or hi when all done
    struct Outcome {
        bool ok;
        bool timeout;
        int status;
        std::uint64_t at;
    };
    Outcome fork_range(std::uint64_t lo, std::uint64_t hi, double timeout)
    {
        Shared* sh  = g().sh;
        sh->case_id = lo;
        sh->contract_fired = 0;
        sh->contract_expected = 0;
        int efd = ::open(err_path.c_str(), O_WRONLY | O_CREAT | O_TRUNC, 0644);
        pid_t pid = ::fork();
        if (pid < 0) {
            std::perror("fork");
            std::_Exit(2);
        }
        if (pid == 0) {
            g().in_child = true;
            if (efd >= 0) {
                ::dup2(efd, 2);
                ::close(efd);
            }
            run_range_in_process(lo, hi);
            std::fflush(nullptr);
            std::_Exit(0);
        }
        if (efd >= 0) { ::close(efd); }
        last_child = pid;
        double t0 = now_s();
        int status = 0;
        useconds_t nap = 50;
        for (;;) {
            pid_t r = ::waitpid(pid, &status, WNOHANG);
            if (r == pid) { break; }
            if (r < 0 && errno != EINTR) {
                std::perror("waitpid");
                std::_Exit(2);
            }
            if (now_s() - t0 > timeout) {
                ::kill(pid, SIGKILL);
                ::waitpid(pid, &status, 0);
                return {false, true, status, sh->case_id};
            }
            ::usleep(nap);
            if (nap < 4000) { nap *= 2; }
        }
        if (WIFEXITED(status) && WEXITSTATUS(status) == 0) { return {true, false, status, hi}; }
        return {false, false, status, sh->case_id};
    }

    void emit_parent_record(char const* kind, std::string const& sym, std::string const& obs, std::string const& exp,
        std::string const& err)
    {
        Shared* sh = g().sh;
        char key[kKeyLen];
        std::snprintf(key, sizeof key, "%s|%s|%s|%s|%s", kind, sh->subject, sh->op, sh->sit, sym.c_str());
        KeyEnt* e = key_slot(key);
        if (e) {
            e->count++;
            if (e->count > g().full_per_key) {
                sh->records_suppressed++;
                return;
            }
        }
        Json j;
        j.str("k", kind).str("key", key).str("subject", sh->subject).str("op", sh->op).str("sit", sh->sit).str("sym", sym);
        j.str("obs", obs).str("exp", exp).str("args", sh->args).num("case", sh->case_id).num("step", sh->step);
        std::string e2 = err.substr(0, 1500);
        j.str("stderr", e2);
        j.emit();
    }

    void handle_failure(Outcome const& o)
    {
        Shared* sh      = g().sh;
        std::string err = read_file(err_path.c_str(), 6000);
        if (char const* vg = std::getenv("VF_VG_LOG")) { // valgrind writes its report to a per-process log file
            char vp[600];
            std::snprintf(vp, sizeof vp, "%s.%d", vg, (int)last_child);
            err += read_file(vp, 6000);
        }
        if (o.timeout) {
            hangs++;
            emit_parent_record("hang", "timeout", "no return within watchdog", "returns", err);
            return;
        }
        if (WIFEXITED(o.status) && WEXITSTATUS(o.status) == 77 && sh->contract_fired) {
            spurious++;
            std::string base = sh->c_file;
            auto p           = base.rfind('/');
            if (p != std::string::npos) { base = base.substr(p + 1); }
            std::string sym = "handler:" + base + ":" + slug(sh->c_expr, 50);
            char loc[600];
            std::snprintf(loc, sizeof loc, "%s:%d %s %s", sh->c_file, sh->c_line, sh->c_func, sh->c_expr);
            emit_parent_record("contract-spurious", sym, loc, "no handler call on valid arguments", err);
            return;
        }
        crashes++;
        std::string sym = classify_stderr(err);
        char st[64];
        if (sym.empty()) {
            if (WIFSIGNALED(o.status)) {
                std::snprintf(st, sizeof st, "sig:%d", WTERMSIG(o.status));
            } else {
                std::snprintf(st, sizeof st, "exit:%d", WEXITSTATUS(o.status));
            }
            sym = st;
        }
        std::snprintf(st, sizeof st, "status=0x%x", o.status);
        emit_parent_record("crash", sym, st, "normal return", err);
    }

    void run_batch(std::uint64_t lo, std::uint64_t hi)
    {
        std::uint64_t cur = lo;
        int failures      = 0;
        while (cur < hi) {
            Outcome o = fork_range(cur, hi, (double)spec.timeout_s);
            if (o.ok) { return; }
            if (o.timeout) {
                // re-run the suspect case alone with a fresh full budget before calling it a hang
                Outcome o2 = fork_range(o.at, o.at + 1, (double)spec.timeout_s * 2);
                if (!o2.ok) {
                    handle_failure(o2);
                }
                cur = o.at + 1;
            } else {
                handle_failure(o);
                cur = o.at + 1;
            }
            if (++failures > 4096) {
                Json j;
                j.str("k", "note").str("text", "too many failing cases in one batch; rest of batch skipped").num("case", cur).emit();
                Shared* sh = g().sh;
                copy_str(sh->subject, sizeof sh->subject, "runner");
                copy_str(sh->op, sizeof sh->op, "batch");
                copy_str(sh->sit, sizeof sh->sit, "failure-storm");
                emit_parent_record("crash", "storm", "more than 4096 failing cases in one batch", "none", "");
                return;
            }
        }
    }
};

inline int usage()
{
    std::fprintf(stderr,
        "usage: harness --out FILE [--shard i/n] [--seed S] [--tier quick|thorough] [--case ID [--verbose]] [--count]\n");
    return 2;
}

inline int run_main(int argc, char** argv, char const* prop, char const* harness, Spec (*spec_fn)(Tier), void (*run)(Case&),
    std::uint64_t dset_log2 = 22)
{
    Globals& G = g();
    G.prop     = prop;
    G.harness  = harness;
    Runner R;
    R.run = run;
    std::string out;
    long long only_case = -1;
    bool count_only     = false;
    for (int i = 1; i < argc; ++i) {
        std::string a = argv[i];
        auto next     = [&]() -> char const* { return i + 1 < argc ? argv[++i] : ""; };
        if (a == "--out") {
            out = next();
        } else if (a == "--shard") {
            unsigned x = 0, y = 1;
            if (std::sscanf(next(), "%u/%u", &x, &y) != 2 || y == 0 || x >= y) { return usage(); }
            R.shard_i = x;
            R.shard_n = y;
        } else if (a == "--seed") {
            G.seed = std::strtoull(next(), nullptr, 10);
        } else if (a == "--tier") {
            std::string t = next();
            G.tier        = t == "thorough" ? Tier::thorough : Tier::quick;
        } else if (a == "--case") {
            only_case = std::strtoll(next(), nullptr, 10);
        } else if (a == "--verbose") {
            G.verbose = true;
        } else if (a == "--stride") {
            R.stride = (unsigned)std::strtoul(next(), nullptr, 10);
            if (R.stride == 0) { R.stride = 1; }
        } else if (a == "--count") {
            count_only = true;
        } else {
            return usage();
        }
    }
    R.spec = spec_fn(G.tier);
    if (count_only) {
        std::printf("%" PRIu64 " %" PRIu64 "\n", R.spec.n_enum, R.spec.n_random);
        return 0;
    }
    std::uint64_t dcap = 1ull << dset_log2;
    if (only_case >= 0) { dcap = 1 << 12; }
    std::size_t bytes = sizeof(Shared) + dcap * sizeof(std::uint64_t);
    void* mem         = ::mmap(nullptr, bytes, PROT_READ | PROT_WRITE, MAP_SHARED | MAP_ANONYMOUS, -1, 0);
    if (mem == MAP_FAILED) {
        std::perror("mmap");
        return 2;
    }
    G.sh       = static_cast<Shared*>(mem);
    G.sh->dcap = dcap;

    if (only_case >= 0) {
        // replay: one case, in-process, verbose
        G.out_fd = 1;
        G.full_per_key = 1000;
        R.run_range_in_process((std::uint64_t)only_case, (std::uint64_t)only_case + 1);
        return 0;
    }
    if (out.empty()) { return usage(); }
    G.out_fd = ::open(out.c_str(), O_WRONLY | O_CREAT | O_TRUNC | O_APPEND, 0644);
    if (G.out_fd < 0) {
        std::perror("open out");
        return 2;
    }
    R.out_path = out;
    R.err_path = out + ".stderr";
    double t0  = now_s();
    std::uint64_t total   = R.spec.n_enum + R.spec.n_random;
    std::uint64_t batch   = R.spec.batch ? R.spec.batch : 1;
    std::uint64_t nbatch  = (total + batch - 1) / batch;
    std::uint64_t my_cases = 0;
    for (std::uint64_t b = R.shard_i; b < nbatch; b += R.shard_n) {
        if (R.stride > 1 && (b / R.shard_n) % R.stride != 0) { continue; }
        std::uint64_t lo = b * batch;
        std::uint64_t hi = lo + batch < total ? lo + batch : total;
        R.run_batch(lo, hi);
        my_cases += hi - lo;
    }
    // tallies
    Shared* sh = G.sh;
    for (int i = 0; i < kKeys; ++i) {
        if (sh->keys[i].hash) {
            Json j;
            j.str("k", "tally").str("key", sh->keys[i].key).num("n", sh->keys[i].count).emit();
        }
    }
    for (int i = 0; i < kOps; ++i) {
        if (sh->ops[i].hash && sh->ops[i].n) {
            Json j;
            j.str("k", "op").str("label", sh->ops[i].name).num("n", sh->ops[i].n).emit();
        }
    }
    for (int i = 0; i < kSits; ++i) {
        if (sh->sits[i].hash) {
            Json j;
            j.str("k", "sit").str("label", sh->sits[i].name).num("n", sh->sits[i].n).emit();
        }
    }
    // distinct hashes -> binary side file
    {
        std::string hp = out + ".hashes";
        int hfd        = ::open(hp.c_str(), O_WRONLY | O_CREAT | O_TRUNC, 0644);
        if (hfd >= 0) {
            std::vector<std::uint64_t> v;
            v.reserve(sh->dn);
            for (std::uint64_t i = 0; i < sh->dcap; ++i) {
                if (sh->dset[i]) { v.push_back(sh->dset[i]); }
            }
            write_all(hfd, reinterpret_cast<char const*>(v.data()), v.size() * sizeof(std::uint64_t));
            ::close(hfd);
        }
    }
    Json j;
    j.str("k", "summary").str("prop", prop).str("harness", harness).num("shard", R.shard_i).num("shards", R.shard_n);
    j.num("n_enum", R.spec.n_enum).num("n_random", R.spec.n_random).num("exhaustive_enum", (R.spec.exhaustive && R.stride == 1) ? 1 : 0);
    j.num("cases_assigned", my_cases).num("cases_done", sh->cases_done).num("evals", sh->evals);
    j.num("distinct", sh->dn).num("distinct_overflow", sh->doverflow).num("crashes", R.crashes).num("hangs", R.hangs);
    j.num("spurious", R.spurious).num("records", sh->records_emitted).num("suppressed", sh->records_suppressed);
    j.num("wall_ms", (std::uint64_t)((now_s() - t0) * 1000.0)).num("asan", VF_ASAN);
    j.emit();
    ::unlink(R.err_path.c_str());
    return 0;
}

} // namespace vf

#define VF_MAIN(PROP, NAME, SPECFN, RUNFN)                                                                             \
    int main(int argc, char** argv) { return vf::run_main(argc, argv, PROP, NAME, SPECFN, RUNFN); }
