// vf_c13.hpp - twin tables for C13 (compile-time evaluation == run-time execution).
//
// For a function object F (a stateless struct wrapping one public tetl call) and a constexpr
// argument table Tab (std::array<Arg, N> with static storage):
//   * probe<F,Tab,I>      - SFINAE-friendly "is F{}(Tab[I]) a constant expression?" (gcc 12: a
//                           non-constant template argument inside a requires-expression is a
//                           substitution failure, not a hard error)
//   * Twin<F,Tab>::ct     - constexpr std::array<Cell<R>, N>; the compiler's constant evaluator
//                           computes F{}(Tab[I]) for every I whose probe holds
//   * run_twin<F,Tab,Cls> - run-time loop: rt = F{}(launder(Tab[i])) (argument copied through
//                           volatile bytes so nothing can be folded), compared with ct[i];
//                           `diverge` records keyed  subject | consteval-vs-runtime | argument CLASS | symptom
// No value, address or index ever enters a key.
#pragma once
#include "vf.hpp"

#include <array>
#include <concepts>
#include <cstdint>
#include <cstdio>
#include <cstring>
#include <limits>
#include <string>
#include <type_traits>
#include <utility>
#include <vector>

namespace c13 {

// ------------------------------------------------------------------ launder
template <typename A>
[[gnu::noinline]] A launder(A const& a)
{
    static_assert(std::is_trivially_copyable_v<A>);
    unsigned char volatile buf[sizeof(A)];
    auto const* s = reinterpret_cast<unsigned char const*>(&a);
    for (std::size_t i = 0; i < sizeof(A); ++i) { buf[i] = s[i]; }
    A r;
    auto* d = reinterpret_cast<unsigned char*>(&r);
    for (std::size_t i = 0; i < sizeof(A); ++i) { d[i] = buf[i]; }
    return r;
}

// ------------------------------------------------------------------ argument packs
template <typename T, int K>
struct Args {
    T a[K];
};

// ------------------------------------------------------------------ probe + twin table
template <int>
struct probe_tag { };

template <typename F, auto const& Tab, std::size_t I>
concept const_evaluable = requires { typename probe_tag<(static_cast<void>(F{}(Tab[I])), 0)>; };

template <typename R>
struct Cell {
    R v;
    bool ok;
};

// evaluates F on Tab[lo, hi); one probe of this covers a whole chunk (one template instantiation instead of hi-lo)
template <typename F, auto const& Tab>
constexpr int eval_range(std::size_t lo, std::size_t hi)
{
    for (std::size_t i = lo; i < hi; ++i) { static_cast<void>(F{}(Tab[i])); }
    return 0;
}
template <typename F, auto const& Tab, std::size_t Lo, std::size_t Hi>
concept chunk_evaluable = requires { typename probe_tag<eval_range<F, Tab>(Lo, Hi)>; };

template <typename F, auto const& Tab, std::size_t CH = 64>
struct Twin {
    using Arg                        = std::remove_cvref_t<decltype(Tab[0])>;
    using R                          = std::remove_cvref_t<decltype(F{}(Tab[0]))>;
    static constexpr std::size_t N   = Tab.size();
    static constexpr std::size_t NCH = (N + CH - 1) / CH;
    using Table                      = std::array<Cell<R>, N>;

    template <std::size_t I>
    static constexpr void cell(Table& out)
    {
        if constexpr (const_evaluable<F, Tab, I>) {
            out[I] = Cell<R>{F{}(Tab[I]), true};
        } else {
            out[I] = Cell<R>{R{}, false};
        }
    }
    template <std::size_t Lo, std::size_t... K>
    static constexpr void cells(Table& out, std::index_sequence<K...>)
    {
        (cell<Lo + K>(out), ...);
    }
    template <std::size_t C>
    static constexpr void chunk(Table& out)
    {
        constexpr std::size_t lo = C * CH;
        constexpr std::size_t hi = lo + CH < N ? lo + CH : N;
        if constexpr (chunk_evaluable<F, Tab, lo, hi>) {
            for (std::size_t i = lo; i < hi; ++i) { out[i] = Cell<R>{F{}(Tab[i]), true}; }
        } else {
            cells<lo>(out, std::make_index_sequence<hi - lo>{}); // isolate the failing cells
        }
    }
    template <std::size_t... C>
    static constexpr Table make(std::index_sequence<C...>)
    {
        Table out{};
        (chunk<C>(out), ...);
        return out;
    }
    // evaluated by the compiler: the initialiser of a constexpr variable is manifestly constant-evaluated
    static constexpr Table ct = make(std::make_index_sequence<NCH>{});
};

// ------------------------------------------------------------------ floating-point helpers (harness side)
template <typename T>
struct FpName;
template <>
struct FpName<float> {
    static constexpr char const* v = "float";
};
template <>
struct FpName<double> {
    static constexpr char const* v = "double";
};
template <>
struct FpName<long double> {
    static constexpr char const* v = "long double";
};

template <typename T>
constexpr bool sgnbit(T x)
{
    return __builtin_signbit(x) != 0;
}
template <typename T>
constexpr bool isnan_(T x)
{
    return x != x;
}
template <typename T>
constexpr bool isinf_(T x)
{
    return x == std::numeric_limits<T>::infinity() || x == -std::numeric_limits<T>::infinity();
}
// identical as floating-point datum (sign of zero and sign of NaN included, NaN payload ignored)
template <typename T>
constexpr bool same_fp(T a, T b)
{
    if (isnan_(a) || isnan_(b)) { return isnan_(a) && isnan_(b) && sgnbit(a) == sgnbit(b); }
    return a == b && sgnbit(a) == sgnbit(b);
}
template <typename T>
constexpr T pow2(int k)
{
    T r = T(1);
    for (; k > 0; --k) { r *= T(2); }
    for (; k < 0; ++k) { r /= T(2); }
    return r;
}
// largest power of two <= x (x positive, normal)
template <typename T>
constexpr T pow2_floor(T x)
{
    T e = T(1);
    if (x >= T(1)) {
        while (x / e >= T(2)) { e *= T(2); }
    } else {
        while (x / e < T(1)) { e /= T(2); }
    }
    return e;
}
// unit in the last place of a positive finite x (exact)
template <typename T>
constexpr T ulp_of(T x)
{
    using L = std::numeric_limits<T>;
    if (x < L::min()) { return L::denorm_min(); }
    T u = pow2_floor(x) * L::epsilon(); // 2^(exp - (p-1)); exact, possibly subnormal
    return u < L::denorm_min() ? L::denorm_min() : u;
}
template <typename T>
constexpr T succ(T x) // next above, x > 0 finite
{
    return x + ulp_of(x);
}
template <typename T>
constexpr T pred(T x) // next below, x > 0 finite
{
    using L = std::numeric_limits<T>;
    T u     = ulp_of(x);
    // at a power of two the spacing below is half the spacing above
    if (x > L::min() && pow2_floor(x) == x && u / T(2) > T(0)) { return x - u / T(2); }
    return x - u;
}

inline std::string fmt_fp(long double x)
{
    char b[96];
    std::snprintf(b, sizeof b, "%La(%.21Lg)", x, x);
    return b;
}

// argument class of one floating-point value; small fixed vocabulary, sign-prefixed
template <typename T>
inline char const* fp_class(T x)
{
    using L          = std::numeric_limits<T>;
    bool const neg   = sgnbit(x);
    auto pick        = [&](char const* n, char const* p) { return neg ? n : p; };
    if (isnan_(x)) { return pick("-nan", "+nan"); }
    if (isinf_(x)) { return pick("-inf", "+inf"); }
    T const a = neg ? -x : x;
    if (a == T(0)) { return pick("-zero", "+zero"); }
    if (a < L::min()) { return pick("-denormal", "+denormal"); }
    if (a < L::epsilon()) { return pick("-tiny(<eps)", "+tiny(<eps)"); }
    if (a < T(0.5)) { return pick("-(eps..0.5)", "+(eps..0.5)"); }
    if (a == T(0.5)) { return pick("-0.5", "+0.5"); }
    if (a < T(1)) { return pick("-(0.5..1)", "+(0.5..1)"); }
    if (a >= pow2<T>(63)) {
        if (a >= pow2<T>(64)) { return pick("-(>=2^64)", "+(>=2^64)"); }
        return pick("-[2^63,2^64)", "+[2^63,2^64)");
    }
    if (a >= pow2<T>(L::digits - 1)) { return pick("-[2^(p-1),2^63)", "+[2^(p-1),2^63)"); }
    // 1 <= a < 2^(p-1): fraction is exactly computable
    T const w = static_cast<T>(static_cast<long long>(a));
    T const f = a - w;
    bool const big = a >= pow2<T>(31);
    if (f == T(0)) { return big ? pick("-integer>=2^31", "+integer>=2^31") : pick("-integer", "+integer"); }
    if (f == T(0.5)) {
        bool const odd = (static_cast<long long>(a) & 1) != 0;
        if (big) { return pick("-half-way>=2^31", "+half-way>=2^31"); }
        return odd ? pick("-half-way(odd)", "+half-way(odd)") : pick("-half-way(even)", "+half-way(even)");
    }
    if (big) { return pick("-fraction>=2^31", "+fraction>=2^31"); }
    return f < T(0.5) ? pick("-fraction<.5", "+fraction<.5") : pick("-fraction>.5", "+fraction>.5");
}
// coarse class for the operands of binary / ternary functions
template <typename T>
inline char const* fp_coarse(T x)
{
    using L        = std::numeric_limits<T>;
    bool const neg = sgnbit(x);
    auto pick      = [&](char const* n, char const* p) { return neg ? n : p; };
    if (isnan_(x)) { return pick("-nan", "+nan"); }
    if (isinf_(x)) { return pick("-inf", "+inf"); }
    T const a = neg ? -x : x;
    if (a == T(0)) { return pick("-0", "+0"); }
    if (a < L::min()) { return pick("-denorm", "+denorm"); }
    if (a >= pow2<T>(63)) { return pick("-huge", "+huge"); }
    return pick("-fin", "+fin");
}

// ------------------------------------------------------------------ result comparison (classified symptoms)
template <typename R>
struct Cmp;

// floating result.  NaN == NaN regardless of sign/payload unless the function is defined on the sign bit.
template <typename T>
    requires std::is_floating_point_v<T>
struct Cmp<T> {
    static std::string show(T v) { return fmt_fp(v); }
    // returns nullptr when equal, else the symptom
    static char const* diff(T ct, T rt, bool nan_sign, T const* arg0)
    {
        bool const cn = isnan_(ct), rn = isnan_(rt);
        if (cn && rn) { return (nan_sign && sgnbit(ct) != sgnbit(rt)) ? "sign-of-nan" : nullptr; }
        if (cn) { return "ct:nan-for-value"; }
        if (rn) { return "ct:value-for-nan"; }
        if (ct == rt) {
            if (sgnbit(ct) == sgnbit(rt)) { return nullptr; }
            return sgnbit(ct) ? "sign-of-zero:ct=-0,rt=+0" : "sign-of-zero:ct=+0,rt=-0";
        }
        if (ct == -rt) { return "sign-flipped"; }
        if (isinf_(ct) && !isinf_(rt)) { return "ct:inf-for-finite"; }
        if (isinf_(rt) && !isinf_(ct)) { return "ct:finite-for-inf"; }
        if (arg0 != nullptr && same_fp(ct, *arg0)) { return "ct:returns-argument"; }
        if (arg0 != nullptr && same_fp(rt, *arg0)) { return "rt:returns-argument"; }
        if (ct - rt == T(1)) { return "ct=rt+1"; }
        if (ct - rt == T(-1)) { return "ct=rt-1"; }
        if (ct == T(0)) { return "ct:zero-for-value"; }
        if (rt == T(0)) { return "ct:value-for-zero"; }
        T const hi = ct > rt ? ct : rt, lo = ct > rt ? rt : ct;
        if (lo > T(0) && succ(lo) == hi) { return "differ-by-1ulp"; }
        if (hi < T(0) && succ(-hi) == -lo) { return "differ-by-1ulp"; }
        return "bits-differ";
    }
};
template <typename I>
    requires std::is_integral_v<I>
struct Cmp<I> {
    static std::string show(I v)
    {
        if constexpr (std::is_same_v<I, bool>) {
            return v ? "true" : "false";
        } else if constexpr (std::is_signed_v<I>) {
            return std::to_string((long long)v);
        } else {
            return std::to_string((unsigned long long)v);
        }
    }
    static char const* diff(I ct, I rt, bool, I const*)
    {
        if (ct == rt) { return nullptr; }
        if constexpr (std::is_same_v<I, bool>) {
            return ct ? "ct:true-for-false" : "ct:false-for-true";
        } else {
            using W = __int128;
            W const d = (W)ct - (W)rt;
            if (d == 1) { return "ct=rt+1"; }
            if (d == -1) { return "ct=rt-1"; }
            if (ct == 0) { return "ct:zero-for-value"; }
            if (rt == 0) { return "ct:value-for-zero"; }
            if ((W)ct == -(W)rt) { return "sign-flipped"; }
            return d > 0 ? "ct:greater" : "ct:less";
        }
    }
};
// digest of a scripted kernel / multi-valued result: fixed array of 64-bit words
template <std::size_t K>
struct Digest {
    std::uint64_t w[K];
    constexpr bool operator==(Digest const&) const = default;
};
template <std::size_t K>
struct Cmp<Digest<K>> {
    static std::string show(Digest<K> const& d)
    {
        std::string s = "[";
        for (std::size_t i = 0; i < K; ++i) {
            s += (i ? "," : "");
            s += std::to_string((long long)d.w[i]);
        }
        return s + "]";
    }
    static char const* diff(Digest<K> const& ct, Digest<K> const& rt, bool, Digest<K> const*)
    {
        if (ct == rt) { return nullptr; }
        static char sym[40];
        for (std::size_t i = 0; i < K; ++i) {
            if (ct.w[i] != rt.w[i]) {
                std::snprintf(sym, sizeof sym, "digest-word-%zu-differs", i);
                return sym;
            }
        }
        return "digest-differs";
    }
};

// ------------------------------------------------------------------ the run-time half
// Cls supplies: static char const* sit(Arg const&); static std::string show(Arg const&);
//               static std::uint64_t hash(Arg const&); static void const* arg0(Arg const&) (or nullptr)
// F supplies:   static constexpr char const* name; constexpr R operator()(Arg const&) const;
//               optional static bool in_domain(Arg const&); optional static constexpr bool nan_sign
template <typename F, typename Arg>
inline bool in_domain(Arg const& a)
{
    if constexpr (requires { F::in_domain(a); }) {
        return F::in_domain(a);
    } else {
        return true;
    }
}
template <typename F>
constexpr bool nan_sign_defined()
{
    if constexpr (requires { F::nan_sign; }) {
        return F::nan_sign;
    } else {
        return false;
    }
}

struct TwinStats {
    std::size_t compared = 0, skipped = 0, not_ce = 0, differ = 0;
};

template <typename F, auto const& Tab, typename Cls, std::size_t CH = 64>
inline TwinStats run_twin(char const* subject, std::size_t lo = 0, std::size_t hi = ~std::size_t{0})
{
    using TW = Twin<F, Tab, CH>;
    using R  = typename TW::R;
    TwinStats st;
    if (hi > TW::N) { hi = TW::N; }
    for (std::size_t i = lo; i < hi; ++i) {
        auto const& arg = Tab[i];
        if (!in_domain<F>(arg)) {
            ++st.skipped;
            continue;
        }
        char const* sit = Cls::sit(arg);
        std::string as  = Cls::show(arg);
        vf::crumb(subject, "consteval-vs-runtime", sit, "%s", as.c_str());
        auto const larg = launder(arg);
        R const rt      = F{}(larg);
        if (!TW::ct[i].ok) {
            // [library.c]/3 (C++23 constexpr <cmath>): a call that would raise a floating-point exception other
            // than FE_INEXACT (overflow, invalid, division by zero) is not required to be a constant expression
            if constexpr (requires { F::raises_fp_exception(arg); }) {
                if (F::raises_fp_exception(arg)) {
                    ++st.skipped;
                    continue;
                }
            }
            ++st.not_ce;
            vf::cover(subject, Cls::hash(arg), true);
            vf::diverge("not-constant-evaluable", "constant evaluation fails; run time returns " + Cmp<R>::show(rt),
                "a constant expression");
            continue;
        }
        vf::cover(subject, Cls::hash(arg), true);
        ++st.compared;
        R const ct = TW::ct[i].v;
        R const* a0 = nullptr;
        if constexpr (requires { { Cls::arg0(arg) } -> std::same_as<R const*>; }) { a0 = Cls::arg0(arg); }
        if (char const* sym = Cmp<R>::diff(ct, rt, nan_sign_defined<F>(), a0)) {
            ++st.differ;
            vf::diverge(sym, "compile-time " + Cmp<R>::show(ct), "run-time " + Cmp<R>::show(rt));
        }
        if (vf::want_sample(subject)) {
            vf::sample(subject, "%s(%s): compile-time %s, run-time %s", F::name, as.c_str(),
                TW::ct[i].ok ? Cmp<R>::show(ct).c_str() : "n/a", Cmp<R>::show(rt).c_str());
        }
    }
    return st;
}

// A unit is a list of entries (one function<type> each).  One enumerated case = one slice of kCaseCells table rows of
// one entry, so a crash inside a table loses at most that slice (the runner forks per case: Spec.batch = 1).
struct Entry {
    std::string subject;
    std::size_t n; // table rows
    TwinStats (*run)(char const*, std::size_t, std::size_t);
};
constexpr std::size_t kCaseCells = 512;
inline std::uint64_t total_cases(std::vector<Entry> const& es)
{
    std::uint64_t t = 0;
    for (auto const& e : es) { t += (e.n + kCaseCells - 1) / kCaseCells; }
    return t;
}
inline void run_case_index(std::vector<Entry> const& es, std::uint64_t idx)
{
    for (auto const& e : es) {
        std::uint64_t const c = (e.n + kCaseCells - 1) / kCaseCells;
        if (idx < c) {
            e.run(e.subject.c_str(), (std::size_t)idx * kCaseCells, (std::size_t)(idx + 1) * kCaseCells);
            return;
        }
        idx -= c;
    }
}
template <typename F, auto const& Tab, typename Cls, std::size_t CH>
inline Entry make_entry(std::string subject)
{
    return Entry{std::move(subject), Tab.size(), &run_twin<F, Tab, Cls, CH>};
}

} // namespace c13
