// vf_tracked.hpp - instrumented element type + lifetime registry (DESIGN 3.1)
// Every special member consults a registry keyed by `this`.  Illegal
// transitions become `lifetime` records keyed by the operation in flight
// (the breadcrumb), they do not abort: the run continues so all of them are seen.
#pragma once
#include "vf.hpp"

#include <unordered_map>
#include <utility>

namespace vf {

struct Registry {
    struct Info {
        int value;
        std::uint64_t id;
    };
    std::unordered_map<void const*, Info> live;
    std::uint64_t next_id = 1;
    std::uint64_t ctors = 0, dtors = 0, copies = 0, moves = 0, assigns = 0;
    bool suspended = false; // alloc-trap flavour: registry's own allocations are exempt

    void reset()
    {
        live.clear();
        ctors = dtors = copies = moves = assigns = 0;
    }
    void violation(char const* sym, void const* p, char const* detail)
    {
        char obs[160];
        std::snprintf(obs, sizeof obs, "%s (object #%llu)", detail, (unsigned long long)(live.count(p) ? live[p].id : 0));
        record("lifetime", sym, obs, "each object constructed once, used while live, destroyed once");
    }
    void on_ctor(void const* p, int v)
    {
        ++ctors;
        auto it = live.find(p);
        if (it != live.end()) {
            violation("construct-over-live", p, "constructor ran on storage holding a live object");
            it->second = Info{v, next_id++};
            return;
        }
        live.emplace(p, Info{v, next_id++});
    }
    void on_dtor(void const* p)
    {
        ++dtors;
        auto it = live.find(p);
        if (it == live.end()) {
            violation("destroy-not-live", p, "destructor ran on storage that holds no live object");
            return;
        }
        live.erase(it);
    }
    bool check_live(void const* p, char const* sym, char const* detail)
    {
        if (live.find(p) == live.end()) {
            violation(sym, p, detail);
            return false;
        }
        return true;
    }
    // the payload of a live object only changes through its own special members (which call set_value): a different payload at a live
    // address means the bytes were copied or swapped behind the object's back (bytewise relocation of a non-trivial object)
    void check_bytes(void const* p, int v)
    {
        auto it = live.find(p);
        if (it != live.end() && it->second.value != v) {
            violation("bytes-changed-without-a-special-member", p, "the object's payload differs from what its own constructors/assignments stored (bytewise copy/swap of a non-trivial object)");
            it->second.value = v;
        }
    }
    void set_value(void const* p, int v)
    {
        auto it = live.find(p);
        if (it != live.end()) { it->second.value = v; }
    }
    std::size_t live_count() const { return live.size(); }
    std::size_t live_in(void const* lo, void const* hi) const
    {
        std::size_t n = 0;
        for (auto const& kv : live) {
            if (kv.first >= lo && kv.first < hi) { ++n; }
        }
        return n;
    }
};
inline Registry& registry()
{
    static Registry r;
    return r;
}

enum TrackedPolicy { kCopyMove = 0, kMoveOnly = 1, kCopyOnly = 2 };
constexpr int kMovedFrom = -777;
constexpr int kSelfMoved = -555;
// opt-in (per harness): self-move-assignment damages the element.  Only final values may be judged with it: a move-based self-swap
// (tmp = move(a); a = move(a); a = move(tmp)) passes through the damaged state and ends with the right value.
inline bool& self_move_poisons()
{
    static bool b = false;
    return b;
}
constexpr int kDeadValue = -999;

template <int Policy, int Family = 0>
struct Tracked;

template <int Family>
struct Tracked<kCopyMove, Family> {
    int v;
    Tracked() noexcept : v(0) { registry().on_ctor(this, v); }
    Tracked(int x) noexcept : v(x) { registry().on_ctor(this, v); } // NOLINT implicit on purpose
    Tracked(Tracked const& o) noexcept : v(o.v)
    {
        registry().copies++;
        registry().check_live(&o, "copy-from-not-live", "copy constructor read a source that is not live");
        registry().on_ctor(this, v);
    }
    Tracked(Tracked&& o) noexcept : v(o.v)
    {
        registry().moves++;
        registry().check_live(&o, "move-from-not-live", "move constructor read a source that is not live");
        registry().on_ctor(this, v);
        o.v = kMovedFrom;
        registry().set_value(&o, kMovedFrom);
    }
    auto operator=(Tracked const& o) noexcept -> Tracked&
    {
        registry().assigns++;
        registry().check_live(this, "assign-to-not-live", "copy assignment ran on a target that is not live");
        registry().check_live(&o, "assign-from-not-live", "copy assignment read a source that is not live");
        v = o.v;
        registry().set_value(this, v);
        return *this;
    }
    auto operator=(Tracked&& o) noexcept -> Tracked&
    {
        registry().assigns++;
        registry().check_live(this, "assign-to-not-live", "move assignment ran on a target that is not live");
        registry().check_live(&o, "assign-from-not-live", "move assignment read a source that is not live");
        if (this != &o) {
            v   = o.v;
            o.v = kMovedFrom;
            registry().set_value(&o, kMovedFrom);
        } else if (self_move_poisons()) {
            v = kSelfMoved; // like a handle that releases its resource before taking the source's: x = move(x) leaves an emptied object
        }
        registry().set_value(this, v);
        return *this;
    }
    ~Tracked() noexcept
    {
        registry().on_dtor(this);
        v = kDeadValue;
    }
    int value() const noexcept
    {
        if (registry().check_live(this, "use-not-live", "value read from an object that is not live")) { registry().check_bytes(this, v); }
        return v;
    }
    friend bool operator==(Tracked const& a, Tracked const& b) noexcept { return a.value() == b.value(); }
    friend bool operator!=(Tracked const& a, Tracked const& b) noexcept { return a.value() != b.value(); }
    friend bool operator<(Tracked const& a, Tracked const& b) noexcept { return a.value() < b.value(); }
    friend bool operator<=(Tracked const& a, Tracked const& b) noexcept { return a.value() <= b.value(); }
    friend bool operator>(Tracked const& a, Tracked const& b) noexcept { return a.value() > b.value(); }
    friend bool operator>=(Tracked const& a, Tracked const& b) noexcept { return a.value() >= b.value(); }
};

template <int Family>
struct Tracked<kMoveOnly, Family> {
    int v;
    Tracked() noexcept : v(0) { registry().on_ctor(this, v); }
    Tracked(int x) noexcept : v(x) { registry().on_ctor(this, v); } // NOLINT
    Tracked(Tracked const&)                    = delete;
    auto operator=(Tracked const&) -> Tracked& = delete;
    Tracked(Tracked&& o) noexcept : v(o.v)
    {
        registry().moves++;
        registry().check_live(&o, "move-from-not-live", "move constructor read a source that is not live");
        registry().on_ctor(this, v);
        o.v = kMovedFrom;
        registry().set_value(&o, kMovedFrom);
    }
    auto operator=(Tracked&& o) noexcept -> Tracked&
    {
        registry().assigns++;
        registry().check_live(this, "assign-to-not-live", "move assignment ran on a target that is not live");
        registry().check_live(&o, "assign-from-not-live", "move assignment read a source that is not live");
        if (this != &o) {
            v   = o.v;
            o.v = kMovedFrom;
            registry().set_value(&o, kMovedFrom);
        } else if (self_move_poisons()) {
            v = kSelfMoved; // like a handle that releases its resource before taking the source's: x = move(x) leaves an emptied object
        }
        registry().set_value(this, v);
        return *this;
    }
    ~Tracked() noexcept
    {
        registry().on_dtor(this);
        v = kDeadValue;
    }
    int value() const noexcept
    {
        if (registry().check_live(this, "use-not-live", "value read from an object that is not live")) { registry().check_bytes(this, v); }
        return v;
    }
    friend bool operator==(Tracked const& a, Tracked const& b) noexcept { return a.value() == b.value(); }
    friend bool operator!=(Tracked const& a, Tracked const& b) noexcept { return a.value() != b.value(); }
    friend bool operator<(Tracked const& a, Tracked const& b) noexcept { return a.value() < b.value(); }
    friend bool operator<=(Tracked const& a, Tracked const& b) noexcept { return a.value() <= b.value(); }
    friend bool operator>(Tracked const& a, Tracked const& b) noexcept { return a.value() > b.value(); }
    friend bool operator>=(Tracked const& a, Tracked const& b) noexcept { return a.value() >= b.value(); }
};

// copy-only: no move operations are declared, so rvalues fall back to the copy members
template <int Family>
struct Tracked<kCopyOnly, Family> {
    int v;
    Tracked() noexcept : v(0) { registry().on_ctor(this, v); }
    Tracked(int x) noexcept : v(x) { registry().on_ctor(this, v); } // NOLINT
    Tracked(Tracked const& o) noexcept : v(o.v)
    {
        registry().copies++;
        registry().check_live(&o, "copy-from-not-live", "copy constructor read a source that is not live");
        registry().on_ctor(this, v);
    }
    auto operator=(Tracked const& o) noexcept -> Tracked&
    {
        registry().assigns++;
        registry().check_live(this, "assign-to-not-live", "copy assignment ran on a target that is not live");
        registry().check_live(&o, "assign-from-not-live", "copy assignment read a source that is not live");
        v = o.v;
        registry().set_value(this, v);
        return *this;
    }
    ~Tracked() noexcept
    {
        registry().on_dtor(this);
        v = kDeadValue;
    }
    int value() const noexcept
    {
        if (registry().check_live(this, "use-not-live", "value read from an object that is not live")) { registry().check_bytes(this, v); }
        return v;
    }
    friend bool operator==(Tracked const& a, Tracked const& b) noexcept { return a.value() == b.value(); }
    friend bool operator!=(Tracked const& a, Tracked const& b) noexcept { return a.value() != b.value(); }
    friend bool operator<(Tracked const& a, Tracked const& b) noexcept { return a.value() < b.value(); }
    friend bool operator<=(Tracked const& a, Tracked const& b) noexcept { return a.value() <= b.value(); }
    friend bool operator>(Tracked const& a, Tracked const& b) noexcept { return a.value() > b.value(); }
    friend bool operator>=(Tracked const& a, Tracked const& b) noexcept { return a.value() >= b.value(); }
};

using TCM = Tracked<kCopyMove>;
using TMO = Tracked<kMoveOnly>;
using TCO = Tracked<kCopyOnly>;

// value extraction that works for int and Tracked alike
inline int val(int x) { return x; }
template <int P, int F>
inline int val(Tracked<P, F> const& t)
{
    return t.value();
}

// at the end of a scope in which every owner has been destroyed
inline void expect_no_live(char const* where)
{
    std::size_t n = registry().live_count();
    if (n != 0) {
        char obs[96];
        std::snprintf(obs, sizeof obs, "%zu object(s) still live at %s", n, where);
        record("lifetime", "leak", obs, "0 live objects once every owner is destroyed");
        registry().reset();
    }
}
// while an owner is alive: exactly `expected` live objects inside its footprint
inline void expect_live_in(void const* owner, std::size_t bytes, std::size_t expected, char const* sym = "live-count-in-owner")
{
    auto const* lo = static_cast<unsigned char const*>(owner);
    std::size_t n  = registry().live_in(lo, lo + bytes);
    if (n != expected) {
        char obs[96], exp[96];
        std::snprintf(obs, sizeof obs, "%zu live object(s) inside the owner", n);
        std::snprintf(exp, sizeof exp, "%zu (the model's element count)", expected);
        record("lifetime", n > expected ? "extra-live-in-owner" : "missing-live-in-owner", obs, exp);
    }
}

} // namespace vf
