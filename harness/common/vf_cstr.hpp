// vf_cstr.hpp - helpers shared by the C18 harnesses (C-library reimplementations vs glibc).
//   * opaque(): optimisation barrier for pointers/values handed to either side
//   * Img<Ch>: two identical exact-size heap images (one for etl, one for glibc) compared whole
//   * eq_off(): pointer results compared as offset-or-null with a classified symptom
//   * string enumeration over a small alphabet, printable dumps
#pragma once
#include "vf.hpp"

#include <string>
#include <vector>

namespace vfc {

template <typename T>
[[gnu::always_inline]] inline T opaque(T v)
{
    asm volatile("" : "+r"(v) : : "memory");
    return v;
}

template <typename Ch>
inline std::string show_ch(Ch c)
{
    using U = std::make_unsigned_t<Ch>;
    auto u  = static_cast<unsigned long>(static_cast<U>(c));
    char b[24];
    if (u >= 0x21 && u < 0x7f && u != '\\' && u != '\'') {
        std::snprintf(b, sizeof b, "%c", (int)u);
    } else if (u == 0) {
        std::snprintf(b, sizeof b, "\\0");
    } else {
        std::snprintf(b, sizeof b, "\\x%lX", u);
    }
    return b;
}
template <typename Ch>
inline std::string show(Ch const* p, std::size_t n)
{
    std::string o = "'";
    for (std::size_t i = 0; i < n && i < 80; ++i) { o += show_ch(p[i]); }
    if (n > 80) { o += "..."; }
    return o + "'";
}
template <typename Ch>
inline std::string show(std::basic_string<Ch> const& s)
{
    return show(s.data(), s.size());
}
template <typename Ch>
inline std::uint64_t hash(std::basic_string<Ch> const& s)
{
    return vf::fnv_bytes(s.data(), s.size() * sizeof(Ch)) + s.size();
}

// k-th string over an alphabet of size A (symbols 0..A-1 mapped by `sym`), lengths 0..maxlen, shortlex
template <typename Ch, typename Sym>
inline std::basic_string<Ch> nth_string(std::uint64_t k, unsigned A, unsigned maxlen, Sym sym)
{
    std::uint64_t cnt = 1;
    for (unsigned len = 0; len <= maxlen; ++len, cnt *= A) {
        if (k < cnt) {
            std::basic_string<Ch> s(len, sym(0));
            for (unsigned i = 0; i < len; ++i) {
                s[len - 1 - i] = sym((unsigned)(k % A));
                k /= A;
            }
            return s;
        }
        k -= cnt;
    }
    return {};
}
inline std::uint64_t count_strings(unsigned A, unsigned maxlen)
{
    std::uint64_t t = 0, c = 1;
    for (unsigned l = 0; l <= maxlen; ++l, c *= A) { t += c; }
    return t;
}

// exact-size read-only source: the elements of `s` (+ terminator when `terminated`) and nothing else
template <typename Ch>
struct Src {
    vf::Buf<Ch> b;
    explicit Src(std::basic_string<Ch> const& s, bool terminated = true) : b(s.size() + (terminated ? 1 : 0))
    {
        for (std::size_t i = 0; i < s.size(); ++i) { b[i] = s[i]; }
        if (terminated) { b[s.size()] = Ch(0); }
        snap.assign(b.data(), b.data() + b.size());
    }
    Ch* p() { return opaque(b.data()); }
    Ch const* cp() { return opaque(static_cast<Ch const*>(b.data())); }
    // sources must never be modified
    void check(char const* what)
    {
        b.check(what);
        for (std::size_t i = 0; i < snap.size(); ++i) {
            if (b[i] != snap[i]) {
                vf::diverge("source-modified", show(b.data(), b.size()), show(snap.data(), snap.size()));
                return;
            }
        }
    }
    std::vector<Ch> snap;
};

// two identical images; etl works on e, glibc on g
template <typename Ch>
struct Img {
    vf::Buf<Ch> e, g;
    explicit Img(std::vector<Ch> const& v) : e(v.size()), g(v.size())
    {
        for (std::size_t i = 0; i < v.size(); ++i) {
            e[i] = v[i];
            g[i] = v[i];
        }
    }
    std::size_t size() const { return e.size(); }
    // compare whole images; [lo,hi) is the extent C says the call writes
    bool same(char const* name, std::size_t lo, std::size_t hi)
    {
        e.check("destination");
        for (std::size_t i = 0; i < e.size(); ++i) {
            if (e[i] != g[i]) {
                char sym[96];
                char const* where = i < lo ? "before-extent" : (i < hi ? "inside-extent" : "after-extent");
                char const* what  = e[i] == Ch(0) ? "zero-for-value" : (g[i] == Ch(0) ? "value-for-zero" : "value");
                std::snprintf(sym, sizeof sym, "%s:%s,%s", name, where, what);
                vf::diverge(sym, show(e.data(), e.size()), show(g.data(), g.size()));
                return false;
            }
        }
        return true;
    }
};

// pointer result as offset from base, -1 for null
template <typename Ch>
inline long long off(Ch const* r, Ch const* base)
{
    return r == nullptr ? -1 : static_cast<long long>(r - base);
}
inline bool eq_off(char const* name, long long obs, long long exp)
{
    if (obs == exp) { return true; }
    char sym[96];
    long long d = obs - exp;
    if (obs == -1) {
        std::snprintf(sym, sizeof sym, "%s:null-for-ptr", name);
    } else if (exp == -1) {
        std::snprintf(sym, sizeof sym, "%s:ptr-for-null", name);
    } else if (d >= -2 && d <= 2) {
        std::snprintf(sym, sizeof sym, "%s:off%+lld", name, d);
    } else {
        std::snprintf(sym, sizeof sym, "%s:off-%s", name, d > 0 ? "greater" : "less");
    }
    vf::diverge(sym, obs == -1 ? std::string("null") : "base+" + vf::to_s(obs), exp == -1 ? std::string("null") : "base+" + vf::to_s(exp));
    return false;
}

} // namespace vfc
