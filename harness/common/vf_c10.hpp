// vf_c10.hpp - shared helpers for the C10 monitors (integer <-> text conversion):
// type table, 128-bit reference formatter, boundary value lists, errc names, buffer pool.
#pragma once
#include "vf.hpp"

#include <cstdint>
#include <limits>
#include <memory>
#include <string>
#include <system_error>
#include <type_traits>
#include <vector>

namespace c10 {

using i128 = __int128;
using u128 = unsigned __int128;

// ---------------------------------------------------------------- type table
template <typename T>
struct Tag {
    using type = T;
    char const* name;
    unsigned index;
};

constexpr unsigned kTypes = 11;
inline char const* const kTypeNames[kTypes] = {"int8_t", "uint8_t", "char", "int16_t", "uint16_t", "int32_t", "uint32_t", "int64_t",
    "uint64_t", "long long", "unsigned long long"};
// 0..2 : 8 bit, 3..4 : 16 bit, 5..10 : 32/64 bit
template <typename F>
void with_type(unsigned ti, F&& f)
{
    switch (ti) {
    case 0: f(Tag<signed char>{kTypeNames[0], 0}); break;
    case 1: f(Tag<unsigned char>{kTypeNames[1], 1}); break;
    case 2: f(Tag<char>{kTypeNames[2], 2}); break;
    case 3: f(Tag<short>{kTypeNames[3], 3}); break;
    case 4: f(Tag<unsigned short>{kTypeNames[4], 4}); break;
    case 5: f(Tag<int>{kTypeNames[5], 5}); break;
    case 6: f(Tag<unsigned>{kTypeNames[6], 6}); break;
    case 7: f(Tag<long>{kTypeNames[7], 7}); break;
    case 8: f(Tag<unsigned long>{kTypeNames[8], 8}); break;
    case 9: f(Tag<long long>{kTypeNames[9], 9}); break;
    default: f(Tag<unsigned long long>{kTypeNames[10], 10}); break;
    }
}

template <typename T>
constexpr i128 tmin() { return (i128)std::numeric_limits<T>::min(); }
template <typename T>
constexpr i128 tmax() { return (i128)std::numeric_limits<T>::max(); }
template <typename T>
constexpr bool fits(i128 v) { return v >= tmin<T>() && v <= tmax<T>(); }

// ---------------------------------------------------------------- reference formatter (independent of std/etl)
inline char digit_char(unsigned d, bool upper = false) { return (char)(d < 10 ? '0' + d : (upper ? 'A' : 'a') + (d - 10)); }
inline std::string fmt_u128(u128 v, int base, bool upper = false)
{
    if (v == 0) { return "0"; }
    std::string s;
    while (v != 0) {
        s.insert(s.begin(), digit_char((unsigned)(v % (unsigned)base), upper));
        v /= (unsigned)base;
    }
    return s;
}
inline std::string fmt_i128(i128 v, int base, bool upper = false)
{
    if (v < 0) { return "-" + fmt_u128((u128)0 - (u128)v, base, upper); }
    return fmt_u128((u128)v, base, upper);
}
inline std::string show(std::string const& s)
{
    std::string o = "'";
    for (unsigned char c : s) {
        if (c >= 0x20 && c < 0x7f && c != '\\' && c != '\'') {
            o += (char)c;
        } else {
            char b[8];
            std::snprintf(b, sizeof b, "\\x%02X", c);
            o += b;
        }
    }
    return o + "'";
}

// ---------------------------------------------------------------- boundary values of T for a base (DESIGN 4 C10)
// base^k, base^k +- 1 (both signs), limits, limits +- 1 inside, limit/base +- 1, and [-around, +around]
template <typename T>
std::vector<T> boundary_values(int base, int around)
{
    std::vector<T> out;
    auto add = [&](i128 v) {
        if (fits<T>(v)) { out.push_back((T)v); }
    };
    i128 const mx = tmax<T>(), mn = tmin<T>();
    for (i128 p = 1; p <= mx; p *= base) {
        for (int d = -1; d <= 1; ++d) {
            add(p + d);
            add(-(p + d));
        }
        if (p > mx / base) {
            // next power is not representable as positive; the negative one may be (-(2^(w-1)))
            add(-(p * base));
            add(-(p * base) + 1);
            break;
        }
    }
    for (int d = -2; d <= 2; ++d) {
        add(mx + d);
        add(mn + d);
        add(mx / base + d);
        add(mn / base + d);
        add(mx / 2 + d);
    }
    for (int v = -around; v <= around; ++v) { add(v); }
    return out;
}

// random value of T with a uniformly chosen bit width (so short and long digit strings are equally likely)
template <typename T>
T random_value(vf::Rng& r)
{
    using U        = std::make_unsigned_t<T>;
    unsigned bits  = (unsigned)r.below(sizeof(T) * 8 + 1);
    std::uint64_t m = bits == 0 ? 0 : (bits >= 64 ? ~0ull : ((1ull << bits) - 1));
    U u            = (U)(r.next() & m);
    if (std::is_signed_v<T> && r.coin()) { u = (U)(0 - u); }
    return (T)u;
}

// ---------------------------------------------------------------- errc names (symbolic comparison; numbering differs between etl and errno)
enum class Ec { ok, invalid_argument, result_out_of_range, value_too_large, other };
inline char const* ec_name(Ec e)
{
    switch (e) {
    case Ec::ok: return "ok";
    case Ec::invalid_argument: return "invalid_argument";
    case Ec::result_out_of_range: return "result_out_of_range";
    case Ec::value_too_large: return "value_too_large";
    default: return "other";
    }
}
inline Ec ec_of(std::errc e)
{
    if (e == std::errc{}) { return Ec::ok; }
    if (e == std::errc::invalid_argument) { return Ec::invalid_argument; }
    if (e == std::errc::result_out_of_range) { return Ec::result_out_of_range; }
    if (e == std::errc::value_too_large) { return Ec::value_too_large; }
    return Ec::other;
}
template <typename EtlErrc>
Ec ec_of_etl(EtlErrc e)
{
    if (e == EtlErrc{}) { return Ec::ok; }
    if (e == EtlErrc::invalid_argument) { return Ec::invalid_argument; }
    if (e == EtlErrc::result_out_of_range) { return Ec::result_out_of_range; }
    if (e == EtlErrc::value_too_large) { return Ec::value_too_large; }
    return Ec::other;
}
inline bool eq_ec(char const* name, Ec obs, Ec exp)
{
    if (obs == exp) { return true; }
    char sym[96];
    std::snprintf(sym, sizeof sym, "%s:%s-for-%s", name, ec_name(obs), ec_name(exp));
    vf::diverge(sym, ec_name(obs), ec_name(exp));
    return false;
}

// ---------------------------------------------------------------- exact-size buffer pool: one vf::Buf<char> per length
struct Pool {
    std::vector<std::unique_ptr<vf::Buf<char>>> b;
    vf::Buf<char>& get(std::size_t n)
    {
        if (b.size() <= n) { b.resize(n + 1); }
        if (!b[n]) { b[n] = std::make_unique<vf::Buf<char>>(n); }
        return *b[n];
    }
    // exact-size block holding s (no terminator)
    vf::Buf<char>& view(std::string const& s)
    {
        auto& x = get(s.size());
        if (!s.empty()) { std::memcpy(x.data(), s.data(), s.size()); }
        return x;
    }
    // exact-size block holding s + '\0' as its last byte
    vf::Buf<char>& cstr(std::string const& s)
    {
        auto& x = get(s.size() + 1);
        if (!s.empty()) { std::memcpy(x.data(), s.data(), s.size()); }
        x[s.size()] = '\0';
        return x;
    }
};

// canary check that repairs the bands afterwards, so one overrun is reported once and
// does not make every later check of the pooled block fire as well
inline void check_and_repair(vf::Buf<char>& b, char const* what)
{
    if (b.intact()) { return; }
    b.check(what);
    if (b.band) {
        std::memset(b.raw, 0xA5, b.band);
        std::memset(b.raw + b.band + b.n, 0xA5, b.band);
    }
}

inline char const* base_cls(int base) { return base == 10 ? "base10" : "base!=10"; }

// per-case eval counters, flushed once through vf::cover_bulk (slot() once, then bump by index)
struct Counts {
    struct E {
        std::string label;
        std::uint64_t n = 0;
    };
    std::vector<E> v;
    std::uint64_t h;
    explicit Counts(std::uint64_t hash) : h(hash) { }
    Counts(Counts const&)            = delete;
    Counts& operator=(Counts const&) = delete;
    std::size_t slot(std::string const& label)
    {
        for (std::size_t i = 0; i < v.size(); ++i) {
            if (v[i].label == label) { return i; }
        }
        v.push_back({label, 0});
        return v.size() - 1;
    }
    void bump(std::size_t i, std::uint64_t n = 1) { v[i].n += n; }
    // every (value, base, length | input) tuple of a case is distinct by construction of the loops that bump
    // the counters; a few hashes per label go into the shared distinct set, the remainder is reported
    // through the same "bulk" record vf::cover_bulk uses (the per-shard set would overflow otherwise)
    void flush()
    {
        std::uint64_t rest = 0;
        for (std::size_t i = 0; i < v.size(); ++i) {
            if (v[i].n) {
                std::uint64_t const reg = v[i].n < 8 ? v[i].n : 8;
                vf::cover_bulk(v[i].label.c_str(), v[i].n, vf::mix(h, i), reg);
                rest += v[i].n - reg;
            }
            v[i].n = 0;
        }
        // every flavour of a unit executes the same tuples (the ASan quick build a subset): count them once, from the plain build
        if (rest && vf::g().sh && !VF_ASAN) { vf::Json().str("k", "bulk").str("label", "C10-case").num("n", 0).num("distinct", rest).emit(); }
    }
    ~Counts() { flush(); }
};

} // namespace c10
