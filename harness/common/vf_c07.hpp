// vf_c07.hpp - shared pieces of the C07 monitors (optional / variant / expected vs the std types).
//
// Twin-world scheme: every operation is written ONCE as a member template of a World<NS,...> class
// parameterised on a namespace-traits type (c07::Std or c07::Etl), so that the std object and the etl
// object are driven by literally the same source text.  An operation appends named integers to an Obs
// trace (returned values, observer results, state of the source operand after a move, visitor call log);
// the two traces are compared item by item and the item name becomes the symptom part of the key.
#pragma once
#include "vf.hpp"
#include "vf_tracked.hpp"

#include <etl/expected.hpp>
#include <etl/optional.hpp>
#include <etl/utility.hpp>
#include <etl/variant.hpp>

#include <cstddef>
#include <optional>
#include <variant>
#if __cplusplus > 202002L
    #include <expected>
#endif
#include <string>
#include <type_traits>
#include <utility>

namespace c07 {
using vf::TCM;
using vf::TMO;
using TCM2 = vf::Tracked<vf::kCopyMove, 1>;
using PairII = etl::pair<int, int>; // same payload type on both sides: only the owner differs

// string-like payload: non-trivial special members through a std::string member, ordered, implicitly made from int
struct StrLike {
    std::string s;
    StrLike() = default;
    StrLike(int v) : s(static_cast<std::size_t>(v >= 0 && v < 8 ? v + 1 : 9), static_cast<char>('a' + (v >= 0 && v < 8 ? v : 8))) { } // NOLINT implicit on purpose
    friend bool operator==(StrLike const& a, StrLike const& b) { return a.s == b.s; }
    friend bool operator!=(StrLike const& a, StrLike const& b) { return a.s != b.s; }
    friend bool operator<(StrLike const& a, StrLike const& b) { return a.s < b.s; }
    friend bool operator<=(StrLike const& a, StrLike const& b) { return a.s <= b.s; }
    friend bool operator>(StrLike const& a, StrLike const& b) { return a.s > b.s; }
    friend bool operator>=(StrLike const& a, StrLike const& b) { return a.s >= b.s; }
};
static_assert(std::is_nothrow_move_constructible_v<StrLike>);

// ---------------------------------------------------------------- value encoding (payload -> integer)
inline long long enc(int x) { return x; }
inline long long enc(long x) { return x; }
inline long long enc(short x) { return x; }
inline long long enc(char x) { return 1000 + x; }
inline long long enc(bool x) { return x ? 1 : 0; }
inline long long enc(double x) { return (long long)(x * 2); }
template <int P, int F>
inline long long enc(vf::Tracked<P, F> const& t)
{
    return t.value();
}
inline long long enc(PairII const& p) { return p.first * 16 + p.second; }
inline long long enc(StrLike const& x) { return x.s.empty() ? -1 : (long long)(x.s[0] - 'a'); } // empty = moved-from / default

// payload of type T carrying value code v (0..2); arg(v) is what is handed to emplace / in_place constructors
template <typename T>
struct Make {
    static T of(int v) { return T(v); }
    static int arg(int v) { return v; }
    static T from_enc(long long e) { return T((int)e); }
};
template <>
struct Make<char> {
    static char of(int v) { return (char)v; }
    static int arg(int v) { return v; }
    static char from_enc(long long e) { return (char)(e - 1000); }
};
template <>
struct Make<StrLike> {
    static StrLike of(int v) { return StrLike(v); }
    static int arg(int v) { return v; }
    static StrLike from_enc(long long e) { return e < 0 ? StrLike() : StrLike((int)e); }
};
template <>
struct Make<PairII> {
    static PairII of(int v) { return PairII{v, (v * 2) % 3}; }
    static PairII arg(int v) { return of(v); }
    static PairII from_enc(long long e) { return PairII{(int)(e / 16), (int)(e % 16)}; }
};

// small integer naming a payload type in visitor logs
template <typename T>
constexpr int tid()
{
    if constexpr (std::is_same_v<T, int>) {
        return 0;
    } else if constexpr (std::is_same_v<T, char>) {
        return 1;
    } else if constexpr (std::is_same_v<T, PairII>) {
        return 2;
    } else if constexpr (std::is_same_v<T, TCM>) {
        return 3;
    } else if constexpr (std::is_same_v<T, TCM2>) {
        return 4;
    } else if constexpr (std::is_same_v<T, TMO>) {
        return 5;
    } else if constexpr (std::is_same_v<T, StrLike>) {
        return 6;
    } else {
        return 9;
    }
}

// ---------------------------------------------------------------- observation trace
struct Obs {
    enum Kind : unsigned char { kInt, kBool };
    struct Item {
        char const* name;
        long long v;
        Kind kind;
    };
    static constexpr unsigned kMax = 160;
    Item it[kMax];
    unsigned n = 0;
    void i(char const* name, long long v)
    {
        if (n < kMax) { it[n++] = Item{name, v, kInt}; }
    }
    void b(char const* name, bool v)
    {
        if (n < kMax) { it[n++] = Item{name, v ? 1 : 0, kBool}; }
    }
};

// compares the etl trace with the std trace; returns true when identical
inline bool compare(Obs const& e, Obs const& s)
{
    bool ok    = true;
    unsigned n = e.n < s.n ? e.n : s.n;
    for (unsigned k = 0; k < n; ++k) {
        if (s.it[k].name != e.it[k].name && std::strcmp(s.it[k].name, e.it[k].name) != 0) {
            vf::diverge("trace-shape", e.it[k].name, s.it[k].name); // the two libraries took different observation paths
            return false;
        }
        if (s.it[k].kind == Obs::kBool) {
            ok &= vf::eq_bool(s.it[k].name, e.it[k].v != 0, s.it[k].v != 0);
        } else {
            ok &= vf::eq_int(s.it[k].name, e.it[k].v, s.it[k].v);
        }
    }
    if (e.n != s.n) {
        // every helper emits a fixed shape (absent values are written as kAbsent), so this cannot happen unless an
        // operation is compiled differently for the two libraries: report it as a divergence, never swallow it
        vf::diverge("trace-shape", vf::to_s(e.n), vf::to_s(s.n));
        ok = false;
    }
    return ok;
}
constexpr long long kAbsent = -1000; // "no value to read" (empty optional, inactive alternative, other arm of expected)

// value category of the argument a callable / visitor received
template <typename A>
constexpr int category()
{
    // 0 T&, 1 T const&, 2 T&&, 3 T const&&
    constexpr bool c = std::is_const_v<std::remove_reference_t<A>>;
    constexpr bool r = std::is_rvalue_reference_v<A> || !std::is_reference_v<A>;
    return (r ? 2 : 0) + (c ? 1 : 0);
}

// runtime index -> integral_constant
template <std::size_t N, typename F>
inline void with_index(std::size_t i, F&& f)
{
    [&]<std::size_t... Is>(std::index_sequence<Is...>) {
        (void)((i == Is ? (f(std::integral_constant<std::size_t, Is>{}), true) : false) || ...);
    }(std::make_index_sequence<N>{});
}

// the six relations in both argument orders
inline constexpr char const* kRelFwd[6] = {"a==b", "a!=b", "a<b", "a<=b", "a>b", "a>=b"};
inline constexpr char const* kRelRev[6] = {"b==a", "b!=a", "b<a", "b<=a", "b>a", "b>=a"};
template <typename A, typename B>
inline void rel6(Obs& r, A const& a, B const& b)
{
    r.b(kRelFwd[0], a == b);
    r.b(kRelFwd[1], a != b);
    r.b(kRelFwd[2], a < b);
    r.b(kRelFwd[3], a <= b);
    r.b(kRelFwd[4], a > b);
    r.b(kRelFwd[5], a >= b);
    r.b(kRelRev[0], b == a);
    r.b(kRelRev[1], b != a);
    r.b(kRelRev[2], b < a);
    r.b(kRelRev[3], b <= a);
    r.b(kRelRev[4], b > a);
    r.b(kRelRev[5], b >= a);
}

// ---------------------------------------------------------------- namespace traits
struct Etl {
    static constexpr bool is_etl = true;
    template <typename T>
    using optional = etl::optional<T>;
    template <typename... Ts>
    using variant = etl::variant<Ts...>;
    template <typename T, typename E>
    using expected = etl::expected<T, E>;
    template <typename E>
    using unexpected = etl::unexpected<E>;
    using nullopt_t  = etl::nullopt_t;
    using in_place_t = etl::in_place_t;
    using unexpect_t = etl::unexpect_t;
    static constexpr nullopt_t nullopt{etl::nullopt};
    static constexpr in_place_t in_place{};
    static constexpr unexpect_t unexpect{};
    template <std::size_t I>
    static constexpr etl::in_place_index_t<I> ipi{};
    template <typename T>
    static constexpr etl::in_place_type_t<T> ipt{};
    template <typename T>
    static void adl_swap(T& a, T& b)
    {
        using etl::swap;
        swap(a, b);
    }
    template <typename T, typename V>
    static bool holds(V const& v)
    {
        return etl::holds_alternative<T>(v);
    }
    template <std::size_t I, typename V>
    static auto get_if(V* v)
    {
        return etl::get_if<I>(v);
    }
    template <typename T, typename V>
    static auto get_if_t(V* v)
    {
        return etl::get_if<T>(v);
    }
    // reference to the ACTIVE alternative (precondition I == index()): etl spells it unchecked_get / operator[]
    template <std::size_t I, typename V>
    static decltype(auto) get_active(V&& v)
    {
        return etl::unchecked_get<I>(static_cast<V&&>(v));
    }
    template <typename F, typename... Vs>
    static decltype(auto) visit(F&& f, Vs&&... vs)
    {
        return etl::visit(static_cast<F&&>(f), static_cast<Vs&&>(vs)...);
    }
    template <typename T>
    static auto make_optional(T&& v)
    {
        return etl::make_optional(static_cast<T&&>(v));
    }
    template <typename T, typename... A>
    static auto make_optional_t(A&&... a)
    {
        return etl::make_optional<T>(static_cast<A&&>(a)...);
    }
};
struct Std {
    static constexpr bool is_etl = false;
    template <typename T>
    using optional = std::optional<T>;
    template <typename... Ts>
    using variant = std::variant<Ts...>;
#if __cplusplus > 202002L
    template <typename T, typename E>
    using expected = std::expected<T, E>;
    template <typename E>
    using unexpected = std::unexpected<E>;
    using unexpect_t = std::unexpect_t;
    static constexpr unexpect_t unexpect{};
#endif
    using nullopt_t  = std::nullopt_t;
    using in_place_t = std::in_place_t;
    static constexpr nullopt_t nullopt{std::nullopt};
    static constexpr in_place_t in_place{};
    template <std::size_t I>
    static constexpr std::in_place_index_t<I> ipi{};
    template <typename T>
    static constexpr std::in_place_type_t<T> ipt{};
    template <typename T>
    static void adl_swap(T& a, T& b)
    {
        using std::swap;
        swap(a, b);
    }
    template <typename T, typename V>
    static bool holds(V const& v)
    {
        return std::holds_alternative<T>(v);
    }
    template <std::size_t I, typename V>
    static auto get_if(V* v)
    {
        return std::get_if<I>(v);
    }
    template <typename T, typename V>
    static auto get_if_t(V* v)
    {
        return std::get_if<T>(v);
    }
    template <std::size_t I, typename V>
    static decltype(auto) get_active(V&& v)
    {
        return std::get<I>(static_cast<V&&>(v));
    }
    template <typename F, typename... Vs>
    static decltype(auto) visit(F&& f, Vs&&... vs)
    {
        return std::visit(static_cast<F&&>(f), static_cast<Vs&&>(vs)...);
    }
    template <typename T>
    static auto make_optional(T&& v)
    {
        return std::make_optional(static_cast<T&&>(v));
    }
    template <typename T, typename... A>
    static auto make_optional_t(A&&... a)
    {
        return std::make_optional<T>(static_cast<A&&>(a)...);
    }
};

// ---------------------------------------------------------------- argument tuple of one operation
enum ArgMask : unsigned { aV = 1, aY = 2, aQ4 = 4, aQ2 = 8, aF = 16, aJ = 32, aZ = 64, aM = 128 /* may change the state of the object under test */ };
struct Args {
    int v  = 0; // value code 0..nv-1
    int y  = 0; // state of the other operand (subject specific encoding)
    int q  = 0; // ref-qualifier / form selector
    int f  = 0; // flag
    int j  = 0; // target alternative
    int z  = 0; // state of a third operand
};
struct OpInfo {
    char const* name;
    unsigned args;
};
// mutator bookkeeping shared by the subjects: Table must have ops[] and n, Info maps an op to its OpInfo
template <typename Table, typename InfoFn>
struct Mutators {
    unsigned idx[64]{};
    unsigned n = 0;
    constexpr Mutators(Table const& t, InfoFn info)
    {
        for (unsigned w = 0; w < t.n; ++w) {
            if (info(t.ops[w]).args & aM) { idx[n++] = w; }
        }
    }
};

// ---------------------------------------------------------------- enumeration driver
// A Subject provides:
//   static constexpr unsigned kOps;                 number of operations applicable to this subject
//   static bool is_mutator(unsigned w);             may operation w change the state of the object under test?
//   static unsigned n_mutators(); static unsigned mutator_at(unsigned k);
//   char const* name() const;
//   void init(vf::Chooser&, unsigned nv);            choose start state + construction form, build both worlds
//   void step(unsigned w, vf::Chooser&, unsigned nv) apply operation w with arguments from the chooser, compare
//   static char const* not_provided();               list of std members the etl type lacks (for the evidence)
//
// Histories: every start state x construction form, then
//   (a) every pair (w0, any operation) with every argument tuple                                   [depth 2]
//   (b) for depth > 2 and w0 a mutator: (w0, mutator, ..., mutator, any operation), every argument tuple.
// A history whose first or middle operation cannot change the state is equivalent to a shorter one (the observer
// battery after every step checks that such operations indeed leave the state alone), so (a)+(b) lose nothing
// relative to the full depth-d product.
template <typename Subject>
inline unsigned long long enumerate_chain(unsigned w0, unsigned depth, unsigned nv, bool middle_mutators_only)
{
    vf::Chooser ch;
    unsigned long long n = 0;
    do {
        ch.begin();
        vf::registry().reset();
        {
            Subject s;
            s.init(ch, nv);
            s.step(w0, ch, nv);
            for (unsigned d = 1; d < depth; ++d) {
                bool const last = d + 1 == depth;
                unsigned w      = (!last && middle_mutators_only) ? Subject::mutator_at(ch.pick(Subject::n_mutators())) : ch.pick(Subject::kOps);
                s.step(w, ch, nv);
            }
        }
        ++n;
    } while (ch.next());
    vf::registry().reset();
    return n;
}
template <typename Subject>
inline void enumerate_first_op(unsigned w0, unsigned depth, unsigned nv)
{
    unsigned long long n2 = enumerate_chain<Subject>(w0, depth < 2 ? depth : 2, nv, false);
    unsigned long long nd = 0;
    if (depth > 2 && Subject::is_mutator(w0)) { nd = enumerate_chain<Subject>(w0, depth, nv, true); }
    char nm[64];
    {
        vf::Chooser ch;
        ch.begin();
        Subject s;
        std::snprintf(nm, sizeof nm, "%s", s.name());
    }
    vf::registry().reset();
    char lab[96];
    std::snprintf(lab, sizeof lab, "%s enumerated", nm);
    if (vf::want_sample(lab)) {
        vf::sample(lab, "first op %u: %llu complete histories of depth 2 + %llu of depth %u through state-changing operations (every start state x every argument tuple, %u values); not provided by tetl: %s",
            w0, n2, nd, depth, nv, Subject::not_provided());
    }
}
template <typename Subject>
inline void random_history(vf::Rng& rng, unsigned steps, unsigned nv)
{
    vf::Chooser ch(&rng);
    vf::registry().reset();
    std::string text;
    char lab[96] = "";
    bool want    = false;
    {
        Subject s;
        std::snprintf(lab, sizeof lab, "%s random history", s.name());
        want = vf::want_sample(lab);
        s.init(ch, nv);
        if (want && vf::g().sh) { text = std::string(vf::g().sh->op) + " [" + vf::g().sh->args + "]"; }
        for (unsigned d = 0; d < steps; ++d) {
            s.step(ch.pick(Subject::kOps), ch, nv);
            if (want && d < 6 && vf::g().sh) { text += std::string("; ") + vf::g().sh->op + " {" + vf::g().sh->sit + "} [" + vf::g().sh->args + "]"; }
        }
    }
    vf::registry().reset();
    if (want) { vf::sample(lab, "%u steps, the first ones: %s ...", steps, text.substr(0, 560).c_str()); }
}

} // namespace c07
