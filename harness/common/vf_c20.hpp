// vf_c20.hpp - shared pieces of the C20 monitors (pair / tuple / callable wrappers):
// element kinds, value-category helpers, etl->std type mapping for decltype comparisons, and the instrumented
// callable whose call log (number of calls, callee cv/ref, argument categories/values/identities, returned
// category/value) is compared between a direct call and a call through an etl wrapper.
#pragma once
#include "vf.hpp"

#include <etl/array.hpp>
#include <etl/functional.hpp>
#include <etl/tuple.hpp>
#include <etl/utility.hpp>

#include <array>
#include <compare>
#include <functional>
#include <memory>
#include <string>
#include <tuple>
#include <type_traits>
#include <utility>
#include <vector>

// ------------------------------------------------------------------ element types with their own namespace-scope swap
// (own namespace: only argument-dependent lookup finds these swaps)
namespace c20adl {
struct Counters {
    int swaps = 0, move_ctor = 0, move_assign = 0, copy_ctor = 0, copy_assign = 0;
    void clear() { *this = Counters{}; }
};
inline Counters& counters()
{
    static Counters c;
    return c;
}
// Sw: movable and copyable, but its own swap is observably different from move-swapping: it exchanges only the payload,
// keeps the identity, marks both objects and counts the call.
struct Sw {
    int id      = 0;
    int payload = 0;
    int marks   = 0; // how often this object took part in its own swap
    Sw()        = default;
    Sw(int i, int p) : id(i), payload(p) { }
    Sw(Sw const& o) : id(o.id), payload(o.payload), marks(o.marks) { ++counters().copy_ctor; }
    Sw(Sw&& o) noexcept : id(o.id), payload(o.payload), marks(o.marks) { ++counters().move_ctor; }
    Sw& operator=(Sw const& o)
    {
        id      = o.id;
        payload = o.payload;
        marks   = o.marks;
        ++counters().copy_assign;
        return *this;
    }
    Sw& operator=(Sw&& o) noexcept
    {
        id      = o.id;
        payload = o.payload;
        marks   = o.marks;
        ++counters().move_assign;
        return *this;
    }
    friend bool operator==(Sw const& a, Sw const& b) { return a.id == b.id && a.payload == b.payload; }
};
inline void swap(Sw& a, Sw& b) noexcept
{
    ++counters().swaps;
    int t     = a.payload;
    a.payload = b.payload;
    b.payload = t;
    ++a.marks;
    ++b.marks;
}
// NoMove: swappable through its own swap only (neither copyable nor movable)
struct NoMove {
    int payload;
    int marks = 0;
    explicit NoMove(int p) : payload(p) { }
    NoMove(NoMove const&)            = delete;
    NoMove& operator=(NoMove const&) = delete;
};
inline void swap(NoMove& a, NoMove& b) noexcept
{
    ++counters().swaps;
    int t     = a.payload;
    a.payload = b.payload;
    b.payload = t;
    ++a.marks;
    ++b.marks;
}
inline std::string show(Sw const& s) { return "{id=" + std::to_string(s.id) + ",payload=" + std::to_string(s.payload) + ",marks=" + std::to_string(s.marks) + "}"; }
inline std::string show(Counters const& c)
{
    return "adl-swap=" + std::to_string(c.swaps) + " move-ctor=" + std::to_string(c.move_ctor) + " move-assign=" + std::to_string(c.move_assign)
         + " copy-ctor=" + std::to_string(c.copy_ctor) + " copy-assign=" + std::to_string(c.copy_assign);
}
} // namespace c20adl

namespace c20 {

// ------------------------------------------------------------------ type names (for obs/exp strings and symptoms)
template <typename T>
std::string type_name()
{
    std::string p = __PRETTY_FUNCTION__; // "... [with T = int&&; std::string = ...]"
    auto b        = p.find("T = ");
    if (b == std::string::npos) { return p; }
    b += 4;
    auto e = p.find(';', b);
    if (e == std::string::npos) { e = p.find(']', b); }
    std::string s = p.substr(b, e - b);
    // shorten harness namespaces
    for (char const* pre : {"c20::", "{anonymous}::", "(anonymous namespace)::"}) {
        for (auto q = s.find(pre); q != std::string::npos; q = s.find(pre)) { s.erase(q, std::strlen(pre)); }
    }
    return s;
}

// ------------------------------------------------------------------ etl -> std mapping of result types
template <typename T>
struct to_std {
    using type = T;
};
template <typename T>
using to_std_t = typename to_std<T>::type;
template <typename T>
struct to_std<T const> {
    using type = to_std_t<T> const;
};
template <typename T>
struct to_std<T&> {
    using type = to_std_t<T>&;
};
template <typename T>
struct to_std<T&&> {
    using type = to_std_t<T>&&;
};
template <typename... Ts>
struct to_std<etl::tuple<Ts...>> {
    using type = std::tuple<to_std_t<Ts>...>;
};
template <typename A, typename B>
struct to_std<etl::pair<A, B>> {
    using type = std::pair<to_std_t<A>, to_std_t<B>>;
};
template <typename T, std::size_t N>
struct to_std<etl::array<T, N>> {
    using type = std::array<to_std_t<T>, N>;
};
template <typename T>
struct to_std<etl::reference_wrapper<T>> {
    using type = std::reference_wrapper<T>;
};

// does the (mapped) etl type equal the std tuple with every element decayed?  (classifies the tuple_cat result defect)
template <typename T>
struct decay_elems {
    using type = T;
};
template <typename... Ts>
struct decay_elems<std::tuple<Ts...>> {
    using type = std::tuple<std::decay_t<Ts>...>;
};
// one compile-time boolean reported at run time (C15 style): decltype(etl expr) vs decltype(std expr)
template <typename EtlT, typename StdT>
inline bool same_type(char const* what = "decltype")
{
    constexpr bool ok = std::is_same_v<to_std_t<EtlT>, StdT>;
    if (!ok) {
        std::string sym = std::string(what) + ":" + type_name<to_std_t<EtlT>>() + "-for-" + type_name<StdT>();
        if constexpr (std::is_same_v<to_std_t<EtlT>, typename decay_elems<StdT>::type>) { sym = std::string(what) + ":tuple-elements-decayed"; }
        if (sym.size() > 90) { sym.resize(90); }
        vf::diverge(sym.c_str(), type_name<EtlT>(), type_name<StdT>());
    }
    return ok;
}
#define C20_SAME(ETL_EXPR, STD_EXPR) (::c20::same_type<decltype(ETL_EXPR), decltype(STD_EXPR)>())

// ------------------------------------------------------------------ value categories
// 0 lvalue, 1 const lvalue, 2 rvalue, 3 const rvalue
constexpr char const* kCat[4] = {"lvalue", "const-lvalue", "rvalue", "const-rvalue"};
template <int C, typename T>
using cat_t = std::conditional_t<C == 0, T&, std::conditional_t<C == 1, T const&, std::conditional_t<C == 2, T&&, T const&&>>>;
template <int C, typename T>
constexpr auto as(T& t) noexcept -> cat_t<C, std::remove_const_t<T>>
{
    return static_cast<cat_t<C, std::remove_const_t<T>>>(t);
}
// category index of a forwarding-reference parameter type X&& (X as deduced)
template <typename X>
constexpr int cat_of()
{
    using U = std::remove_reference_t<X>;
    if constexpr (std::is_lvalue_reference_v<X>) {
        return std::is_const_v<U> ? 1 : 0;
    } else {
        return std::is_const_v<U> ? 3 : 2;
    }
}

// ------------------------------------------------------------------ element kinds
struct Mo { // move-only
    int v;
    bool moved_from = false;
    explicit Mo(int x = 0) : v(x) { }
    Mo(Mo&& o) noexcept : v(o.v) { o.moved_from = true; }
    Mo& operator=(Mo&& o) noexcept
    {
        v            = o.v;
        moved_from   = false;
        o.moved_from = true;
        return *this;
    }
    Mo(Mo const&)            = delete;
    Mo& operator=(Mo const&) = delete;
    friend bool operator==(Mo const& a, Mo const& b) { return a.v == b.v; }
    friend bool operator<(Mo const& a, Mo const& b) { return a.v < b.v; }
};
struct Co { // copy-only (no move operations declared: rvalues copy)
    int v;
    explicit Co(int x = 0) : v(x) { }
    Co(Co const& o) : v(o.v) { }
    Co& operator=(Co const& o)
    {
        v = o.v;
        return *this;
    }
    friend bool operator==(Co const& a, Co const& b) { return a.v == b.v; }
    friend bool operator<(Co const& a, Co const& b) { return a.v < b.v; }
};
inline int val(int x) { return x; }
inline int val(Mo const& x) { return x.v; }
inline int val(Co const& x) { return x.v; }

// Spy: every special member and comparison appends to a global op log; equal logs <=> same forwarding behaviour
struct SpyLog {
    std::string s;
    void add(char const* op, int v)
    {
        s += op;
        s += '(';
        s += std::to_string(v);
        s += ')';
    }
};
inline SpyLog& spylog()
{
    static SpyLog l;
    return l;
}
struct Spy {
    int v;
    Spy() : v(0) { spylog().add("dc", 0); }
    explicit Spy(int x) : v(x) { }
    Spy(Spy const& o) : v(o.v) { spylog().add("cc", v); }
    Spy(Spy&& o) noexcept : v(o.v)
    {
        spylog().add("mc", v);
        o.v = -1;
    }
    Spy& operator=(Spy const& o)
    {
        spylog().add("ca", o.v);
        v = o.v;
        return *this;
    }
    Spy& operator=(Spy&& o) noexcept
    {
        spylog().add("ma", o.v);
        v   = o.v;
        o.v = -1;
        return *this;
    }
    friend bool operator==(Spy const& a, Spy const& b)
    {
        spylog().add("eq", a.v * 10 + b.v);
        return a.v == b.v;
    }
    friend bool operator<(Spy const& a, Spy const& b) { return a.v < b.v; }
};
inline int val(Spy const& x) { return x.v; }
// convertible-to-Spy source for converting constructors/assignments
struct SpySrc {
    int v;
    operator Spy() const& { return Spy(v + 100); }
    operator Spy() && { return Spy(v + 200); }
};

// ------------------------------------------------------------------ call log
struct A { // argument type
    int v;
};
struct CallRec {
    int fn_id   = -1;
    int state   = -1; // callee's call counter before the call
    int self    = -1; // 0 &, 1 const&, 2 &&, 3 const&&, 4 not applicable (free function / member via pointer)
    int self_is = -1; // 1 callee is the expected object, 0 it is not, -1 not tracked
    int nargs   = 0;
    int acat[3] = {-1, -1, -1};
    int aval[3] = {0, 0, 0};
    int aid[3]  = {-1, -1, -1}; // index of the caller-side object the parameter refers to, -1 = some other object
};
struct CallLog {
    std::vector<CallRec> recs;
    void const* caller_obj[3] = {nullptr, nullptr, nullptr};
    void const* expected_self = nullptr;
    bool track_ids            = true;
    void clear() { recs.clear(); }
};
inline CallLog& calllog()
{
    static CallLog l;
    return l;
}
inline int val(A const& a) { return a.v; }
template <typename... X>
inline void note_call(int fn_id, int state, int self, void const* self_addr, X&&... x)
{
    CallLog& L = calllog();
    CallRec r;
    r.fn_id   = fn_id;
    r.state   = state;
    r.self    = self;
    r.self_is = L.expected_self == nullptr ? -1 : (L.expected_self == self_addr ? 1 : 0);
    r.nargs   = (int)sizeof...(X);
    int i     = 0;
    auto one  = [&](auto&& a, int cat) {
        r.acat[i] = cat;
        r.aval[i] = val(a);
        r.aid[i]  = -1;
        if (L.track_ids) {
            for (int k = 0; k < 3; ++k) {
                if (L.caller_obj[k] == static_cast<void const*>(std::addressof(a))) { r.aid[i] = k; }
            }
        }
        ++i;
    };
    (one(x, cat_of<X>()), ...);
    L.recs.push_back(r);
}
inline std::string show(CallRec const& r)
{
    static char const* sc[] = {"&", "const&", "&&", "const&&", "n/a"};
    std::string s = "fn" + std::to_string(r.fn_id) + "#" + std::to_string(r.state) + " this:" + (r.self >= 0 && r.self <= 4 ? sc[r.self] : "?");
    if (r.self_is >= 0) { s += r.self_is ? "(same object)" : "(OTHER object)"; }
    s += " (";
    for (int i = 0; i < r.nargs; ++i) {
        if (i) { s += ", "; }
        s += kCat[r.acat[i]];
        s += ":" + std::to_string(r.aval[i]);
        s += r.aid[i] >= 0 ? "@arg" + std::to_string(r.aid[i]) : std::string("@copy");
    }
    return s + ")";
}
inline std::string show(std::vector<CallRec> const& v)
{
    std::string s = std::to_string(v.size()) + " call(s):";
    for (auto const& r : v) { s += " [" + show(r) + "]"; }
    return s;
}
// first differing aspect of two logs -> symptom ("" when equal)
inline std::string log_diff(std::vector<CallRec> const& obs, std::vector<CallRec> const& exp)
{
    if (obs.size() != exp.size()) { return obs.size() < exp.size() ? "calls:fewer" : "calls:more"; }
    for (std::size_t k = 0; k < obs.size(); ++k) {
        CallRec const& a = obs[k];
        CallRec const& b = exp[k];
        if (a.fn_id != b.fn_id) { return "callee:other-target"; }
        if (a.self != b.self) {
            static char const* sc[] = {"lvalue", "const-lvalue", "rvalue", "const-rvalue", "na"};
            return std::string("callee-category:") + sc[a.self < 0 ? 4 : a.self] + "-for-" + sc[b.self < 0 ? 4 : b.self];
        }
        if (a.self_is != b.self_is) { return "callee:not-the-wrapped-object"; }
        if (a.state != b.state) { return "callee-state"; }
        if (a.nargs != b.nargs) { return "args:count"; }
        for (int i = 0; i < a.nargs; ++i) {
            if (a.acat[i] != b.acat[i]) { return std::string("arg-category:") + kCat[a.acat[i]] + "-for-" + kCat[b.acat[i]]; }
            if (a.aval[i] != b.aval[i]) { return "arg-value"; }
            if (a.aid[i] != b.aid[i]) { return a.aid[i] < 0 ? "arg-identity:copy-for-reference" : "arg-identity"; }
        }
    }
    return "";
}

// ---- element types whose comparison operators are mutually inconsistent or partial
// RT: ordered by rank only, equal on rank AND tag (so !(a<b) && !(b<a) does not imply a==b)
struct RT {
    int rank, tag;
    friend bool operator<(RT const& a, RT const& b) { return a.rank < b.rank; }
    friend bool operator==(RT const& a, RT const& b) { return a.rank == b.rank && a.tag == b.tag; }
};
// OnlyLess: has < and nothing else; OnlyEq: has == and nothing else
struct OnlyLess {
    int v;
    friend bool operator<(OnlyLess const& a, OnlyLess const& b) { return a.v < b.v; }
};
struct OnlyEq {
    int v;
    friend bool operator==(OnlyEq const& a, OnlyEq const& b) { return a.v == b.v; }
};
// Cnt: every comparison operator exists, is consistent, and counts its calls (which operators a pair/tuple relation uses
// on its elements is observable)
struct CmpCounts {
    int lt = 0, gt = 0, le = 0, ge = 0, eq = 0, ne = 0;
    void clear() { *this = CmpCounts{}; }
    std::string kinds() const
    {
        std::string s;
        if (lt) { s += "<"; }
        if (gt) { s += s.empty() ? ">" : ",>"; }
        if (le) { s += s.empty() ? "<=" : ",<="; }
        if (ge) { s += s.empty() ? ">=" : ",>="; }
        if (eq) { s += s.empty() ? "==" : ",=="; }
        if (ne) { s += s.empty() ? "!=" : ",!="; }
        return s.empty() ? "none" : s;
    }
    std::string show() const
    {
        return "<:" + std::to_string(lt) + " >:" + std::to_string(gt) + " <=:" + std::to_string(le) + " >=:" + std::to_string(ge) + " ==:" + std::to_string(eq)
             + " !=:" + std::to_string(ne);
    }
};
inline CmpCounts& cmpcounts()
{
    static CmpCounts c;
    return c;
}
struct Cnt {
    int v;
    friend bool operator<(Cnt const& a, Cnt const& b) { return ++cmpcounts().lt, a.v < b.v; }
    friend bool operator>(Cnt const& a, Cnt const& b) { return ++cmpcounts().gt, a.v > b.v; }
    friend bool operator<=(Cnt const& a, Cnt const& b) { return ++cmpcounts().le, a.v <= b.v; }
    friend bool operator>=(Cnt const& a, Cnt const& b) { return ++cmpcounts().ge, a.v >= b.v; }
    friend bool operator==(Cnt const& a, Cnt const& b) { return ++cmpcounts().eq, a.v == b.v; }
    friend bool operator!=(Cnt const& a, Cnt const& b) { return ++cmpcounts().ne, a.v != b.v; }
};

// CI: a class element comparable with int (== and <=> against int and against itself)
struct CI {
    int v;
    CI(int x = 0) : v(x) { }
    friend bool operator==(CI const& a, int b) { return a.v == b; }
    friend auto operator<=>(CI const& a, int b) { return a.v <=> b; }
    friend bool operator==(CI const& a, CI const& b) { return a.v == b.v; }
    friend auto operator<=>(CI const& a, CI const& b) { return a.v <=> b.v; }
};

// Amp: a target / element class with a hostile unary operator& (returns the address of a decoy object).  Every wrapper of
// the property that stores or forms an address must keep referring to the object it was given (std::addressof identity).
struct Amp {
    int id;
    int data;
    mutable int calls = 0;
    explicit Amp(int i) : id(i), data(i * 10) { }
    static Amp& decoy()
    {
        static Amp d(999);
        return d;
    }
    Amp* operator&() { return std::addressof(decoy()); }
    Amp const* operator&() const { return std::addressof(decoy()); }
    int operator()(int x)
    {
        note_call(id, calls++, 0, this, x);
        return id * 1000 + x;
    }
    int operator()(int x) const
    {
        note_call(id, calls++, 1, this, x);
        return id * 1000 + x + 500;
    }
    int mf(int x)
    {
        note_call(id, calls++, 0, this, x);
        return id * 100 + x;
    }
    int cmf(int x) const
    {
        note_call(id, calls++, 1, this, x);
        return id * 100 + x + 50;
    }
    friend bool operator==(Amp const& a, Amp const& b) { return a.id == b.id; }
};
inline int val(Amp const& a) { return a.id; }
template <typename X, typename Y>
inline bool same_object(X const& a, Y const& b)
{
    return static_cast<void const*>(std::addressof(a)) == static_cast<void const*>(std::addressof(b));
}

// result of a call expression: static type + value (+ identity for references)
struct Res {
    std::string type;
    long long value      = 0;
    void const* addr     = nullptr; // for reference results
    bool threw           = false;
};
inline long long res_val(A const& a) { return a.v; }
template <typename T>
    requires std::is_arithmetic_v<T>
inline long long res_val(T v)
{
    return static_cast<long long>(v);
}
template <typename T, typename Thunk>
Res res(Thunk&& th)
{
    Res r;
    r.type = type_name<T>();
    if constexpr (std::is_void_v<T>) {
        th();
    } else if constexpr (std::is_reference_v<T>) {
        T x     = th();
        r.value = res_val(x);
        r.addr  = static_cast<void const*>(std::addressof(x));
    } else {
        T x     = th();
        r.value = res_val(x);
    }
    return r;
}
#define C20_RES(...) (::c20::res<decltype(__VA_ARGS__)>([&]() -> decltype(auto) { return __VA_ARGS__; }))

inline A& ret_obj()
{
    static A a{777};
    return a;
}

// Instrumented callable. RK selects what it returns:
//  0 int (depends on id, state and argument values)  1 A& (a global)  2 A&& (the global)  3 void  4 A by value  5 A const&  6 bool
template <int RK>
struct Fn {
    int id;
    mutable int state = 0;
    explicit Fn(int i) : id(i) { }

    using R = std::conditional_t<RK == 0, int,
        std::conditional_t<RK == 1, A&,
            std::conditional_t<RK == 2, A&&, std::conditional_t<RK == 3, void, std::conditional_t<RK == 4, A, std::conditional_t<RK == 5, A const&, bool>>>>>>;

    template <typename... X>
    R finish(int self, X&&... x) const
    {
        int st = state++;
        note_call(id, st, self, this, std::forward<X>(x)...);
        unsigned uh = static_cast<unsigned>(id) * 1000u + static_cast<unsigned>(st) * 100u + static_cast<unsigned>(self) * 10u;
        ((uh = uh * 7u + static_cast<unsigned>(val(x))), ...);
        int h = static_cast<int>(uh & 0x3fffffffu);
        if constexpr (RK == 0) {
            return h;
        } else if constexpr (RK == 1) {
            ret_obj().v = h;
            return ret_obj();
        } else if constexpr (RK == 2) {
            ret_obj().v = h;
            return std::move(ret_obj());
        } else if constexpr (RK == 3) {
            ret_obj().v = h;
            return;
        } else if constexpr (RK == 4) {
            return A{h};
        } else if constexpr (RK == 5) {
            ret_obj().v = h;
            return ret_obj();
        } else {
            return (h & 1) != 0;
        }
    }
    template <typename... X>
    R operator()(X&&... x) &
    {
        return finish(0, std::forward<X>(x)...);
    }
    template <typename... X>
    R operator()(X&&... x) const&
    {
        return finish(1, std::forward<X>(x)...);
    }
    template <typename... X>
    R operator()(X&&... x) &&
    {
        return finish(2, std::forward<X>(x)...);
    }
    template <typename... X>
    R operator()(X&&... x) const&&
    {
        return finish(3, std::forward<X>(x)...);
    }
};

// compare one wrapper call with the direct call.  `direct` and `via` are thunks returning c20::Res.
// The caller has already written the breadcrumb for the wrapper call.
inline bool compare_call(std::function<Res()> const& direct, std::function<Res()> const& via, bool compare_ret_addr = true)
{
    CallLog& L = calllog();
    L.clear();
    Res rd                    = direct();
    std::vector<CallRec> logd = L.recs;
    L.clear();
    Res rv                    = via();
    std::vector<CallRec> logv = L.recs;
    L.clear();
    bool ok         = true;
    std::string dif = log_diff(logv, logd);
    if (!dif.empty()) {
        vf::diverge(("log:" + dif).c_str(), show(logv), show(logd));
        ok = false;
    }
    if (rv.type != rd.type) {
        std::string sym = "ret-type:" + rv.type + "-for-" + rd.type;
        if (sym.size() > 90) { sym.resize(90); }
        vf::diverge(sym.c_str(), rv.type, rd.type);
        ok = false;
    } else if (rv.value != rd.value) {
        vf::diverge("ret-value", std::to_string(rv.value), std::to_string(rd.value));
        ok = false;
    } else if (compare_ret_addr && rv.addr != rd.addr) {
        vf::diverge("ret-identity", "reference to another object", "reference to the object the callable returned");
        ok = false;
    }
    return ok;
}

} // namespace c20
