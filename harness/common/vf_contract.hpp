// vf_contract.hpp - contract trap (DESIGN 3.6). Include after vf.hpp in exactly the main TU.
#pragma once
#include "vf.hpp"

namespace vf {
// optional: object-under-test snapshot for "unmodified when the handler runs"
struct Watch {
    void const* obj      = nullptr;
    std::size_t len      = 0;
    unsigned char snap[4096];
    bool (*canary_ok)()  = nullptr;
};
inline Watch& watch()
{
    static Watch w;
    return w;
}
inline void watch_object(void const* p, std::size_t n)
{
    Watch& w = watch();
    w.obj    = p;
    w.len    = n < sizeof w.snap ? n : sizeof w.snap;
    std::memcpy(w.snap, p, w.len);
}
inline void watch_clear() { watch().obj = nullptr; }

[[noreturn]] void on_contract(int line, char const* file, char const* func, char const* expr)
{
    Shared* sh = g().sh;
    if (sh) {
        sh->c_line = line;
        copy_str(sh->c_file, sizeof sh->c_file, file ? file : "");
        copy_str(sh->c_func, sizeof sh->c_func, func ? func : "");
        copy_str(sh->c_expr, sizeof sh->c_expr, expr ? expr : "");
        Watch& w = watch();
        sh->c_unmodified = w.obj ? (std::memcmp(w.obj, w.snap, w.len) == 0 ? 1 : 0) : -1;
        sh->c_canary_ok  = w.canary_ok ? (w.canary_ok() ? 1 : 0) : -1;
        sh->contract_fired = 1;
    }
    if (g().verbose) { std::fprintf(stderr, "  !! contract handler: %s:%d %s %s\n", file ? file : "?", line, func ? func : "?", expr ? expr : "?"); }
    std::fflush(nullptr);
    ::_exit(77);
}
} // namespace vf
