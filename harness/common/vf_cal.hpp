// vf_cal.hpp - helpers shared by the C11 (calendar) harness units:
//  * an independent proleptic-Gregorian calendar *walker* (month lengths + leap rule only, no closed form),
//  * cheap breadcrumbs for the 24 M day sweep,
//  * boundary year sets.
#pragma once
#include "vf.hpp"

#include <cstdint>
#include <vector>

namespace vfcal {

constexpr int kYearMin = -32767;
constexpr int kYearMax = 32767;

// leap rule written without looking at tetl or libstdc++ : every 4th year, except centuries, except every 4th century
inline bool leap(int y)
{
    auto fm = [](int a, int b) { int r = a % b; return r < 0 ? r + b : r; };
    if (fm(y, 400) == 0) { return true; }
    if (fm(y, 100) == 0) { return false; }
    return fm(y, 4) == 0;
}
inline unsigned month_len(int y, unsigned m)
{
    switch (m) {
    case 1: case 3: case 5: case 7: case 8: case 10: case 12: return 31;
    case 4: case 6: case 9: case 11: return 30;
    case 2: return leap(y) ? 29u : 28u;
    default: return 0;
    }
}
inline int year_len(int y) { return leap(y) ? 366 : 365; }

// day number (days since 1970-01-01) of January 1st of every year, built by walking year by year
// away from 1970 in both directions.  start(y) for y in [kYearMin, kYearMax+1].
struct YearTable {
    std::vector<std::int32_t> s;
    YearTable() : s((std::size_t)(kYearMax + 1 - kYearMin + 1))
    {
        at(1970) = 0;
        for (int y = 1970; y <= kYearMax; ++y) { at(y + 1) = at(y) + year_len(y); }
        for (int y = 1969; y >= kYearMin; --y) { at(y) = at(y + 1) - year_len(y); }
    }
    std::int32_t& at(int y) { return s[(std::size_t)(y - kYearMin)]; }
    std::int32_t start(int y) const { return s[(std::size_t)(y - kYearMin)]; }
    std::int32_t first_day() const { return start(kYearMin); }
    std::int32_t last_day() const { return start(kYearMax + 1) - 1; }
    // year containing day d (binary search over the table)
    int year_of(std::int32_t d) const
    {
        int lo = kYearMin, hi = kYearMax; // invariant: start(lo) <= d < start(hi+1)
        while (lo < hi) {
            int mid = lo + (hi - lo + 1) / 2;
            if (start(mid) <= d) { lo = mid; } else { hi = mid - 1; }
        }
        return lo;
    }
};
inline YearTable const& table()
{
    static YearTable t;
    return t;
}

struct Civil {
    int y;
    unsigned m;
    unsigned d;
};
// walker state: a civil date that can step one day forward
struct Walker {
    Civil c;
    unsigned wd; // 0 = Sunday
    std::int32_t n;
    explicit Walker(std::int32_t day)
    {
        YearTable const& t = table();
        int y              = t.year_of(day);
        std::int32_t rest  = day - t.start(y);
        unsigned m         = 1;
        while (rest >= (std::int32_t)month_len(y, m)) {
            rest -= (std::int32_t)month_len(y, m);
            ++m;
        }
        c = Civil{y, m, (unsigned)rest + 1};
        n = day;
        // 1970-01-01 was a Thursday (4)
        std::int64_t r = ((std::int64_t)day + 4) % 7;
        wd             = (unsigned)(r < 0 ? r + 7 : r);
    }
    void step()
    {
        ++n;
        wd = wd == 6 ? 0 : wd + 1;
        if (c.d < month_len(c.y, c.m)) {
            ++c.d;
        } else if (c.m < 12) {
            c.d = 1;
            ++c.m;
        } else {
            c.d = 1;
            c.m = 1;
            ++c.y;
        }
    }
    bool last_of_month() const { return c.d == month_len(c.y, c.m); }
};
// civil -> day number through the table (for the grids)
inline std::int32_t days_of(int y, unsigned m, unsigned d)
{
    std::int32_t n = table().start(y);
    for (unsigned k = 1; k < m; ++k) { n += (std::int32_t)month_len(y, k); }
    return n + (std::int32_t)d - 1;
}

// ---- cheap breadcrumb: same fields as vf::crumb, no printf
inline char* put_int(char* p, long long v)
{
    char tmp[24];
    int n                = 0;
    unsigned long long u = v < 0 ? 0ull - (unsigned long long)v : (unsigned long long)v;
    do { tmp[n++] = (char)('0' + u % 10); u /= 10; } while (u);
    if (v < 0) { *p++ = '-'; }
    while (n) { *p++ = tmp[--n]; }
    return p;
}
inline void fast_crumb(char const* subject, char const* op, char const* sit, char const* argname, long long v)
{
    vf::Shared* sh = vf::g().sh;
    if (!sh) { return; }
    vf::copy_str(sh->subject, sizeof sh->subject, subject);
    vf::copy_str(sh->op, sizeof sh->op, op);
    vf::copy_str(sh->sit, sizeof sh->sit, sit);
    char* p = sh->args;
    for (char const* a = argname; *a; ++a) { *p++ = *a; }
    *p++ = '=';
    p    = put_int(p, v);
    *p   = 0;
    sh->step++;
    if (vf::g().verbose) { std::fprintf(stderr, "[case %llu step %u] %s | %s | %s | %s\n", (unsigned long long)sh->case_id, sh->step, sh->subject, sh->op, sh->sit, sh->args); }
}

// boundary years: range ends, era (400-year) and century boundaries, year 0, epoch, typical leap/non-leap
inline std::vector<int> boundary_years()
{
    return {-32767, -32766, -32765, -32401, -32400, -32399, -32001, -32000, -31999, -4801, -4800, -4799, -401, -400, -399, -101, -100, -99,
        -5, -4, -3, -2, -1, 0, 1, 2, 3, 4, 5, 99, 100, 101, 399, 400, 401, 1582, 1600, 1601, 1699, 1700, 1701, 1899, 1900, 1901, 1968, 1969,
        1970, 1971, 1972, 1999, 2000, 2001, 2023, 2024, 2038, 2099, 2100, 2101, 2399, 2400, 2401, 9999, 10000, 31999, 32000, 32001, 32399, 32400,
        32401, 32764, 32765, 32766, 32767};
}

} // namespace vfcal
