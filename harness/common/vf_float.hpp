// vf_float.hpp - float comparison helpers (DESIGN 3.8): bit patterns, ordered-integer
// ulp distance, argument classes (situation labels), classified symptoms, laundering.
// Everything works on the bit pattern; no libm classification function is trusted here.
#pragma once
#include "vf.hpp"

#include <bit>
#include <cstdint>
#include <cstdio>
#include <cstring>

namespace vf::fp {

template <typename T>
struct Tr;
template <>
struct Tr<float> {
    using U                       = std::uint32_t;
    static constexpr int mbits    = 23;
    static constexpr int ebits    = 8;
    static constexpr int bias     = 127;
    static constexpr char const* name = "float";
};
template <>
struct Tr<double> {
    using U                       = std::uint64_t;
    static constexpr int mbits    = 52;
    static constexpr int ebits    = 11;
    static constexpr int bias     = 1023;
    static constexpr char const* name = "double";
};

template <typename T>
using bits_t = typename Tr<T>::U;

template <typename T>
inline bits_t<T> bits(T x)
{
    return std::bit_cast<bits_t<T>>(x);
}
template <typename T>
inline T from_bits(bits_t<T> u)
{
    return std::bit_cast<T>(u);
}
template <typename T>
constexpr bits_t<T> sign_mask = bits_t<T>(1) << (Tr<T>::mbits + Tr<T>::ebits);
template <typename T>
constexpr bits_t<T> mant_mask = (bits_t<T>(1) << Tr<T>::mbits) - 1;
template <typename T>
constexpr bits_t<T> exp_mask = ((bits_t<T>(1) << Tr<T>::ebits) - 1) << Tr<T>::mbits;

template <typename T>
inline unsigned biased_exp(T x)
{
    return (unsigned)((bits(x) & exp_mask<T>) >> Tr<T>::mbits);
}
template <typename T>
inline bits_t<T> mant(T x)
{
    return bits(x) & mant_mask<T>;
}
template <typename T>
inline bool sign(T x)
{
    return (bits(x) & sign_mask<T>) != 0;
}
template <typename T>
inline bool is_nan(T x)
{
    return (bits(x) & exp_mask<T>) == exp_mask<T> && mant(x) != 0;
}
template <typename T>
inline bool is_inf(T x)
{
    return (bits(x) & exp_mask<T>) == exp_mask<T> && mant(x) == 0;
}
template <typename T>
inline bool is_zero(T x)
{
    return (bits(x) & ~sign_mask<T>) == 0;
}
template <typename T>
inline bool is_denormal(T x)
{
    return biased_exp(x) == 0 && mant(x) != 0;
}
template <typename T>
inline bool is_finite(T x)
{
    return (bits(x) & exp_mask<T>) != exp_mask<T>;
}

// launder: the optimiser must not see the value (inputs) / must not fuse or fold across (results)
template <typename T>
[[gnu::always_inline]] inline T launder(T x)
{
    asm volatile("" : "+x"(x));
    return x;
}
template <typename T>
inline T launder_v(T x)
{
    T volatile v = x;
    return v;
}

// ordered-integer mapping: monotone in the value, -0 and +0 both map to 0
template <typename T>
inline std::int64_t ord(T x)
{
    auto u = bits(x);
    auto m = (std::int64_t)(u & ~sign_mask<T>);
    return (u & sign_mask<T>) ? -m : m;
}
// ulp distance (both arguments not NaN)
template <typename T>
inline std::uint64_t ulp_dist(T a, T b)
{
    std::int64_t x = ord(a), y = ord(b);
    return x > y ? (std::uint64_t)x - (std::uint64_t)y : (std::uint64_t)y - (std::uint64_t)x;
}

// ---------------------------------------------------------------- argument classes
// vocabulary (magnitude part): zero denormal tiny |x|<1 half-way integer generic >=2^P >=2^63 inf nan
// where P = mantissa bits (23 / 52); a leading '-' marks a set sign bit.  "tiny" = normal, |x| < epsilon.
template <typename T>
inline char const* mag_class(T x)
{
    constexpr int P  = Tr<T>::mbits;
    constexpr int B  = Tr<T>::bias;
    unsigned const e = biased_exp(x);
    auto const m     = mant(x);
    if (e == (unsigned)((1 << Tr<T>::ebits) - 1)) { return m ? "nan" : "inf"; }
    if (e == 0) { return m ? "denormal" : "zero"; }
    if (e < (unsigned)(B - P)) { return "tiny"; }
    if (e >= (unsigned)(B + 63)) { return ">=2^63"; }
    if (e >= (unsigned)(B + P)) { return P == 23 ? ">=2^23" : ">=2^52"; }
    if (e < (unsigned)(B - 1)) { return "|x|<1"; }
    // e in [B-1, B+P): fraction bits below 2^0 are the low (P - (e-B)) mantissa bits
    int const fb = P - ((int)e - B); // number of fraction bits, 1..P+1
    if (fb > P) { return m == 0 ? "half-way" : "|x|<1"; } // e == B-1: 0.5 <= |x| < 1
    auto const frac = m & ((bits_t<T>(1) << fb) - 1);
    if (frac == 0) { return "integer"; }
    if (frac == (bits_t<T>(1) << (fb - 1))) { return "half-way"; }
    return "generic";
}
inline char const* neg_label(char const* c)
{
    // static table so labels stay string literals with static storage
    static char const* const pos[] = {"nan", "inf", "zero", "denormal", "tiny", "|x|<1", "half-way", "integer", "generic", ">=2^23", ">=2^52", ">=2^63"};
    static char const* const neg[] = {"-nan", "-inf", "-zero", "-denormal", "-tiny", "-|x|<1", "-half-way", "-integer", "-generic", "-(>=2^23)", "-(>=2^52)", "-(>=2^63)"};
    for (unsigned i = 0; i < sizeof pos / sizeof pos[0]; ++i) {
        if (std::strcmp(pos[i], c) == 0) { return neg[i]; }
    }
    return c;
}
template <typename T>
inline char const* arg_class(T x)
{
    char const* c = mag_class(x);
    return sign(x) ? neg_label(c) : c;
}

// coarse classes for two-argument situations: nan inf zero denormal tiny normal huge (|x| >= 2^63), signed
template <typename T>
inline char const* coarse_class(T x)
{
    constexpr int B  = Tr<T>::bias;
    unsigned const e = biased_exp(x);
    auto const m     = mant(x);
    bool const s     = sign(x);
    if (e == (unsigned)((1 << Tr<T>::ebits) - 1)) { return m ? "nan" : (s ? "-inf" : "inf"); }
    if (e == 0) { return m ? (s ? "-denormal" : "denormal") : (s ? "-zero" : "zero"); }
    if (e < (unsigned)(B - Tr<T>::mbits)) { return s ? "-tiny" : "tiny"; }
    if (e >= (unsigned)(B + 63)) { return s ? "-huge" : "huge"; }
    return s ? "-normal" : "normal";
}
// "xcls,ycls[,rel]" : rel = magnitude relation when both are finite and non-zero
template <typename T>
inline void pair_class(char* out, std::size_t cap, T x, T y)
{
    char const* rel = "";
    if (is_finite(x) && is_finite(y) && !is_zero(x) && !is_zero(y)) {
        auto ax = bits(x) & ~sign_mask<T>, ay = bits(y) & ~sign_mask<T>;
        rel = ax < ay ? ",|x|<|y|" : (ax == ay ? ",|x|=|y|" : ",|x|>|y|");
    }
    std::snprintf(out, cap, "%s,%s%s", coarse_class(x), coarse_class(y), rel);
}

// result class used by class comparisons
template <typename T>
inline char const* res_class(T r)
{
    if (is_nan(r)) { return "nan"; }
    if (is_inf(r)) { return sign(r) ? "-inf" : "inf"; }
    if (is_zero(r)) { return sign(r) ? "-0" : "+0"; }
    return sign(r) ? "neg" : "pos";
}

// ---------------------------------------------------------------- classified symptoms
// exact set. nan_sign_matters: copysign/fabs/negation style functions defined on the sign bit.
// returns nullptr when equal under the rule.
template <typename T>
inline char const* exact_symptom(T obs, T exp, T arg, bool nan_sign_matters)
{
    bool const on = is_nan(obs), en = is_nan(exp);
    if (on || en) {
        if (on && en) { return (nan_sign_matters && sign(obs) != sign(exp)) ? "nan-sign-differs" : nullptr; }
        return on ? "nan-for-value" : "value-for-nan";
    }
    if (bits(obs) == bits(exp)) { return nullptr; }
    if (is_zero(obs) && is_zero(exp)) { return "sign-of-zero"; }
    if (is_inf(obs) != is_inf(exp)) { return is_inf(obs) ? "inf-for-value" : "value-for-inf"; }
    if (bits(obs) == bits(arg)) { return "returns-argument"; }
    if ((bits(obs) ^ bits(exp)) == sign_mask<T>) { return "sign-flipped"; }
    if (is_finite(obs) && is_finite(exp)) {
        T d = obs - exp;
        if (d == T(1) || d == T(-1)) { return "off-by-one"; }
        if (ulp_dist(obs, exp) == 1) { return "off-by-one-ulp"; }
    }
    return "bits-differ";
}

// approximate set. Returns nullptr when within bound; *ulps receives the distance (0 for class errors).
template <typename T>
inline char const* approx_symptom(T obs, T exp, std::uint64_t bound, std::uint64_t* ulps, char* buf, std::size_t cap)
{
    *ulps = 0;
    bool const on = is_nan(obs), en = is_nan(exp);
    if (on && en) { return nullptr; }
    if (bits(obs) == bits(exp)) { return nullptr; }
    bool const special = on || en || is_inf(obs) || is_inf(exp) || (is_zero(obs) && is_zero(exp));
    if (special) {
        std::snprintf(buf, cap, "class-differs:%s-for-%s", res_class(obs), res_class(exp));
        return buf;
    }
    std::uint64_t d = ulp_dist(obs, exp);
    *ulps           = d;
    if (d <= bound) { return nullptr; }
    if (sign(obs) != sign(exp) && !is_zero(obs) && !is_zero(exp) && d > (bound << 8)) { return "ulp>bound:sign-differs"; }
    return d > (std::uint64_t(1) << 20) ? "ulp>>bound" : "ulp>bound";
}

template <typename T>
inline void show(char* out, std::size_t cap, T x)
{
    if constexpr (sizeof(T) == 4) {
        std::snprintf(out, cap, "%a [0x%08x] (%.9g)", (double)x, (unsigned)bits(x), (double)x);
    } else {
        std::snprintf(out, cap, "%a [0x%016llx] (%.17g)", (double)x, (unsigned long long)bits(x), (double)x);
    }
}

// block accounting for sweeps: n oracle-compared evaluations over n_distinct distinct inputs that are
// disjoint from every other block by construction (same contract as vf::cover_bulk, but one hash-set
// insertion per block instead of up to 4096, which dominated the run time of 10^5-block sweeps).
inline void cover_block(char const* label, std::uint64_t n, std::uint64_t block_hash, std::uint64_t n_distinct)
{
    Shared* sh = g().sh;
    if (!sh || n == 0) { return; }
    sh->evals += n;
    if (OpEnt* e = op_slot(label)) { e->n += n; }
    if (n_distinct == 0) { return; }
    dset_insert(mix(block_hash, fnv(label)));
    if (n_distinct > 1) {
        Json j;
        j.str("k", "bulk").str("label", label).num("n", n).num("distinct", n_distinct - 1).emit();
    }
}

} // namespace vf::fp
