// C06 - element types with their own namespace-scope swap (found by ADL).  [alg.swap]: iter_swap(a,b) is swap(*a,*b)
//       (unqualified), swap_ranges and reverse are specified through it, partition requires only Cpp17ValueSwappable.
// -DC06_ADL_PART=1: movable type whose swap counts its calls and marks both operands: exact call counts / no element
//                   moves / marks compared with libstdc++ for iter_swap, swap_ranges, reverse, partition; results for
//                   rotate and the swap-based sorts.
// -DC06_ADL_PART=2: (probe) a type that is swappable but neither movable nor copyable.
#include "vf.hpp"
#include "vf_contract.hpp"
#include "vf_algo_tests.hpp"

#include <memory>

#ifndef C06_ADL_PART
    #define C06_ADL_PART 1
#endif

namespace c06adl {
namespace vi = vf::it;

struct Counters {
    long adl_swaps   = 0;
    long move_ctor   = 0;
    long move_assign = 0;
};
inline Counters& cnt()
{
    static Counters c;
    return c;
}

#if C06_ADL_PART == 1
struct Sw {
    int key;
    int tag;
    int swapped = 0; // how often this value took part in c06adl::swap
    Sw() noexcept : key(-7), tag(-7) { }
    Sw(int k, int t) noexcept : key(k), tag(t) { }
    Sw(Sw const&)            = delete;
    Sw& operator=(Sw const&) = delete;
    Sw(Sw&& o) noexcept : key(o.key), tag(o.tag), swapped(o.swapped)
    {
        ++cnt().move_ctor;
        vi::touch_write(&o, sizeof o, "move-from-outside-range");
        o.key = c06::MOVED;
    }
    Sw& operator=(Sw&& o) noexcept
    {
        ++cnt().move_assign;
        vi::touch_write(&o, sizeof o, "move-from-outside-range");
        vi::touch_write(this, sizeof o, "write-outside-range");
        if (this != &o) {
            key     = o.key;
            tag     = o.tag;
            swapped = o.swapped;
            o.key   = c06::MOVED;
        }
        return *this;
    }
    friend bool operator==(Sw const& a, Sw const& b) { return a.key == b.key; }
    friend bool operator<(Sw const& a, Sw const& b) { return a.key < b.key; }
};
#else
struct Sw { // swappable only
    int key;
    int tag;
    int swapped = 0;
    Sw() noexcept : key(-7), tag(-7) { }
    Sw(int k, int t) noexcept : key(k), tag(t) { }
    Sw(Sw const&)            = delete;
    Sw& operator=(Sw const&) = delete;
    Sw(Sw&&)                 = delete;
    Sw& operator=(Sw&&)      = delete;
};
#endif
// the customisation point: exchanges the values field by field, counts the call and marks both operands
inline void swap(Sw& a, Sw& b) noexcept
{
    ++cnt().adl_swaps;
    vi::touch_write(&a, sizeof a, "write-outside-range");
    vi::touch_write(&b, sizeof b, "write-outside-range");
    int t;
    t = a.key, a.key = b.key, b.key = t;
    t = a.tag, a.tag = b.tag, b.tag = t;
    t = a.swapped, a.swapped = b.swapped, b.swapped = t;
    ++a.swapped;
    ++b.swapped;
}
} // namespace c06adl

namespace c06 {
using c06adl::Sw;

// a sequence of Sw in harness memory (constructed in place; Sw need not be movable)
struct SwRange {
    static constexpr std::size_t PAD = 2;
    vf::Buf<Sw> buf;
    Sw* lo;
    Sw* hi;
    std::size_t n;
    Pres pres;
    vi::Desc<Sw> desc;
    SwRange(Seq const& v, Pres p) : buf(p == Pres::embedded ? v.size() + 2 * PAD : (p == Pres::null ? 0 : v.size())), n(v.size()), pres(p)
    {
        if (p == Pres::null) {
            lo = hi = nullptr;
            desc.reset(lo, hi);
            return;
        }
        lo = buf.data() + (p == Pres::embedded ? PAD : 0);
        hi = lo + n;
        if (p == Pres::embedded) {
            for (std::size_t i = 0; i < PAD; ++i) {
                new (buf.data() + i) Sw((int)(i & 1), -1000 - (int)i);
                new (hi + i) Sw((int)(i & 1), -1002 - (int)i);
            }
        }
        for (std::size_t i = 0; i < n; ++i) { new (lo + i) Sw(v[i].key, v[i].tag); }
        desc.reset(lo, hi);
        vi::add_block(buf.data(), buf.data() + buf.size());
        vi::add_handed(lo, hi, true);
    }
    template <typename K>
    typename K::template it<Sw> at(std::size_t i)
    {
        return K::template make<Sw>(lo ? lo + i : nullptr, &desc);
    }
    Seq get() const
    {
        Seq s;
        for (Sw* p = lo; p != hi; ++p) { s.push_back(El{p->key, p->tag}); }
        return s;
    }
    std::vector<long> marks() const
    {
        std::vector<long> s;
        for (Sw* p = lo; p != hi; ++p) { s.push_back(p->swapped); }
        return s;
    }
    bool guards_ok() const
    {
        if (pres != Pres::embedded) { return true; }
        for (std::size_t i = 0; i < PAD; ++i) {
            if (buf.data()[i].tag != -1000 - (int)i || buf.data()[i].swapped != 0) { return false; }
            if (hi[i].tag != -1002 - (int)i || hi[i].swapped != 0) { return false; }
        }
        return true;
    }
};
// reference side: a plain array of Sw filled in place
struct SwModel {
    std::unique_ptr<Sw[]> p;
    std::size_t n;
    explicit SwModel(Seq const& v) : p(new Sw[v.size() ? v.size() : 1]), n(v.size())
    {
        for (std::size_t i = 0; i < n; ++i) {
            p[i].key = v[i].key;
            p[i].tag = v[i].tag;
        }
    }
    Sw* b() { return p.get(); }
    Sw* e() { return p.get() + n; }
    Seq get() const
    {
        Seq s;
        for (std::size_t i = 0; i < n; ++i) { s.push_back(El{p[i].key, p[i].tag}); }
        return s;
    }
    std::vector<long> marks() const
    {
        std::vector<long> s;
        for (std::size_t i = 0; i < n; ++i) { s.push_back(p[i].swapped); }
        return s;
    }
};
struct SwPred {
    int mode;
    int arg;
    bool operator()(Sw const& a) const
    {
        vi::touch_read(&a, sizeof a, "pred-outside-range");
        return mode == 0 ? a.key == arg : (mode == 1 ? a.key < arg : (a.key & 1) == arg);
    }
};
inline void sw_fin(Trial& t, SwRange& r)
{
    if (!r.guards_ok()) { vf::diverge("guard-element-outside-range-modified", "range", "untouched"); }
    r.buf.check("range");
    t.done();
}
// counters of one call: the element type's own swap must do all the exchanging
struct Tally {
    c06adl::Counters c;
    static void reset() { c06adl::cnt() = c06adl::Counters{}; }
    static Tally take()
    {
        Tally t{c06adl::cnt()};
        reset();
        return t;
    }
    long moves() const { return c.move_ctor + c.move_assign; }
};

template <typename K>
void k_swap_specified(Ctx& c)
{
    std::size_t const n = c.a.size();
    char kind[48];
    std::snprintf(kind, sizeof kind, "%s<adl-swap>", K::name);
    std::vector<Pres> press = pres_for<K>(n);
    for (Pres pr : press) {
        // ---- iter_swap: exactly one call of the element's swap, nothing else
        for (std::size_t i = 0; i < n; ++i) {
            for (std::size_t j = i; j < n; ++j) {
                SwModel m(c.a);
                Tally::reset();
                std::iter_swap(m.b() + i, m.b() + j);
                Tally st = Tally::take();
                Trial t(c, kind, "iter_swap(a,b)", pr, i == j ? "same" : "distinct", vf::mix(i, j), "i=%zu j=%zu", i, j);
                SwRange r(c.a, pr);
                t.call([&] { etl::iter_swap(r.at<K>(i), r.at<K>(j)); });
                Tally et = Tally::take();
                t.off("element-swap-calls", et.c.adl_swaps, st.c.adl_swaps);
                t.off("element-moves", et.moves(), 0);
                t.seq("range", r.get(), m.get());
                t.nums("swap-marks", r.marks(), m.marks());
                sw_fin(t, r);
            }
        }
        // ---- swap_ranges: n calls
        {
            Seq y(c.a.rbegin(), c.a.rend());
            for (auto& e : y) { e.tag += 200; }
            SwModel m(c.a), m2(y);
            Tally::reset();
            std::swap_ranges(m.b(), m.e(), m2.b());
            Tally st = Tally::take();
            Trial t(c, kind, "swap_ranges(f1,l1,f2)", pr, "", 1000, "y=reverse(a)");
            SwRange r(c.a, pr), r2(y, pr);
            auto ret = t.call([&] { return etl::swap_ranges(r.at<K>(0), r.at<K>(n), r2.at<K>(0)); });
            Tally et = Tally::take();
            t.off("ret", K::raw(ret) - r2.lo, (long)n);
            t.off("element-swap-calls", et.c.adl_swaps, st.c.adl_swaps);
            t.off("element-moves", et.moves(), 0);
            t.seq("range1", r.get(), m.get());
            t.seq("range2", r2.get(), m2.get());
            t.nums("swap-marks1", r.marks(), m.marks());
            t.nums("swap-marks2", r2.marks(), m2.marks());
            if (!r2.guards_ok()) { vf::diverge("guard-element-outside-range-modified", "range2", "untouched"); }
            sw_fin(t, r);
        }
        // ---- partition: only swaps (the standard requires nothing else of the element type)
        for (auto const& ps : kPreds) {
            SwPred p{ps.mode, ps.arg};
            long cntTrue = 0;
            for (auto const& e : c.a) { cntTrue += p(Sw{e.key, e.tag}) ? 1 : 0; }
            Tally::reset();
            Trial t(c, kind, "partition(f,l,p)", pr, cntTrue == 0 ? "none-true" : (cntTrue == (long)n ? "all-true" : "mixed"), vf::mix(2000 + ps.mode, ps.arg),
                "pred %s", ps.name);
            SwRange r(c.a, pr);
            auto ret = t.call([&] { return etl::partition(r.at<K>(0), r.at<K>(n), p); });
            Tally et = Tally::take();
            Seq got  = r.get();
            t.off("ret", K::raw(ret) - r.lo, cntTrue);
            t.off("element-moves", et.moves(), 0);
            if (t.permutation("range", got, c.a)) {
                bool part = true, seenFalse = false;
                for (auto const& e : got) {
                    bool v = p(Sw{e.key, e.tag});
                    if (!v) { seenFalse = true; }
                    if (v && seenFalse) { part = false; }
                }
                t.require("range:not-partitioned", part, show(got), "all true elements before all false ones");
                // every element that changed place was exchanged by the element's swap
                std::vector<long> mk = r.marks();
                bool marked          = true;
                for (std::size_t i = 0; i < n; ++i) {
                    if (got[i].tag != c.a[i].tag && mk[i] == 0) { marked = false; }
                }
                t.require("range:element-relocated-without-its-swap", marked, show(got), "relocated elements carry a swap mark");
            }
            sw_fin(t, r);
        }
    }
}
#if C06_ADL_PART == 1
template <typename K>
void k_reverse(Ctx& c)
{
    std::size_t const n = c.a.size();
    char kind[48];
    std::snprintf(kind, sizeof kind, "%s<adl-swap>", K::name);
    for (Pres pr : pres_for<K>(n)) {
        SwModel m(c.a);
        Tally::reset();
        std::reverse(m.b(), m.e());
        Tally st = Tally::take();
        Trial t(c, kind, "reverse(f,l)", pr, n % 2 ? "odd" : "even", 3000, "-");
        SwRange r(c.a, pr);
        t.call([&] { etl::reverse(r.at<K>(0), r.at<K>(n)); });
        Tally et = Tally::take();
        t.off("element-swap-calls", et.c.adl_swaps, st.c.adl_swaps); // [alg.reverse]: iter_swap on (last-first)/2 pairs
        t.off("element-moves", et.moves(), 0);
        t.seq("range", r.get(), m.get());
        t.nums("swap-marks", r.marks(), m.marks());
        sw_fin(t, r);
    }
}
// rotate and the sorts: the standard lets them move or swap; only the result is specified
template <typename K>
void k_results(Ctx& c)
{
    std::size_t const n = c.a.size();
    char kind[48];
    std::snprintf(kind, sizeof kind, "%s<adl-swap>", K::name);
    for (Pres pr : pres_for<K>(n)) {
        for (std::size_t mid = 0; mid <= n; ++mid) {
            Seq exp = c.a;
            auto se = std::rotate(exp.begin(), exp.begin() + (long)mid, exp.end()) - exp.begin();
            Trial t(c, kind, "rotate(f,m,l)", pr, mid == 0 ? "mid=first" : (mid == n ? "mid=last" : "mid-inner"), 4000 + mid, "mid=%zu", mid);
            SwRange r(c.a, pr);
            auto ret = t.call([&] { return etl::rotate(r.at<K>(0), r.at<K>(mid), r.at<K>(n)); });
            t.off("ret", K::raw(ret) - r.lo, se);
            t.seq("range", r.get(), exp);
            sw_fin(t, r);
        }
        if constexpr (std::is_same_v<K, KPtr> || std::is_same_v<K, KRa>) {
            static char const* const names[] = {"sort(f,l)", "gnome_sort(f,l)", "bubble_sort(f,l)", "exchange_sort(f,l)", "stable_partition(f,l,p)"};
            for (int f = 0; f < 5; ++f) {
                Trial t(c, kind, names[f], pr, "", 5000 + f, "-");
                SwRange r(c.a, pr);
                t.call([&] {
                    auto b = r.at<K>(0), e = r.at<K>(n);
                    switch (f) {
                    case 0: etl::sort(b, e); break;
                    case 1: etl::gnome_sort(b, e); break;
                    case 2: etl::bubble_sort(b, e); break;
                    case 3: etl::exchange_sort(b, e); break;
                    default: (void)etl::stable_partition(b, e, SwPred{2, 0}); break;
                    }
                });
                Seq got = r.get();
                if (t.permutation("range", got, c.a)) {
                    Seq exp = c.a;
                    if (f == 4) {
                        std::stable_partition(exp.begin(), exp.end(), [](El const& e) { return (e.key & 1) == 0; });
                        t.seq("range", got, exp);
                    } else if (f == 2) {
                        std::stable_sort(exp.begin(), exp.end(), [](El const& x, El const& y) { return x.key < y.key; });
                        t.seq("range", got, exp);
                    } else {
                        bool srt = true;
                        for (std::size_t i = 1; i < got.size(); ++i) { srt = srt && !(got[i].key < got[i - 1].key); }
                        t.require("range:not-sorted", srt, show(got), "sorted");
                    }
                }
                sw_fin(t, r);
            }
        }
    }
}
void t_adl_specified(Ctx& c)
{
    k_swap_specified<KPtr>(c);
    k_swap_specified<KFwd>(c);
}
void t_adl_reverse(Ctx& c)
{
    k_reverse<KPtr>(c);
    k_reverse<KBidi>(c);
    k_reverse<KRa>(c);
}
void t_adl_results(Ctx& c)
{
    k_results<KPtr>(c);
    k_results<KFwd>(c);
    k_results<KRa>(c);
}
Test const kTests[] = {
    {"adl_swap_specified", t_adl_specified},
    {"adl_swap_reverse", t_adl_reverse},
    {"adl_swap_results", t_adl_results},
};
std::size_t const kNumTests = sizeof(kTests) / sizeof(kTests[0]);
} // namespace c06
C06_MAIN("C06_adlswap")
#else
// swappable-only element: iter_swap / swap_ranges / partition / reverse must compile and work with nothing but c06adl::swap
void t_swap_only(Ctx& c)
{
    k_swap_specified<KPtr>(c);
    k_swap_specified<KFwd>(c);
    std::size_t const n = c.a.size();
    for (Pres pr : pres_for<KBidi>(n)) {
        Seq exp(c.a.rbegin(), c.a.rend());
        Trial t(c, "bidi_it<swap-only>", "reverse(f,l)", pr, n % 2 ? "odd" : "even", 3000, "-");
        SwRange r(c.a, pr);
        t.call([&] { etl::reverse(r.at<KBidi>(0), r.at<KBidi>(n)); });
        t.seq("range", r.get(), exp);
        sw_fin(t, r);
        Trial t2(c, "ptr<swap-only>", "reverse(f,l)", pr, n % 2 ? "odd" : "even", 3001, "-");
        SwRange r2(c.a, pr);
        t2.call([&] { etl::reverse(r2.lo, r2.hi); });
        t2.seq("range", r2.get(), exp);
        sw_fin(t2, r2);
    }
}
Test const kTests[]         = {{"swap_only", t_swap_only}};
std::size_t const kNumTests = 1;
} // namespace c06
C06_MAIN("C06_probe_swap_only")
#endif
