// C07 - visit over variants with MIXED numbers of alternatives (1, 2 and 3), every position, every combination of
// active indices: the visitor must be called exactly once with the active alternative of every variant.
// Lists: variant<int>, variant<tracked-cm> (single alternative), variant<int,char>, variant<tracked-cm,int,char>.
// Two variants: all 16 ordered pairs of lists; three variants: all 64 triples; the visitor logs type, value and value
// category of every argument and returns a checksum; lvalue / const lvalue / rvalue operands are rotated through the
// positions.  Compared with std::visit on variants of the same types in the same states.  Single-variant visit of
// every list in all four value categories (value-returning and void visitor) is included as well.
#include "vf.hpp"
#include "vf_contract.hpp"
#include "vf_tracked.hpp"

#include "vf_c07.hpp"

namespace {
using namespace c07;

template <typename... Ts>
struct TL {
    static constexpr std::size_t size = sizeof...(Ts);
};
template <typename NS, typename L>
struct VarOf;
template <typename NS, typename... Ts>
struct VarOf<NS, TL<Ts...>> {
    using type = typename NS::template variant<Ts...>;
    template <std::size_t I = 0>
    static type mk(std::size_t j, int v)
    {
        if constexpr (I + 1 < sizeof...(Ts)) {
            if (j != I) { return mk<I + 1>(j, v); }
        }
        return type(NS::template ipi<I>, v);
    }
};
using A1  = TL<int>;
using A1t = TL<TCM>;
using A2  = TL<int, char>;
using A3  = TL<TCM, int, char>;
constexpr char const* kListName[4] = {"variant<int>", "variant<tracked-cm>", "variant<int,char>", "variant<tracked-cm,int,char>"};

struct VisitLog {
    int calls = 0;
    int id[3]{-1, -1, -1};
    long long val[3]{kAbsent, kAbsent, kAbsent};
    int cat[3]{-1, -1, -1};
};
struct LogVisitor {
    VisitLog* L;
    template <typename... A>
    long operator()(A&&... a) const
    {
        L->calls++;
        int k         = 0;
        long long sum = 0;
        ((L->id[k] = tid<std::remove_cvref_t<A>>(), L->val[k] = enc(a), L->cat[k] = category<A&&>(), sum = sum * 31 + enc(a) + 7 * tid<std::remove_cvref_t<A>>(), ++k), ...);
        return (long)sum;
    }
};
struct VoidVisitor {
    VisitLog* L;
    template <typename A>
    void operator()(A&& a) const
    {
        L->calls++;
        L->id[0]  = tid<std::remove_cvref_t<A>>();
        L->val[0] = enc(a);
        L->cat[0] = category<A&&>();
    }
};
void obs_log(Obs& r, VisitLog const& L, int n, long ret)
{
    static constexpr char const* nid[3]  = {"visitor.arg0-type", "visitor.arg1-type", "visitor.arg2-type"};
    static constexpr char const* nval[3] = {"visitor.arg0-value", "visitor.arg1-value", "visitor.arg2-value"};
    static constexpr char const* ncat[3] = {"visitor.arg0-category", "visitor.arg1-category", "visitor.arg2-category"};
    r.i("visitor.calls", L.calls);
    for (int k = 0; k < n; ++k) {
        r.i(nid[k], L.id[k]);
        r.i(nval[k], L.val[k]);
        r.i(ncat[k], L.cat[k]);
    }
    r.i("visit-result", ret);
}

template <typename NS, typename LA>
void visit1(Obs& r, std::size_t ja, int q)
{
    using VA    = typename VarOf<NS, LA>::type;
    VA a        = VarOf<NS, LA>::mk(ja, 1);
    VA const& c = a;
    VisitLog L;
    LogVisitor f{&L};
    long ret = q == 0 ? NS::visit(f, a) : q == 1 ? NS::visit(f, c) : q == 2 ? NS::visit(f, static_cast<VA&&>(a)) : NS::visit(f, static_cast<VA const&&>(c));
    obs_log(r, L, 1, ret);
    VisitLog L2;
    VoidVisitor g{&L2};
    NS::visit(g, a);
    obs_log(r, L2, 1, 0);
}
template <typename NS, typename LA, typename LB>
void visit2(Obs& r, std::size_t ja, std::size_t jb, int form)
{
    using VA    = typename VarOf<NS, LA>::type;
    using VB    = typename VarOf<NS, LB>::type;
    VA a        = VarOf<NS, LA>::mk(ja, 1);
    VB b        = VarOf<NS, LB>::mk(jb, 2);
    VB const& cb = b;
    VisitLog L;
    LogVisitor f{&L};
    long ret = form == 0 ? NS::visit(f, a, cb) : form == 1 ? NS::visit(f, static_cast<VA&&>(a), b) : NS::visit(f, static_cast<VA const&>(a), static_cast<VB&&>(b));
    obs_log(r, L, 2, ret);
}
template <typename NS, typename LA, typename LB, typename LC>
void visit3(Obs& r, std::size_t ja, std::size_t jb, std::size_t jc)
{
    using VA = typename VarOf<NS, LA>::type;
    using VB = typename VarOf<NS, LB>::type;
    using VC = typename VarOf<NS, LC>::type;
    VA a     = VarOf<NS, LA>::mk(ja, 1);
    VB const b = VarOf<NS, LB>::mk(jb, 2);
    VC c     = VarOf<NS, LC>::mk(jc, 0);
    VisitLog L;
    LogVisitor f{&L};
    long ret = NS::visit(f, a, b, static_cast<VC&&>(c));
    obs_log(r, L, 3, ret);
}

template <typename F>
void for_each_list(F&& f)
{
    f(A1{}, 0);
    f(A1t{}, 1);
    f(A2{}, 2);
    f(A3{}, 3);
}
unsigned g_cells = 0;

void run_all()
{
    for_each_list([&](auto la, int na) {
        using LA = decltype(la);
        for (std::size_t ja = 0; ja < LA::size; ++ja) {
            for (int q = 0; q < 4; ++q) {
                static constexpr char const* qn[4] = {"&", "const&", "&&", "const&&"};
                char sit[64];
                std::snprintf(sit, sizeof sit, "from-index-%zu,%s", ja, qn[q]);
                vf::crumb(kListName[na], "visit(f,v)", sit, "-");
                Obs so, eo;
                visit1<Std, LA>(so, ja, q);
                visit1<Etl, LA>(eo, ja, q);
                vf::cover("visit over mixed alternative counts: 1 variant", vf::mix(na, ja * 4 + q), true);
                compare(eo, so);
                ++g_cells;
            }
        }
    });
    for_each_list([&](auto la, int na) {
        for_each_list([&](auto lb, int nb) {
            using LA = decltype(la);
            using LB = decltype(lb);
            char subj[96];
            std::snprintf(subj, sizeof subj, "%s x %s", kListName[na], kListName[nb]);
            for (std::size_t ja = 0; ja < LA::size; ++ja) {
                for (std::size_t jb = 0; jb < LB::size; ++jb) {
                    for (int form = 0; form < 3; ++form) {
                        char sit[64];
                        std::snprintf(sit, sizeof sit, "alternatives-%zu-%zu,index-%zu-%zu", LA::size, LB::size, ja, jb);
                        vf::crumb(subj, "visit(f,v,w)", sit, "operand form %d (0: lvalue,const lvalue; 1: rvalue,lvalue; 2: const lvalue,rvalue)", form);
                        Obs so, eo;
                        visit2<Std, LA, LB>(so, ja, jb, form);
                        visit2<Etl, LA, LB>(eo, ja, jb, form);
                        vf::cover("visit over mixed alternative counts: 2 variants", vf::mix(vf::mix(na, nb), (ja * 3 + jb) * 3 + form), true);
                        compare(eo, so);
                        ++g_cells;
                    }
                }
            }
        });
    });
    for_each_list([&](auto la, int na) {
        for_each_list([&](auto lb, int nb) {
            for_each_list([&](auto lc, int nc) {
                using LA = decltype(la);
                using LB = decltype(lb);
                using LC = decltype(lc);
                char subj[96];
                std::snprintf(subj, sizeof subj, "visit over %zu x %zu x %zu alternatives (lists %d,%d,%d)", LA::size, LB::size, LC::size, na, nb, nc);
                for (std::size_t ja = 0; ja < LA::size; ++ja) {
                    for (std::size_t jb = 0; jb < LB::size; ++jb) {
                        for (std::size_t jc = 0; jc < LC::size; ++jc) {
                            char sit[64];
                            std::snprintf(sit, sizeof sit, "index-%zu-%zu-%zu", ja, jb, jc);
                            vf::crumb(subj, "visit(f,v,w,u)", sit, "%s, %s, %s", kListName[na], kListName[nb], kListName[nc]);
                            Obs so, eo;
                            visit3<Std, LA, LB, LC>(so, ja, jb, jc);
                            visit3<Etl, LA, LB, LC>(eo, ja, jb, jc);
                            vf::cover("visit over mixed alternative counts: 3 variants", vf::mix(vf::mix(na, vf::mix(nb, nc)), (ja * 3 + jb) * 3 + jc), true);
                            compare(eo, so);
                            ++g_cells;
                        }
                    }
                }
            });
        });
    });
    vf::registry().reset();
    vf::sample("visit over mixed alternative counts", "%u cells: lists with 1, 1, 2 and 3 alternatives in every position of 1-, 2- and 3-variant visits, every combination of active indices; visitor log (calls, type, value, category of each argument) and result compared with std::visit", g_cells);
}

vf::Spec spec(vf::Tier)
{
    vf::Spec s;
    s.n_enum     = 1;
    s.n_random   = 0;
    s.batch      = 1;
    s.exhaustive = true;
    return s;
}
void run_case(vf::Case&) { run_all(); }
} // namespace

VF_MAIN("C07", "C07_visitmix", spec, run_case)
