// C13_fp.cpp - twin tables for the rounding / classification part of <etl/cmath.hpp>.
// Built once per (floating type, function group): -DC13_T=float|double|"long double" -DC13_GRP=0..6
// and per optimisation flavour (O0 / plain(-O2) / asan(-O1)).
#include "vf.hpp"
#include "vf_contract.hpp"

#include "vf_c13.hpp"

#include <etl/cmath.hpp>

#include <cfenv>
#include <climits>
#include <cmath>

#ifndef C13_T
    #define C13_T double
#endif
#ifndef C13_GRP
    #define C13_GRP 0
#endif

namespace {
using namespace c13;
using T = C13_T;
using L = std::numeric_limits<T>;

// ------------------------------------------------------------------ tables
template <typename V, std::size_t CAP>
struct Bag {
    V v[CAP]{};
    std::size_t n = 0;
    constexpr void add1(V x)
    {
#if !defined(C13_BIG)
        for (std::size_t i = 0; i < n; ++i) {
            if (same_fp(v[i], x)) { return; }
        }
#endif
        v[n++] = x; // running past CAP is a compile error (constant evaluation)
    }
    constexpr void add(V x)
    {
        add1(x);
        add1(-x);
    }
    constexpr void add_if_finite(V x)
    {
        if (x <= L::max()) { add(x); }
    }
};

constexpr auto build_unary()
{
#if defined(C13_BIG)
    Bag<T, 12000> b; // thorough tier: every k, more small integers; duplicates are kept (counted once in distinct)
#else
    Bag<T, 1400> b;
#endif
    int const p  = L::digits;
    T const dm   = L::denorm_min();
    T const e    = L::epsilon();
    b.add(T(0));
    b.add(dm);
    b.add(dm * 2);
    b.add(dm * 3);
    b.add(L::min() - dm);
    b.add(L::min());
    b.add(L::min() + dm);
    b.add(L::min() * 2);
    b.add(e / 4);
    b.add(e / 2);
    b.add(pred(e));
    b.add(e);
    b.add(succ(e));
    b.add(e * 2);
    b.add(T(1e-30L));
    b.add(T(1e-10L));
    b.add(T(1e-5L));
    b.add(T(1e-3L));
    b.add(T(0.1L));
    b.add(T(0.25L));
    b.add(T(0.3L));
    b.add(T(0.49L));
    b.add(pred(T(0.5)));
    b.add(T(0.5));
    b.add(succ(T(0.5)));
    b.add(T(0.51L));
    b.add(T(0.75L));
    b.add(T(0.9L));
    b.add(pred(T(1)));
#if defined(C13_BIG)
    int small[120]{};
    for (int i = 0; i < 100; ++i) { small[i] = i + 1; }
    int const more[] = {127, 128, 255, 256, 1000, 4095, 4096, 32767, 32768, 65535, 65536, 99999, 100000, 999999, 1000000, 8388607, 8388608, 16777215, 16777216, 2147483647};
    for (int i = 0; i < 20; ++i) { small[100 + i] = more[i]; }
#else
    int const small[] = {1, 2, 3, 4, 5, 6, 7, 8, 15, 16, 255, 256, 65535, 65536};
#endif
    for (int n : small) {
        T const x = T(n);
        b.add(x);
        b.add(x + T(0.25));
        b.add(pred(x + T(0.5)));
        b.add(x + T(0.5));
        b.add(succ(x + T(0.5)));
        b.add(x + T(0.75));
        b.add(pred(x));
        b.add(succ(x));
    }
#if defined(C13_BIG)
    int ks[160]{};
    for (int i = 0; i < 140; ++i) { ks[i] = i - 12 < L::max_exponent - 1 ? i - 12 : L::max_exponent - 1; }
    for (int i = 0; i < 20; ++i) { ks[140 + i] = L::max_exponent - 1 - i * (L::max_exponent / 24); }
#else
    int const ks[] = {1, 2, 4, 8, 16, p - 3, p - 2, p - 1, p, p + 1, 30, 31, 32, 33, 61, 62, 63, 64, 65, 100, L::max_exponent - 1};
#endif
    for (int k : ks) {
        T const x = pow2<T>(k);
        b.add(pred(x));
        b.add(x);
        b.add(succ(x));
        if (k <= p - 2) {
            b.add(x - T(0.5));
            b.add(x + T(0.5));
            b.add(x + T(1.5));
            b.add(x - T(1.5));
        }
        if (k <= p - 1) {
            b.add(x - T(1));
            b.add(x + T(1));
        }
        if (k <= p - 3) {
            b.add(x + T(0.25));
            b.add(x - T(0.25));
        }
    }
    b.add(L::max());
    b.add(pred(L::max()));
    b.add(L::max() / 2);
    b.add(L::infinity());
    b.add(L::quiet_NaN());
    b.add(T(3.14159265358979323846L));
    b.add(T(2.71828182845904523536L));
    b.add(T(123456.789L));
    b.add(T(1e10L) + T(0.3L));
    b.add(T(1e15L) + T(0.5L));
    b.add(T(1e18L));
    b.add(T(1e19L));
    b.add(T(1e20L));
    b.add(T(1e30L));
    b.add(T(1e38L));
    return b;
}

constexpr auto build_binary_values()
{
    Bag<T, 64> b;
    b.add(T(0));
    b.add(L::denorm_min());
    b.add(L::min());
    b.add(T(0.3L));
    b.add(T(0.5));
    b.add(T(1));
    b.add(T(1.5));
    b.add(T(2));
    b.add(T(2.5));
    b.add(T(3));
    b.add(T(5.5));
    b.add(T(7));
    b.add(T(1e10L) + T(0.3L));
    b.add(T(3.14159265358979323846L));
    b.add(T(1e-5L));
    b.add(T(123456.789L));
    b.add(T(1e22L));
    b.add(pow2<T>(63));
    b.add(L::max());
    b.add(L::infinity());
    b.add(L::quiet_NaN());
    return b;
}

template <std::size_t N, typename B>
constexpr auto to_unary(B const& b)
{
    std::array<Args<T, 1>, N> r{};
    for (std::size_t i = 0; i < N; ++i) { r[i].a[0] = b.v[i]; }
    return r;
}
template <std::size_t N, typename B>
constexpr auto to_pairs(B const& b)
{
    std::array<Args<T, 2>, N * N> r{};
    for (std::size_t i = 0; i < N; ++i) {
        for (std::size_t j = 0; j < N; ++j) {
            r[i * N + j].a[0] = b.v[i];
            r[i * N + j].a[1] = b.v[j];
        }
    }
    return r;
}
constexpr auto build_triples()
{
    T const e    = L::epsilon();
    T const xs[] = {T(0), -T(0), T(1), T(1) + e, -(T(1) + e), T(3), T(0.1L), L::max(), L::denorm_min(), L::infinity(), L::quiet_NaN()};
    T const ys[] = {T(0), T(1), T(1) + e, T(1) - e / 2, T(-3), T(0.1L), L::max(), L::min(), L::infinity(), L::quiet_NaN()};
    T const zs[] = {T(0), -T(0), T(1), T(-1), -(T(1) + 2 * e), -(T(0.1L) * T(0.1L)), -L::max(), L::max(), L::infinity(),
        -L::infinity(), L::quiet_NaN(), L::denorm_min()};
    constexpr std::size_t NX = sizeof xs / sizeof xs[0], NY = sizeof ys / sizeof ys[0], NZ = sizeof zs / sizeof zs[0];
    std::array<Args<T, 3>, NX * NY * NZ> r{};
    std::size_t k = 0;
    for (T x : xs) {
        for (T y : ys) {
            for (T z : zs) {
                r[k].a[0] = x;
                r[k].a[1] = y;
                r[k].a[2] = z;
                ++k;
            }
        }
    }
    return r;
}

constexpr auto bag1 = build_unary();
constexpr auto bag2 = build_binary_values();
inline constexpr auto tab1 = to_unary<bag1.n>(bag1);
inline constexpr auto tab2 = to_pairs<bag2.n>(bag2);
inline constexpr auto tab3 = build_triples();

// ------------------------------------------------------------------ classifiers
inline std::uint64_t hash_fp(T const* p, int k)
{
    std::uint64_t h = 0x13;
    for (int i = 0; i < k; ++i) {
        h = vf::fnv_bytes(&p[i], sizeof(T) == 16 ? 10 : sizeof(T), h); // x87 long double: 10 value bytes + padding
    }
    return h;
}
struct Cls1 {
    using Arg = Args<T, 1>;
    static char const* sit(Arg const& a) { return fp_class(a.a[0]); }
    static std::string show(Arg const& a) { return fmt_fp(a.a[0]); }
    static std::uint64_t hash(Arg const& a) { return hash_fp(a.a, 1); }
    static T const* arg0(Arg const& a) { return &a.a[0]; }
};
struct Cls2 {
    using Arg = Args<T, 2>;
    static char const* sit(Arg const& a)
    {
        static char buf[64];
        std::snprintf(buf, sizeof buf, "%s,%s", fp_coarse(a.a[0]), fp_coarse(a.a[1]));
        return buf;
    }
    static std::string show(Arg const& a) { return fmt_fp(a.a[0]) + ", " + fmt_fp(a.a[1]); }
    static std::uint64_t hash(Arg const& a) { return hash_fp(a.a, 2); }
    static T const* arg0(Arg const& a) { return &a.a[0]; }
};
inline T lib_fma(T x, T y, T z)
{
    if constexpr (std::is_same_v<T, float>) {
        return ::fmaf(x, y, z);
    } else if constexpr (std::is_same_v<T, double>) {
        return ::fma(x, y, z);
    } else {
        return ::fmal(x, y, z);
    }
}
struct Cls3 {
    using Arg = Args<T, 3>;
    static char const* sit(Arg const& a)
    {
        static char buf[96];
        T const x = a.a[0], y = a.a[1], z = a.a[2];
        char const* ex = "";
        bool const fin = !isnan_(x) && !isnan_(y) && !isnan_(z) && !isinf_(x) && !isinf_(y) && !isinf_(z);
        if (fin) {
            // classification only (glibc): is the product exactly representable?
            T volatile pr = x * y;
            T const err   = lib_fma(x, y, -pr);
            ex            = isinf_(T(pr)) ? ",product-overflows" : (err == T(0) ? ",product-exact" : ",product-inexact");
        }
        std::snprintf(buf, sizeof buf, "%s,%s,%s%s", fp_coarse(x), fp_coarse(y), fp_coarse(z), ex);
        return buf;
    }
    static std::string show(Arg const& a) { return fmt_fp(a.a[0]) + ", " + fmt_fp(a.a[1]) + ", " + fmt_fp(a.a[2]); }
    static std::uint64_t hash(Arg const& a) { return hash_fp(a.a, 3); }
    static T const* arg0(Arg const& a) { return &a.a[0]; }
};

// ------------------------------------------------------------------ functions
#define C13_U(ID, CALL)                                                                                                \
    struct ID {                                                                                                        \
        static constexpr char const* name = #CALL;                                                                     \
        constexpr auto operator()(Args<T, 1> const& p) const { return etl::CALL(p.a[0]); }                             \
    };
#define C13_B(ID, CALL)                                                                                                \
    struct ID {                                                                                                        \
        static constexpr char const* name = #CALL;                                                                     \
        constexpr auto operator()(Args<T, 2> const& p) const { return etl::CALL(p.a[0], p.a[1]); }                     \
    };

C13_U(F_floor, floor)
C13_U(F_ceil, ceil)
C13_U(F_trunc, trunc)
C13_U(F_round, round)
C13_U(F_rint, rint)
C13_U(F_isnan, isnan)
C13_U(F_isinf, isinf)
C13_U(F_isfinite, isfinite)
C13_U(F_signbit, signbit)
struct F_fabs {
    static constexpr char const* name = "fabs";
    static constexpr bool nan_sign    = true;
    constexpr auto operator()(Args<T, 1> const& p) const { return etl::fabs(p.a[0]); }
};
struct F_abs {
    static constexpr char const* name = "abs";
    static constexpr bool nan_sign    = true;
    constexpr auto operator()(Args<T, 1> const& p) const { return etl::abs(p.a[0]); }
};

// lrint / llrint: domain = the rounded value is representable in the result type
template <typename I>
inline bool fits_after_rint(T x)
{
    if (isnan_(x) || isinf_(x)) { return false; }
    long double const lx = x; // exact
    return lx >= (long double)std::numeric_limits<I>::min() && lx <= (long double)std::numeric_limits<I>::max();
}
struct F_lrint {
    static constexpr char const* name = "lrint";
    static bool in_domain(Args<T, 1> const& p) { return fits_after_rint<long>(p.a[0]); }
    constexpr auto operator()(Args<T, 1> const& p) const { return etl::lrint(p.a[0]); }
};
struct F_llrint {
    static constexpr char const* name = "llrint";
    static bool in_domain(Args<T, 1> const& p) { return fits_after_rint<long long>(p.a[0]); }
    constexpr auto operator()(Args<T, 1> const& p) const { return etl::llrint(p.a[0]); }
};

struct F_copysign {
    static constexpr char const* name = "copysign";
    static constexpr bool nan_sign    = true;
    constexpr auto operator()(Args<T, 2> const& p) const { return etl::copysign(p.a[0], p.a[1]); }
};
// fmin/fmax of (+0, -0) / (-0, +0): C (7.12.12, footnote) and IEEE 754-2008 minNum/maxNum leave the sign of the
// result unspecified, so those two pairs have no exactly specified result and are outside the compared domain
inline bool zeros_of_opposite_sign(Args<T, 2> const& p)
{
    return p.a[0] == T(0) && p.a[1] == T(0) && sgnbit(p.a[0]) != sgnbit(p.a[1]);
}
struct F_fmin {
    static constexpr char const* name = "fmin";
    static bool in_domain(Args<T, 2> const& p) { return !zeros_of_opposite_sign(p); }
    constexpr auto operator()(Args<T, 2> const& p) const { return etl::fmin(p.a[0], p.a[1]); }
};
struct F_fmax {
    static constexpr char const* name = "fmax";
    static bool in_domain(Args<T, 2> const& p) { return !zeros_of_opposite_sign(p); }
    constexpr auto operator()(Args<T, 2> const& p) const { return etl::fmax(p.a[0], p.a[1]); }
};

// Does the mathematically defined operation raise overflow / underflow / invalid / divide-by-zero?  Such a call
// need not be a constant expression.  Decided by running glibc's function under a cleared floating-point
// environment on the harness side (glibc is never used as oracle for the values).
template <typename Fn, typename Arg>
[[gnu::noinline]] inline bool ref_raises(Fn fn, Arg const& a)
{
    std::feclearexcept(FE_ALL_EXCEPT);
    Arg const l  = launder(a); // volatile reads: evaluated after the flags were cleared
    T volatile r = fn(l);
    (void)r;
    return std::fetestexcept(FE_INVALID | FE_OVERFLOW | FE_UNDERFLOW | FE_DIVBYZERO) != 0;
}
#define C13_BX(ID, CALL)                                                                                               \
    struct ID {                                                                                                        \
        static constexpr char const* name = #CALL;                                                                     \
        static bool raises_fp_exception(Args<T, 2> const& p)                                                           \
        {                                                                                                              \
            return ref_raises([](Args<T, 2> const& q) { return std::CALL(q.a[0], q.a[1]); }, p);                       \
        }                                                                                                              \
        constexpr auto operator()(Args<T, 2> const& p) const { return etl::CALL(p.a[0], p.a[1]); }                     \
    };
C13_BX(F_fdim, fdim)
C13_BX(F_fmod, fmod)
C13_BX(F_remainder, remainder)
#if C13_GRP == 5 && !defined(C13_NO_NEXTAFTER)
C13_BX(F_nextafter, nextafter)
#endif
struct F_fma {
    static constexpr char const* name = "fma";
    static bool raises_fp_exception(Args<T, 3> const& p)
    {
        return ref_raises([](Args<T, 3> const& q) { return lib_fma(q.a[0], q.a[1], q.a[2]); }, p);
    }
    constexpr auto operator()(Args<T, 3> const& p) const { return etl::fma(p.a[0], p.a[1], p.a[2]); }
};

std::string subj(char const* fn) { return std::string(fn) + "<" + FpName<T>::v + ">"; }
#define E1(FN, F) make_entry<F, tab1, Cls1, 64>(subj(FN))
#define E2(FN, F) make_entry<F, tab2, Cls2, 64>(subj(FN))
#define E3(FN, F) make_entry<F, tab3, Cls3, 64>(subj(FN))

std::vector<Entry> const& entries()
{
    static std::vector<Entry> const es = {
#if C13_GRP == 0
        E1("floor", F_floor), E1("ceil", F_ceil), E1("trunc", F_trunc),
#elif C13_GRP == 1
        E1("round", F_round), E1("rint", F_rint),
#elif C13_GRP == 2
        E1("lrint", F_lrint), E1("llrint", F_llrint),
#elif C13_GRP == 3
        E1("signbit", F_signbit), E1("isnan", F_isnan), E1("isinf", F_isinf), E1("isfinite", F_isfinite), E1("fabs", F_fabs), E1("abs", F_abs),
#elif C13_GRP == 4
        E2("copysign", F_copysign), E2("fmin", F_fmin), E2("fmax", F_fmax), E2("fdim", F_fdim),
#elif C13_GRP == 5
        E2("fmod", F_fmod), E2("remainder", F_remainder),
    #if !defined(C13_NO_NEXTAFTER)
        E2("nextafter", F_nextafter),
    #endif
#elif C13_GRP == 6
        E3("fma", F_fma),
#endif
    };
    return es;
}

vf::Spec spec(vf::Tier)
{
    vf::Spec s;
    s.n_enum     = total_cases(entries());
    s.n_random   = 0;
    s.batch      = 1;
    s.exhaustive = true; // complete enumeration of the stated finite tables
    return s;
}

void run_case(vf::Case& c) { run_case_index(entries(), c.index); }

} // namespace

VF_MAIN("C13", "C13_fp", spec, run_case)
