// C07 - value_or (and the result types of the monadic members) with a fallback whose type is NOT the value type.
// std: `has_value() ? **this : static_cast<T>(std::forward<U>(fallback))` - the held value never passes through the
// common type of T and U.  Lossy mixes (float/double fallback against 32/64-bit integers) with held values at the
// precision boundaries (2^24+1, 2^31-1, 2^53+1, INT64_MAX, ...), integral fallbacks of other width/signedness, class
// fallbacks convertible to T, both states, both value categories (const&, &&); the returned value AND the declared
// return type are compared with std::optional / std::expected (libstdc++ 12, -std=c++23).  error_or / transform /
// transform_error are compared where tetl provides them (detected).  and_then / or_else: declared result type for
// callables returning the result by value, by const value and by reference (std::optional directly; expected: the
// wording U = remove_cvref_t<invoke_result_t<F, decltype(**this)>>).
#include "vf.hpp"
#include "vf_contract.hpp"
#include "vf_tracked.hpp"

#include "vf_c07.hpp"

#include <cstdint>
#include <cstring>
#include <limits>

#if __cplusplus <= 202002L
    #error "this unit needs -std=c++23 (std::expected)"
#endif

namespace {
using namespace c07;

template <typename T>
struct ConvTo { // class fallback convertible to T
    T payload;
    operator T() const { return payload; } // NOLINT implicit on purpose
};

template <typename T>
long long widen(T const& x)
{
    if constexpr (std::is_floating_point_v<T>) {
        double d = x;
        long long b;
        std::memcpy(&b, &d, sizeof b);
        return b;
    } else if constexpr (std::is_arithmetic_v<T>) {
        return (long long)x;
    } else {
        return enc(x);
    }
}

template <typename T>
struct Held; // boundary values of the held value
template <>
struct Held<int> {
    static constexpr int v[] = {0, -1, 16777216, 16777217, 16777219, 2147483647, -2147483647 - 1, -16777217, 123456789};
};
template <>
struct Held<unsigned> {
    static constexpr unsigned v[] = {0U, 16777217U, 2147483648U, 4294967295U, 4294967167U};
};
template <>
struct Held<long long> {
    static constexpr long long v[] = {0LL, -1LL, 16777217LL, 2147483647LL, 9007199254740993LL, -9007199254740993LL, 9223372036854775807LL, -9223372036854775807LL - 1, 4611686018427387905LL};
};
template <>
struct Held<short> {
    static constexpr short v[] = {0, -1, 32767, -32768};
};
template <>
struct Held<float> {
    static constexpr float v[] = {0.0F, 16777216.0F, 0.1F, -3.5F};
};
template <>
struct Held<double> {
    static constexpr double v[] = {0.0, 9007199254740993.0, 0.1, 1e300};
};
template <>
struct Held<TCM> {
    static constexpr int v[] = {0, 1, 2};
};

// two in-range fallback values of type U (converted to T only in the empty / error state)
template <typename U>
U fb(int k)
{
    if constexpr (std::is_same_v<U, bool>) {
        return k != 0;
    } else if constexpr (std::is_arithmetic_v<U>) {
        return static_cast<U>(k ? 7 : 3);
    } else {
        return U{static_cast<decltype(U::payload)>(k ? 7 : 3)};
    }
}

struct Counts {
    unsigned cells = 0, types = 0;
};
Counts g_counts;

// ---------------------------------------------------------------- optional
template <typename NS, typename T, typename U>
void opt_world(Obs& r, bool engaged, std::size_t hi, int k)
{
    using O = typename NS::template optional<T>;
    auto mk = [&] { return engaged ? O(NS::in_place, Held<T>::v[hi]) : O(); };
    {
        O const o = mk();
        U u       = fb<U>(k);
        T ret     = o.value_or(u); // const&, lvalue fallback
        r.i("value_or(U&) const&", widen(ret));
    }
    {
        O const o = mk();
        T ret     = o.value_or(fb<U>(k)); // const&, rvalue fallback
        r.i("value_or(U&&) const&", widen(ret));
    }
    {
        O o   = mk();
        T ret = static_cast<O&&>(o).value_or(fb<U>(k)); // &&
        r.i("value_or(U&&) &&", widen(ret));
    }
}
template <typename T, typename U>
void opt_cells(char const* tname, char const* uname)
{
    char subj[64], op[64];
    std::snprintf(subj, sizeof subj, "optional<%s>", tname);
    std::snprintf(op, sizeof op, "value_or(fallback of type %s)", uname);
    using EO = etl::optional<T>;
    using SO = std::optional<T>;
    vf::crumb(subj, op, "declared-return-type", "-");
    vf::eq_bool("return-type const&", std::is_same_v<decltype(std::declval<EO const&>().value_or(std::declval<U>())), decltype(std::declval<SO const&>().value_or(std::declval<U>()))>, true);
    vf::eq_bool("return-type &&", std::is_same_v<decltype(std::declval<EO&&>().value_or(std::declval<U>())), decltype(std::declval<SO&&>().value_or(std::declval<U>()))>, true);
    ++g_counts.types;
    constexpr std::size_t NH = sizeof(Held<T>::v) / sizeof(Held<T>::v[0]);
    for (int engaged = 0; engaged < 2; ++engaged) {
        for (std::size_t hi = 0; hi < (engaged ? NH : 1); ++hi) {
            for (int k = 0; k < 2; ++k) {
                vf::crumb(subj, op, engaged ? "engaged" : "empty", "held=%lld fallback#%d", engaged ? widen(Held<T>::v[hi]) : 0LL, k);
                Obs so, eo;
                opt_world<Std, T, U>(so, engaged != 0, hi, k);
                opt_world<Etl, T, U>(eo, engaged != 0, hi, k);
                vf::cover("value_or with a fallback of another type: optional", vf::mix(vf::mix(vf::fnv(tname), vf::fnv(uname)), (engaged * 16 + hi) * 2 + k), true);
                compare(eo, so);
                ++g_counts.cells;
            }
        }
    }
}

// ---------------------------------------------------------------- expected
template <typename X, typename U>
inline constexpr bool kHasErrorOr = requires(X const& x, U u) { x.error_or(static_cast<U&&>(u)); };

template <typename NS, typename T, typename E, typename U>
void exp_world(Obs& r, bool has, std::size_t hi, int k)
{
    using X = typename NS::template expected<T, E>;
    auto mk = [&] { return has ? X(NS::in_place, Held<T>::v[hi]) : X(NS::unexpect, E(5)); };
    {
        X const x = mk();
        U u       = fb<U>(k);
        T ret     = x.value_or(u);
        r.i("value_or(U&) const&", widen(ret));
    }
    {
        X const x = mk();
        T ret     = x.value_or(fb<U>(k));
        r.i("value_or(U&&) const&", widen(ret));
    }
    {
        X x   = mk();
        T ret = static_cast<X&&>(x).value_or(fb<U>(k));
        r.i("value_or(U&&) &&", widen(ret));
    }
}
template <typename T, typename E, typename U>
void exp_cells(char const* tname, char const* ename, char const* uname)
{
    char subj[64], op[64];
    std::snprintf(subj, sizeof subj, "expected<%s,%s>", tname, ename);
    std::snprintf(op, sizeof op, "value_or(fallback of type %s)", uname);
    using EX = etl::expected<T, E>;
    using SX = std::expected<T, E>;
    vf::crumb(subj, op, "declared-return-type", "-");
    vf::eq_bool("return-type const&", std::is_same_v<decltype(std::declval<EX const&>().value_or(std::declval<U>())), decltype(std::declval<SX const&>().value_or(std::declval<U>()))>, true);
    vf::eq_bool("return-type &&", std::is_same_v<decltype(std::declval<EX&&>().value_or(std::declval<U>())), decltype(std::declval<SX&&>().value_or(std::declval<U>()))>, true);
    ++g_counts.types;
    constexpr std::size_t NH = sizeof(Held<T>::v) / sizeof(Held<T>::v[0]);
    for (int has = 0; has < 2; ++has) {
        for (std::size_t hi = 0; hi < (has ? NH : 1); ++hi) {
            for (int k = 0; k < 2; ++k) {
                vf::crumb(subj, op, has ? "has-value" : "has-error", "held=%lld fallback#%d", has ? widen(Held<T>::v[hi]) : 0LL, k);
                Obs so, eo;
                exp_world<Std, T, E, U>(so, has != 0, hi, k);
                exp_world<Etl, T, E, U>(eo, has != 0, hi, k);
                vf::cover("value_or with a fallback of another type: expected", vf::mix(vf::mix(vf::fnv(subj), vf::fnv(uname)), (has * 16 + hi) * 2 + k), true);
                compare(eo, so);
                ++g_counts.cells;
            }
        }
    }
    if constexpr (kHasErrorOr<EX, U> && kHasErrorOr<SX, U>) {
        // (tetl does not provide error_or today; compared as soon as it does)
        for (int has = 0; has < 2; ++has) {
            EX const e = has ? EX(etl::in_place, Held<T>::v[0]) : EX(etl::unexpect, E(5));
            SX const s = has ? SX(std::in_place, Held<T>::v[0]) : SX(std::unexpect, E(5));
            vf::crumb(subj, "error_or(fallback)", has ? "has-value" : "has-error", "-");
            vf::eq_int("error_or", widen(e.error_or(fb<U>(0))), widen(s.error_or(fb<U>(0))));
        }
    }
}

template <typename T, typename... Us>
void opt_row(char const* tname, char const* const (&un)[sizeof...(Us)])
{
    std::size_t i = 0;
    ((opt_cells<T, Us>(tname, un[i]), ++i), ...);
}
template <typename T, typename E, typename... Us>
void exp_row(char const* tname, char const* ename, char const* const (&un)[sizeof...(Us)])
{
    std::size_t i = 0;
    ((exp_cells<T, E, Us>(tname, ename, un[i]), ++i), ...);
}

// ---------------------------------------------------------------- declared result types of and_then / or_else
template <typename R>
struct ByValue {
    template <typename A>
    R operator()(A&&) const
    {
        return R{};
    }
    R operator()() const { return R{}; }
};
template <typename R>
struct ByConstValue {
    template <typename A>
    R const operator()(A&&) const
    {
        return R{};
    }
};
template <typename R>
struct ByRef {
    template <typename A>
    R& operator()(A&&) const
    {
        static R r{};
        return r;
    }
};
template <typename EO, typename SO, typename ER, typename SR>
void opt_monadic_types(char const* subj)
{
    vf::crumb(subj, "and_then / or_else declared result type", "-", "-");
    auto same = [&](char const* name, bool v) { vf::eq_bool(name, v, true); };
    same("and_then(by-value f) &", std::is_same_v<decltype(std::declval<EO&>().and_then(ByValue<ER>{})), ER> && std::is_same_v<decltype(std::declval<SO&>().and_then(ByValue<SR>{})), SR>);
    same("and_then(by-value f) const&", std::is_same_v<decltype(std::declval<EO const&>().and_then(ByValue<ER>{})), ER>);
    same("and_then(by-value f) &&", std::is_same_v<decltype(std::declval<EO&&>().and_then(ByValue<ER>{})), ER>);
    same("and_then(by-value f) const&&", std::is_same_v<decltype(std::declval<EO const&&>().and_then(ByValue<ER>{})), ER>);
    same("and_then(by-const-value f) &", std::is_same_v<decltype(std::declval<EO&>().and_then(ByConstValue<ER>{})), ER> == std::is_same_v<decltype(std::declval<SO&>().and_then(ByConstValue<SR>{})), SR>);
    same("and_then(by-reference f) &", std::is_same_v<decltype(std::declval<EO&>().and_then(ByRef<ER>{})), ER> == std::is_same_v<decltype(std::declval<SO&>().and_then(ByRef<SR>{})), SR>);
    same("or_else(f) const&", std::is_same_v<decltype(std::declval<EO const&>().or_else(ByValue<EO>{})), EO> && std::is_same_v<decltype(std::declval<SO const&>().or_else(ByValue<SO>{})), SO>);
    same("or_else(f) &&", std::is_same_v<decltype(std::declval<EO&&>().or_else(ByValue<EO>{})), EO>);
    vf::cover("declared result types of the monadic members", vf::fnv(subj), true);
    ++g_counts.types;
}
template <typename EX, typename ER, typename EG>
void exp_monadic_types(char const* subj)
{
    // [expected.object.monadic]: the result is U / G itself (remove_cvref of what the callable returns)
    vf::crumb(subj, "and_then / or_else declared result type", "-", "-");
    auto same = [&](char const* name, bool v) { vf::eq_bool(name, v, true); };
    same("and_then(by-value f) &", std::is_same_v<decltype(std::declval<EX&>().and_then(ByValue<ER>{})), ER>);
    same("and_then(by-value f) const&", std::is_same_v<decltype(std::declval<EX const&>().and_then(ByValue<ER>{})), ER>);
    same("and_then(by-value f) &&", std::is_same_v<decltype(std::declval<EX&&>().and_then(ByValue<ER>{})), ER>);
    same("and_then(by-value f) const&&", std::is_same_v<decltype(std::declval<EX const&&>().and_then(ByValue<ER>{})), ER>);
    same("and_then(by-const-value f) &", std::is_same_v<decltype(std::declval<EX&>().and_then(ByConstValue<ER>{})), ER>);
    same("and_then(by-reference f) &", std::is_same_v<decltype(std::declval<EX&>().and_then(ByRef<ER>{})), ER>);
    same("or_else(by-value f) &", std::is_same_v<decltype(std::declval<EX&>().or_else(ByValue<EG>{})), EG>);
    same("or_else(by-value f) const&", std::is_same_v<decltype(std::declval<EX const&>().or_else(ByValue<EG>{})), EG>);
    same("or_else(by-value f) &&", std::is_same_v<decltype(std::declval<EX&&>().or_else(ByValue<EG>{})), EG>);
    same("or_else(by-const-value f) &", std::is_same_v<decltype(std::declval<EX&>().or_else(ByConstValue<EG>{})), EG>);
    same("or_else(by-reference f) &", std::is_same_v<decltype(std::declval<EX&>().or_else(ByRef<EG>{})), EG>);
    vf::cover("declared result types of the monadic members", vf::fnv(subj), true);
    ++g_counts.types;
}

void run_all()
{
    static constexpr char const* arith[] = {"float", "double", "long long", "unsigned long long", "unsigned", "short", "char", "bool", "class convertible to T"};
    opt_row<int, float, double, long long, unsigned long long, unsigned, short, char, bool, ConvTo<int>>("int", arith);
    opt_row<unsigned, float, double, long long, unsigned long long, unsigned, short, char, bool, ConvTo<unsigned>>("unsigned", arith);
    opt_row<long long, float, double, long long, unsigned long long, unsigned, short, char, bool, ConvTo<long long>>("long long", arith);
    opt_row<short, float, double, long long, unsigned long long, unsigned, short, char, bool, ConvTo<short>>("short", arith);
    opt_row<float, float, double, long long, unsigned long long, unsigned, short, char, bool, ConvTo<float>>("float", arith);
    opt_row<double, float, double, long long, unsigned long long, unsigned, short, char, bool, ConvTo<double>>("double", arith);
    exp_row<int, int, float, double, long long, unsigned long long, unsigned, short, char, bool, ConvTo<int>>("int", "int", arith);
    exp_row<unsigned, int, float, double, long long, unsigned long long, unsigned, short, char, bool, ConvTo<unsigned>>("unsigned", "int", arith);
    exp_row<long long, int, float, double, long long, unsigned long long, unsigned, short, char, bool, ConvTo<long long>>("long long", "int", arith);
    exp_row<short, long, float, double, long long, unsigned long long, unsigned, short, char, bool, ConvTo<short>>("short", "long", arith);
    exp_row<float, int, float, double, long long, unsigned long long, unsigned, short, char, bool, ConvTo<float>>("float", "int", arith);
    exp_row<double, TCM2, float, double, long long, unsigned long long, unsigned, short, char, bool, ConvTo<double>>("double", "tracked-cm2", arith);
    static constexpr char const* cls[] = {"int", "short", "class convertible to T"};
    opt_row<TCM, int, short, ConvTo<TCM>>("tracked-cm", cls);
    exp_row<TCM, TCM2, int, short, ConvTo<TCM>>("tracked-cm", "tracked-cm2", cls);
    vf::registry().reset();

    opt_monadic_types<etl::optional<int>, std::optional<int>, etl::optional<long>, std::optional<long>>("optional<int>");
    opt_monadic_types<etl::optional<TCM>, std::optional<TCM>, etl::optional<int>, std::optional<int>>("optional<tracked-cm>");
    exp_monadic_types<etl::expected<int, int>, etl::expected<long, int>, etl::expected<int, long>>("expected<int,int>");
    exp_monadic_types<etl::expected<TCM, TCM2>, etl::expected<int, TCM2>, etl::expected<TCM, int>>("expected<tracked-cm,tracked-cm2>");
    vf::registry().reset();
    vf::sample("value_or with a fallback of another type", "%u (owner, held value, state, fallback) cells x 3 call forms (lvalue / rvalue fallback on const&, rvalue on &&); %u declared-return-type checks; held values at 2^24+1, 2^31-1, 2^53+1, INT64_MAX ...; error_or / transform / transform_error: not provided by tetl",
        g_counts.cells, g_counts.types);
}

vf::Spec spec(vf::Tier)
{
    vf::Spec s;
    s.n_enum     = 1;
    s.n_random   = 0;
    s.batch      = 1;
    s.exhaustive = true;
    return s;
}
void run_case(vf::Case&) { run_all(); }
} // namespace

VF_MAIN("C07", "C07_valueor", spec, run_case)
