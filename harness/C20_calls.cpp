// C20 - call logs through the callable wrappers vs a direct call (DESIGN 4, C20 part 3).
// An instrumented callable (c20::Fn) logs, per call: which target was called (id + its own call counter), cv/ref of
// *this (operator() overloaded on &, const&, &&, const&&), whether *this is the very object that was wrapped (for the
// non-owning wrappers), and for every argument its value category, value and whether it is the caller's object or a
// copy.  The log and the result (static type, value, identity of a returned reference) of a direct call must equal
// those of the call through etl::invoke, invoke_r, reference_wrapper, function_ref, inplace_function, bind_front, not_fn.
// Build: -DVF_PART=0 invoke/invoke_r  1 function_ref  2 inplace_function  3 bind_front/not_fn  4 reference_wrapper, functions
//        5 member-function / member-data pointers through invoke
// Enumerated: (group, v0, v1) with argument values over {0,1,2}; each case sweeps all callee categories x argument
// categories x result kinds of its group (compile-time loops).  Random: same groups with boundary/random argument values.
#include "vf.hpp"
#include "vf_contract.hpp"

#include "vf_c20.hpp"

#include <climits>

#ifndef VF_PART
    #define VF_PART 0
#endif
// optional compile-time slicing of a part's groups over several binaries (parallel compilation): group g belongs to
// the binary built with -DVF_NSLICE=n -DVF_SLICE=(g % n)
#ifndef VF_NSLICE
    #define VF_NSLICE 1
    #define VF_SLICE 0
#endif
#define IN_SLICE(G) (((G) % VF_NSLICE) == VF_SLICE)

namespace {
using namespace c20;

char const* g_subj = "?";
std::uint64_t g_h  = 0;
int g_v0 = 0, g_v1 = 0;

void crumb(char const* op, char const* sit) { vf::crumb(g_subj, op, sit, "a0=%d a1=%d", g_v0, g_v1); }
void cover(char const* op, char const* sit) { vf::cover(op, vf::mix(g_h, vf::fnv(sit) ^ vf::fnv(g_subj)), true); }

constexpr char const* kSelf[4] = {"lvalue", "const-lvalue", "rvalue", "const-rvalue"};
constexpr char const* kRK[7]   = {"int", "A&", "A&&", "void", "A", "A const&", "bool"};

// compile-time loops
template <int N, typename F>
void for_n(F&& f)
{
    [&]<int... I>(std::integer_sequence<int, I...>) { (f(std::integral_constant<int, I>{}), ...); }(std::make_integer_sequence<int, N>{});
}

void begin_pair(A& d0, A& d1)
{
    CallLog& L      = calllog();
    L.caller_obj[0] = &d0;
    L.caller_obj[1] = &d1;
    L.caller_obj[2] = nullptr;
    L.track_ids     = true;
    L.expected_self = nullptr;
}
void expect_self(void const* p) { calllog().expected_self = p; }

// how a parameter of declared type P is passed by the caller / seen by a direct call
template <typename P>
decltype(auto) pass(A& d)
{
    if constexpr (std::is_reference_v<P>) {
        return static_cast<P>(d);
    } else {
        return A(d); // by-value parameter: the callee sees an rvalue that is a copy
    }
}
template <typename P>
constexpr char const* pname()
{
    if constexpr (std::is_same_v<P, A&>) {
        return "A&";
    } else if constexpr (std::is_same_v<P, A const&>) {
        return "A const&";
    } else if constexpr (std::is_same_v<P, A&&>) {
        return "A&&";
    } else if constexpr (std::is_same_v<P, A const&&>) {
        return "A const&&";
    } else {
        return "A";
    }
}
template <int I>
using param_t = std::conditional_t<I == 0, A&, std::conditional_t<I == 1, A const&, std::conditional_t<I == 2, A&&, std::conditional_t<I == 3, A const&&, A>>>>;

#if VF_PART == 0 || VF_PART == 4 || VF_PART == 5
    #if VF_PART == 0
// ================================================================================================ invoke / invoke_r
template <int RK, int CF, int C0, int C1>
void t_invoke()
{
    Fn<RK> fd(1), fv(1);
    A d0{g_v0}, d1{g_v1};
    begin_pair(d0, d1);
    char sit[96];
    std::snprintf(sit, sizeof sit, "callee:%s,args:%s,%s,returns:%s", kSelf[CF], kCat[C0], kCat[C1], kRK[RK]);
    g_subj = "invoke";
    crumb("invoke(f,a0,a1)", sit);
    compare_call(
        [&] {
            expect_self(&fd);
            return C20_RES(as<CF>(fd)(as<C0>(d0), as<C1>(d1)));
        },
        [&] {
            expect_self(&fv);
            return C20_RES(etl::invoke(as<CF>(fv), as<C0>(d0), as<C1>(d1)));
        });
    cover("invoke(f,a0,a1)", sit);
    // second call on the same objects: the target's own state advanced exactly once
    crumb("invoke(f,a0)", sit);
    compare_call(
        [&] {
            expect_self(&fd);
            return C20_RES(as<CF>(fd)(as<C0>(d0)));
        },
        [&] {
            expect_self(&fv);
            return C20_RES(etl::invoke(as<CF>(fv), as<C0>(d0)));
        });
    cover("invoke(f,a0)", sit);
    crumb("invoke(f)", sit);
    compare_call(
        [&] {
            expect_self(&fd);
            return C20_RES(as<CF>(fd)());
        },
        [&] {
            expect_self(&fv);
            return C20_RES(etl::invoke(as<CF>(fv)));
        });
    cover("invoke(f)", sit);
}
template <int CF, int C0, int C1>
void t_invoke_r()
{
    A d0{g_v0}, d1{g_v1};
    begin_pair(d0, d1);
    char sit[96];
    std::snprintf(sit, sizeof sit, "callee:%s,args:%s,%s", kSelf[CF], kCat[C0], kCat[C1]);
    g_subj = "invoke_r";
    {
        Fn<0> fd(1), fv(1);
        crumb("invoke_r<int>(f,a0,a1)", sit);
        compare_call([&] { expect_self(&fd); return C20_RES(static_cast<int>(as<CF>(fd)(as<C0>(d0), as<C1>(d1)))); },
            [&] { expect_self(&fv); return C20_RES(etl::invoke_r<int>(as<CF>(fv), as<C0>(d0), as<C1>(d1))); });
        cover("invoke_r<int>(f,a0,a1)", sit);
        crumb("invoke_r<long>(f,a0,a1)", sit);
        compare_call([&] { expect_self(&fd); return C20_RES(static_cast<long>(as<CF>(fd)(as<C0>(d0), as<C1>(d1)))); },
            [&] { expect_self(&fv); return C20_RES(etl::invoke_r<long>(as<CF>(fv), as<C0>(d0), as<C1>(d1))); });
        cover("invoke_r<long>(f,a0,a1)", sit);
        crumb("invoke_r<void>(f,a0,a1)", sit);
        compare_call([&] { expect_self(&fd); return C20_RES(static_cast<void>(as<CF>(fd)(as<C0>(d0), as<C1>(d1)))); },
            [&] { expect_self(&fv); return C20_RES(etl::invoke_r<void>(as<CF>(fv), as<C0>(d0), as<C1>(d1))); });
        cover("invoke_r<void>(f,a0,a1)", sit);
    }
    {
        Fn<1> fd(2), fv(2);
        crumb("invoke_r<A&>(f,a0,a1)", sit);
        compare_call([&] { expect_self(&fd); return C20_RES(static_cast<A&>(as<CF>(fd)(as<C0>(d0), as<C1>(d1)))); },
            [&] { expect_self(&fv); return C20_RES(etl::invoke_r<A&>(as<CF>(fv), as<C0>(d0), as<C1>(d1))); });
        cover("invoke_r<A&>(f,a0,a1)", sit);
        crumb("invoke_r<A const&>(f,a0,a1)", sit);
        compare_call([&] { expect_self(&fd); return C20_RES(static_cast<A const&>(as<CF>(fd)(as<C0>(d0), as<C1>(d1)))); },
            [&] { expect_self(&fv); return C20_RES(etl::invoke_r<A const&>(as<CF>(fv), as<C0>(d0), as<C1>(d1))); });
        cover("invoke_r<A const&>(f,a0,a1)", sit);
    }
}
    #elif VF_PART == 4
// ================================================================================================ reference_wrapper
template <int RK, int CW, int C0, int C1>
void t_refwrap()
{
    A d0{g_v0}, d1{g_v1};
    begin_pair(d0, d1);
    char sit[96];
    std::snprintf(sit, sizeof sit, "wrapper:%s,args:%s,%s,returns:%s", kSelf[CW], kCat[C0], kCat[C1], kRK[RK]);
    g_subj = "reference_wrapper";
    {
        Fn<RK> fd(1), fv(1);
        auto w = etl::ref(fv);
        crumb("ref(f)(a0,a1)", sit);
        compare_call([&] { expect_self(&fd); return C20_RES(fd(as<C0>(d0), as<C1>(d1))); },
            [&] { expect_self(&fv); return C20_RES(as<CW>(w)(as<C0>(d0), as<C1>(d1))); });
        cover("ref(f)(a0,a1)", sit);
        auto w2 = w; // a copy refers to the same target
        crumb("copy-of-ref(f)(a0)", sit);
        compare_call([&] { expect_self(&fd); return C20_RES(fd(as<C0>(d0))); }, [&] { expect_self(&fv); return C20_RES(as<CW>(w2)(as<C0>(d0))); });
        cover("copy-of-ref(f)(a0)", sit);
        crumb("invoke(ref(f),a0,a1)", sit);
        compare_call([&] { expect_self(&fd); return C20_RES(fd(as<C0>(d0), as<C1>(d1))); },
            [&] { expect_self(&fv); return C20_RES(etl::invoke(as<CW>(w), as<C0>(d0), as<C1>(d1))); });
        cover("invoke(ref(f),a0,a1)", sit);
    }
    {
        Fn<RK> fd(1), fv(1);
        auto w = etl::cref(fv);
        crumb("cref(f)(a0,a1)", sit);
        compare_call([&] { expect_self(&fd); return C20_RES(std::as_const(fd)(as<C0>(d0), as<C1>(d1))); },
            [&] { expect_self(&fv); return C20_RES(as<CW>(w)(as<C0>(d0), as<C1>(d1))); });
        cover("cref(f)(a0,a1)", sit);
    }
}

    #else
// ------------------------------------------------------------------------------------------------ member pointers
struct Recv {
    int base;
    mutable int hits = 0;
    explicit Recv(int b) : base(b) { }
    template <typename X>
    int finish(int self, X&& x) const
    {
        note_call(base, hits++, self, this, std::forward<X>(x));
        return static_cast<int>((static_cast<unsigned>(base) * 100u + static_cast<unsigned>(val(x))) & 0x3fffffffu);
    }
    template <typename X> int m_n(X x) { return finish(0, std::forward<X>(x)); }
    template <typename X> int m_c(X x) const { return finish(1, std::forward<X>(x)); }
    template <typename X> int m_l(X x) & { return finish(0, std::forward<X>(x)); }
    template <typename X> int m_cl(X x) const& { return finish(1, std::forward<X>(x)); }
    template <typename X> int m_r(X x) && { return finish(2, std::forward<X>(x)); }
    template <typename X> int m_cr(X x) const&& { return finish(3, std::forward<X>(x)); }
    int m_0() { return finish(0, 0); }
    int& m_ref() { return base; }
};
struct Derived : Recv {
    using Recv::Recv;
    int extra = 5;
};
int recv_base() { return static_cast<int>((static_cast<unsigned>(g_v0) + 1u) & 0x3fffffffu); }
constexpr char const* kQual[6] = {"none", "const", "&", "const&", "&&", "const&&"};
template <int Q, typename X>
constexpr auto pmf()
{
    if constexpr (Q == 0) {
        return &Recv::m_n<X>;
    } else if constexpr (Q == 1) {
        return &Recv::m_c<X>;
    } else if constexpr (Q == 2) {
        return &Recv::m_l<X>;
    } else if constexpr (Q == 3) {
        return &Recv::m_cl<X>;
    } else if constexpr (Q == 4) {
        return &Recv::m_r<X>;
    } else {
        return &Recv::m_cr<X>;
    }
}
// receiver kinds: 0 object lvalue 1 const object 2 rvalue object 3 const rvalue 4 derived lvalue 5 pointer 6 pointer to const
//                 7 reference_wrapper<Recv> 8 reference_wrapper<Recv const> 9 pointer to derived 10 reference_wrapper<Derived>
constexpr char const* kRecv[11] = {"object-lvalue", "object-const-lvalue", "object-rvalue", "object-const-rvalue", "derived-lvalue", "pointer",
    "pointer-to-const", "reference_wrapper", "reference_wrapper<const>", "pointer-to-derived", "reference_wrapper<derived>"};
// the receiver expression as passed to etl::invoke (E = true) or std::invoke (E = false)
template <int RV, bool E>
decltype(auto) recv_expr(Derived& d)
{
    Recv& r = d;
    if constexpr (RV == 0) {
        return (r);
    } else if constexpr (RV == 1) {
        return std::as_const(r);
    } else if constexpr (RV == 2) {
        return std::move(r);
    } else if constexpr (RV == 3) {
        return std::move(std::as_const(r));
    } else if constexpr (RV == 4) {
        return (d);
    } else if constexpr (RV == 5) {
        return &r;
    } else if constexpr (RV == 6) {
        return static_cast<Recv const*>(&r);
    } else if constexpr (RV == 7) {
        if constexpr (E) {
            return etl::ref(r);
        } else {
            return std::ref(r);
        }
    } else if constexpr (RV == 8) {
        if constexpr (E) {
            return etl::cref(r);
        } else {
            return std::cref(r);
        }
    } else if constexpr (RV == 9) {
        return &d;
    } else {
        if constexpr (E) {
            return etl::ref(d);
        } else {
            return std::ref(d);
        }
    }
}
template <int Q, int RV, int PI>
void t_pmf()
{
    using X            = param_t<PI>;
    constexpr auto pm  = pmf<Q, X>();
    using PM           = decltype(pm);
    using SRecv        = decltype(recv_expr<RV, false>(std::declval<Derived&>()));
    // std-side first: only receiver/qualifier combinations that std::invoke accepts
    if constexpr (std::is_invocable_v<PM, SRecv, decltype(pass<X>(std::declval<A&>()))>) {
        Derived od(recv_base()), ov(recv_base());
        A d1{g_v1}, dunused{0};
        begin_pair(dunused, d1);
        char sit[96];
        std::snprintf(sit, sizeof sit, "qualifier:%s,receiver:%s,arg:%s", kQual[Q], kRecv[RV], pname<X>());
        g_subj = "invoke(member-function-pointer)";
        crumb("invoke(pmf,recv,a)", sit);
        if constexpr (requires { etl::invoke(pm, recv_expr<RV, true>(ov), pass<X>(d1)); }) {
            compare_call(
                [&] {
                    expect_self(static_cast<Recv*>(&od));
                    return C20_RES(std::invoke(pm, recv_expr<RV, false>(od), pass<X>(d1)));
                },
                [&] {
                    expect_self(static_cast<Recv*>(&ov));
                    return C20_RES(etl::invoke(pm, recv_expr<RV, true>(ov), pass<X>(d1)));
                });
        } else {
            vf::diverge("not-invocable", "etl::invoke rejects the call", "std::invoke accepts the call");
        }
        cover("invoke(pmf,recv,a)", sit);
    }
}
template <int RV>
void t_pmd()
{
    Derived od(recv_base()), ov(recv_base());
    char sit[96];
    std::snprintf(sit, sizeof sit, "receiver:%s", kRecv[RV]);
    g_subj = "invoke(member-data-pointer)";
    crumb("invoke(pmd,recv)", sit);
    using ET = decltype(etl::invoke(&Recv::base, recv_expr<RV, true>(ov)));
    using ST = decltype(std::invoke(&Recv::base, recv_expr<RV, false>(od)));
    same_type<ET, ST>("ret-type");
    ET er = etl::invoke(&Recv::base, recv_expr<RV, true>(ov));
    vf::eq_int("value", er, recv_base());
    vf::eq_bool("refers-to-the-member", static_cast<void const*>(&er) == static_cast<void const*>(&ov.base), true);
    cover("invoke(pmd,recv)", sit);
    if constexpr (RV == 4 || RV == 9 || RV == 10) {
        crumb("invoke(pmd-of-derived,recv)", sit);
        using ET2 = decltype(etl::invoke(&Derived::extra, recv_expr<RV, true>(ov)));
        using ST2 = decltype(std::invoke(&Derived::extra, recv_expr<RV, false>(od)));
        same_type<ET2, ST2>("ret-type");
        vf::eq_int("value", etl::invoke(&Derived::extra, recv_expr<RV, true>(ov)), 5);
        cover("invoke(pmd-of-derived,recv)", sit);
    }
}
    #endif
    #if VF_PART == 4
int free_log(A& a, A const& b)
{
    note_call(9, 0, 4, nullptr, a, b);
    return static_cast<int>((static_cast<unsigned>(a.v) * 10u + static_cast<unsigned>(b.v)) & 0x3fffffffu);
}
void t_free()
{
    A d0{g_v0}, d1{g_v1};
    begin_pair(d0, d1);
    g_subj = "invoke(function)";
    crumb("invoke(function,a0,a1)", "function-lvalue");
    compare_call([&] { return C20_RES(free_log(d0, d1)); }, [&] { return C20_RES(etl::invoke(free_log, d0, d1)); });
    cover("invoke(function,a0,a1)", "function-lvalue");
    crumb("invoke(function,a0,a1)", "function-pointer");
    compare_call([&] { return C20_RES(free_log(d0, d1)); }, [&] { return C20_RES(etl::invoke(&free_log, d0, d1)); });
    cover("invoke(function,a0,a1)", "function-pointer");
    crumb("invoke_r<long>(function,a0,a1)", "function-pointer");
    compare_call([&] { return C20_RES(static_cast<long>(free_log(d0, d1))); }, [&] { return C20_RES(etl::invoke_r<long>(&free_log, d0, d1)); });
    cover("invoke_r<long>(function,a0,a1)", "function-pointer");
    auto w = etl::ref(free_log);
    crumb("ref(function)(a0,a1)", "function-lvalue");
    compare_call([&] { return C20_RES(free_log(d0, d1)); }, [&] { return C20_RES(w(d0, d1)); });
    cover("ref(function)(a0,a1)", "function-lvalue");
}

    #endif

    #if VF_PART == 0
constexpr unsigned kGroups = 3;
void run_group(unsigned g)
{
    switch (g) {
    case 0: // invoke: every callee category x argument categories (int result)
        #if IN_SLICE(0)
        for_n<4>([](auto cf) { for_n<4>([&](auto c0) { for_n<4>([&](auto c1) { t_invoke<0, decltype(cf)::value, decltype(c0)::value, decltype(c1)::value>(); }); }); });
        #endif
        break;
    case 1: // invoke: every result kind x callee category
        #if IN_SLICE(1)
        for_n<6>([](auto rk) { for_n<4>([&](auto cf) { t_invoke<decltype(rk)::value + 1, decltype(cf)::value, 0, 2>(); }); });
        #endif
        break;
    default: // invoke_r
        #if IN_SLICE(2)
        for_n<4>([](auto cf) { for_n<4>([&](auto c0) { t_invoke_r<decltype(cf)::value, decltype(c0)::value, (decltype(c0)::value + 1) % 4>(); }); });
        #endif
        break;
    }
}
    #elif VF_PART == 4
constexpr unsigned kGroups = 3;
void run_group(unsigned g)
{
    switch (g) {
    case 0: for_n<4>([](auto cw) { for_n<4>([&](auto c0) { for_n<4>([&](auto c1) { t_refwrap<0, decltype(cw)::value, decltype(c0)::value, decltype(c1)::value>(); }); }); }); break;
    case 1: for_n<6>([](auto rk) { t_refwrap<decltype(rk)::value + 1, 0, 0, 1>(); }); break;
    default: t_free(); break;
    }
}
    #else
constexpr unsigned kGroups = 7;
void run_group(unsigned g)
{
    if (g < 6) { // member-function pointers: qualifier g x receiver x argument kind
        for_n<6>([&](auto q) {
            if (decltype(q)::value == (int)g) { for_n<11>([&](auto rv) { for_n<5>([&](auto pi) { t_pmf<decltype(q)::value, decltype(rv)::value, decltype(pi)::value>(); }); }); }
        });
    } else { // member-data pointers
        for_n<11>([](auto rv) { t_pmd<decltype(rv)::value>(); });
    }
}
    #endif

#elif VF_PART == 1
// ================================================================================================ function_ref
template <typename Sig>
struct sig_name;
template <int RK, typename P0, typename P1, int CF>
void t_fref_one()
{
    using R   = typename Fn<RK>::R;
    using FR  = etl::function_ref<R(P0, P1)>;
    A d0{g_v0}, d1{g_v1};
    begin_pair(d0, d1);
    constexpr bool by_value = !std::is_reference_v<P0> || !std::is_reference_v<P1>;
    (void)by_value;
    char sit[96];
    std::snprintf(sit, sizeof sit, "callee:%s,params:(%s,%s),returns:%s", kSelf[CF], pname<P0>(), pname<P1>(), kRK[RK]);
    g_subj = "function_ref";
    Fn<RK> fd(1), fv(1);
    // P0792: the target is called as an lvalue with the cv of the object it was bound to
    constexpr int expect_cat = (CF == 1 || CF == 3) ? 1 : 0;
    crumb("function_ref<R(P0,P1)>(f)(a0,a1)", sit);
    compare_call(
        [&] {
            expect_self(&fd);
            return C20_RES(as<expect_cat>(fd)(pass<P0>(d0), pass<P1>(d1)));
        },
        [&] {
            expect_self(&fv);
            if constexpr (CF == 0) {
                FR w(fv);
                return C20_RES(w(pass<P0>(d0), pass<P1>(d1)));
            } else if constexpr (CF == 1) {
                FR w(std::as_const(fv));
                return C20_RES(w(pass<P0>(d0), pass<P1>(d1)));
            } else if constexpr (CF == 2) {
                return C20_RES(FR(std::move(fv))(pass<P0>(d0), pass<P1>(d1)));
            } else {
                return C20_RES(FR(std::move(std::as_const(fv)))(pass<P0>(d0), pass<P1>(d1)));
            }
        });
    cover("function_ref<R(P0,P1)>(f)(a0,a1)", sit);
}
template <int RK, int CW>
void t_fref_wrapper_cats()
{
    // the wrapper itself called / copied in every category refers to the same target
    using R  = typename Fn<RK>::R;
    using FR = etl::function_ref<R(A&, A const&)>;
    A d0{g_v0}, d1{g_v1};
    begin_pair(d0, d1);
    char sit[96];
    std::snprintf(sit, sizeof sit, "wrapper:%s,returns:%s", kSelf[CW], kRK[RK]);
    g_subj = "function_ref";
    Fn<RK> fd(1), fv(1);
    FR w(fv);
    crumb("function_ref(f) called as category", sit);
    compare_call([&] { expect_self(&fd); return C20_RES(fd(d0, std::as_const(d1))); }, [&] { expect_self(&fv); return C20_RES(as<CW>(w)(d0, d1)); });
    cover("function_ref(f) called as category", sit);
    FR c(w);
    crumb("copy of function_ref(f)", sit);
    compare_call([&] { expect_self(&fd); return C20_RES(fd(d0, std::as_const(d1))); }, [&] { expect_self(&fv); return C20_RES(as<CW>(c)(d0, d1)); });
    cover("copy of function_ref(f)", sit);
    Fn<RK> other(7), otherd(7);
    FR o(other);
    c = o;
    crumb("function_ref = other", sit);
    compare_call([&] { expect_self(&otherd); return C20_RES(otherd(d0, std::as_const(d1))); }, [&] { expect_self(&other); return C20_RES(as<CW>(c)(d0, d1)); });
    cover("function_ref = other", sit);
    crumb("invoke(function_ref,a0,a1)", sit);
    compare_call([&] { expect_self(&fd); return C20_RES(fd(d0, std::as_const(d1))); }, [&] { expect_self(&fv); return C20_RES(etl::invoke(as<CW>(w), d0, d1)); });
    cover("invoke(function_ref,a0,a1)", sit);
}
int free_log(A& a, A const& b)
{
    note_call(9, 0, 4, nullptr, a, b);
    return static_cast<int>((static_cast<unsigned>(a.v) * 10u + static_cast<unsigned>(b.v)) & 0x3fffffffu);
}
void t_fref_function()
{
    A d0{g_v0}, d1{g_v1};
    begin_pair(d0, d1);
    g_subj = "function_ref";
    etl::function_ref<int(A&, A const&)> w(free_log);
    crumb("function_ref<R(P0,P1)>(function)(a0,a1)", "function-lvalue");
    compare_call([&] { return C20_RES(free_log(d0, d1)); }, [&] { return C20_RES(w(d0, d1)); });
    cover("function_ref<R(P0,P1)>(function)(a0,a1)", "function-lvalue");
    etl::function_ref<long(A&, A&)> w2(free_log);
    crumb("function_ref<long(A&,A&)>(function)(a0,a1)", "converting-signature");
    compare_call([&] { return C20_RES(static_cast<long>(free_log(d0, d1))); }, [&] { return C20_RES(w2(d0, d1)); });
    cover("function_ref<long(A&,A&)>(function)(a0,a1)", "converting-signature");
    auto fp = &free_log; // named pointer that outlives the wrapper
    etl::function_ref<int(A&, A const&)> w3(fp);
    crumb("function_ref<R(P0,P1)>(function pointer lvalue)(a0,a1)", "function-pointer-lvalue");
    compare_call([&] { return C20_RES(free_log(d0, d1)); }, [&] { return C20_RES(w3(d0, d1)); });
    cover("function_ref<R(P0,P1)>(function pointer lvalue)(a0,a1)", "function-pointer-lvalue");
}
constexpr unsigned kGroups = 4;
void run_group(unsigned g)
{
    switch (g) {
    case 0: // every parameter-type pair, non-const lvalue target
        for_n<5>([](auto p0) { for_n<5>([&](auto p1) { t_fref_one<0, param_t<decltype(p0)::value>, param_t<decltype(p1)::value>, 0>(); }); });
        break;
    case 1: // every way to bind the target x a few signatures
        for_n<4>([](auto cf) {
            t_fref_one<0, A&, A const&, decltype(cf)::value>();
            t_fref_one<0, A&&, A, decltype(cf)::value>();
            t_fref_one<4, A const&, A&, decltype(cf)::value>();
        });
        break;
    case 2: // result kinds
        for_n<6>([](auto rk) {
            t_fref_one<decltype(rk)::value + 1, A&, A const&, 0>();
            t_fref_one<decltype(rk)::value + 1, A, A&&, 1>();
        });
        break;
    default:
        for_n<4>([](auto cw) {
            t_fref_wrapper_cats<0, decltype(cw)::value>();
            t_fref_wrapper_cats<1, decltype(cw)::value>();
        });
        t_fref_function();
        break;
    }
}

#elif VF_PART == 2
// ================================================================================================ inplace_function
template <int RK, typename P0, typename P1, std::size_t Cap, int CW, int CK>
void t_ipf_one()
{
    using R = typename Fn<RK>::R;
    using IF = etl::inplace_function<R(P0, P1), Cap>;
    A d0{g_v0}, d1{g_v1};
    begin_pair(d0, d1);
    char sit[112];
    static constexpr char const* ck[3] = {"from-lvalue", "from-const-lvalue", "from-rvalue"};
    std::snprintf(sit, sizeof sit, "wrapper:%s,params:(%s,%s),returns:%s,cap:%zu,%s", kSelf[CW], pname<P0>(), pname<P1>(), kRK[RK], Cap, ck[CK]);
    g_subj = "inplace_function";
    Fn<RK> fd(1), src(1);
    // construction never calls the target and copies it: calls go to the copy as a non-const lvalue
    calllog().clear();
    crumb("inplace_function<R(P0,P1),Cap>(f)", sit);
    auto make = [&]() -> IF {
        if constexpr (CK == 0) {
            return IF(src);
        } else if constexpr (CK == 1) {
            return IF(std::as_const(src));
        } else {
            return IF(std::move(src));
        }
    };
    IF w = make();
    vf::eq_int("calls-during-construction", calllog().recs.size(), 0);
    crumb("inplace_function<R(P0,P1),Cap>(f)(a0,a1)", sit);
    compare_call([&] { return C20_RES(fd(pass<P0>(d0), pass<P1>(d1))); }, [&] { return C20_RES(as<CW>(w)(pass<P0>(d0), pass<P1>(d1))); });
    cover("inplace_function<R(P0,P1),Cap>(f)(a0,a1)", sit);
    // second call: the stored copy kept its own state; the source object was never called
    crumb("inplace_function second call", sit);
    compare_call([&] { return C20_RES(fd(pass<P0>(d0), pass<P1>(d1))); }, [&] { return C20_RES(as<CW>(w)(pass<P0>(d0), pass<P1>(d1))); });
    vf::eq_int("source-object-call-count", src.state, 0);
    cover("inplace_function second call", sit);
    // copy: equivalent, independent target
    crumb("copy of inplace_function", sit);
    IF c(w);
    Fn<RK> fdc(fd);
    compare_call([&] { return C20_RES(fdc(pass<P0>(d0), pass<P1>(d1))); }, [&] { return C20_RES(as<CW>(c)(pass<P0>(d0), pass<P1>(d1))); });
    compare_call([&] { return C20_RES(fd(pass<P0>(d0), pass<P1>(d1))); }, [&] { return C20_RES(as<CW>(w)(pass<P0>(d0), pass<P1>(d1))); });
    cover("copy of inplace_function", sit);
    crumb("invoke(inplace_function,a0,a1)", sit);
    compare_call([&] { return C20_RES(fd(pass<P0>(d0), pass<P1>(d1))); }, [&] { return C20_RES(etl::invoke(as<CW>(w), pass<P0>(d0), pass<P1>(d1))); });
    cover("invoke(inplace_function,a0,a1)", sit);
}
int free_log(A& a, A const& b)
{
    note_call(9, 0, 4, nullptr, a, b);
    return static_cast<int>((static_cast<unsigned>(a.v) * 10u + static_cast<unsigned>(b.v)) & 0x3fffffffu);
}
void t_ipf_function()
{
    A d0{g_v0}, d1{g_v1};
    begin_pair(d0, d1);
    g_subj = "inplace_function";
    etl::inplace_function<int(A&, A const&)> w(free_log);
    crumb("inplace_function<R(P0,P1)>(function)(a0,a1)", "function-target");
    compare_call([&] { return C20_RES(free_log(d0, d1)); }, [&] { return C20_RES(w(d0, d1)); });
    cover("inplace_function<R(P0,P1)>(function)(a0,a1)", "function-target");
    etl::inplace_function<int(A&, A const&)> w2(&free_log);
    crumb("inplace_function<R(P0,P1)>(function pointer)(a0,a1)", "function-target");
    compare_call([&] { return C20_RES(free_log(d0, d1)); }, [&] { return C20_RES(w2(d0, d1)); });
    cover("inplace_function<R(P0,P1)>(function pointer)(a0,a1)", "function-target");
    etl::inplace_function<int(A&, A const&), 32> w3(w2); // converting copy to a larger capacity
    crumb("inplace_function<...,32>(inplace_function<...,8> const&)", "function-target");
    compare_call([&] { return C20_RES(free_log(d0, d1)); }, [&] { return C20_RES(w3(d0, d1)); });
    cover("inplace_function<...,32>(inplace_function<...,8> const&)", "function-target");
}
constexpr unsigned kGroups = 4;
void run_group(unsigned g)
{
    switch (g) {
    case 0:
        for_n<5>([](auto p0) { for_n<5>([&](auto p1) { t_ipf_one<0, param_t<decltype(p0)::value>, param_t<decltype(p1)::value>, 16, 0, 0>(); }); });
        break;
    case 1:
        for_n<4>([](auto cw) {
            for_n<3>([&](auto ckk) {
                t_ipf_one<0, A&, A const&, 8, decltype(cw)::value, decltype(ckk)::value>();
                t_ipf_one<0, A&&, A, 32, decltype(cw)::value, decltype(ckk)::value>();
            });
        });
        break;
    case 2:
        for_n<3>([](auto rk) {
            // results that a void-returning vtable thunk can also produce on older trees (non-void R only)
            t_ipf_one<decltype(rk)::value == 0 ? 1 : (decltype(rk)::value == 1 ? 2 : 4), A&, A const&, 16, 0, 0>();
            t_ipf_one<decltype(rk)::value == 0 ? 5 : (decltype(rk)::value == 1 ? 6 : 3), A, A&&, 8, 1, 2>();
        });
        break;
    default: t_ipf_function(); break;
    }
}

#else
// ================================================================================================ bind_front / not_fn
template <int RK, int CW, int C1>
void t_bind1()
{
    A d0{g_v0}, d1{g_v1};
    begin_pair(d0, d1);
    calllog().caller_obj[0] = nullptr; // the bound argument is a copy in both calls
    char sit[96];
    std::snprintf(sit, sizeof sit, "wrapper:%s,arg:%s,returns:%s", kSelf[CW], kCat[C1], kRK[RK]);
    g_subj = "bind_front";
    Fn<RK> fd(1);
    A b{g_v0};
    auto w = etl::bind_front(Fn<RK>(1), A{g_v0});
    crumb("bind_front(f,b)(a1)", sit);
    compare_call([&] { return C20_RES(as<CW>(fd)(as<CW>(b), as<C1>(d1))); }, [&] { return C20_RES(as<CW>(w)(as<C1>(d1))); });
    cover("bind_front(f,b)(a1)", sit);
    crumb("bind_front(f,b)(a1) second call", sit);
    compare_call([&] { return C20_RES(as<CW>(fd)(as<CW>(b), as<C1>(d1))); }, [&] { return C20_RES(as<CW>(w)(as<C1>(d1))); });
    cover("bind_front(f,b)(a1) second call", sit);
    crumb("bind_front(f,b)()", sit);
    compare_call([&] { return C20_RES(as<CW>(fd)(as<CW>(b))); }, [&] { return C20_RES(as<CW>(w)()); });
    cover("bind_front(f,b)()", sit);
    // copy / move of the wrapper: equivalent target with the state reached so far
    auto wc = w;
    Fn<RK> fdc(fd);
    crumb("copy of bind_front(f,b)", sit);
    compare_call([&] { return C20_RES(as<CW>(fdc)(as<CW>(b), as<C1>(d1))); }, [&] { return C20_RES(as<CW>(wc)(as<C1>(d1))); });
    cover("copy of bind_front(f,b)", sit);
    auto wm = std::move(w);
    crumb("move of bind_front(f,b)", sit);
    compare_call([&] { return C20_RES(as<CW>(fd)(as<CW>(b), as<C1>(d1))); }, [&] { return C20_RES(as<CW>(wm)(as<C1>(d1))); });
    cover("move of bind_front(f,b)", sit);
}
template <int CW>
void t_bind2()
{
    A d0{g_v0}, d1{g_v1};
    begin_pair(d0, d1);
    calllog().caller_obj[0] = nullptr;
    calllog().caller_obj[1] = nullptr;
    char sit[96];
    std::snprintf(sit, sizeof sit, "wrapper:%s,two-bound", kSelf[CW]);
    g_subj = "bind_front";
    Fn<0> fd(1);
    A b0{g_v0}, b1{g_v1};
    auto w = etl::bind_front(Fn<0>(1), A{g_v0}, A{g_v1});
    crumb("bind_front(f,b0,b1)()", sit);
    compare_call([&] { return C20_RES(as<CW>(fd)(as<CW>(b0), as<CW>(b1))); }, [&] { return C20_RES(as<CW>(w)()); });
    cover("bind_front(f,b0,b1)()", sit);
    A d2{static_cast<int>((static_cast<unsigned>(g_v1) + 5u) & 0x3fffffffu)};
    calllog().caller_obj[2] = &d2;
    crumb("bind_front(f,b0,b1)(a2)", sit);
    compare_call([&] { return C20_RES(as<CW>(fd)(as<CW>(b0), as<CW>(b1), std::move(d2))); }, [&] { return C20_RES(as<CW>(w)(std::move(d2))); });
    cover("bind_front(f,b0,b1)(a2)", sit);
    calllog().caller_obj[2] = nullptr;
}
template <int RK, int CW, int C0, int C1>
void t_notfn()
{
    A d0{g_v0}, d1{g_v1};
    begin_pair(d0, d1);
    char sit[96];
    std::snprintf(sit, sizeof sit, "wrapper:%s,args:%s,%s,returns:%s", kSelf[CW], kCat[C0], kCat[C1], kRK[RK]);
    g_subj = "not_fn";
    Fn<RK> fd(1);
    auto w = etl::not_fn(Fn<RK>(1));
    crumb("not_fn(f)(a0,a1)", sit);
    compare_call([&] { return C20_RES(!as<CW>(fd)(as<C0>(d0), as<C1>(d1))); }, [&] { return C20_RES(as<CW>(w)(as<C0>(d0), as<C1>(d1))); });
    cover("not_fn(f)(a0,a1)", sit);
    crumb("not_fn(f)(a0) second call", sit);
    compare_call([&] { return C20_RES(!as<CW>(fd)(as<C0>(d0))); }, [&] { return C20_RES(as<CW>(w)(as<C0>(d0))); });
    cover("not_fn(f)(a0) second call", sit);
    auto wc = w;
    Fn<RK> fdc(fd);
    crumb("copy of not_fn(f)", sit);
    compare_call([&] { return C20_RES(!as<CW>(fdc)()); }, [&] { return C20_RES(as<CW>(wc)()); });
    cover("copy of not_fn(f)", sit);
    Fn<RK> lv(3), lvd(3);
    auto w2 = etl::not_fn(lv); // from an lvalue: a copy is stored, the original is not called
    crumb("not_fn(lvalue f)(a0,a1)", sit);
    compare_call([&] { return C20_RES(!as<CW>(lvd)(as<C0>(d0), as<C1>(d1))); }, [&] { return C20_RES(as<CW>(w2)(as<C0>(d0), as<C1>(d1))); });
    vf::eq_int("source-object-call-count", lv.state, 0);
    cover("not_fn(lvalue f)(a0,a1)", sit);
}
bool free_pred(A const& a, A const& b)
{
    note_call(9, 0, 4, nullptr, a, b);
    return a.v < b.v;
}
void t_notfn_function()
{
    A d0{g_v0}, d1{g_v1};
    begin_pair(d0, d1);
    g_subj = "not_fn";
    auto w = etl::not_fn(free_pred);
    crumb("not_fn(function)(a0,a1)", "function-target");
    compare_call([&] { return C20_RES(!free_pred(d0, d1)); }, [&] { return C20_RES(w(d0, d1)); });
    cover("not_fn(function)(a0,a1)", "function-target");
    auto w2 = etl::bind_front(free_pred, A{g_v0});
    calllog().caller_obj[0] = nullptr;
    crumb("bind_front(function,b)(a1)", "function-target");
    A b{g_v0};
    compare_call([&] { return C20_RES(free_pred(b, d1)); }, [&] { return C20_RES(w2(d1)); });
    cover("bind_front(function,b)(a1)", "function-target");
}
constexpr unsigned kGroups = 5;
void run_group(unsigned g)
{
    switch (g) {
    case 0:
    #if IN_SLICE(0)
        for_n<4>([](auto cw) { for_n<4>([&](auto c1) { t_bind1<0, decltype(cw)::value, decltype(c1)::value>(); }); });
    #endif
        break;
    case 1:
    #if IN_SLICE(1)
        for_n<6>([](auto rk) { for_n<4>([&](auto cw) { t_bind1<decltype(rk)::value + 1, decltype(cw)::value, 0>(); }); });
        for_n<4>([](auto cw) { t_bind2<decltype(cw)::value>(); });
    #endif
        break;
    case 2:
    #if IN_SLICE(2)
        for_n<4>([](auto cw) { for_n<4>([&](auto c0) { for_n<4>([&](auto c1) { t_notfn<6, decltype(cw)::value, decltype(c0)::value, decltype(c1)::value>(); }); }); });
    #endif
        break;
    case 3:
    #if IN_SLICE(3)
        for_n<4>([](auto cw) { for_n<4>([&](auto c0) { t_notfn<0, decltype(cw)::value, decltype(c0)::value, (decltype(c0)::value + 2) % 4>(); }); });
    #endif
        break;
    default:
    #if IN_SLICE(4)
        t_notfn_function();
    #endif
        break;
    }
}
#endif

vf::Spec spec(vf::Tier t)
{
    vf::Spec s;
    s.n_enum     = kGroups * 9;
    s.n_random   = t == vf::Tier::thorough ? 4000 : 200;
    s.batch      = 4;
    s.exhaustive = true;
    return s;
}
int boundary(vf::Rng& r)
{
    static int const b[] = {INT_MIN, -1, 0, 1, INT_MAX, 1000, -1000};
    return r.chance(1, 2) ? r.pick(b) : (int)r.range(-100000, 100000);
}
void run_case(vf::Case& c)
{
    unsigned g;
    if (c.enumerated) {
        g    = (unsigned)(c.index / 9);
        g_v0 = (int)((c.index % 9) / 3);
        g_v1 = (int)(c.index % 3);
    } else {
        do { g = (unsigned)c.rng.below(kGroups); } while (!IN_SLICE(g));
        g_v0 = boundary(c.rng);
        g_v1 = boundary(c.rng);
    }
    if (!IN_SLICE(g)) { return; } // compiled into the sibling binary
    g_h = vf::mix(vf::mix(0xCA11 + VF_PART, g), vf::mix((std::uint64_t)(unsigned)g_v0, (std::uint64_t)(unsigned)g_v1));
    if (vf::want_sample("case")) { vf::sample("case", "part %d group %u with a0=%d a1=%d: all category combinations of the group", VF_PART, g, g_v0, g_v1); }
    run_group(g);
}
} // namespace

VF_MAIN("C20", "C20_calls", spec, run_case)
