// C20 - call logs through the callable wrappers vs a direct call (DESIGN 4, C20 part 3).
// An instrumented callable (c20::Fn) logs, per call: which target was called (id + its own call counter), cv/ref of
// *this (operator() overloaded on &, const&, &&, const&&), whether *this is the very object that was wrapped (for the
// non-owning wrappers), and for every argument its value category, value and whether it is the caller's object or a
// copy.  The log and the result (static type, value, identity of a returned reference) of a direct call must equal
// those of the call through etl::invoke, invoke_r, reference_wrapper, function_ref, inplace_function, bind_front, not_fn.
// Build: -DVF_PART=0 invoke/invoke_r  1 function_ref  2 inplace_function  3 bind_front/not_fn  4 reference_wrapper, functions
//        5 member-function / member-data pointers through invoke  6 targets/elements with an overloaded unary operator&
// Enumerated: (group, v0, v1) with argument values over {0,1,2}; each case sweeps all callee categories x argument
// categories x result kinds of its group (compile-time loops).  Random: same groups with boundary/random argument values.
#include "vf.hpp"
#include "vf_contract.hpp"

#include "vf_c20.hpp"

#include <climits>

#ifndef VF_PART
    #define VF_PART 0
#endif
// optional compile-time slicing of a part's groups over several binaries (parallel compilation): group g belongs to
// the binary built with -DVF_NSLICE=n -DVF_SLICE=(g % n)
#ifndef VF_NSLICE
    #define VF_NSLICE 1
    #define VF_SLICE 0
#endif
#define IN_SLICE(G) (((G) % VF_NSLICE) == VF_SLICE)

namespace {
using namespace c20;

char const* g_subj = "?";
std::uint64_t g_h  = 0;
int g_v0 = 0, g_v1 = 0;

void crumb(char const* op, char const* sit) { vf::crumb(g_subj, op, sit, "a0=%d a1=%d", g_v0, g_v1); }
void cover(char const* op, char const* sit) { vf::cover(op, vf::mix(g_h, vf::fnv(sit) ^ vf::fnv(g_subj)), true); }

constexpr char const* kSelf[4] = {"lvalue", "const-lvalue", "rvalue", "const-rvalue"};
constexpr char const* kRK[7]   = {"int", "A&", "A&&", "void", "A", "A const&", "bool"};

// compile-time loops
template <int N, typename F>
void for_n(F&& f)
{
    [&]<int... I>(std::integer_sequence<int, I...>) { (f(std::integral_constant<int, I>{}), ...); }(std::make_integer_sequence<int, N>{});
}

void begin_pair(A& d0, A& d1)
{
    CallLog& L      = calllog();
    L.caller_obj[0] = &d0;
    L.caller_obj[1] = &d1;
    L.caller_obj[2] = nullptr;
    L.track_ids     = true;
    L.expected_self = nullptr;
}
void expect_self(void const* p) { calllog().expected_self = p; }

// how a parameter of declared type P is passed by the caller / seen by a direct call
template <typename P>
decltype(auto) pass(A& d)
{
    if constexpr (std::is_reference_v<P>) {
        return static_cast<P>(d);
    } else {
        return A(d); // by-value parameter: the callee sees an rvalue that is a copy
    }
}
template <typename P>
constexpr char const* pname()
{
    if constexpr (std::is_same_v<P, A&>) {
        return "A&";
    } else if constexpr (std::is_same_v<P, A const&>) {
        return "A const&";
    } else if constexpr (std::is_same_v<P, A&&>) {
        return "A&&";
    } else if constexpr (std::is_same_v<P, A const&&>) {
        return "A const&&";
    } else {
        return "A";
    }
}
template <int I>
using param_t = std::conditional_t<I == 0, A&, std::conditional_t<I == 1, A const&, std::conditional_t<I == 2, A&&, std::conditional_t<I == 3, A const&&, A>>>>;

#if VF_PART == 0 || VF_PART == 4 || VF_PART == 5
    #if VF_PART == 0
// ================================================================================================ invoke / invoke_r
template <int RK, int CF, int C0, int C1>
void t_invoke()
{
    Fn<RK> fd(1), fv(1);
    A d0{g_v0}, d1{g_v1};
    begin_pair(d0, d1);
    char sit[96];
    std::snprintf(sit, sizeof sit, "callee:%s,args:%s,%s,returns:%s", kSelf[CF], kCat[C0], kCat[C1], kRK[RK]);
    g_subj = "invoke";
    crumb("invoke(f,a0,a1)", sit);
    compare_call(
        [&] {
            expect_self(&fd);
            return C20_RES(as<CF>(fd)(as<C0>(d0), as<C1>(d1)));
        },
        [&] {
            expect_self(&fv);
            return C20_RES(etl::invoke(as<CF>(fv), as<C0>(d0), as<C1>(d1)));
        });
    cover("invoke(f,a0,a1)", sit);
    // second call on the same objects: the target's own state advanced exactly once
    crumb("invoke(f,a0)", sit);
    compare_call(
        [&] {
            expect_self(&fd);
            return C20_RES(as<CF>(fd)(as<C0>(d0)));
        },
        [&] {
            expect_self(&fv);
            return C20_RES(etl::invoke(as<CF>(fv), as<C0>(d0)));
        });
    cover("invoke(f,a0)", sit);
    crumb("invoke(f)", sit);
    compare_call(
        [&] {
            expect_self(&fd);
            return C20_RES(as<CF>(fd)());
        },
        [&] {
            expect_self(&fv);
            return C20_RES(etl::invoke(as<CF>(fv)));
        });
    cover("invoke(f)", sit);
}
template <int CF, int C0, int C1>
void t_invoke_r()
{
    A d0{g_v0}, d1{g_v1};
    begin_pair(d0, d1);
    char sit[96];
    std::snprintf(sit, sizeof sit, "callee:%s,args:%s,%s", kSelf[CF], kCat[C0], kCat[C1]);
    g_subj = "invoke_r";
    {
        Fn<0> fd(1), fv(1);
        crumb("invoke_r<int>(f,a0,a1)", sit);
        compare_call([&] { expect_self(&fd); return C20_RES(static_cast<int>(as<CF>(fd)(as<C0>(d0), as<C1>(d1)))); },
            [&] { expect_self(&fv); return C20_RES(etl::invoke_r<int>(as<CF>(fv), as<C0>(d0), as<C1>(d1))); });
        cover("invoke_r<int>(f,a0,a1)", sit);
        crumb("invoke_r<long>(f,a0,a1)", sit);
        compare_call([&] { expect_self(&fd); return C20_RES(static_cast<long>(as<CF>(fd)(as<C0>(d0), as<C1>(d1)))); },
            [&] { expect_self(&fv); return C20_RES(etl::invoke_r<long>(as<CF>(fv), as<C0>(d0), as<C1>(d1))); });
        cover("invoke_r<long>(f,a0,a1)", sit);
        crumb("invoke_r<void>(f,a0,a1)", sit);
        compare_call([&] { expect_self(&fd); return C20_RES(static_cast<void>(as<CF>(fd)(as<C0>(d0), as<C1>(d1)))); },
            [&] { expect_self(&fv); return C20_RES(etl::invoke_r<void>(as<CF>(fv), as<C0>(d0), as<C1>(d1))); });
        cover("invoke_r<void>(f,a0,a1)", sit);
    }
    {
        Fn<1> fd(2), fv(2);
        crumb("invoke_r<A&>(f,a0,a1)", sit);
        compare_call([&] { expect_self(&fd); return C20_RES(static_cast<A&>(as<CF>(fd)(as<C0>(d0), as<C1>(d1)))); },
            [&] { expect_self(&fv); return C20_RES(etl::invoke_r<A&>(as<CF>(fv), as<C0>(d0), as<C1>(d1))); });
        cover("invoke_r<A&>(f,a0,a1)", sit);
        crumb("invoke_r<A const&>(f,a0,a1)", sit);
        compare_call([&] { expect_self(&fd); return C20_RES(static_cast<A const&>(as<CF>(fd)(as<C0>(d0), as<C1>(d1)))); },
            [&] { expect_self(&fv); return C20_RES(etl::invoke_r<A const&>(as<CF>(fv), as<C0>(d0), as<C1>(d1))); });
        cover("invoke_r<A const&>(f,a0,a1)", sit);
    }
}
    #elif VF_PART == 4
// ================================================================================================ reference_wrapper
template <int RK, int CW, int C0, int C1>
void t_refwrap()
{
    A d0{g_v0}, d1{g_v1};
    begin_pair(d0, d1);
    char sit[96];
    std::snprintf(sit, sizeof sit, "wrapper:%s,args:%s,%s,returns:%s", kSelf[CW], kCat[C0], kCat[C1], kRK[RK]);
    g_subj = "reference_wrapper";
    {
        Fn<RK> fd(1), fv(1);
        auto w = etl::ref(fv);
        crumb("ref(f)(a0,a1)", sit);
        compare_call([&] { expect_self(&fd); return C20_RES(fd(as<C0>(d0), as<C1>(d1))); },
            [&] { expect_self(&fv); return C20_RES(as<CW>(w)(as<C0>(d0), as<C1>(d1))); });
        cover("ref(f)(a0,a1)", sit);
        auto w2 = w; // a copy refers to the same target
        crumb("copy-of-ref(f)(a0)", sit);
        compare_call([&] { expect_self(&fd); return C20_RES(fd(as<C0>(d0))); }, [&] { expect_self(&fv); return C20_RES(as<CW>(w2)(as<C0>(d0))); });
        cover("copy-of-ref(f)(a0)", sit);
        crumb("invoke(ref(f),a0,a1)", sit);
        compare_call([&] { expect_self(&fd); return C20_RES(fd(as<C0>(d0), as<C1>(d1))); },
            [&] { expect_self(&fv); return C20_RES(etl::invoke(as<CW>(w), as<C0>(d0), as<C1>(d1))); });
        cover("invoke(ref(f),a0,a1)", sit);
    }
    {
        Fn<RK> fd(1), fv(1);
        auto w = etl::cref(fv);
        crumb("cref(f)(a0,a1)", sit);
        compare_call([&] { expect_self(&fd); return C20_RES(std::as_const(fd)(as<C0>(d0), as<C1>(d1))); },
            [&] { expect_self(&fv); return C20_RES(as<CW>(w)(as<C0>(d0), as<C1>(d1))); });
        cover("cref(f)(a0,a1)", sit);
    }
}

    #else
// ------------------------------------------------------------------------------------------------ member pointers
struct Recv {
    int base;
    mutable int hits = 0;
    explicit Recv(int b) : base(b) { }
    template <typename X>
    int finish(int self, X&& x) const
    {
        note_call(base, hits++, self, this, std::forward<X>(x));
        return static_cast<int>((static_cast<unsigned>(base) * 100u + static_cast<unsigned>(val(x))) & 0x3fffffffu);
    }
    template <typename X> int m_n(X x) { return finish(0, std::forward<X>(x)); }
    template <typename X> int m_c(X x) const { return finish(1, std::forward<X>(x)); }
    template <typename X> int m_l(X x) & { return finish(0, std::forward<X>(x)); }
    template <typename X> int m_cl(X x) const& { return finish(1, std::forward<X>(x)); }
    template <typename X> int m_r(X x) && { return finish(2, std::forward<X>(x)); }
    template <typename X> int m_cr(X x) const&& { return finish(3, std::forward<X>(x)); }
    int m_0() { return finish(0, 0); }
    int& m_ref() { return base; }
};
struct Derived : Recv {
    using Recv::Recv;
    int extra = 5;
};
int recv_base() { return static_cast<int>((static_cast<unsigned>(g_v0) + 1u) & 0x3fffffffu); }
constexpr char const* kQual[6] = {"none", "const", "&", "const&", "&&", "const&&"};
template <int Q, typename X>
constexpr auto pmf()
{
    if constexpr (Q == 0) {
        return &Recv::m_n<X>;
    } else if constexpr (Q == 1) {
        return &Recv::m_c<X>;
    } else if constexpr (Q == 2) {
        return &Recv::m_l<X>;
    } else if constexpr (Q == 3) {
        return &Recv::m_cl<X>;
    } else if constexpr (Q == 4) {
        return &Recv::m_r<X>;
    } else {
        return &Recv::m_cr<X>;
    }
}
// receiver kinds: 0 object lvalue 1 const object 2 rvalue object 3 const rvalue 4 derived lvalue 5 pointer 6 pointer to const
//                 7 reference_wrapper<Recv> 8 reference_wrapper<Recv const> 9 pointer to derived 10 reference_wrapper<Derived>
constexpr char const* kRecv[11] = {"object-lvalue", "object-const-lvalue", "object-rvalue", "object-const-rvalue", "derived-lvalue", "pointer",
    "pointer-to-const", "reference_wrapper", "reference_wrapper<const>", "pointer-to-derived", "reference_wrapper<derived>"};
// the receiver expression as passed to etl::invoke (E = true) or std::invoke (E = false)
template <int RV, bool E>
decltype(auto) recv_expr(Derived& d)
{
    Recv& r = d;
    if constexpr (RV == 0) {
        return (r);
    } else if constexpr (RV == 1) {
        return std::as_const(r);
    } else if constexpr (RV == 2) {
        return std::move(r);
    } else if constexpr (RV == 3) {
        return std::move(std::as_const(r));
    } else if constexpr (RV == 4) {
        return (d);
    } else if constexpr (RV == 5) {
        return &r;
    } else if constexpr (RV == 6) {
        return static_cast<Recv const*>(&r);
    } else if constexpr (RV == 7) {
        if constexpr (E) {
            return etl::ref(r);
        } else {
            return std::ref(r);
        }
    } else if constexpr (RV == 8) {
        if constexpr (E) {
            return etl::cref(r);
        } else {
            return std::cref(r);
        }
    } else if constexpr (RV == 9) {
        return &d;
    } else {
        if constexpr (E) {
            return etl::ref(d);
        } else {
            return std::ref(d);
        }
    }
}
template <int Q, int RV, int PI>
void t_pmf()
{
    using X            = param_t<PI>;
    constexpr auto pm  = pmf<Q, X>();
    using PM           = decltype(pm);
    using SRecv        = decltype(recv_expr<RV, false>(std::declval<Derived&>()));
    // std-side first: only receiver/qualifier combinations that std::invoke accepts
    if constexpr (std::is_invocable_v<PM, SRecv, decltype(pass<X>(std::declval<A&>()))>) {
        Derived od(recv_base()), ov(recv_base());
        A d1{g_v1}, dunused{0};
        begin_pair(dunused, d1);
        char sit[96];
        std::snprintf(sit, sizeof sit, "qualifier:%s,receiver:%s,arg:%s", kQual[Q], kRecv[RV], pname<X>());
        g_subj = "invoke(member-function-pointer)";
        crumb("invoke(pmf,recv,a)", sit);
        if constexpr (requires { etl::invoke(pm, recv_expr<RV, true>(ov), pass<X>(d1)); }) {
            compare_call(
                [&] {
                    expect_self(static_cast<Recv*>(&od));
                    return C20_RES(std::invoke(pm, recv_expr<RV, false>(od), pass<X>(d1)));
                },
                [&] {
                    expect_self(static_cast<Recv*>(&ov));
                    return C20_RES(etl::invoke(pm, recv_expr<RV, true>(ov), pass<X>(d1)));
                });
        } else {
            vf::diverge("not-invocable", "etl::invoke rejects the call", "std::invoke accepts the call");
        }
        cover("invoke(pmf,recv,a)", sit);
    }
}
template <int RV>
void t_pmd()
{
    Derived od(recv_base()), ov(recv_base());
    char sit[96];
    std::snprintf(sit, sizeof sit, "receiver:%s", kRecv[RV]);
    g_subj = "invoke(member-data-pointer)";
    crumb("invoke(pmd,recv)", sit);
    using ET = decltype(etl::invoke(&Recv::base, recv_expr<RV, true>(ov)));
    using ST = decltype(std::invoke(&Recv::base, recv_expr<RV, false>(od)));
    same_type<ET, ST>("ret-type");
    ET er = etl::invoke(&Recv::base, recv_expr<RV, true>(ov));
    vf::eq_int("value", er, recv_base());
    vf::eq_bool("refers-to-the-member", static_cast<void const*>(&er) == static_cast<void const*>(&ov.base), true);
    cover("invoke(pmd,recv)", sit);
    if constexpr (RV == 4 || RV == 9 || RV == 10) {
        crumb("invoke(pmd-of-derived,recv)", sit);
        using ET2 = decltype(etl::invoke(&Derived::extra, recv_expr<RV, true>(ov)));
        using ST2 = decltype(std::invoke(&Derived::extra, recv_expr<RV, false>(od)));
        same_type<ET2, ST2>("ret-type");
        vf::eq_int("value", etl::invoke(&Derived::extra, recv_expr<RV, true>(ov)), 5);
        cover("invoke(pmd-of-derived,recv)", sit);
    }
}
    #endif
    #if VF_PART == 4
int free_log(A& a, A const& b)
{
    note_call(9, 0, 4, nullptr, a, b);
    return static_cast<int>((static_cast<unsigned>(a.v) * 10u + static_cast<unsigned>(b.v)) & 0x3fffffffu);
}
void t_free()
{
    A d0{g_v0}, d1{g_v1};
    begin_pair(d0, d1);
    g_subj = "invoke(function)";
    crumb("invoke(function,a0,a1)", "function-lvalue");
    compare_call([&] { return C20_RES(free_log(d0, d1)); }, [&] { return C20_RES(etl::invoke(free_log, d0, d1)); });
    cover("invoke(function,a0,a1)", "function-lvalue");
    crumb("invoke(function,a0,a1)", "function-pointer");
    compare_call([&] { return C20_RES(free_log(d0, d1)); }, [&] { return C20_RES(etl::invoke(&free_log, d0, d1)); });
    cover("invoke(function,a0,a1)", "function-pointer");
    crumb("invoke_r<long>(function,a0,a1)", "function-pointer");
    compare_call([&] { return C20_RES(static_cast<long>(free_log(d0, d1))); }, [&] { return C20_RES(etl::invoke_r<long>(&free_log, d0, d1)); });
    cover("invoke_r<long>(function,a0,a1)", "function-pointer");
    auto w = etl::ref(free_log);
    crumb("ref(function)(a0,a1)", "function-lvalue");
    compare_call([&] { return C20_RES(free_log(d0, d1)); }, [&] { return C20_RES(w(d0, d1)); });
    cover("ref(function)(a0,a1)", "function-lvalue");
}

    #endif

    #if VF_PART == 0
constexpr unsigned kGroups = 3;
void run_group(unsigned g)
{
    switch (g) {
    case 0: // invoke: every callee category x argument categories (int result)
        #if IN_SLICE(0)
        for_n<4>([](auto cf) { for_n<4>([&](auto c0) { for_n<4>([&](auto c1) { t_invoke<0, decltype(cf)::value, decltype(c0)::value, decltype(c1)::value>(); }); }); });
        #endif
        break;
    case 1: // invoke: every result kind x callee category
        #if IN_SLICE(1)
        for_n<6>([](auto rk) { for_n<4>([&](auto cf) { t_invoke<decltype(rk)::value + 1, decltype(cf)::value, 0, 2>(); }); });
        #endif
        break;
    default: // invoke_r
        #if IN_SLICE(2)
        for_n<4>([](auto cf) { for_n<4>([&](auto c0) { t_invoke_r<decltype(cf)::value, decltype(c0)::value, (decltype(c0)::value + 1) % 4>(); }); });
        #endif
        break;
    }
}
    #elif VF_PART == 4
constexpr unsigned kGroups = 3;
void run_group(unsigned g)
{
    switch (g) {
    case 0: for_n<4>([](auto cw) { for_n<4>([&](auto c0) { for_n<4>([&](auto c1) { t_refwrap<0, decltype(cw)::value, decltype(c0)::value, decltype(c1)::value>(); }); }); }); break;
    case 1: for_n<6>([](auto rk) { t_refwrap<decltype(rk)::value + 1, 0, 0, 1>(); }); break;
    default: t_free(); break;
    }
}
    #else
constexpr unsigned kGroups = 7;
void run_group(unsigned g)
{
    if (g < 6) { // member-function pointers: qualifier g x receiver x argument kind
        for_n<6>([&](auto q) {
            if (decltype(q)::value == (int)g) { for_n<11>([&](auto rv) { for_n<5>([&](auto pi) { t_pmf<decltype(q)::value, decltype(rv)::value, decltype(pi)::value>(); }); }); }
        });
    } else { // member-data pointers
        for_n<11>([](auto rv) { t_pmd<decltype(rv)::value>(); });
    }
}
    #endif

#elif VF_PART == 1
// ================================================================================================ function_ref
template <typename Sig>
struct sig_name;
template <int RK, typename P0, typename P1, int CF>
void t_fref_one()
{
    using R   = typename Fn<RK>::R;
    using FR  = etl::function_ref<R(P0, P1)>;
    A d0{g_v0}, d1{g_v1};
    begin_pair(d0, d1);
    constexpr bool by_value = !std::is_reference_v<P0> || !std::is_reference_v<P1>;
    (void)by_value;
    char sit[96];
    std::snprintf(sit, sizeof sit, "callee:%s,params:(%s,%s),returns:%s", kSelf[CF], pname<P0>(), pname<P1>(), kRK[RK]);
    g_subj = "function_ref";
    Fn<RK> fd(1), fv(1);
    // P0792: the target is called as an lvalue with the cv of the object it was bound to
    constexpr int expect_cat = (CF == 1 || CF == 3) ? 1 : 0;
    crumb("function_ref<R(P0,P1)>(f)(a0,a1)", sit);
    compare_call(
        [&] {
            expect_self(&fd);
            return C20_RES(as<expect_cat>(fd)(pass<P0>(d0), pass<P1>(d1)));
        },
        [&] {
            expect_self(&fv);
            if constexpr (CF == 0) {
                FR w(fv);
                return C20_RES(w(pass<P0>(d0), pass<P1>(d1)));
            } else if constexpr (CF == 1) {
                FR w(std::as_const(fv));
                return C20_RES(w(pass<P0>(d0), pass<P1>(d1)));
            } else if constexpr (CF == 2) {
                return C20_RES(FR(std::move(fv))(pass<P0>(d0), pass<P1>(d1)));
            } else {
                return C20_RES(FR(std::move(std::as_const(fv)))(pass<P0>(d0), pass<P1>(d1)));
            }
        });
    cover("function_ref<R(P0,P1)>(f)(a0,a1)", sit);
}
template <int RK, int CW>
void t_fref_wrapper_cats()
{
    // the wrapper itself called / copied in every category refers to the same target
    using R  = typename Fn<RK>::R;
    using FR = etl::function_ref<R(A&, A const&)>;
    A d0{g_v0}, d1{g_v1};
    begin_pair(d0, d1);
    char sit[96];
    std::snprintf(sit, sizeof sit, "wrapper:%s,returns:%s", kSelf[CW], kRK[RK]);
    g_subj = "function_ref";
    Fn<RK> fd(1), fv(1);
    FR w(fv);
    crumb("function_ref(f) called as category", sit);
    compare_call([&] { expect_self(&fd); return C20_RES(fd(d0, std::as_const(d1))); }, [&] { expect_self(&fv); return C20_RES(as<CW>(w)(d0, d1)); });
    cover("function_ref(f) called as category", sit);
    FR c(w);
    crumb("copy of function_ref(f)", sit);
    compare_call([&] { expect_self(&fd); return C20_RES(fd(d0, std::as_const(d1))); }, [&] { expect_self(&fv); return C20_RES(as<CW>(c)(d0, d1)); });
    cover("copy of function_ref(f)", sit);
    Fn<RK> other(7), otherd(7);
    FR o(other);
    c = o;
    crumb("function_ref = other", sit);
    compare_call([&] { expect_self(&otherd); return C20_RES(otherd(d0, std::as_const(d1))); }, [&] { expect_self(&other); return C20_RES(as<CW>(c)(d0, d1)); });
    cover("function_ref = other", sit);
    crumb("invoke(function_ref,a0,a1)", sit);
    compare_call([&] { expect_self(&fd); return C20_RES(fd(d0, std::as_const(d1))); }, [&] { expect_self(&fv); return C20_RES(etl::invoke(as<CW>(w), d0, d1)); });
    cover("invoke(function_ref,a0,a1)", sit);
}
int free_log(A& a, A const& b)
{
    note_call(9, 0, 4, nullptr, a, b);
    return static_cast<int>((static_cast<unsigned>(a.v) * 10u + static_cast<unsigned>(b.v)) & 0x3fffffffu);
}
void t_fref_function()
{
    A d0{g_v0}, d1{g_v1};
    begin_pair(d0, d1);
    g_subj = "function_ref";
    etl::function_ref<int(A&, A const&)> w(free_log);
    crumb("function_ref<R(P0,P1)>(function)(a0,a1)", "function-lvalue");
    compare_call([&] { return C20_RES(free_log(d0, d1)); }, [&] { return C20_RES(w(d0, d1)); });
    cover("function_ref<R(P0,P1)>(function)(a0,a1)", "function-lvalue");
    etl::function_ref<long(A&, A&)> w2(free_log);
    crumb("function_ref<long(A&,A&)>(function)(a0,a1)", "converting-signature");
    compare_call([&] { return C20_RES(static_cast<long>(free_log(d0, d1))); }, [&] { return C20_RES(w2(d0, d1)); });
    cover("function_ref<long(A&,A&)>(function)(a0,a1)", "converting-signature");
    auto fp = &free_log; // named pointer that outlives the wrapper
    etl::function_ref<int(A&, A const&)> w3(fp);
    crumb("function_ref<R(P0,P1)>(function pointer lvalue)(a0,a1)", "function-pointer-lvalue");
    compare_call([&] { return C20_RES(free_log(d0, d1)); }, [&] { return C20_RES(w3(d0, d1)); });
    cover("function_ref<R(P0,P1)>(function pointer lvalue)(a0,a1)", "function-pointer-lvalue");
}
constexpr unsigned kGroups = 4;
void run_group(unsigned g)
{
    switch (g) {
    case 0: // every parameter-type pair, non-const lvalue target
        for_n<5>([](auto p0) { for_n<5>([&](auto p1) { t_fref_one<0, param_t<decltype(p0)::value>, param_t<decltype(p1)::value>, 0>(); }); });
        break;
    case 1: // every way to bind the target x a few signatures
        for_n<4>([](auto cf) {
            t_fref_one<0, A&, A const&, decltype(cf)::value>();
            t_fref_one<0, A&&, A, decltype(cf)::value>();
            t_fref_one<4, A const&, A&, decltype(cf)::value>();
        });
        break;
    case 2: // result kinds
        for_n<6>([](auto rk) {
            t_fref_one<decltype(rk)::value + 1, A&, A const&, 0>();
            t_fref_one<decltype(rk)::value + 1, A, A&&, 1>();
        });
        break;
    default:
        for_n<4>([](auto cw) {
            t_fref_wrapper_cats<0, decltype(cw)::value>();
            t_fref_wrapper_cats<1, decltype(cw)::value>();
        });
        t_fref_function();
        break;
    }
}

#elif VF_PART == 2
// ================================================================================================ inplace_function
template <int RK, typename P0, typename P1, std::size_t Cap, int CW, int CK>
void t_ipf_one()
{
    using R = typename Fn<RK>::R;
    using IF = etl::inplace_function<R(P0, P1), Cap>;
    A d0{g_v0}, d1{g_v1};
    begin_pair(d0, d1);
    char sit[112];
    static constexpr char const* ck[3] = {"from-lvalue", "from-const-lvalue", "from-rvalue"};
    std::snprintf(sit, sizeof sit, "wrapper:%s,params:(%s,%s),returns:%s,cap:%zu,%s", kSelf[CW], pname<P0>(), pname<P1>(), kRK[RK], Cap, ck[CK]);
    g_subj = "inplace_function";
    Fn<RK> fd(1), src(1);
    // construction never calls the target and copies it: calls go to the copy as a non-const lvalue
    calllog().clear();
    crumb("inplace_function<R(P0,P1),Cap>(f)", sit);
    auto make = [&]() -> IF {
        if constexpr (CK == 0) {
            return IF(src);
        } else if constexpr (CK == 1) {
            return IF(std::as_const(src));
        } else {
            return IF(std::move(src));
        }
    };
    IF w = make();
    vf::eq_int("calls-during-construction", calllog().recs.size(), 0);
    crumb("inplace_function<R(P0,P1),Cap>(f)(a0,a1)", sit);
    compare_call([&] { return C20_RES(fd(pass<P0>(d0), pass<P1>(d1))); }, [&] { return C20_RES(as<CW>(w)(pass<P0>(d0), pass<P1>(d1))); });
    cover("inplace_function<R(P0,P1),Cap>(f)(a0,a1)", sit);
    // second call: the stored copy kept its own state; the source object was never called
    crumb("inplace_function second call", sit);
    compare_call([&] { return C20_RES(fd(pass<P0>(d0), pass<P1>(d1))); }, [&] { return C20_RES(as<CW>(w)(pass<P0>(d0), pass<P1>(d1))); });
    vf::eq_int("source-object-call-count", src.state, 0);
    cover("inplace_function second call", sit);
    // copy: equivalent, independent target
    crumb("copy of inplace_function", sit);
    IF c(w);
    Fn<RK> fdc(fd);
    compare_call([&] { return C20_RES(fdc(pass<P0>(d0), pass<P1>(d1))); }, [&] { return C20_RES(as<CW>(c)(pass<P0>(d0), pass<P1>(d1))); });
    compare_call([&] { return C20_RES(fd(pass<P0>(d0), pass<P1>(d1))); }, [&] { return C20_RES(as<CW>(w)(pass<P0>(d0), pass<P1>(d1))); });
    cover("copy of inplace_function", sit);
    crumb("invoke(inplace_function,a0,a1)", sit);
    compare_call([&] { return C20_RES(fd(pass<P0>(d0), pass<P1>(d1))); }, [&] { return C20_RES(etl::invoke(as<CW>(w), pass<P0>(d0), pass<P1>(d1))); });
    cover("invoke(inplace_function,a0,a1)", sit);
}
int free_log(A& a, A const& b)
{
    note_call(9, 0, 4, nullptr, a, b);
    return static_cast<int>((static_cast<unsigned>(a.v) * 10u + static_cast<unsigned>(b.v)) & 0x3fffffffu);
}
void t_ipf_function()
{
    A d0{g_v0}, d1{g_v1};
    begin_pair(d0, d1);
    g_subj = "inplace_function";
    etl::inplace_function<int(A&, A const&)> w(free_log);
    crumb("inplace_function<R(P0,P1)>(function)(a0,a1)", "function-target");
    compare_call([&] { return C20_RES(free_log(d0, d1)); }, [&] { return C20_RES(w(d0, d1)); });
    cover("inplace_function<R(P0,P1)>(function)(a0,a1)", "function-target");
    etl::inplace_function<int(A&, A const&)> w2(&free_log);
    crumb("inplace_function<R(P0,P1)>(function pointer)(a0,a1)", "function-target");
    compare_call([&] { return C20_RES(free_log(d0, d1)); }, [&] { return C20_RES(w2(d0, d1)); });
    cover("inplace_function<R(P0,P1)>(function pointer)(a0,a1)", "function-target");
    etl::inplace_function<int(A&, A const&), 32> w3(w2); // converting copy to a larger capacity
    crumb("inplace_function<...,32>(inplace_function<...,8> const&)", "function-target");
    compare_call([&] { return C20_RES(free_log(d0, d1)); }, [&] { return C20_RES(w3(d0, d1)); });
    cover("inplace_function<...,32>(inplace_function<...,8> const&)", "function-target");
}
constexpr unsigned kGroups = 4;
void run_group(unsigned g)
{
    switch (g) {
    case 0:
        for_n<5>([](auto p0) { for_n<5>([&](auto p1) { t_ipf_one<0, param_t<decltype(p0)::value>, param_t<decltype(p1)::value>, 16, 0, 0>(); }); });
        break;
    case 1:
        for_n<4>([](auto cw) {
            for_n<3>([&](auto ckk) {
                t_ipf_one<0, A&, A const&, 8, decltype(cw)::value, decltype(ckk)::value>();
                t_ipf_one<0, A&&, A, 32, decltype(cw)::value, decltype(ckk)::value>();
            });
        });
        break;
    case 2:
        for_n<3>([](auto rk) {
            // results that a void-returning vtable thunk can also produce on older trees (non-void R only)
            t_ipf_one<decltype(rk)::value == 0 ? 1 : (decltype(rk)::value == 1 ? 2 : 4), A&, A const&, 16, 0, 0>();
            t_ipf_one<decltype(rk)::value == 0 ? 5 : (decltype(rk)::value == 1 ? 6 : 3), A, A&&, 8, 1, 2>();
        });
        break;
    default: t_ipf_function(); break;
    }
}

#elif VF_PART == 6
// ================================================================================================ targets / elements with a hostile unary operator&
// c20::Amp overloads unary & to return the address of a decoy.  Everything in the property that stores or forms an address
// (reference_wrapper/ref/cref, function_ref, inplace_function, pairs/tuples of references, tie/forward_as_tuple, invoke with
// member pointers, apply, bind_front, not_fn) must still refer to / call the object it was given: identity is checked with
// std::addressof and the behaviour is compared with the std counterpart or the direct call.
int amp_id() { return static_cast<int>((static_cast<unsigned>(g_v0) & 0xffu) + 10u); }
int amp_arg() { return static_cast<int>(static_cast<unsigned>(g_v1) & 0xffffu); }
void self_is(Amp const& a) { calllog().expected_self = std::addressof(a); }
void t_amp_refwrap()
{
    g_subj = "reference_wrapper<Amp>";
    char const* sit = "target-overloads-operator&";
    int const v     = amp_arg();
    Amp x(amp_id()), x2(amp_id());
    calllog().track_ids = false;
    crumb("ref(x).get()", sit);
    auto r  = etl::ref(x);
    auto sr = std::ref(x2);
    vf::eq_bool("get-refers-to-the-wrapped-object", same_object(r.get(), x), same_object(sr.get(), x2));
    Amp& conv = r;
    vf::eq_bool("conversion-refers-to-the-wrapped-object", same_object(conv, x), true);
    cover("ref(x).get()", sit);
    crumb("cref(x).get()", sit);
    auto cr = etl::cref(x);
    vf::eq_bool("get-refers-to-the-wrapped-object", same_object(cr.get(), x), same_object(std::cref(x2).get(), x2));
    etl::reference_wrapper<Amp const> rc(x);
    vf::eq_bool("reference_wrapper<T const>(x)-refers-to-the-wrapped-object", same_object(rc.get(), x), true);
    cover("cref(x).get()", sit);
    crumb("copy / assignment / ref(ref(x))", sit);
    auto r2 = r;
    vf::eq_bool("copy-refers-to-the-wrapped-object", same_object(r2.get(), x), true);
    Amp other(77);
    auto r3 = etl::ref(other);
    r3      = r;
    vf::eq_bool("assigned-refers-to-the-wrapped-object", same_object(r3.get(), x), true);
    vf::eq_bool("ref(ref(x))-refers-to-the-wrapped-object", same_object(etl::ref(r).get(), x), same_object(std::ref(sr).get(), x2));
    vf::eq_bool("cref(ref(x))-refers-to-the-wrapped-object", same_object(etl::cref(r).get(), x), same_object(std::cref(sr).get(), x2));
    cover("copy / assignment / ref(ref(x))", sit);
    crumb("ref(x)(a)", sit);
    compare_call([&] { self_is(x2); return C20_RES(x2(v)); }, [&] { self_is(x); return C20_RES(r(v)); });
    cover("ref(x)(a)", sit);
    crumb("copy-of-ref(x)(a)", sit);
    compare_call([&] { self_is(x2); return C20_RES(x2(v)); }, [&] { self_is(x); return C20_RES(r2(v)); });
    cover("copy-of-ref(x)(a)", sit);
    crumb("cref(x)(a)", sit);
    compare_call([&] { self_is(x2); return C20_RES(std::as_const(x2)(v)); }, [&] { self_is(x); return C20_RES(cr(v)); });
    cover("cref(x)(a)", sit);
    crumb("invoke(ref(x),a)", sit);
    compare_call([&] { self_is(x2); return C20_RES(x2(v)); }, [&] { self_is(x); return C20_RES(etl::invoke(r, v)); });
    cover("invoke(ref(x),a)", sit);
    vf::eq_int("decoy-never-called", Amp::decoy().calls, 0);
}
void t_amp_function_wrappers()
{
    char const* sit = "target-overloads-operator&";
    int const v     = amp_arg();
    Amp x(amp_id()), x2(amp_id());
    calllog().track_ids = false;
    g_subj = "function_ref";
    {
        etl::function_ref<int(int)> f(x);
        crumb("function_ref<int(int)>(x)(a)", sit);
        compare_call([&] { self_is(x2); return C20_RES(x2(v)); }, [&] { self_is(x); return C20_RES(f(v)); });
        cover("function_ref<int(int)>(x)(a)", sit);
        auto f2 = f;
        crumb("copy of function_ref(x)(a)", sit);
        compare_call([&] { self_is(x2); return C20_RES(x2(v)); }, [&] { self_is(x); return C20_RES(f2(v)); });
        cover("copy of function_ref(x)(a)", sit);
        etl::function_ref<int(int)> fc(std::as_const(x));
        crumb("function_ref<int(int)>(const x)(a)", sit);
        compare_call([&] { self_is(x2); return C20_RES(std::as_const(x2)(v)); }, [&] { self_is(x); return C20_RES(fc(v)); });
        cover("function_ref<int(int)>(const x)(a)", sit);
        etl::function_ref<int(int)> fr(etl::ref(x)); // a reference_wrapper as the bound entity
        auto rw = etl::ref(x);
        etl::function_ref<int(int)> fr2(rw);
        crumb("function_ref<int(int)>(ref(x))(a)", sit);
        compare_call([&] { self_is(x2); return C20_RES(x2(v)); }, [&] { self_is(x); return C20_RES(fr2(v)); });
        cover("function_ref<int(int)>(ref(x))(a)", sit);
        (void)fr;
    }
    {
        // Amp as an argument passed through the wrappers by reference: the callee must see the caller's object
        Fn<0> fd(1), fv(1);
        calllog().track_ids     = true;
        calllog().caller_obj[0] = std::addressof(x);
        calllog().caller_obj[1] = nullptr;
        calllog().caller_obj[2] = nullptr;
        calllog().expected_self = nullptr;
        etl::function_ref<int(Amp&)> fa(fv);
        crumb("function_ref<int(Amp&)>(f)(x)", "argument-overloads-operator&");
        compare_call([&] { return C20_RES(fd(x)); }, [&] { return C20_RES(fa(x)); });
        cover("function_ref<int(Amp&)>(f)(x)", "argument-overloads-operator&");
        Fn<0> fd2(2);
        etl::inplace_function<int(Amp const&), 16> ia(Fn<0>(2));
        crumb("inplace_function<int(Amp const&)>(f)(x)", "argument-overloads-operator&");
        compare_call([&] { return C20_RES(fd2(std::as_const(x))); }, [&] { return C20_RES(ia(x)); });
        cover("inplace_function<int(Amp const&)>(f)(x)", "argument-overloads-operator&");
        calllog().track_ids = false;
        Fn<0> fd3(3);
        etl::inplace_function<int(Amp), 16> iv(Fn<0>(3));
        crumb("inplace_function<int(Amp)>(f)(x)", "argument-overloads-operator&");
        compare_call([&] { return C20_RES(fd3(Amp(x))); }, [&] { return C20_RES(iv(x)); });
        cover("inplace_function<int(Amp)>(f)(x)", "argument-overloads-operator&");
    }
    g_subj = "inplace_function";
    {
        calllog().expected_self = nullptr;
        Amp x(amp_id()), x2(amp_id()); // fresh objects: never called directly
        Amp c2(x2);
        etl::inplace_function<int(int), 32> g(x);
        crumb("inplace_function<int(int)>(x)(a)", sit);
        compare_call([&] { return C20_RES(c2(v)); }, [&] { return C20_RES(g(v)); });
        vf::eq_int("source-object-call-count", x.calls, 0);
        cover("inplace_function<int(int)>(x)(a)", sit);
        auto g2 = g;
        Amp c3(c2);
        crumb("copy of inplace_function(x)(a)", sit);
        compare_call([&] { return C20_RES(c3(v)); }, [&] { return C20_RES(g2(v)); });
        cover("copy of inplace_function(x)(a)", sit);
        auto g3 = std::move(g);
        crumb("move of inplace_function(x)(a)", sit);
        compare_call([&] { return C20_RES(c2(v)); }, [&] { return C20_RES(g3(v)); });
        cover("move of inplace_function(x)(a)", sit);
        g3.swap(g2);
        crumb("swapped inplace_function(x)(a)", sit);
        compare_call([&] { return C20_RES(c3(v)); }, [&] { return C20_RES(g3(v)); });
        cover("swapped inplace_function(x)(a)", sit);
        // captured by value inside a lambda, and captured reference_wrapper
        etl::inplace_function<int(int), 48> l([a = x](int q) mutable { return a(q); });
        Amp c4(x2);
        crumb("inplace_function([a=x](int){...})(a)", sit);
        compare_call([&] { return C20_RES(c4(v)); }, [&] { return C20_RES(l(v)); });
        cover("inplace_function([a=x](int){...})(a)", sit);
        etl::inplace_function<int(int), 16> lr(etl::ref(x));
        crumb("inplace_function(ref(x))(a)", sit);
        compare_call([&] { self_is(x2); return C20_RES(x2(v)); }, [&] { self_is(x); return C20_RES(lr(v)); });
        cover("inplace_function(ref(x))(a)", sit);
    }
    vf::eq_int("decoy-never-called", Amp::decoy().calls, 0);
}
struct AmpSink {
    void const* p0;
    int id;
    template <typename X>
    AmpSink(X&& x, int) : p0(std::addressof(x)), id(x.id)
    {
    }
};
void t_amp_pair_tuple()
{
    char const* sit = "element-overloads-operator&";
    Amp x(amp_id()), y(amp_id() + 1), x2(amp_id()), y2(amp_id() + 1);
    g_subj = "pair<Amp&,int>";
    {
        crumb("pair<Amp&,int>(x,1)", sit);
        etl::pair<Amp&, int> p(x, 1);
        std::pair<Amp&, int> sp(x2, 1);
        vf::eq_bool("first-refers-to-x", same_object(p.first, x), same_object(sp.first, x2));
        vf::eq_bool("get<0>(p)-refers-to-x", same_object(etl::get<0>(p), x), same_object(std::get<0>(sp), x2));
        vf::eq_bool("get<0>(const p)-refers-to-x", same_object(etl::get<0>(std::as_const(p)), x), true);
        etl::pair<Amp&, int> pc(p);
        vf::eq_bool("copy.first-refers-to-x", same_object(pc.first, x), true);
        auto mp = etl::make_pair(etl::ref(x), 1);
        auto sm = std::make_pair(std::ref(x2), 1);
        same_type<decltype(mp), decltype(sm)>();
        vf::eq_bool("make_pair(ref(x),1).first-refers-to-x", same_object(mp.first, x), same_object(sm.first, x2));
        etl::pair<Amp&, int> q(y, 2);
        std::pair<Amp&, int> sq(y2, 2);
        p = q; // assigns through the reference
        sp = sq;
        vf::eq_int("assigned-through.id", x.id, x2.id);
        vf::eq_bool("still-refers-to-x", same_object(p.first, x), same_object(sp.first, x2));
        x  = Amp(amp_id());
        x2 = Amp(amp_id());
        cover("pair<Amp&,int>(x,1)", sit);
    }
    g_subj = "pair<Amp,int>";
    {
        crumb("pair<Amp,int> copy/swap/get", sit);
        etl::pair<Amp, int> p(x, 1), q(y, 2);
        std::pair<Amp, int> sp(x2, 1), sq(y2, 2);
        vf::eq_bool("get<0>(p)-refers-into-p", same_object(etl::get<0>(p), p.first), same_object(std::get<0>(sp), sp.first));
        p.swap(q);
        sp.swap(sq);
        vf::eq_int("swap.lhs.id", p.first.id, sp.first.id);
        vf::eq_int("swap.rhs.id", q.first.id, sq.first.id);
        swap(p, q);
        swap(sp, sq);
        vf::eq_int("swap(a,b).lhs.id", p.first.id, sp.first.id);
        vf::eq_bool("operator==", p == q, sp == sq);
        cover("pair<Amp,int> copy/swap/get", sit);
    }
    g_subj = "tuple<Amp&,int>";
    {
        crumb("tuple<Amp&,int> / tie / forward_as_tuple", sit);
        etl::tuple<Amp&, int> t(x, 1);
        std::tuple<Amp&, int> st(x2, 1);
        vf::eq_bool("get<0>(t)-refers-to-x", same_object(etl::get<0>(t), x), same_object(std::get<0>(st), x2));
        vf::eq_bool("get<0>(const t)-refers-to-x", same_object(etl::get<0>(std::as_const(t)), x), true);
        vf::eq_bool("get<0>(move(t))-refers-to-x", same_object(etl::get<0>(std::move(t)), x), true);
        vf::eq_bool("tie(x)-refers-to-x", same_object(etl::get<0>(etl::tie(x, y)), x) && same_object(etl::get<1>(etl::tie(x, y)), y), true);
        vf::eq_bool("forward_as_tuple(x)-refers-to-x", same_object(etl::get<0>(etl::forward_as_tuple(x, 1)), x), true);
        auto mt = etl::make_tuple(etl::ref(x), 2);
        auto sm = std::make_tuple(std::ref(x2), 2);
        same_type<decltype(mt), decltype(sm)>();
        vf::eq_bool("make_tuple(ref(x),2)-refers-to-x", same_object(etl::get<0>(mt), x), same_object(std::get<0>(sm), x2));
        auto tc = etl::tuple_cat(etl::tie(x), etl::tuple<int>(3), etl::tie(y));
        auto sc = std::tuple_cat(std::tie(x2), std::tuple<int>(3), std::tie(y2));
        same_type<decltype(tc), decltype(sc)>();
        vf::eq_bool("tuple_cat(tie(x),..,tie(y))-refers-to-x-and-y", same_object(etl::get<0>(tc), x) && same_object(etl::get<2>(tc), y),
            same_object(std::get<0>(sc), x2) && same_object(std::get<2>(sc), y2));
        etl::tuple<Amp&, int> t2(y, 5);
        std::tuple<Amp&, int> st2(y2, 5);
        t.swap(t2); // swaps the referred objects
        st.swap(st2);
        vf::eq_int("swap.referred-x.id", x.id, x2.id);
        vf::eq_int("swap.referred-y.id", y.id, y2.id);
        vf::eq_bool("operator==", t == t2, st == st2);
        cover("tuple<Amp&,int> / tie / forward_as_tuple", sit);
    }
    g_subj = "apply/make_from_tuple";
    {
        Fn<0> fd(1), fv(1);
        CallLog& L      = calllog();
        L.track_ids     = true;
        L.caller_obj[0] = std::addressof(x);
        L.caller_obj[1] = std::addressof(y);
        L.caller_obj[2] = nullptr;
        L.expected_self = nullptr;
        crumb("apply(f,tie(x,y))", sit);
        compare_call([&] { return C20_RES(std::apply(fd, std::tie(x, y))); }, [&] { return C20_RES(etl::apply(fv, etl::tie(x, y))); });
        cover("apply(f,tie(x,y))", sit);
        crumb("apply(f,forward_as_tuple(x,move(y)))", sit);
        compare_call([&] { return C20_RES(std::apply(fd, std::forward_as_tuple(x, std::move(y)))); }, [&] { return C20_RES(etl::apply(fv, etl::forward_as_tuple(x, std::move(y)))); });
        cover("apply(f,forward_as_tuple(x,move(y)))", sit);
        crumb("apply(f,pair<Amp&,Amp const&>)", sit);
        compare_call([&] { return C20_RES(std::apply(fd, std::pair<Amp&, Amp const&>(x, y))); }, [&] { return C20_RES(etl::apply(fv, etl::pair<Amp&, Amp const&>(x, y))); });
        cover("apply(f,pair<Amp&,Amp const&>)", sit);
        L.track_ids = false;
        crumb("make_from_tuple<S>(forward_as_tuple(x,1))", sit);
        AmpSink es = etl::make_from_tuple<AmpSink>(etl::forward_as_tuple(x, 1));
        AmpSink ss = std::make_from_tuple<AmpSink>(std::forward_as_tuple(x2, 1));
        vf::eq_bool("constructor-argument-is-x", es.p0 == std::addressof(x), ss.p0 == std::addressof(x2));
        vf::eq_int("constructor-argument.id", es.id, ss.id);
        cover("make_from_tuple<S>(forward_as_tuple(x,1))", sit);
        // the callable itself overloads operator&
        Amp cx(amp_id()), cx2(amp_id());
        crumb("apply(ref(x),tuple<int>)", "target-overloads-operator&");
        compare_call([&] { self_is(cx2); return C20_RES(std::apply(std::ref(cx2), std::tuple<int>(amp_arg()))); },
            [&] { self_is(cx); return C20_RES(etl::apply(etl::ref(cx), etl::tuple<int>(amp_arg()))); });
        cover("apply(ref(x),tuple<int>)", "target-overloads-operator&");
        crumb("apply(x,tuple<int>)", "target-overloads-operator&");
        compare_call([&] { self_is(cx2); return C20_RES(std::apply(cx2, std::tuple<int>(amp_arg()))); }, [&] { self_is(cx); return C20_RES(etl::apply(cx, etl::tuple<int>(amp_arg()))); });
        cover("apply(x,tuple<int>)", "target-overloads-operator&");
    }
    vf::eq_int("decoy-never-called", Amp::decoy().calls, 0);
}
void t_amp_invoke_bind()
{
    char const* sit = "receiver-overloads-operator&";
    int const v     = amp_arg();
    Amp x(amp_id()), x2(amp_id());
    calllog().track_ids = false;
    g_subj = "invoke(member-pointer)";
    {
        crumb("invoke(pmd,recv)", sit);
        vf::eq_bool("invoke(&Amp::data,x)-is-x.data", std::addressof(etl::invoke(&Amp::data, x)) == std::addressof(x.data), std::addressof(std::invoke(&Amp::data, x2)) == std::addressof(x2.data));
        vf::eq_bool("invoke(&Amp::data,ref(x))-is-x.data", std::addressof(etl::invoke(&Amp::data, etl::ref(x))) == std::addressof(x.data),
            std::addressof(std::invoke(&Amp::data, std::ref(x2))) == std::addressof(x2.data));
        vf::eq_bool("invoke(&Amp::data,cref(x))-is-x.data", std::addressof(etl::invoke(&Amp::data, etl::cref(x))) == std::addressof(x.data), true);
        vf::eq_bool("invoke(&Amp::data,addressof(x))-is-x.data", std::addressof(etl::invoke(&Amp::data, std::addressof(x))) == std::addressof(x.data), true);
        vf::eq_int("invoke(&Amp::id,ref(x))", etl::invoke(&Amp::id, etl::ref(x)), std::invoke(&Amp::id, std::ref(x2)));
        cover("invoke(pmd,recv)", sit);
        crumb("invoke(pmf,x,a)", sit);
        compare_call([&] { self_is(x2); return C20_RES(std::invoke(&Amp::mf, x2, v)); }, [&] { self_is(x); return C20_RES(etl::invoke(&Amp::mf, x, v)); });
        cover("invoke(pmf,x,a)", sit);
        crumb("invoke(pmf,ref(x),a)", sit);
        compare_call([&] { self_is(x2); return C20_RES(std::invoke(&Amp::mf, std::ref(x2), v)); }, [&] { self_is(x); return C20_RES(etl::invoke(&Amp::mf, etl::ref(x), v)); });
        cover("invoke(pmf,ref(x),a)", sit);
        crumb("invoke(const pmf,cref(x),a)", sit);
        compare_call([&] { self_is(x2); return C20_RES(std::invoke(&Amp::cmf, std::cref(x2), v)); }, [&] { self_is(x); return C20_RES(etl::invoke(&Amp::cmf, etl::cref(x), v)); });
        cover("invoke(const pmf,cref(x),a)", sit);
        crumb("invoke(pmf,addressof(x),a)", sit);
        compare_call([&] { self_is(x2); return C20_RES(std::invoke(&Amp::mf, std::addressof(x2), v)); }, [&] { self_is(x); return C20_RES(etl::invoke(&Amp::mf, std::addressof(x), v)); });
        cover("invoke(pmf,addressof(x),a)", sit);
        crumb("invoke(x,a) / invoke_r<long>(x,a)", sit);
        compare_call([&] { self_is(x2); return C20_RES(std::invoke(x2, v)); }, [&] { self_is(x); return C20_RES(etl::invoke(x, v)); });
        compare_call([&] { self_is(x2); return C20_RES(static_cast<long>(x2(v))); }, [&] { self_is(x); return C20_RES(etl::invoke_r<long>(x, v)); });
        cover("invoke(x,a) / invoke_r<long>(x,a)", sit);
    }
    g_subj = "bind_front/not_fn";
    sit    = "target-or-bound-argument-overloads-operator&";
    {
        auto eb = etl::bind_front(etl::ref(x));
        auto sb = std::bind_front(std::ref(x2));
        crumb("bind_front(ref(x))(a)", sit);
        compare_call([&] { self_is(x2); return C20_RES(sb(v)); }, [&] { self_is(x); return C20_RES(eb(v)); });
        cover("bind_front(ref(x))(a)", sit);
        auto em = etl::bind_front(&Amp::mf, etl::ref(x));
        auto sm = std::bind_front(&Amp::mf, std::ref(x2));
        crumb("bind_front(pmf,ref(x))(a)", sit);
        compare_call([&] { self_is(x2); return C20_RES(sm(v)); }, [&] { self_is(x); return C20_RES(em(v)); });
        compare_call([&] { self_is(x2); return C20_RES(std::move(sm)(v)); }, [&] { self_is(x); return C20_RES(std::move(em)(v)); });
        cover("bind_front(pmf,ref(x))(a)", sit);
        auto ep = etl::bind_front(&Amp::mf, std::addressof(x));
        crumb("bind_front(pmf,addressof(x))(a)", sit);
        compare_call([&] { self_is(x2); return C20_RES(x2.mf(v)); }, [&] { self_is(x); return C20_RES(ep(v)); });
        cover("bind_front(pmf,addressof(x))(a)", sit);
        auto ed = etl::bind_front(&Amp::data, etl::ref(x));
        vf::eq_bool("bind_front(pmd,ref(x))()-is-x.data", std::addressof(ed()) == std::addressof(x.data), true);
        // a copy of the target is stored and called (same id, never the decoy)
        calllog().expected_self = nullptr;
        auto ec = etl::bind_front(x, v);
        auto sc = std::bind_front(x2, v);
        crumb("bind_front(x,a)()", sit);
        compare_call([&] { return C20_RES(sc()); }, [&] { return C20_RES(ec()); });
        cover("bind_front(x,a)()", sit);
        // Amp as a bound argument (by value and through ref): what the callee receives
        Fn<0> fd(1);
        auto ea = etl::bind_front(Fn<0>(1), etl::ref(x), Amp(x));
        auto sa = std::bind_front(Fn<0>(1), std::ref(x2), Amp(x2));
        crumb("bind_front(f,ref(x),Amp)()", sit);
        compare_call([&] { return C20_RES(sa()); }, [&] { return C20_RES(ea()); });
        cover("bind_front(f,ref(x),Amp)()", sit);
        (void)fd;
        auto en = etl::not_fn(etl::ref(x));
        auto sn = std::not_fn(std::ref(x2));
        crumb("not_fn(ref(x))(a)", sit);
        compare_call([&] { self_is(x2); return C20_RES(sn(v)); }, [&] { self_is(x); return C20_RES(en(v)); });
        cover("not_fn(ref(x))(a)", sit);
        calllog().expected_self = nullptr;
        auto en2 = etl::not_fn(x);
        auto sn2 = std::not_fn(x2);
        crumb("not_fn(x)(a)", sit);
        compare_call([&] { return C20_RES(sn2(v)); }, [&] { return C20_RES(en2(v)); });
        compare_call([&] { return C20_RES(std::as_const(sn2)(v)); }, [&] { return C20_RES(std::as_const(en2)(v)); });
        cover("not_fn(x)(a)", sit);
    }
    vf::eq_int("decoy-never-called", Amp::decoy().calls, 0);
}
constexpr unsigned kGroups = 4;
void run_group(unsigned g)
{
    switch (g) {
    case 0: t_amp_refwrap(); break;
    case 1: t_amp_function_wrappers(); break;
    case 2: t_amp_pair_tuple(); break;
    default: t_amp_invoke_bind(); break;
    }
}

#else
// ================================================================================================ bind_front / not_fn
template <int RK, int CW, int C1>
void t_bind1()
{
    A d0{g_v0}, d1{g_v1};
    begin_pair(d0, d1);
    calllog().caller_obj[0] = nullptr; // the bound argument is a copy in both calls
    char sit[96];
    std::snprintf(sit, sizeof sit, "wrapper:%s,arg:%s,returns:%s", kSelf[CW], kCat[C1], kRK[RK]);
    g_subj = "bind_front";
    Fn<RK> fd(1);
    A b{g_v0};
    auto w = etl::bind_front(Fn<RK>(1), A{g_v0});
    crumb("bind_front(f,b)(a1)", sit);
    compare_call([&] { return C20_RES(as<CW>(fd)(as<CW>(b), as<C1>(d1))); }, [&] { return C20_RES(as<CW>(w)(as<C1>(d1))); });
    cover("bind_front(f,b)(a1)", sit);
    crumb("bind_front(f,b)(a1) second call", sit);
    compare_call([&] { return C20_RES(as<CW>(fd)(as<CW>(b), as<C1>(d1))); }, [&] { return C20_RES(as<CW>(w)(as<C1>(d1))); });
    cover("bind_front(f,b)(a1) second call", sit);
    crumb("bind_front(f,b)()", sit);
    compare_call([&] { return C20_RES(as<CW>(fd)(as<CW>(b))); }, [&] { return C20_RES(as<CW>(w)()); });
    cover("bind_front(f,b)()", sit);
    // copy / move of the wrapper: equivalent target with the state reached so far
    auto wc = w;
    Fn<RK> fdc(fd);
    crumb("copy of bind_front(f,b)", sit);
    compare_call([&] { return C20_RES(as<CW>(fdc)(as<CW>(b), as<C1>(d1))); }, [&] { return C20_RES(as<CW>(wc)(as<C1>(d1))); });
    cover("copy of bind_front(f,b)", sit);
    auto wm = std::move(w);
    crumb("move of bind_front(f,b)", sit);
    compare_call([&] { return C20_RES(as<CW>(fd)(as<CW>(b), as<C1>(d1))); }, [&] { return C20_RES(as<CW>(wm)(as<C1>(d1))); });
    cover("move of bind_front(f,b)", sit);
}
template <int CW>
void t_bind2()
{
    A d0{g_v0}, d1{g_v1};
    begin_pair(d0, d1);
    calllog().caller_obj[0] = nullptr;
    calllog().caller_obj[1] = nullptr;
    char sit[96];
    std::snprintf(sit, sizeof sit, "wrapper:%s,two-bound", kSelf[CW]);
    g_subj = "bind_front";
    Fn<0> fd(1);
    A b0{g_v0}, b1{g_v1};
    auto w = etl::bind_front(Fn<0>(1), A{g_v0}, A{g_v1});
    crumb("bind_front(f,b0,b1)()", sit);
    compare_call([&] { return C20_RES(as<CW>(fd)(as<CW>(b0), as<CW>(b1))); }, [&] { return C20_RES(as<CW>(w)()); });
    cover("bind_front(f,b0,b1)()", sit);
    A d2{static_cast<int>((static_cast<unsigned>(g_v1) + 5u) & 0x3fffffffu)};
    calllog().caller_obj[2] = &d2;
    crumb("bind_front(f,b0,b1)(a2)", sit);
    compare_call([&] { return C20_RES(as<CW>(fd)(as<CW>(b0), as<CW>(b1), std::move(d2))); }, [&] { return C20_RES(as<CW>(w)(std::move(d2))); });
    cover("bind_front(f,b0,b1)(a2)", sit);
    calllog().caller_obj[2] = nullptr;
}
template <int RK, int CW, int C0, int C1>
void t_notfn()
{
    A d0{g_v0}, d1{g_v1};
    begin_pair(d0, d1);
    char sit[96];
    std::snprintf(sit, sizeof sit, "wrapper:%s,args:%s,%s,returns:%s", kSelf[CW], kCat[C0], kCat[C1], kRK[RK]);
    g_subj = "not_fn";
    Fn<RK> fd(1);
    auto w = etl::not_fn(Fn<RK>(1));
    crumb("not_fn(f)(a0,a1)", sit);
    compare_call([&] { return C20_RES(!as<CW>(fd)(as<C0>(d0), as<C1>(d1))); }, [&] { return C20_RES(as<CW>(w)(as<C0>(d0), as<C1>(d1))); });
    cover("not_fn(f)(a0,a1)", sit);
    crumb("not_fn(f)(a0) second call", sit);
    compare_call([&] { return C20_RES(!as<CW>(fd)(as<C0>(d0))); }, [&] { return C20_RES(as<CW>(w)(as<C0>(d0))); });
    cover("not_fn(f)(a0) second call", sit);
    auto wc = w;
    Fn<RK> fdc(fd);
    crumb("copy of not_fn(f)", sit);
    compare_call([&] { return C20_RES(!as<CW>(fdc)()); }, [&] { return C20_RES(as<CW>(wc)()); });
    cover("copy of not_fn(f)", sit);
    Fn<RK> lv(3), lvd(3);
    auto w2 = etl::not_fn(lv); // from an lvalue: a copy is stored, the original is not called
    crumb("not_fn(lvalue f)(a0,a1)", sit);
    compare_call([&] { return C20_RES(!as<CW>(lvd)(as<C0>(d0), as<C1>(d1))); }, [&] { return C20_RES(as<CW>(w2)(as<C0>(d0), as<C1>(d1))); });
    vf::eq_int("source-object-call-count", lv.state, 0);
    cover("not_fn(lvalue f)(a0,a1)", sit);
}
bool free_pred(A const& a, A const& b)
{
    note_call(9, 0, 4, nullptr, a, b);
    return a.v < b.v;
}
void t_notfn_function()
{
    A d0{g_v0}, d1{g_v1};
    begin_pair(d0, d1);
    g_subj = "not_fn";
    auto w = etl::not_fn(free_pred);
    crumb("not_fn(function)(a0,a1)", "function-target");
    compare_call([&] { return C20_RES(!free_pred(d0, d1)); }, [&] { return C20_RES(w(d0, d1)); });
    cover("not_fn(function)(a0,a1)", "function-target");
    auto w2 = etl::bind_front(free_pred, A{g_v0});
    calllog().caller_obj[0] = nullptr;
    crumb("bind_front(function,b)(a1)", "function-target");
    A b{g_v0};
    compare_call([&] { return C20_RES(free_pred(b, d1)); }, [&] { return C20_RES(w2(d1)); });
    cover("bind_front(function,b)(a1)", "function-target");
}
constexpr unsigned kGroups = 5;
void run_group(unsigned g)
{
    switch (g) {
    case 0:
    #if IN_SLICE(0)
        for_n<4>([](auto cw) { for_n<4>([&](auto c1) { t_bind1<0, decltype(cw)::value, decltype(c1)::value>(); }); });
    #endif
        break;
    case 1:
    #if IN_SLICE(1)
        for_n<6>([](auto rk) { for_n<4>([&](auto cw) { t_bind1<decltype(rk)::value + 1, decltype(cw)::value, 0>(); }); });
        for_n<4>([](auto cw) { t_bind2<decltype(cw)::value>(); });
    #endif
        break;
    case 2:
    #if IN_SLICE(2)
        for_n<4>([](auto cw) { for_n<4>([&](auto c0) { for_n<4>([&](auto c1) { t_notfn<6, decltype(cw)::value, decltype(c0)::value, decltype(c1)::value>(); }); }); });
    #endif
        break;
    case 3:
    #if IN_SLICE(3)
        for_n<4>([](auto cw) { for_n<4>([&](auto c0) { t_notfn<0, decltype(cw)::value, decltype(c0)::value, (decltype(c0)::value + 2) % 4>(); }); });
    #endif
        break;
    default:
    #if IN_SLICE(4)
        t_notfn_function();
    #endif
        break;
    }
}
#endif

vf::Spec spec(vf::Tier t)
{
    vf::Spec s;
    s.n_enum     = kGroups * 9;
    s.n_random   = t == vf::Tier::thorough ? 4000 : 200;
    s.batch      = 4;
    s.exhaustive = true;
    return s;
}
int boundary(vf::Rng& r)
{
    static int const b[] = {INT_MIN, -1, 0, 1, INT_MAX, 1000, -1000};
    return r.chance(1, 2) ? r.pick(b) : (int)r.range(-100000, 100000);
}
void run_case(vf::Case& c)
{
    unsigned g;
    if (c.enumerated) {
        g    = (unsigned)(c.index / 9);
        g_v0 = (int)((c.index % 9) / 3);
        g_v1 = (int)(c.index % 3);
    } else {
        do { g = (unsigned)c.rng.below(kGroups); } while (!IN_SLICE(g));
        g_v0 = boundary(c.rng);
        g_v1 = boundary(c.rng);
    }
    if (!IN_SLICE(g)) { return; } // compiled into the sibling binary
    g_h = vf::mix(vf::mix(0xCA11 + VF_PART, g), vf::mix((std::uint64_t)(unsigned)g_v0, (std::uint64_t)(unsigned)g_v1));
    if (vf::want_sample("case")) { vf::sample("case", "part %d group %u with a0=%d a1=%d: all category combinations of the group", VF_PART, g, g_v0, g_v1); }
    run_group(g);
}
} // namespace

VF_MAIN("C20", "C20_calls", spec, run_case)
