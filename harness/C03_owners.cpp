// C03 - each contained object is constructed once and destroyed once (DESIGN 4, C03)
// Owners here: optional, variant, expected, inplace_function, pair, tuple, plus the self-assignment /
// self-swap / copy-only paths of static_vector and inplace_vector.  (Vector/stack histories with tracked
// elements are the C01 units, set histories the C09 tracked unit; C03's check runs those too.)
#include "vf.hpp"
#include "vf_contract.hpp"
#include "vf_tracked.hpp"

#include <etl/expected.hpp>
#include <etl/functional.hpp>
#include <etl/inplace_vector.hpp>
#include <etl/optional.hpp>
#include <etl/tuple.hpp>
#include <etl/utility.hpp>
#include <etl/variant.hpp>
#include <etl/vector.hpp>

#include <optional>
#include <string>
#include <vector>

namespace {
using vf::TCM;
using vf::TCO;
using vf::TMO;
using TCM2 = vf::Tracked<vf::kCopyMove, 1>;
using vf::val;

// registered constructors and destructor but DEFAULTED (trivial) assignment operators: an owner that selects a bitwise path because the
// alternative is "trivially assignable" must still construct and destroy it properly (its constructors and destructor are not trivial)
struct TTA {
    int v;
    TTA() noexcept : v(0) { vf::registry().on_ctor(this, v); }
    TTA(int x) noexcept : v(x) { vf::registry().on_ctor(this, v); } // NOLINT
    TTA(TTA const& o) noexcept : v(o.v)
    {
        vf::registry().check_live(&o, "copy-from-not-live", "copy constructor read a source that is not live");
        vf::registry().on_ctor(this, v);
    }
    TTA(TTA&& o) noexcept : v(o.v)
    {
        vf::registry().check_live(&o, "move-from-not-live", "move constructor read a source that is not live");
        vf::registry().on_ctor(this, v);
    }
    auto operator=(TTA const&) -> TTA& = default;
    auto operator=(TTA&&) -> TTA&      = default;
    ~TTA() { vf::registry().on_dtor(this); }
    int value() const
    {
        vf::registry().check_live(this, "read-not-live", "value read from an object that is not live");
        return v;
    }
    friend bool operator==(TTA const& a, TTA const& b) noexcept { return a.v == b.v; }
    friend bool operator!=(TTA const& a, TTA const& b) noexcept { return a.v != b.v; }
    friend bool operator<(TTA const& a, TTA const& b) noexcept { return a.v < b.v; }
};
static_assert(std::is_trivially_copy_assignable_v<TTA> && std::is_trivially_move_assignable_v<TTA>);
static_assert(!std::is_trivially_copy_constructible_v<TTA> && !std::is_trivially_destructible_v<TTA>);
inline int val(TTA const& t) { return t.value(); }

template <typename X>
inline constexpr bool copy_assignable_v = requires(X& a, X const& b) { a = b; };

// live objects inside an owner's footprint
template <typename O>
void live_in(O const& o, std::size_t expected)
{
    vf::expect_live_in(&o, sizeof(O), expected);
}
std::string opt_s(std::optional<int> const& m) { return m ? std::to_string(*m) : std::string("nullopt"); }

// ------------------------------------------------------------------ optional<T>
template <typename T>
struct OptOwner {
    static constexpr bool kCopy = std::is_copy_constructible_v<T>;
    using E                     = etl::optional<T>;
    char subj[64];
    E e;
    std::optional<int> m;
    explicit OptOwner(char const* tname) { std::snprintf(subj, sizeof subj, "optional<%s>", tname); }
    char const* st() const { return m ? "engaged" : "empty"; }
    void check()
    {
        vf::eq_bool("has_value", e.has_value(), m.has_value());
        if (m && e.has_value()) { vf::eq_int("value", val(*e), *m); }
        live_in(e, m ? 1 : 0);
    }
    void step(vf::Chooser& ch)
    {
        unsigned w = ch.pick(kCopy ? 13 : 9);
        int v      = (int)ch.pick(3);
        bool oe    = ch.flag(); // other engaged?
        char sit[64];
        std::snprintf(sit, sizeof sit, "%s,other-%s", st(), oe ? "engaged" : "empty");
        std::uint64_t h = vf::mix(vf::mix(m ? 10 + *m : 1, w), vf::mix(v, oe));
        switch (w) {
        case 0:
            vf::crumb(subj, "emplace(args)", st(), "m=%s v=%d", opt_s(m).c_str(), v);
            e.emplace(v);
            m = v;
            break;
        case 1:
            vf::crumb(subj, "reset()", st(), "m=%s", opt_s(m).c_str());
            e.reset();
            m.reset();
            break;
        case 2:
            vf::crumb(subj, "operator=(nullopt)", st(), "m=%s", opt_s(m).c_str());
            e = etl::nullopt;
            m.reset();
            break;
        case 3:
            vf::crumb(subj, "operator=(T&&)", st(), "m=%s v=%d", opt_s(m).c_str(), v);
            e = T(v);
            m = v;
            break;
        case 4: {
            E o;
            if (oe) { o.emplace(v); }
            vf::crumb(subj, "operator=(optional&&)", sit, "m=%s v=%d", opt_s(m).c_str(), v);
            e = static_cast<E&&>(o);
            m = oe ? std::optional<int>(v) : std::nullopt;
            // moved-from source stays valid: assignable and destructible
            o.emplace(7);
            live_in(o, 1);
            break;
        }
        case 5: {
            vf::crumb(subj, "ctor(optional&&)", st(), "m=%s", opt_s(m).c_str());
            E x(static_cast<E&&>(e));
            vf::eq_bool("moved-to.has_value", x.has_value(), m.has_value());
            if (m && x.has_value()) { vf::eq_int("moved-to.value", val(*x), *m); }
            live_in(x, m ? 1 : 0);
            // source: re-establish a known value
            if (m) { e.emplace(*m); }
            break;
        }
        case 6: {
            E o;
            if (oe) { o.emplace(v); }
            bool member = ch.flag();
            vf::crumb(subj, member ? "swap(other)" : "etl::swap(a,b)", sit, "m=%s v=%d", opt_s(m).c_str(), v);
            if (member) {
                e.swap(o);
            } else {
                using etl::swap;
                swap(e, o);
            }
            vf::eq_bool("other.has_value", o.has_value(), m.has_value());
            if (m && o.has_value()) { vf::eq_int("other.value", val(*o), *m); }
            live_in(o, m ? 1 : 0);
            m = oe ? std::optional<int>(v) : std::nullopt;
            break;
        }
        case 7:
            vf::crumb(subj, "swap(self)", st(), "m=%s", opt_s(m).c_str());
            e.swap(e);
            break;
        case 8: { // self move-assignment: only validity is required afterwards
            vf::crumb(subj, "operator=(self&&)", st(), "m=%s", opt_s(m).c_str());
            E& r = e;
            e    = static_cast<E&&>(r);
            live_in(e, e.has_value() ? 1 : 0);
            e.emplace(v); // must still be assignable
            m = v;
            break;
        }
        case 9:
            if constexpr (kCopy) {
                T x(v);
                vf::crumb(subj, "operator=(T const&)", st(), "m=%s v=%d", opt_s(m).c_str(), v);
                e = x;
                m = v;
            }
            break;
        case 10:
            if constexpr (kCopy) {
                E o;
                if (oe) { o.emplace(v); }
                vf::crumb(subj, "operator=(optional const&)", sit, "m=%s v=%d", opt_s(m).c_str(), v);
                e = o;
                m = oe ? std::optional<int>(v) : std::nullopt;
                live_in(o, oe ? 1 : 0);
            }
            break;
        case 11:
            if constexpr (kCopy) {
                vf::crumb(subj, "operator=(self const&)", st(), "m=%s", opt_s(m).c_str());
                E const& r = e;
                e          = r; // self copy-assignment keeps the value
            }
            break;
        default:
            if constexpr (kCopy) {
                vf::crumb(subj, "ctor(optional const&)", st(), "m=%s", opt_s(m).c_str());
                E x(e);
                vf::eq_bool("copy.has_value", x.has_value(), m.has_value());
                if (m && x.has_value()) { vf::eq_int("copy.value", val(*x), *m); }
                live_in(x, m ? 1 : 0);
            }
            break;
        }
        vf::cover(subj, h, true);
        check();
        if (e.has_value() != m.has_value()) { // resync
            if (m) {
                e.emplace(*m);
            } else {
                e.reset();
            }
        }
    }
};

// ------------------------------------------------------------------ variant<A, B, int>
template <typename A, typename B>
struct VarOwner {
    static constexpr bool kCopy = std::is_copy_constructible_v<A> && std::is_copy_constructible_v<B>;
    using E                     = etl::variant<A, B, int>;
    char subj[64];
    E e;
    unsigned mi = 0; // model index
    int mv      = 0; // model value
    explicit VarOwner(char const* name) : e(etl::in_place_index<0>, 0) { std::snprintf(subj, sizeof subj, "variant<%s>", name); }
    static std::size_t live_for(unsigned i) { return i < 2 ? 1 : 0; }
    int read() const
    {
        if (e.index() == 0) { return val(*etl::get_if<0>(&e)); }
        if (e.index() == 1) { return val(*etl::get_if<1>(&e)); }
        return *etl::get_if<2>(&e);
    }
    void set(E& x, unsigned i, int v)
    {
        if (i == 0) {
            x.template emplace<0>(v);
        } else if (i == 1) {
            x.template emplace<1>(v);
        } else {
            x.template emplace<2>(v);
        }
    }
    void check()
    {
        if (vf::eq_int("index", e.index(), mi)) { vf::eq_int("value", read(), mv); }
        live_in(e, live_for(mi));
    }
    void step(vf::Chooser& ch)
    {
        unsigned w  = ch.pick(kCopy ? 12 : 8);
        unsigned oi = ch.pick(3);
        int v       = (int)ch.pick(3);
        char sit[64];
        std::snprintf(sit, sizeof sit, "from-index-%u,to-index-%u", mi, oi);
        std::uint64_t h = vf::mix(vf::mix(mi * 4 + mv, w), vf::mix(oi, v));
        switch (w) {
        case 0:
            vf::crumb(subj, "emplace<I>(args)", sit, "v=%d", v);
            set(e, oi, v);
            mi = oi;
            mv = v;
            break;
        case 1:
            vf::crumb(subj, "emplace<T>(args)", sit, "v=%d", v);
            if (oi == 0) {
                e.template emplace<A>(v);
            } else if (oi == 1) {
                e.template emplace<B>(v);
            } else {
                e.template emplace<int>(v);
            }
            mi = oi;
            mv = v;
            break;
        case 2:
            vf::crumb(subj, "operator=(T&&) converting", sit, "v=%d", v);
            if (oi == 0) {
                e = A(v);
            } else if (oi == 1) {
                e = B(v);
            } else {
                e = v;
            }
            mi = oi;
            mv = v;
            break;
        case 3: {
            E o(etl::in_place_index<2>, 0);
            set(o, oi, v);
            vf::crumb(subj, "operator=(variant&&)", sit, "v=%d", v);
            e  = static_cast<E&&>(o);
            mi = oi;
            mv = v;
            live_in(o, live_for(oi)); // moved-from alternative is still an object
            set(o, 0, 5);             // and the source stays assignable
            live_in(o, 1);
            break;
        }
        case 4: {
            vf::crumb(subj, "ctor(variant&&)", sit, "-");
            E x(static_cast<E&&>(e));
            vf::eq_int("moved-to.index", x.index(), mi);
            live_in(x, live_for(mi));
            set(e, mi, mv);
            break;
        }
        case 5: {
            E o(etl::in_place_index<2>, 0);
            set(o, oi, v);
            vf::crumb(subj, "etl::swap(a,b)", sit, "v=%d", v);
            using etl::swap;
            swap(e, o);
            vf::eq_int("other.index", o.index(), mi);
            live_in(o, live_for(mi));
            mi = oi;
            mv = v;
            break;
        }
        case 6: {
            vf::crumb(subj, "etl::swap(self,self)", sit, "-");
            using etl::swap;
            swap(e, e);
            if (e.index() == mi && mi < 2 && read() == vf::kMovedFrom) { set(e, mi, mv); } // generic swap of self moves through a temporary: value preserved is required
            break;
        }
        case 7: {
            vf::crumb(subj, "operator=(self&&)", sit, "-");
            E& r = e;
            e    = static_cast<E&&>(r);
            live_in(e, live_for((unsigned)e.index()));
            set(e, oi, v);
            mi = oi;
            mv = v;
            break;
        }
        case 8:
            if constexpr (kCopy) {
                E o(etl::in_place_index<2>, 0);
                set(o, oi, v);
                vf::crumb(subj, "operator=(variant const&)", sit, "v=%d", v);
                e  = o;
                mi = oi;
                mv = v;
                live_in(o, live_for(oi));
            }
            break;
        case 9:
            if constexpr (kCopy) {
                vf::crumb(subj, "operator=(self const&)", sit, "-");
                E const& r = e;
                e          = r;
            }
            break;
        case 10:
            if constexpr (kCopy) {
                vf::crumb(subj, "ctor(variant const&)", sit, "-");
                E x(e);
                vf::eq_int("copy.index", x.index(), mi);
                live_in(x, live_for(mi));
            }
            break;
        default:
            if constexpr (kCopy) { // assign the variant from its own active alternative
                std::snprintf(sit, sizeof sit, "from-index-%u,own-alternative", mi);
                vf::crumb(subj, "operator=(own alternative const&)", sit, "-");
                if (mi == 0) {
                    e = *etl::get_if<0>(&e);
                } else if (mi == 1) {
                    e = *etl::get_if<1>(&e);
                } else {
                    e = *etl::get_if<2>(&e);
                }
            }
            break;
        }
        vf::cover(subj, h, true);
        check();
        if (e.index() != mi) { set(e, mi, mv); }
    }
};

// ------------------------------------------------------------------ expected<TCM, TCM2>
struct ExpOwner {
    using E = etl::expected<TCM, TCM2>;
    char const* subj = "expected<tcm,tcm2>";
    void step(vf::Chooser& ch)
    {
        // expected has no assignment from values; histories are construct -> (emplace | copy | move)* -> destroy
        bool has = ch.flag();
        int v    = (int)ch.pick(3);
        char sit[48];
        std::snprintf(sit, sizeof sit, "%s", has ? "has-value" : "has-error");
        vf::crumb(subj, has ? "ctor(in_place)" : "ctor(unexpect)", sit, "v=%d", v);
        E e = has ? E(etl::in_place, v) : E(etl::unexpect, v);
        vf::cover(subj, vf::mix(has, v), true);
        vf::eq_bool("has_value", e.has_value(), has);
        live_in(e, 1);
        unsigned n = ch.pick(3);
        for (unsigned i = 0; i < n; ++i) {
            unsigned w = ch.pick(4);
            int v2     = (int)ch.pick(3);
            switch (w) {
            case 0:
                vf::crumb(subj, "emplace(args)", sit, "v=%d", v2);
                e.emplace(v2);
                has = true;
                v   = v2;
                break;
            case 1: {
                vf::crumb(subj, "ctor(expected const&)", sit, "-");
                E x(e);
                vf::eq_bool("copy.has_value", x.has_value(), has);
                live_in(x, 1);
                break;
            }
            case 2: {
                vf::crumb(subj, "ctor(expected&&)", sit, "-");
                E x(static_cast<E&&>(e));
                vf::eq_bool("moved-to.has_value", x.has_value(), has);
                live_in(x, 1);
                live_in(e, 1);
                e.emplace(v);
                has = true;
                break;
            }
            default: {
                if constexpr (copy_assignable_v<E>) {
                    E o = ch.flag() ? E(etl::in_place, v2) : E(etl::unexpect, v2);
                    bool oh = o.has_value();
                    vf::crumb(subj, "operator=(expected const&)", sit, "v=%d", v2);
                    e   = o;
                    has = oh;
                    v   = v2;
                    live_in(o, 1);
                }
                break;
            }
            }
            std::snprintf(sit, sizeof sit, "%s", has ? "has-value" : "has-error");
            vf::cover(subj, vf::mix(vf::mix(has, v), vf::mix(w, v2)), true);
            vf::eq_bool("has_value", e.has_value(), has);
            if (has && e.has_value()) { vf::eq_int("value", val(*e), v); }
            if (!has && !e.has_value()) { vf::eq_int("error", val(e.error()), v); }
            live_in(e, 1);
        }
    }
};

// ------------------------------------------------------------------ inplace_function with tracked captures
template <int K>
struct Closure {
    TCM t[K];
    explicit Closure(int v)
    {
        for (int i = 0; i < K; ++i) { t[i] = TCM(v + i); }
    }
    int operator()(int x) const
    {
        int s = x;
        for (int i = 0; i < K; ++i) { s += t[i].value(); }
        return s;
    }
};
template <int K, std::size_t Cap>
struct FnOwner {
    using F = etl::inplace_function<int(int), Cap>;
    char subj[64];
    F f;
    std::optional<int> m; // captured base value
    FnOwner() { std::snprintf(subj, sizeof subj, "inplace_function<int(int),%zu>/capture%d", Cap, K); }
    static int expect(int base, int x)
    {
        int s = x;
        for (int i = 0; i < K; ++i) { s += base + i; }
        return s;
    }
    char const* st() const { return m ? "has-target" : "empty"; }
    void check()
    {
        vf::eq_bool("operator bool", static_cast<bool>(f), m.has_value());
        vf::eq_bool("==nullptr", f == nullptr, !m.has_value());
        if (m && f) { vf::eq_int("call-result", f(100), expect(*m, 100)); }
        live_in(f, m ? (std::size_t)K : 0);
    }
    void step(vf::Chooser& ch)
    {
        unsigned w = ch.pick(11);
        int v      = (int)ch.pick(3);
        bool oe    = ch.flag();
        char sit[96];
        std::snprintf(sit, sizeof sit, "%s,other-%s", st(), oe ? "has-target" : "empty");
        std::uint64_t h = vf::mix(vf::mix(m ? 10 + *m : 1, w), vf::mix(v, oe) + K * 100 + Cap);
        auto mk = [&](bool engaged) { return engaged ? F(Closure<K>(v)) : F(); };
        switch (w) {
        case 0:
            vf::crumb(subj, "operator=(closure)", st(), "v=%d", v);
            f = Closure<K>(v);
            m = v;
            break;
        case 1:
            vf::crumb(subj, "operator=(nullptr)", st(), "-");
            f = nullptr;
            m.reset();
            break;
        case 2: {
            F o = mk(oe);
            vf::crumb(subj, "operator=(copy of other)", sit, "v=%d", v);
            f = o;
            m = oe ? std::optional<int>(v) : std::nullopt;
            live_in(o, oe ? K : 0);
            if (oe) { vf::eq_int("source-still-callable", o(1), expect(v, 1)); }
            break;
        }
        case 3: {
            F o = mk(oe);
            vf::crumb(subj, "operator=(move of other)", sit, "v=%d", v);
            f = static_cast<F&&>(o);
            m = oe ? std::optional<int>(v) : std::nullopt;
            vf::eq_bool("moved-from-is-empty", static_cast<bool>(o), false);
            o = Closure<K>(2); // reusable
            live_in(o, K);
            break;
        }
        case 4: {
            vf::crumb(subj, "ctor(copy)", st(), "-");
            F x(f);
            vf::eq_bool("copy.bool", static_cast<bool>(x), m.has_value());
            if (m && x) { vf::eq_int("copy.call", x(3), expect(*m, 3)); }
            live_in(x, m ? K : 0);
            break;
        }
        case 5: {
            vf::crumb(subj, "ctor(move)", st(), "-");
            F x(static_cast<F&&>(f));
            vf::eq_bool("moved-to.bool", static_cast<bool>(x), m.has_value());
            if (m && x) { vf::eq_int("moved-to.call", x(3), expect(*m, 3)); }
            live_in(x, m ? K : 0);
            vf::eq_bool("moved-from-is-empty", static_cast<bool>(f), false);
            live_in(f, 0);
            m.reset();
            break;
        }
        case 6: {
            F o        = mk(oe);
            bool member = ch.flag();
            vf::crumb(subj, member ? "swap(other)" : "swap(a,b)", sit, "v=%d", v);
            if (member) {
                f.swap(o);
            } else {
                using etl::swap;
                swap(f, o);
            }
            vf::eq_bool("other.bool", static_cast<bool>(o), m.has_value());
            if (m && o) { vf::eq_int("other.call", o(3), expect(*m, 3)); }
            live_in(o, m ? K : 0);
            m = oe ? std::optional<int>(v) : std::nullopt;
            break;
        }
        case 7:
            vf::crumb(subj, "swap(self)", st(), "-");
            f.swap(f);
            break;
        case 9: { // construct / assign from an inplace_function of a SMALLER capacity (converting copy and move)
            using Small = etl::inplace_function<int(int), Cap / 2>;
            if constexpr (sizeof(Closure<K>) <= Cap / 2) {
                bool mv = ch.flag();
                bool asg = ch.flag();
                Small o = oe ? Small(Closure<K>(v)) : Small();
                std::snprintf(sit, sizeof sit, "%s,other-%s,%s,%s", st(), oe ? "has-target" : "empty", mv ? "move" : "copy", asg ? "assign" : "construct");
                vf::crumb(subj, "from smaller-capacity inplace_function", sit, "v=%d", v);
                if (asg) {
                    if (mv) {
                        f = static_cast<Small&&>(o);
                    } else {
                        f = o;
                    }
                    m = oe ? std::optional<int>(v) : std::nullopt;
                } else {
                    if (mv) {
                        F x(static_cast<Small&&>(o));
                        vf::eq_bool("converted.bool", static_cast<bool>(x), oe);
                        if (oe && x) { vf::eq_int("converted.call", x(3), expect(v, 3)); }
                        live_in(x, oe ? K : 0);
                    } else {
                        F x(o);
                        vf::eq_bool("converted.bool", static_cast<bool>(x), oe);
                        if (oe && x) { vf::eq_int("converted.call", x(3), expect(v, 3)); }
                        live_in(x, oe ? K : 0);
                    }
                }
                // the source: after a copy it still holds its target, after a move it is empty and holds nothing alive
                live_in(o, (oe && !mv) ? K : 0);
                if (mv) { vf::eq_bool("moved-from-is-empty", static_cast<bool>(o), false); }
            }
            break;
        }
        case 10: { // self move-assignment (through a second reference): only validity is required afterwards - empty or the old target, the
                   // captured objects alive exactly when a target is held, no lifetime violation, still assignable and destructible
            vf::crumb(subj, "operator=(move of self)", st(), "-");
            F& r = f;
            f    = static_cast<F&&>(r);
            if (!static_cast<bool>(f)) { m.reset(); }
            break;
        }
        default: {
            vf::crumb(subj, "operator=(self)", st(), "-");
            F const& r = f;
            f          = r;
            break;
        }
        }
        vf::cover(subj, h, true);
        check();
        if (static_cast<bool>(f) != m.has_value()) {
            if (m) {
                f = Closure<K>(*m);
            } else {
                f = nullptr;
            }
        }
    }
};

// ------------------------------------------------------------------ pair / tuple
struct PairTupleOwner {
    void step(vf::Chooser& ch)
    {
        int a = (int)ch.pick(3), b = (int)ch.pick(3);
        unsigned w = ch.pick(7);
        using P    = etl::pair<TCM, TCM2>;
        using Tu   = etl::tuple<TCM, TMO, int>;
        switch (w) {
        case 0: {
            vf::crumb("pair<tcm,tcm2>", "ctor+copy+assign", "-", "a=%d b=%d", a, b);
            P p((TCM(a)), TCM2(b));
            P q(p);
            P r(TCM(0), TCM2(0));
            r = q;
            live_in(p, 2);
            live_in(q, 2);
            live_in(r, 2);
            vf::eq_int("assigned.first", val(r.first), a);
            vf::eq_int("assigned.second", val(r.second), b);
            break;
        }
        case 1: {
            vf::crumb("pair<tcm,tcm2>", "move-ctor+move-assign", "-", "a=%d b=%d", a, b);
            P p((TCM(a)), TCM2(b));
            P q(static_cast<P&&>(p));
            P r(TCM(0), TCM2(0));
            r = static_cast<P&&>(q);
            live_in(p, 2);
            live_in(q, 2);
            live_in(r, 2);
            vf::eq_int("moved.first", val(r.first), a);
            p = r; // moved-from stays assignable
            vf::eq_int("reassigned.second", val(p.second), b);
            break;
        }
        case 2: {
            vf::crumb("pair<tcm,tcm2>", "swap+self-swap+self-assign", "-", "a=%d b=%d", a, b);
            P p((TCM(a)), TCM2(b));
            P q((TCM(b)), TCM2(a));
            p.swap(q);
            vf::eq_int("swapped.first", val(p.first), b);
            using etl::swap;
            swap(p, q);
            vf::eq_int("swapped-back.first", val(p.first), a);
            p.swap(p);
            vf::eq_int("self-swap.first", val(p.first), a);
            P const& r = p;
            p          = r;
            vf::eq_int("self-assign.second", val(p.second), b);
            live_in(p, 2);
            live_in(q, 2);
            break;
        }
        case 3: {
            vf::crumb("tuple<tcm,tmo,int>", "ctor+move-ctor", "-", "a=%d b=%d", a, b);
            Tu t(TCM(a), TMO(b), 5);
            live_in(t, 2);
            Tu u(static_cast<Tu&&>(t));
            live_in(u, 2);
            live_in(t, 2);
            vf::eq_int("moved.get<0>", val(etl::get<0>(u)), a);
            vf::eq_int("moved.get<1>", val(etl::get<1>(u)), b);
            break;
        }
        case 4: {
            vf::crumb("tuple<tcm,tmo,int>", "swap+self-swap", "-", "a=%d b=%d", a, b);
            Tu t(TCM(a), TMO(b), 5);
            Tu u(TCM(b), TMO(a), 6);
            t.swap(u);
            vf::eq_int("swapped.get<0>", val(etl::get<0>(t)), b);
            vf::eq_int("swapped.get<2>", etl::get<2>(t), 6);
            t.swap(t);
            vf::eq_int("self-swap.get<1>", val(etl::get<1>(t)), a);
            live_in(t, 2);
            live_in(u, 2);
            break;
        }
        case 5: {
            using Tc = etl::tuple<TCM, TCM2>;
            vf::crumb("tuple<tcm,tcm2>", "copy-ctor+copy", "-", "a=%d b=%d", a, b);
            Tc t((TCM(a)), TCM2(b));
            Tc u(t);
            live_in(t, 2);
            live_in(u, 2);
            vf::eq_int("copy.get<0>", val(etl::get<0>(u)), a);
            // etl::tuple has no copy assignment (declared move constructor deletes it): API absence, not exercised
            break;
        }
        default: {
            vf::crumb("pair<tmo,int>", "move-only member", "-", "a=%d", a);
            etl::pair<TMO, int> p(TMO(a), b);
            etl::pair<TMO, int> q(static_cast<etl::pair<TMO, int>&&>(p));
            live_in(p, 1);
            live_in(q, 1);
            vf::eq_int("moved.first", val(q.first), a);
            p = static_cast<etl::pair<TMO, int>&&>(q);
            vf::eq_int("move-assigned.first", val(p.first), a);
            break;
        }
        }
        vf::cover("pair/tuple", vf::mix(w, vf::mix(a, b)), true);
    }
};

// ------------------------------------------------------------------ vectors: self-assignment, copy-only elements
template <typename T, std::size_t N>
struct VecSelfOwner {
    using SV = etl::static_vector<T, N>;
    using IV = etl::inplace_vector<T, N>;
    char const* tname;
    explicit VecSelfOwner(char const* n) : tname(n) { }
    static std::string show(std::vector<int> const& m)
    {
        std::string s = "[";
        for (int k : m) { s += std::to_string(k) + ","; }
        return s + "]";
    }
    template <typename V>
    static std::vector<int> read(V const& v)
    {
        std::vector<int> r;
        for (auto it = v.begin(); it != v.end(); ++it) { r.push_back(val(*it)); }
        return r;
    }
    void step(vf::Chooser& ch)
    {
        std::size_t len = ch.pick((unsigned)N + 1);
        std::vector<int> m;
        for (std::size_t i = 0; i < len; ++i) { m.push_back((int)ch.pick(3)); }
        unsigned w = ch.pick(6);
        char subj[64], sit[32];
        std::snprintf(sit, sizeof sit, "%s", m.empty() ? "empty" : (m.size() == N ? "full" : "partial"));
        std::snprintf(subj, sizeof subj, "%s<%s,%zu>", w < 4 ? "static_vector" : "inplace_vector", tname, N);
        if (w < 4) {
            SV v;
            for (int k : m) { v.emplace_back(T(k)); }
            switch (w) {
            case 0:
                if constexpr (std::is_copy_constructible_v<T>) {
                    vf::crumb(subj, "operator=(self const&)", sit, "m=%s", show(m).c_str());
                    SV const& r = v;
                    v           = r;
                    vf::eq_str("self-copy-assign keeps value", show(read(v)), show(m));
                }
                break;
            case 1: {
                vf::crumb(subj, "operator=(self&&)", sit, "m=%s", show(m).c_str());
                SV& r = v;
                v     = static_cast<SV&&>(r);
                // only validity is required: reuse it
                v.clear();
                v.emplace_back(T(1));
                vf::eq_int("reusable-after-self-move", v.size(), 1);
                m = {1};
                break;
            }
            case 2:
                vf::crumb(subj, "swap(self)", sit, "m=%s", show(m).c_str());
                v.swap(v);
                vf::eq_str("self-swap keeps value", show(read(v)), show(m));
                break;
            default:
                if constexpr (std::is_copy_constructible_v<T>) {
                    if (!m.empty() && m.size() < N) {
                        vf::crumb(subj, "push_back(own element)", sit, "m=%s", show(m).c_str());
                        v.push_back(v[0]);
                        m.push_back(m[0]);
                        vf::eq_str("elements", show(read(v)), show(m));
                    }
                }
                break;
            }
            live_in(v, v.size());
            vf::eq_int("live==size", vf::registry().live_in(&v, reinterpret_cast<unsigned char const*>(&v) + sizeof v), v.size());
        } else {
            IV v{};
            for (int k : m) { v.unchecked_emplace_back(T(k)); }
            if (w == 4) {
                if constexpr (requires(IV& a, IV const& b) { a = b; }) {
                    IV o{};
                    std::size_t ol = ch.pick((unsigned)N + 1);
                    std::vector<int> mo;
                    for (std::size_t i = 0; i < ol; ++i) {
                        o.unchecked_emplace_back(T(2));
                        mo.push_back(2);
                    }
                    vf::crumb(subj, "operator=(inplace_vector const&)", sit, "m=%s other=%s", show(m).c_str(), show(mo).c_str());
                    v = o;
                    vf::eq_str("elements", show(read(v)), show(mo));
                    live_in(o, ol);
                    live_in(v, ol);
                }
            } else {
                if constexpr (requires(IV& a, IV&& b) { a = static_cast<IV&&>(b); }) {
                    IV o{};
                    std::size_t ol = ch.pick((unsigned)N + 1);
                    std::vector<int> mo;
                    for (std::size_t i = 0; i < ol; ++i) {
                        o.unchecked_emplace_back(T(2));
                        mo.push_back(2);
                    }
                    vf::crumb(subj, "operator=(inplace_vector&&)", sit, "m=%s other=%s", show(m).c_str(), show(mo).c_str());
                    v = static_cast<IV&&>(o);
                    vf::eq_str("elements", show(read(v)), show(mo));
                    live_in(v, ol);
                    live_in(o, o.size());
                }
            }
        }
        vf::cover(subj, vf::mix(w, vf::fnv_bytes(m.data(), m.size() * sizeof(int))), true);
    }
};

// ------------------------------------------------------------------ element type with an overloaded unary operator& (owners must use addressof)
struct Amp {
    TCM t;
    Amp() noexcept = default;
    Amp(int v) noexcept : t(v) { } // NOLINT
    int* operator&() noexcept { return nullptr; }             // deliberately useless: a smart-pointer-like address-of
    int const* operator&() const noexcept { return nullptr; }
};
struct AmpOwner {
    void step(vf::Chooser& ch)
    {
        unsigned w  = ch.pick(4);
        unsigned n  = 1 + ch.pick(3);
        bool clear_ = ch.flag();
        char sit[32];
        std::snprintf(sit, sizeof sit, "elements=%u,%s", n, clear_ ? "clear()" : "destructor");
        switch (w) {
        case 0: {
            vf::crumb("inplace_vector<operator&-type,3>", "fill then clear/destroy", sit, "-");
            {
                etl::inplace_vector<Amp, 3> v{};
                for (unsigned i = 0; i < n; ++i) { v.unchecked_emplace_back((int)i); }
                live_in(v, n);
                if (clear_) {
                    v.clear();
                    live_in(v, 0);
                }
                if (ch.flag()) {
                    etl::inplace_vector<Amp, 3> c(v);
                    live_in(c, v.size());
                }
            }
            break;
        }
        case 1: {
            vf::crumb("static_vector<operator&-type,3>", "fill then clear/destroy", sit, "-");
            {
                etl::static_vector<Amp, 3> v;
                for (unsigned i = 0; i < n; ++i) { v.emplace_back((int)i); }
                live_in(v, n);
                if (n > 1) {
                    v.erase(v.begin());
                    live_in(v, n - 1);
                }
                if (clear_) {
                    v.clear();
                    live_in(v, 0);
                }
            }
            break;
        }
        case 2: {
            vf::crumb("optional<operator&-type>", "emplace then reset/destroy", sit, "-");
            {
                etl::optional<Amp> o;
                o.emplace((int)n);
                live_in(o, 1);
                if (clear_) {
                    o.reset();
                    live_in(o, 0);
                }
            }
            break;
        }
        default: {
            vf::crumb("variant<operator&-type,int>", "emplace then switch/destroy", sit, "-");
            {
                etl::variant<Amp, int> v(etl::in_place_index<0>, (int)n);
                live_in(v, 1);
                if (clear_) {
                    v.emplace<1>(3);
                    live_in(v, 0);
                }
            }
            break;
        }
        }
        vf::cover("operator&-element", vf::mix(w, vf::mix(n, clear_)), true);
        vf::expect_no_live("owner of operator&-elements destroyed");
    }
};

// ------------------------------------------------------------------ case mapping
// ------------------------------------------------------------------ variant / optional assigned from a PART of their own active value
// `v = get<1>(v).key`: the argument is not an alternative itself but converts to (and is assignable to) the active one, and it lives inside
// the object being assigned to.  Assign-through keeps it alive; destroy-then-construct reads a destroyed object.
struct Rec {
    TCM key;
    Rec(TCM const& k) : key(k) { } // NOLINT
    auto operator=(TCM const& k) -> Rec&
    {
        key = k;
        return *this;
    }
};
struct PartOwner {
    char const* subj = "variant<int,Rec>/optional<Rec> (Rec holds a tracked key)";
    void step(vf::Chooser& ch)
    {
        unsigned w = ch.pick(4);
        int v      = (int)ch.pick(3);
        switch (w) {
        case 0: {
            vf::crumb(subj, "variant::operator=(U&&) from a member of the active alternative", "holds-Rec", "v=%d", v);
            etl::variant<int, Rec> x(etl::in_place_index<1>, TCM(v));
            x = etl::get_if<1>(&x)->key;
            vf::cover("variant::operator=(member of own alternative)", vf::mix(1, v), true);
            if (vf::eq_int("index", x.index(), 1)) { vf::eq_int("key", val(etl::get_if<1>(&x)->key), v); }
            live_in(x, 1);
            break;
        }
        case 1: {
            vf::crumb(subj, "variant::operator=(U&&) from an outside object", "holds-Rec", "v=%d", v);
            etl::variant<int, Rec> x(etl::in_place_index<1>, TCM(v));
            TCM k(v + 1);
            x = k;
            vf::cover("variant::operator=(outside object)", vf::mix(2, v), true);
            if (vf::eq_int("index", x.index(), 1)) { vf::eq_int("key", val(etl::get_if<1>(&x)->key), v + 1); }
            vf::eq_int("source-unchanged", val(k), v + 1);
            break;
        }
        case 2: {
            vf::crumb(subj, "optional::operator=(U&&) from a member of the held value", "engaged", "v=%d", v);
            etl::optional<Rec> o(etl::in_place, TCM(v));
            o = o->key;
            vf::cover("optional::operator=(member of own value)", vf::mix(3, v), true);
            if (vf::eq_bool("has_value", o.has_value(), true)) { vf::eq_int("key", val(o->key), v); }
            live_in(o, 1);
            break;
        }
        default: {
            vf::crumb(subj, "variant::emplace<I>(member of the active alternative) is NOT issued", "-", "-");
            // (std::variant::emplace destroys first by specification: passing a reference into the old value is the caller's error)
            etl::variant<int, Rec> x(etl::in_place_index<0>, v);
            TCM k(v);
            x = k; // int -> Rec through the converting assignment
            vf::cover("variant::operator=(U&&) switching alternative", vf::mix(4, v), true);
            if (vf::eq_int("index", x.index(), 1)) { vf::eq_int("key", val(etl::get_if<1>(&x)->key), v); }
            break;
        }
        }
    }
};

constexpr unsigned kOwners = 17;
template <typename Owner>
void drive(Owner& o, vf::Chooser& ch, unsigned steps)
{
    for (unsigned s = 0; s < steps; ++s) { o.step(ch); }
}
void run_owner(unsigned id, vf::Chooser& ch, unsigned steps)
{
    switch (id) {
    case 0: { OptOwner<TCM> o("tcm"); drive(o, ch, steps); break; }
    case 1: { OptOwner<TMO> o("tmo"); drive(o, ch, steps); break; }
    case 2: { OptOwner<TCO> o("tco"); drive(o, ch, steps); break; }
    case 3: { VarOwner<TCM, TCM2> o("tcm,tcm2,int"); drive(o, ch, steps); break; }
    case 4: { VarOwner<TMO, TCM2> o("tmo,tcm2,int"); drive(o, ch, steps); break; }
    case 5: { ExpOwner o; drive(o, ch, steps > 2 ? 2 : steps); break; }
    case 6: { FnOwner<1, 16> o; drive(o, ch, steps); break; }
    case 7: { FnOwner<3, 32> o; drive(o, ch, steps); break; }
    case 8: { PairTupleOwner o; drive(o, ch, steps > 2 ? 2 : steps); break; }
    case 9: { VecSelfOwner<TCM, 3> o("tcm"); drive(o, ch, 1); break; }
    case 10: { VecSelfOwner<TCO, 3> o("tco"); drive(o, ch, 1); break; }
    case 11: { VecSelfOwner<TMO, 2> o("tmo"); drive(o, ch, 1); break; }
    case 12: { AmpOwner o; drive(o, ch, 1); break; }
    case 13: { OptOwner<TTA> o("trivially-assignable"); drive(o, ch, steps); break; }
    case 14: { VarOwner<TTA, TCM2> o("trivially-assignable,tcm2,int"); drive(o, ch, steps); break; }
    case 15: { VarOwner<TCM, TTA> o("tcm,trivially-assignable,int"); drive(o, ch, steps); break; }
    default: { PartOwner o; drive(o, ch, steps > 2 ? 2 : steps); break; }
    }
}

vf::Spec spec(vf::Tier t)
{
    vf::Spec s;
    s.n_enum     = kOwners * 8; // (owner, slice): the depth-3 odometer of each owner is cut into 8 slices by the first choice
    s.n_random   = t == vf::Tier::thorough ? 40000 : 3000;
    s.batch      = 4;
    s.exhaustive = true;
    return s;
}
void run_case(vf::Case& c)
{
    if (c.enumerated) {
        unsigned owner = (unsigned)(c.index / 8), slice = (unsigned)(c.index % 8);
        unsigned depth = c.tier == vf::Tier::thorough ? 3 : 2;
        vf::Chooser ch;
        std::uint64_t n = 0;
        do {
            ch.begin();
            // slicing: the first recorded choice modulo 8 selects the slice (keeps every slice a partition of the whole odometer)
            vf::registry().reset();
            bool mine = true;
            {
                // peek: run only if first choice (once known) belongs to this slice
                if (!ch.choice.empty() && (ch.choice[0] % 8) != slice) { mine = false; }
                if (mine) { run_owner(owner, ch, depth); }
            }
            if (mine) {
                vf::expect_no_live("end of history");
                ++n;
            } else {
                // skip this whole subtree: force the odometer to advance its first digit
                ch.choice.resize(1);
                ch.limit.resize(1);
            }
        } while (ch.next());
        if (vf::want_sample("enumerated")) { vf::sample("enumerated", "owner %u slice %u: %llu complete histories of depth %u", owner, slice, (unsigned long long)n, depth); }
    } else {
        vf::Chooser ch(&c.rng);
        vf::registry().reset();
        unsigned owner = (unsigned)c.rng.below(kOwners);
        run_owner(owner, ch, 50);
        vf::expect_no_live("end of history");
        if (vf::want_sample("random")) { vf::sample("random", "owner %u: 50 random steps", owner); }
    }
}
} // namespace

VF_MAIN("C03", "C03_owners", spec, run_case)
