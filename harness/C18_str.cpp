// C18 - str*/wcs* reimplementations vs glibc (DESIGN 4, C18).   Build: -DVF_WIDE=0 (char, <etl/cstring.hpp>) | 1 (wchar_t, <etl/cwchar.hpp>)
//
// Every call is made twice on identical exact-size heap images: once through the public etl
// function, once through a volatile pointer to the host C library function.  Compared: length,
// SIGN of comparisons, pointer results as OFFSET-or-null, and the WHOLE destination image
// (bytes the call must write and bytes it must leave alone).  Sources are exact-size blocks whose
// last element is the terminator (or, for the strn*/wcsn* "array" presentations, blocks of exactly
// the number of characters C allows the function to read, without terminator).
#include "vf.hpp"
#include "vf_contract.hpp"
#include "vf_cstr.hpp"

#include <climits>
#include <clocale>
#include <cstring>
#include <cwchar>

#include <etl/cstring.hpp>
#include <etl/cwchar.hpp>

#ifndef VF_WIDE
    #define VF_WIDE 0
#endif

#if VF_WIDE
    #define NM(s, w) w
    #define SUBJ     "cwchar"
    #define UNIT     "C18_str_wchar_t"
using Ch = wchar_t;
#else
    #define NM(s, w) s
    #define SUBJ     "cstring"
    #define UNIT     "C18_str_char"
using Ch = char;
#endif

namespace {
using C      = Ch const;
using Str    = std::basic_string<Ch>;
using ChrArg = NM(int, wchar_t);
using vfc::opaque;
constexpr auto SMAX = static_cast<std::size_t>(-1);

// ------------------------------------------------------------------ host C library, through volatile pointers
namespace ref {
using len_t   = std::size_t(C*);
using cmp_t   = int(C*, C*);
using ncmp_t  = int(C*, C*, std::size_t);
using cpy_t   = Ch*(Ch*, C*);
using ncpy_t  = Ch*(Ch*, C*, std::size_t);
using chr_t   = C*(C*, ChrArg);
using chrm_t  = Ch*(Ch*, ChrArg);
using spn_t   = std::size_t(C*, C*);
using find_t  = C*(C*, C*);
using findm_t = Ch*(Ch*, C*);

len_t* volatile len     = static_cast<len_t*>(NM(&::strlen, &::wcslen));
cmp_t* volatile cmp     = static_cast<cmp_t*>(NM(&::strcmp, &::wcscmp));
ncmp_t* volatile ncmp   = static_cast<ncmp_t*>(NM(&::strncmp, &::wcsncmp));
cpy_t* volatile cpy     = static_cast<cpy_t*>(NM(&::strcpy, &::wcscpy));
ncpy_t* volatile ncpy   = static_cast<ncpy_t*>(NM(&::strncpy, &::wcsncpy));
cpy_t* volatile cat     = static_cast<cpy_t*>(NM(&::strcat, &::wcscat));
ncpy_t* volatile ncat   = static_cast<ncpy_t*>(NM(&::strncat, &::wcsncat));
// (overloaded const/non-const prototypes differ between compilers: go through captureless lambdas)
chr_t* volatile chr     = [](C* s, ChrArg c) -> C* { return NM(::strchr, ::wcschr)(s, c); };
chrm_t* volatile chrm   = [](Ch* s, ChrArg c) -> Ch* { return NM(::strchr, ::wcschr)(s, c); };
chr_t* volatile rchr    = [](C* s, ChrArg c) -> C* { return NM(::strrchr, ::wcsrchr)(s, c); };
chrm_t* volatile rchrm  = [](Ch* s, ChrArg c) -> Ch* { return NM(::strrchr, ::wcsrchr)(s, c); };
spn_t* volatile spn     = static_cast<spn_t*>(NM(&::strspn, &::wcsspn));
spn_t* volatile cspn    = static_cast<spn_t*>(NM(&::strcspn, &::wcscspn));
find_t* volatile pbrk   = [](C* s, C* t) -> C* { return NM(::strpbrk, ::wcspbrk)(s, t); };
findm_t* volatile pbrkm = [](Ch* s, C* t) -> Ch* { return NM(::strpbrk, ::wcspbrk)(s, t); };
find_t* volatile str    = [](C* s, C* t) -> C* { return NM(::strstr, ::wcsstr)(s, t); };
findm_t* volatile strm  = [](Ch* s, C* t) -> Ch* { return NM(::strstr, ::wcsstr)(s, t); };
} // namespace ref

// ------------------------------------------------------------------ etl front end (public names only)
#define E(s, w) etl::NM(s, w)
#define OPN(s, w) NM(#s, #w)

// ------------------------------------------------------------------ alphabets
// set 0: {a, b, 0xE9}   (the property's small scope);  set 1: boundary codes, short strings only
Ch sym0(unsigned i)
{
    switch (i) {
    case 0: return Ch('a');
    case 1: return Ch('b');
    default: return static_cast<Ch>(0xE9);
    }
}
Ch sym1(unsigned i)
{
#if VF_WIDE
    switch (i) {
    case 0: return Ch(1);
    case 1: return static_cast<Ch>(0x10FFFF);
    case 2: return static_cast<Ch>(WCHAR_MAX);
    default: return static_cast<Ch>(WCHAR_MIN);
    }
#else
    switch (i) {
    case 0: return Ch(1);
    case 1: return Ch(0x7F);
    case 2: return static_cast<Ch>(0x80);
    default: return static_cast<Ch>(0xFF);
    }
#endif
}
bool is_high(Ch c)
{
#if VF_WIDE
    return c < 0 || c >= 0x80;
#else
    return static_cast<unsigned char>(c) >= 0x80;
#endif
}
bool is_extreme(Ch c)
{
#if VF_WIDE
    return c < 0 || c > 0x10FFFF;
#else
    (void)c;
    return false;
#endif
}

struct Dims {
    unsigned l0; // max length, set 0
    unsigned l1; // max length, set 1
};
Dims dims(vf::Tier t) { return t == vf::Tier::thorough ? Dims{5, 2} : Dims{4, 2}; }
std::uint64_t n0(Dims d) { return vfc::count_strings(3, d.l0); }
std::uint64_t n1(Dims d) { return vfc::count_strings(4, d.l1); }

vf::Spec spec(vf::Tier t)
{
    Dims d = dims(t);
    vf::Spec s;
    s.n_enum     = n0(d) * n0(d) + n1(d) * n1(d);
    s.n_random   = t == vf::Tier::thorough ? 60000 : 4000;
    s.batch      = t == vf::Tier::thorough ? 256 : 64;
    s.exhaustive = true;
    return s;
}

// ------------------------------------------------------------------ situation vocabulary
std::size_t first_diff(Str const& a, Str const& b) // index in the terminated strings; == a.size()==b.size() when equal
{
    std::size_t i = 0;
    while (i < a.size() && i < b.size() && a[i] == b[i]) { ++i; }
    return i;
}
char const* relation(Str const& a, Str const& b)
{
    std::size_t d = first_diff(a, b);
    if (d == a.size() && d == b.size()) { return "equal"; }
    if (d == a.size() || d == b.size()) {
        Ch other = d == a.size() ? b[d] : a[d];
        return is_extreme(other) ? "prefix,next-extreme" : (is_high(other) ? "prefix,next-high" : "prefix");
    }
    if (is_extreme(a[d]) || is_extreme(b[d])) { return "differ-extreme"; }
    if (is_high(a[d]) || is_high(b[d])) { return "differ-high"; }
    return "differ-ascii";
}
char const* ncls(std::size_t n, std::size_t len)
{
    if (n == SMAX) { return "n=max"; }
    if (n == 0) { return "n=0"; }
    if (n < len) { return "n<len"; }
    if (n == len) { return "n=len"; }
    if (n == len + 1) { return "n=len+1"; }
    return "n>len+1";
}
char const* emp(Str const& s) { return s.empty() ? "empty" : "nonempty"; }

constexpr Ch PRE  = Ch(0x11);
constexpr Ch ROOM = Ch(0x5A);
constexpr Ch POST = Ch(0x22);

// image = [pre x PRE][init][ROOM ... up to extent][post x POST]
std::vector<Ch> image(std::size_t pre, Str const& init, bool initTerminated, std::size_t extent, std::size_t post)
{
    std::vector<Ch> v(pre, PRE);
    for (Ch c : init) { v.push_back(c); }
    if (initTerminated) { v.push_back(Ch(0)); }
    while (v.size() < pre + extent) { v.push_back(ROOM); }
    for (std::size_t i = 0; i < post; ++i) { v.push_back(POST); }
    return v;
}
struct Pres {
    char const* name;
    std::size_t pre, post;
};
constexpr Pres PRES[] = {{"exact", 0, 0}, {"embedded", 2, 3}};

long long P(std::size_t n) { return n == SMAX ? -1 : (n > (SMAX >> 1) ? -(long long)(SMAX - n) - 1 : (long long)n); } // SIZE_MAX-k prints as -(k+1)

// Counts far beyond any object.  For strncmp/strncat (and wcs twins) the count only LIMITS the characters examined -
// the strings end at their terminator - so C defines the call for every such count.  Wide: also the values whose
// byte count (n * sizeof(wchar_t)) would wrap.
bool huge(std::size_t n) { return n != SMAX && n >= (SMAX >> 4); }
void add_huge_counts(std::vector<std::size_t>& v, std::size_t size)
{
    v.push_back(2 * size);
    v.push_back(static_cast<std::size_t>(PTRDIFF_MAX));
    v.push_back(SMAX / 2 + 1);
    v.push_back(SMAX - 1);
    if (sizeof(Ch) > 1) {
        v.push_back(static_cast<std::size_t>(PTRDIFF_MAX) / sizeof(Ch));
        v.push_back(SMAX / sizeof(Ch));
        v.push_back(SMAX / sizeof(Ch) + 1);
    }
}

// ------------------------------------------------------------------ operations
void op_len(Str const& a)
{
    vfc::Src<Ch> sa(a);
    char const* op = OPN(strlen, wcslen);
    vf::crumb(SUBJ, op, emp(a), "s=%s", vfc::show(a).c_str());
    std::size_t g = ref::len(sa.cp());
    std::size_t e = E(strlen, wcslen)(sa.cp());
    vf::cover(op, vfc::hash(a), !a.empty());
    vf::eq_int("ret", e, g);
    sa.check("strlen source");
}

void op_cmp(Str const& a, Str const& b)
{
    vfc::Src<Ch> sa(a), sb(b);
    char const* op = OPN(strcmp, wcscmp);
    vf::crumb(SUBJ, op, relation(a, b), "lhs=%s rhs=%s", vfc::show(a).c_str(), vfc::show(b).c_str());
    int g = ref::cmp(sa.cp(), sb.cp());
    int e = E(strcmp, wcscmp)(sa.cp(), sb.cp());
    vf::cover(op, vf::mix(vfc::hash(a), vfc::hash(b)), !(a.empty() && b.empty()));
    vf::eq_sign("ret", e, g);
    sa.check("lhs");
    sb.check("rhs");
}

// array=false: terminated strings; array=true: arrays of exactly the number of characters C allows to be read
void op_ncmp(Str const& a, Str const& b, std::size_t n, bool array)
{
    std::size_t d = first_diff(a, b);
    bool equal    = d == a.size() && d == b.size();
    char sit[96];
    std::snprintf(sit, sizeof sit, "%s,%s", relation(a, b), n == SMAX ? "n=max" : (huge(n) ? "n=huge" : n == 0 ? "n=0" : (equal ? (n < d ? "n<len" : (n == d ? "n=len" : "n-past-end")) : (n <= d ? "n-before-diff" : "n-past-diff"))));
    if (!array) {
        vfc::Src<Ch> sa(a), sb(b);
        char const* op = OPN(strncmp, wcsncmp);
        vf::crumb(SUBJ, op, sit, "lhs=%s rhs=%s n=%lld", vfc::show(a).c_str(), vfc::show(b).c_str(), P(n));
        int g = ref::ncmp(sa.cp(), sb.cp(), opaque(n));
        int e = E(strncmp, wcsncmp)(sa.cp(), sb.cp(), opaque(n));
        vf::cover(op, vf::mix(vf::mix(vfc::hash(a), vfc::hash(b)), n), !(a.empty() && b.empty()));
        vf::eq_sign("ret", e, g);
        sa.check("lhs");
        sb.check("rhs");
    }
    // arrays of exactly min(len+1, n) characters: C allows at most n characters to be read
    if (array && n != SMAX && (n <= a.size() || n <= b.size())) {
        Str ta = a, tb = b;
        bool za = true, zb = true;
        if (n <= a.size()) {
            ta = a.substr(0, n);
            za = false;
        }
        if (n <= b.size()) {
            tb = b.substr(0, n);
            zb = false;
        }
        vfc::Src<Ch> sa(ta, za), sb(tb, zb);
        char const* op = NM("strncmp[array]", "wcsncmp[array]");
        vf::crumb(SUBJ, op, sit, "lhs=%s%s rhs=%s%s n=%lld", vfc::show(ta).c_str(), za ? "+nul" : "(no terminator)", vfc::show(tb).c_str(),
            zb ? "+nul" : "(no terminator)", P(n));
        int g = ref::ncmp(sa.cp(), sb.cp(), opaque(n));
        int e = E(strncmp, wcsncmp)(sa.cp(), sb.cp(), opaque(n));
        vf::cover(op, vf::mix(vf::mix(vfc::hash(a), vfc::hash(b)), n), true);
        vf::eq_sign("ret", e, g);
        sa.check("lhs");
        sb.check("rhs");
    }
}

void op_cpy(Str const& b)
{
    char const* op = OPN(strcpy, wcscpy);
    for (Pres const& p : PRES) {
        vfc::Src<Ch> sb(b);
        vfc::Img<Ch> im(image(p.pre, Str{}, false, b.size() + 1, p.post));
        vf::crumb(SUBJ, op, b.empty() ? "src-empty" : "src-nonempty", "src=%s dest=%s block of %zu", vfc::show(b).c_str(), p.name, b.size() + 1);
        Ch* dg = opaque(im.g.data() + p.pre);
        Ch* de = opaque(im.e.data() + p.pre);
        Ch* rg = ref::cpy(dg, sb.cp());
        Ch* re = E(strcpy, wcscpy)(de, sb.cp());
        vf::cover(op, vf::mix(vfc::hash(b), p.pre), true);
        vfc::eq_off("ret", vfc::off<Ch>(re, de), vfc::off<Ch>(rg, dg));
        im.same("dest", p.pre, p.pre + b.size() + 1);
        sb.check("src");
    }
}

void op_ncpy(Str const& b, std::size_t n, bool array)
{
    char const* sit = ncls(n, b.size());
    for (Pres const& p : PRES) {
        if (!array) {
            char const* op = OPN(strncpy, wcsncpy);
            vfc::Src<Ch> sb(b);
            vfc::Img<Ch> im(image(p.pre, Str{}, false, n, p.post));
            vf::crumb(SUBJ, op, sit, "src=%s n=%zu dest=%s block of %zu", vfc::show(b).c_str(), n, p.name, n);
            Ch* dg = opaque(im.g.data() + p.pre);
            Ch* de = opaque(im.e.data() + p.pre);
            Ch* rg = ref::ncpy(dg, sb.cp(), opaque(n));
            Ch* re = E(strncpy, wcsncpy)(de, sb.cp(), opaque(n));
            vf::cover(op, vf::mix(vf::mix(vfc::hash(b), n), p.pre), true);
            vfc::eq_off("ret", vfc::off<Ch>(re, de), vfc::off<Ch>(rg, dg));
            im.same("dest", p.pre, p.pre + n);
            sb.check("src");
        }
        if (array && n <= b.size()) { // source array of exactly n characters, no terminator
            char const* op = NM("strncpy[array]", "wcsncpy[array]");
            Str tb         = b.substr(0, n);
            vfc::Src<Ch> sb(tb, false);
            vfc::Img<Ch> im(image(p.pre, Str{}, false, n, p.post));
            vf::crumb(SUBJ, op, sit, "src=%s(no terminator) n=%zu dest=%s block of %zu", vfc::show(tb).c_str(), n, p.name, n);
            Ch* dg = opaque(im.g.data() + p.pre);
            Ch* de = opaque(im.e.data() + p.pre);
            Ch* rg = ref::ncpy(dg, sb.cp(), opaque(n));
            Ch* re = E(strncpy, wcsncpy)(de, sb.cp(), opaque(n));
            vf::cover(op, vf::mix(vf::mix(vfc::hash(b), n), p.pre), true);
            vfc::eq_off("ret", vfc::off<Ch>(re, de), vfc::off<Ch>(rg, dg));
            im.same("dest", p.pre, p.pre + n);
            sb.check("src");
        }
    }
}

void op_cat(Str const& a, Str const& b)
{
    char const* op = OPN(strcat, wcscat);
    char sit[96];
    std::snprintf(sit, sizeof sit, "dest-%s,src-%s", emp(a), emp(b));
    for (Pres const& p : PRES) {
        vfc::Src<Ch> sb(b);
        std::size_t extent = a.size() + b.size() + 1;
        vfc::Img<Ch> im(image(p.pre, a, true, extent, p.post));
        vf::crumb(SUBJ, op, sit, "dest=%s src=%s dest=%s block of %zu", vfc::show(a).c_str(), vfc::show(b).c_str(), p.name, extent);
        Ch* dg = opaque(im.g.data() + p.pre);
        Ch* de = opaque(im.e.data() + p.pre);
        Ch* rg = ref::cat(dg, sb.cp());
        Ch* re = E(strcat, wcscat)(de, sb.cp());
        vf::cover(op, vf::mix(vf::mix(vfc::hash(a), vfc::hash(b)), p.pre), !(a.empty() && b.empty()));
        vfc::eq_off("ret", vfc::off<Ch>(re, de), vfc::off<Ch>(rg, dg));
        im.same("dest", p.pre + a.size(), p.pre + extent);
        sb.check("src");
    }
}

void op_ncat(Str const& a, Str const& b, std::size_t n, bool array)
{
    char sit[96];
    std::snprintf(sit, sizeof sit, "dest-%s,src-%s,%s", emp(a), emp(b), n == SMAX ? "n=max" : (huge(n) ? "n=huge" : n == 0 ? "n=0" : (n < b.size() ? "n<len" : (n == b.size() ? "n=len" : "n>len"))));
    std::size_t m      = n < b.size() ? n : b.size();
    std::size_t extent = a.size() + m + 1;
    for (Pres const& p : PRES) {
        if (!array) {
            char const* op = OPN(strncat, wcsncat);
            vfc::Src<Ch> sb(b);
            vfc::Img<Ch> im(image(p.pre, a, true, extent, p.post));
            vf::crumb(SUBJ, op, sit, "dest=%s src=%s n=%lld dest=%s block of %zu", vfc::show(a).c_str(), vfc::show(b).c_str(), P(n), p.name, extent);
            Ch* dg = opaque(im.g.data() + p.pre);
            Ch* de = opaque(im.e.data() + p.pre);
            Ch* rg = ref::ncat(dg, sb.cp(), opaque(n));
            Ch* re = E(strncat, wcsncat)(de, sb.cp(), opaque(n));
            vf::cover(op, vf::mix(vf::mix(vf::mix(vfc::hash(a), vfc::hash(b)), n), p.pre), !(a.empty() && b.empty()));
            vfc::eq_off("ret", vfc::off<Ch>(re, de), vfc::off<Ch>(rg, dg));
            im.same("dest", p.pre + a.size(), p.pre + extent);
            sb.check("src");
        }
        if (array && n <= b.size()) { // source array of exactly n characters, no terminator
            char const* op = NM("strncat[array]", "wcsncat[array]");
            Str tb         = b.substr(0, n);
            vfc::Src<Ch> sb(tb, false);
            vfc::Img<Ch> im(image(p.pre, a, true, extent, p.post));
            vf::crumb(SUBJ, op, sit, "dest=%s src=%s(no terminator) n=%lld dest=%s block of %zu", vfc::show(a).c_str(), vfc::show(tb).c_str(), P(n), p.name,
                extent);
            Ch* dg = opaque(im.g.data() + p.pre);
            Ch* de = opaque(im.e.data() + p.pre);
            Ch* rg = ref::ncat(dg, sb.cp(), opaque(n));
            Ch* re = E(strncat, wcsncat)(de, sb.cp(), opaque(n));
            vf::cover(op, vf::mix(vf::mix(vf::mix(vfc::hash(a), vfc::hash(b)), n), p.pre), true);
            vfc::eq_off("ret", vfc::off<Ch>(re, de), vfc::off<Ch>(rg, dg));
            im.same("dest", p.pre + a.size(), p.pre + extent);
            sb.check("src");
        }
    }
}

// ch is handed over exactly as the C prototype takes it (int for str*, wchar_t for wcs*)
void op_chr(Str const& a, long long ch, bool wraps)
{
    Ch const target = static_cast<Ch>(ch);
    std::size_t occ = 0;
    for (Ch c : a) { occ += c == target; }
    char sit[96];
    std::snprintf(sit, sizeof sit, "%s%s", target == Ch(0) ? "ch=nul" : (occ == 0 ? "absent" : (occ == 1 ? "once" : "multiple")), wraps ? ",int-converts-to-char" : "");
    vfc::Src<Ch> sa(a);
    auto const hs = vf::mix(vfc::hash(a), (std::uint64_t)ch);
    auto const ca = static_cast<ChrArg>(ch);
    {
        char const* op = NM("strchr(char const*)", "wcschr(wchar_t const*)");
        vf::crumb(SUBJ, op, sit, "s=%s ch=%lld", vfc::show(a).c_str(), ch);
        C* g = ref::chr(sa.cp(), opaque(ca));
        C* e = E(strchr, wcschr)(sa.cp(), opaque(static_cast<int>(ch)));
        vf::cover(op, hs, true);
        vfc::eq_off("ret", vfc::off<Ch>(e, sa.b.data()), vfc::off<Ch>(g, sa.b.data()));
    }
    {
        char const* op = NM("strchr(char*)", "wcschr(wchar_t*)");
        vf::crumb(SUBJ, op, sit, "s=%s ch=%lld", vfc::show(a).c_str(), ch);
        Ch* g = ref::chrm(sa.p(), opaque(ca));
        Ch* e = E(strchr, wcschr)(sa.p(), opaque(static_cast<int>(ch)));
        vf::cover(op, hs, true);
        vfc::eq_off("ret", vfc::off<Ch>(e, sa.b.data()), vfc::off<Ch>(g, sa.b.data()));
    }
    {
        char const* op = NM("strrchr(char const*)", "wcsrchr(wchar_t const*)");
        vf::crumb(SUBJ, op, sit, "s=%s ch=%lld", vfc::show(a).c_str(), ch);
        C* g = ref::rchr(sa.cp(), opaque(ca));
        C* e = E(strrchr, wcsrchr)(sa.cp(), opaque(static_cast<int>(ch)));
        vf::cover(op, hs, true);
        vfc::eq_off("ret", vfc::off<Ch>(e, sa.b.data()), vfc::off<Ch>(g, sa.b.data()));
    }
    {
        char const* op = NM("strrchr(char*)", "wcsrchr(wchar_t*)");
        vf::crumb(SUBJ, op, sit, "s=%s ch=%lld", vfc::show(a).c_str(), ch);
        Ch* g = ref::rchrm(sa.p(), opaque(ca));
        Ch* e = E(strrchr, wcsrchr)(sa.p(), opaque(static_cast<int>(ch)));
        vf::cover(op, hs, true);
        vfc::eq_off("ret", vfc::off<Ch>(e, sa.b.data()), vfc::off<Ch>(g, sa.b.data()));
    }
    sa.check("s");
}

void op_spn(Str const& a, Str const& b)
{
    vfc::Src<Ch> sa(a), sb(b);
    auto const hs = vf::mix(vfc::hash(a), vfc::hash(b));
    bool const nt = !(a.empty() && b.empty());
    auto spancls  = [&](std::size_t r) { return a.empty() ? "s-empty" : (r == 0 ? "span=0" : (r == a.size() ? "span=all" : "span=part")); };
    {
        char const* op = OPN(strspn, wcsspn);
        std::size_t g  = ref::spn(sa.cp(), sb.cp());
        char sit[96];
        std::snprintf(sit, sizeof sit, "%s%s", spancls(g), b.empty() ? ",set-empty" : "");
        vf::crumb(SUBJ, op, sit, "s=%s set=%s", vfc::show(a).c_str(), vfc::show(b).c_str());
        std::size_t e = E(strspn, wcsspn)(sa.cp(), sb.cp());
        vf::cover(op, hs, nt);
        vf::eq_int("ret", e, g);
    }
    {
        char const* op = OPN(strcspn, wcscspn);
        std::size_t g  = ref::cspn(sa.cp(), sb.cp());
        char sit[96];
        std::snprintf(sit, sizeof sit, "%s%s", spancls(g), b.empty() ? ",set-empty" : "");
        vf::crumb(SUBJ, op, sit, "s=%s set=%s", vfc::show(a).c_str(), vfc::show(b).c_str());
        std::size_t e = E(strcspn, wcscspn)(sa.cp(), sb.cp());
        vf::cover(op, hs, nt);
        vf::eq_int("ret", e, g);
    }
    sa.check("s");
    sb.check("set");
}

void op_pbrk(Str const& a, Str const& b)
{
    vfc::Src<Ch> sa(a), sb(b);
    auto const hs = vf::mix(vfc::hash(a), vfc::hash(b));
    bool const nt = !(a.empty() && b.empty());
    auto cls      = [&](C* g) { return b.empty() ? "set-empty" : (a.empty() ? "s-empty" : (g == nullptr ? "no-match" : (g == sa.b.data() ? "match-at-0" : "match-later"))); };
    {
        char const* op = NM("strpbrk(char const*)", "wcspbrk(wchar_t const*)");
        C* g           = ref::pbrk(sa.cp(), sb.cp());
        vf::crumb(SUBJ, op, cls(g), "s=%s set=%s", vfc::show(a).c_str(), vfc::show(b).c_str());
        C* e = E(strpbrk, wcspbrk)(sa.cp(), sb.cp());
        vf::cover(op, hs, nt);
        vfc::eq_off("ret", vfc::off<Ch>(e, sa.b.data()), vfc::off<Ch>(g, sa.b.data()));
    }
    {
        char const* op = NM("strpbrk(char*)", "wcspbrk(wchar_t*)");
        Ch* g          = ref::pbrkm(sa.p(), sb.cp());
        vf::crumb(SUBJ, op, cls(g), "s=%s set=%s", vfc::show(a).c_str(), vfc::show(b).c_str());
        Ch* e = E(strpbrk, wcspbrk)(sa.p(), sb.p());
        vf::cover(op, hs, nt);
        vfc::eq_off("ret", vfc::off<Ch>(e, sa.b.data()), vfc::off<Ch>(g, sa.b.data()));
    }
    sa.check("s");
    sb.check("set");
}

void op_str(Str const& a, Str const& b)
{
    vfc::Src<Ch> sa(a), sb(b);
    auto const hs = vf::mix(vfc::hash(a), vfc::hash(b));
    bool const nt = !(a.empty() && b.empty());
    auto cls      = [&](C* g) -> char const* {
        if (b.empty()) { return a.empty() ? "needle-empty,hay-empty" : "needle-empty"; }
        if (b.size() > a.size()) { return "needle-longer"; }
        if (g == nullptr) { return "absent"; }
        if (a.size() == b.size()) { return "match-whole"; }
        if (g == sa.b.data()) { return "match-prefix"; }
        if (static_cast<std::size_t>(g - sa.b.data()) == a.size() - b.size()) { return "match-suffix"; }
        return "match-middle";
    };
    {
        char const* op = NM("strstr(char const*)", "wcsstr(wchar_t const*)");
        C* g           = ref::str(sa.cp(), sb.cp());
        vf::crumb(SUBJ, op, cls(g), "hay=%s needle=%s", vfc::show(a).c_str(), vfc::show(b).c_str());
        C* e = E(strstr, wcsstr)(sa.cp(), sb.cp());
        vf::cover(op, hs, nt);
        vfc::eq_off("ret", vfc::off<Ch>(e, sa.b.data()), vfc::off<Ch>(g, sa.b.data()));
    }
    {
        char const* op = NM("strstr(char*)", "wcsstr(wchar_t*)");
        Ch* g          = ref::strm(sa.p(), sb.cp());
        vf::crumb(SUBJ, op, cls(g), "hay=%s needle=%s", vfc::show(a).c_str(), vfc::show(b).c_str());
        Ch* e = E(strstr, wcsstr)(sa.p(), sb.p());
        vf::cover(op, hs, nt);
        vfc::eq_off("ret", vfc::off<Ch>(e, sa.b.data()), vfc::off<Ch>(g, sa.b.data()));
    }
    sa.check("hay");
    sb.check("needle");
}

// ------------------------------------------------------------------ aliasing arguments
// C lets the arguments of the read-only two-string functions alias: both pointers point into ONE block, either the
// very same pointer (off == 0) or one argument is a proper suffix of the other (off > 0, either order); the prefix
// relation is reached through the count of strncmp.  etl and the host library are called with the same two pointers.
// (strcpy/strncpy/strcat/strncat must not overlap in C and are deliberately absent here.)
char const* alias_kind(std::size_t off, bool swapped) { return off == 0 ? "same-pointer" : (swapped ? "first-is-suffix-of-second" : "second-is-suffix-of-first"); }

void op_alias(Str const& a, std::size_t off, bool swapped, std::vector<std::size_t> const& ns)
{
    vfc::Src<Ch> sa(a);
    Ch* const base = sa.b.data();
    Str const suf  = a.substr(off);
    Str const& x   = swapped ? suf : a; // value of the first argument
    Str const& y   = swapped ? a : suf; // value of the second argument
    Ch* const bx   = base + (swapped ? off : 0);
    Ch* const by   = base + (swapped ? 0 : off);
    auto px        = [&] { return opaque(bx); };
    auto py        = [&] { return opaque(by); };
    auto cpx       = [&] { return opaque(static_cast<C*>(bx)); };
    auto cpy       = [&] { return opaque(static_cast<C*>(by)); };
    char const* kind = alias_kind(off, swapped);
    auto const hs  = vf::mix(vfc::hash(a), off * 2 + (swapped ? 1 : 0) + 0xA11A5);
    bool const nt  = !a.empty();
    char sit[120];
    char args[400];
    std::snprintf(args, sizeof args, "one block %s: arg1=block+%zu arg2=block+%zu", vfc::show(a).c_str(), (std::size_t)(bx - base), (std::size_t)(by - base));
    {
        char const* op = NM("strspn[alias]", "wcsspn[alias]");
        std::size_t g  = ref::spn(cpx(), cpy());
        std::snprintf(sit, sizeof sit, "%s,%s", kind, x.empty() ? "s-empty" : (g == 0 ? "span=0" : (g == x.size() ? "span=all" : "span=part")));
        vf::crumb(SUBJ, op, sit, "%s", args);
        std::size_t e = E(strspn, wcsspn)(cpx(), cpy());
        vf::cover(op, hs, nt);
        vf::eq_int("ret", e, g);
    }
    {
        char const* op = NM("strcspn[alias]", "wcscspn[alias]");
        std::size_t g  = ref::cspn(cpx(), cpy());
        std::snprintf(sit, sizeof sit, "%s,%s", kind, x.empty() ? "s-empty" : (g == 0 ? "span=0" : (g == x.size() ? "span=all" : "span=part")));
        vf::crumb(SUBJ, op, sit, "%s", args);
        std::size_t e = E(strcspn, wcscspn)(cpx(), cpy());
        vf::cover(op, hs, nt);
        vf::eq_int("ret", e, g);
    }
    auto pcls = [&](C* g) { return y.empty() ? "set-empty" : (x.empty() ? "s-empty" : (g == nullptr ? "no-match" : (g == bx ? "match-at-0" : "match-later"))); };
    {
        char const* op = NM("strpbrk(char const*)[alias]", "wcspbrk(wchar_t const*)[alias]");
        C* g           = ref::pbrk(cpx(), cpy());
        std::snprintf(sit, sizeof sit, "%s,%s", kind, pcls(g));
        vf::crumb(SUBJ, op, sit, "%s", args);
        C* e = E(strpbrk, wcspbrk)(cpx(), cpy());
        vf::cover(op, hs, nt);
        vfc::eq_off("ret", vfc::off<Ch>(e, bx), vfc::off<Ch>(g, bx));
    }
    {
        char const* op = NM("strpbrk(char*)[alias]", "wcspbrk(wchar_t*)[alias]");
        Ch* g          = ref::pbrkm(px(), cpy());
        std::snprintf(sit, sizeof sit, "%s,%s", kind, pcls(g));
        vf::crumb(SUBJ, op, sit, "%s", args);
        Ch* e = E(strpbrk, wcspbrk)(px(), py());
        vf::cover(op, hs, nt);
        vfc::eq_off("ret", vfc::off<Ch>(e, bx), vfc::off<Ch>(g, bx));
    }
    auto scls = [&](C* g) -> char const* {
        if (y.empty()) { return x.empty() ? "needle-empty,hay-empty" : "needle-empty"; }
        if (y.size() > x.size()) { return "needle-longer"; }
        if (g == nullptr) { return "absent"; }
        if (x.size() == y.size()) { return "match-whole"; }
        if (g == bx) { return "match-prefix"; }
        if (static_cast<std::size_t>(g - bx) == x.size() - y.size()) { return "match-suffix"; }
        return "match-middle";
    };
    {
        char const* op = NM("strstr(char const*)[alias]", "wcsstr(wchar_t const*)[alias]");
        C* g           = ref::str(cpx(), cpy());
        std::snprintf(sit, sizeof sit, "%s,%s", kind, scls(g));
        vf::crumb(SUBJ, op, sit, "%s", args);
        C* e = E(strstr, wcsstr)(cpx(), cpy());
        vf::cover(op, hs, nt);
        vfc::eq_off("ret", vfc::off<Ch>(e, bx), vfc::off<Ch>(g, bx));
    }
    {
        char const* op = NM("strstr(char*)[alias]", "wcsstr(wchar_t*)[alias]");
        Ch* g          = ref::strm(px(), cpy());
        std::snprintf(sit, sizeof sit, "%s,%s", kind, scls(g));
        vf::crumb(SUBJ, op, sit, "%s", args);
        Ch* e = E(strstr, wcsstr)(px(), py());
        vf::cover(op, hs, nt);
        vfc::eq_off("ret", vfc::off<Ch>(e, bx), vfc::off<Ch>(g, bx));
    }
    {
        char const* op = NM("strcmp[alias]", "wcscmp[alias]");
        std::snprintf(sit, sizeof sit, "%s,%s", kind, relation(x, y));
        vf::crumb(SUBJ, op, sit, "%s", args);
        int g = ref::cmp(cpx(), cpy());
        int e = E(strcmp, wcscmp)(cpx(), cpy());
        vf::cover(op, hs, nt);
        vf::eq_sign("ret", e, g);
    }
    std::size_t const d = first_diff(x, y);
    bool const equal    = d == x.size() && d == y.size();
    for (std::size_t n : ns) {
        char const* op = NM("strncmp[alias]", "wcsncmp[alias]");
        std::snprintf(sit, sizeof sit, "%s,%s,%s", kind, relation(x, y),
            n == SMAX ? "n=max" : (huge(n) ? "n=huge" : n == 0 ? "n=0" : (equal ? (n < d ? "n<len" : (n == d ? "n=len" : "n-past-end")) : (n <= d ? "n-before-diff" : "n-past-diff"))));
        vf::crumb(SUBJ, op, sit, "%s n=%lld", args, P(n));
        int g = ref::ncmp(cpx(), cpy(), opaque(n));
        int e = E(strncmp, wcsncmp)(cpx(), cpy(), opaque(n));
        vf::cover(op, vf::mix(hs, n), nt);
        vf::eq_sign("ret", e, g);
    }
    sa.check("aliased block");
}

// every offset (enumerated) or a few offsets (random) of the second pointer inside the block of `a`, both argument orders
void alias_all(Str const& a, std::vector<std::size_t> const& offs, std::vector<std::size_t> const& ns)
{
    for (std::size_t off : offs) {
        op_alias(a, off, false, ns);
        if (off != 0) { op_alias(a, off, true, ns); }
    }
}

// characters to look for in `a`: every alphabet symbol, an absent one, the terminator and (char only) int
// values outside the range of char that C converts to char before the search
void chr_all(Str const& a, Ch (*sym)(unsigned), unsigned A)
{
    for (unsigned i = 0; i < A; ++i) {
        Ch c = sym(i);
        op_chr(a, (long long)c, false);
#if !VF_WIDE
        op_chr(a, (long long)(unsigned char)c, c < 0);       // 0xE9 handed over as 233
        op_chr(a, (long long)(unsigned char)c + 256, true);  // converts back to c
        op_chr(a, (long long)(unsigned char)c - 256, c >= 0); // converts back to c
#endif
    }
    op_chr(a, 0, false);
    op_chr(a, 'c', false);
#if !VF_WIDE
    op_chr(a, 256, true); // converts to the terminator
#endif
}

// The "array" presentations (most likely to trip a sanitizer) run last so that a crash in one of them
// cannot hide the other operations of the same case.
void all_ops(Str const& a, Str const& b, bool single, Ch (*sym)(unsigned), unsigned A, std::vector<std::size_t> const& ncmps,
    std::vector<std::size_t> const& ncats, std::vector<std::size_t> const& ncpys, std::vector<std::size_t> const& aoffs = {},
    std::vector<std::size_t> const& ancmps = {})
{
    op_spn(a, b);
    op_pbrk(a, b);
    op_str(a, b);
    op_cat(a, b);
    for (std::size_t n : ncats) { op_ncat(a, b, n, false); }
    if (single) {
        op_len(a);
        op_cpy(a);
        for (std::size_t n : ncpys) { op_ncpy(a, n, false); }
        chr_all(a, sym, A);
        alias_all(a, aoffs, ancmps);
    }
    op_cmp(a, b);
    for (std::size_t n : ncmps) { op_ncmp(a, b, n, false); }
    for (std::size_t n : ncmps) { op_ncmp(a, b, n, true); }
    if (single) {
        for (std::size_t n : ncpys) { op_ncpy(a, n, true); }
    }
    for (std::size_t n : ncats) { op_ncat(a, b, n, true); }
}

void run_case(vf::Case& c)
{
    Dims d = dims(c.tier);
    Str a, b;
    std::vector<std::size_t> ncmps, ncats, ncpys;
    if (c.enumerated) {
        std::uint64_t N0 = n0(d), N1 = n1(d);
        std::uint64_t k = c.index;
        Ch (*sym)(unsigned) = sym0;
        unsigned A          = 3;
        bool single         = false;
        if (k < N0 * N0) {
            a      = vfc::nth_string<Ch>(k / N0, 3, d.l0, sym0);
            b      = vfc::nth_string<Ch>(k % N0, 3, d.l0, sym0);
            single = k % N0 == 0;
        } else {
            k -= N0 * N0;
            a      = vfc::nth_string<Ch>(k / N1, 4, d.l1, sym1);
            b      = vfc::nth_string<Ch>(k % N1, 4, d.l1, sym1);
            single = k % N1 == 0;
            sym    = sym1;
            A      = 4;
        }
        std::size_t mx = a.size() > b.size() ? a.size() : b.size();
        for (std::size_t n = 0; n <= mx + 2; ++n) { ncmps.push_back(n); }
        ncmps.push_back(SMAX);
        add_huge_counts(ncmps, mx + 1);
        for (std::size_t n = 0; n <= b.size() + 2; ++n) { ncats.push_back(n); }
        ncats.push_back(SMAX);
        add_huge_counts(ncats, b.size() + 1);
        if (vf::want_sample("pair")) { vf::sample("pair", "a=%s b=%s: every function, every count 0..len+2 and SIZE_MAX", vfc::show(a).c_str(), vfc::show(b).c_str()); }
        std::vector<std::size_t> aoffs, ancmps;
        if (single) {
            for (std::size_t n = 0; n <= a.size() + 2; ++n) { ncpys.push_back(n); }
            for (std::size_t o = 0; o <= a.size(); ++o) { aoffs.push_back(o); } // o == size: the second pointer is the terminator
            for (std::size_t n = 0; n <= a.size() + 2; ++n) { ancmps.push_back(n); }
            ancmps.push_back(SMAX);
            add_huge_counts(ancmps, a.size() + 1);
        }
        all_ops(a, b, single, sym, A, ncmps, ncats, ncpys, aoffs, ancmps);
        return;
    }
    // ---- seeded random: longer strings, b related to a in various ways
    vf::Rng& r          = c.rng;
    bool boundary       = r.chance(1, 5);
    Ch (*sym)(unsigned) = boundary ? sym1 : sym0;
    unsigned A          = boundary ? 4 : 3;
    unsigned Ause       = 1 + (unsigned)r.below(A);
    std::size_t la      = (std::size_t)r.below(65);
    if (r.chance(1, 4)) { la = (std::size_t)r.below(9); }
    for (std::size_t i = 0; i < la; ++i) { a += sym((unsigned)r.below(Ause)); }
    switch (r.below(6)) {
    case 0: b = a; break;
    case 1: b = a.substr(0, (std::size_t)r.below(la + 1)); break;
    case 2: {
        std::size_t p = (std::size_t)r.below(la + 1);
        b             = a.substr(p, (std::size_t)r.below(9));
        break;
    }
    case 3: {
        b = a;
        if (!b.empty()) { b[(std::size_t)r.below(b.size())] = sym((unsigned)r.below(A)); }
        break;
    }
    case 4: {
        std::size_t p = (std::size_t)r.below(la + 1);
        b             = a.substr(p, (std::size_t)r.below(9));
        if (!b.empty()) { b[(std::size_t)r.below(b.size())] = sym((unsigned)r.below(A)); }
        break;
    }
    default: {
        std::size_t lb = (std::size_t)r.below(65);
        for (std::size_t i = 0; i < lb; ++i) { b += sym((unsigned)r.below(A)); }
    }
    }
    std::size_t mx = a.size() > b.size() ? a.size() : b.size();
    std::size_t fd = first_diff(a, b);
    ncmps          = {0, fd, fd + 1, (std::size_t)r.below(mx + 3), mx + 1, SMAX};
    ncats          = {0, b.size(), (std::size_t)r.below(b.size() + 3), b.size() + 1, SMAX};
    ncpys          = {0, a.size(), a.size() + 1, (std::size_t)r.below(a.size() + 3), a.size() + 1 + (std::size_t)r.below(20)};
    if (vf::want_sample("random")) { vf::sample("random", "a=%s b=%s", vfc::show(a).c_str(), vfc::show(b).c_str()); }
    std::vector<std::size_t> aoffs{0, a.size()};
    if (!a.empty()) {
        aoffs.push_back(1 + (std::size_t)r.below(a.size()));
        aoffs.push_back((std::size_t)r.below(a.size()));
    }
    std::vector<std::size_t> ancmps{0, 1, (std::size_t)r.below(a.size() + 3), a.size(), a.size() + 1, SMAX};
    add_huge_counts(ncmps, mx + 1);
    add_huge_counts(ncats, b.size() + 1);
    add_huge_counts(ancmps, a.size() + 1);
    all_ops(a, b, true, sym, A, ncmps, ncats, ncpys, aoffs, ancmps);
}
} // namespace

int main(int argc, char** argv)
{
    std::setlocale(LC_ALL, "C");
    return vf::run_main(argc, argv, "C18", UNIT, spec, run_case);
}
