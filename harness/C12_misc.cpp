// C12 - the named duration typedefs (nanoseconds ... years), their periods/representations, conversions between them,
// duration::zero/min/max, duration_values, chrono literals.  All compared with std::chrono and exact arithmetic.   (DESIGN 4, C12)
#include "vf.hpp"
#include "vf_contract.hpp"

#include <etl/chrono.hpp>
#include <etl/ratio.hpp>

#include <chrono>
#include <limits>
#include <type_traits>

namespace {
namespace ec = etl::chrono;
namespace sc = std::chrono;
using i128   = __int128;

struct Named {
    char const* name;
    long long en, ed; // etl period
    long long sn, sd; // std period
    int edigits;      // value bits of the etl representation
    int need;         // bits the standard requires ("signed integer type of at least N bits" -> N-1 value bits)
    bool esigned, eint;
};
template <typename E, typename S>
Named named(char const* n, int need)
{
    return Named{n, (long long)E::period::num, (long long)E::period::den, (long long)S::period::num, (long long)S::period::den,
        std::numeric_limits<typename E::rep>::digits, need - 1, std::is_signed_v<typename E::rep>, std::is_integral_v<typename E::rep>};
}
std::vector<Named> const& all_named()
{
    static std::vector<Named> v = {
        named<ec::nanoseconds, sc::nanoseconds>("nanoseconds", 64), named<ec::microseconds, sc::microseconds>("microseconds", 55),
        named<ec::milliseconds, sc::milliseconds>("milliseconds", 45), named<ec::seconds, sc::seconds>("seconds", 35),
        named<ec::minutes, sc::minutes>("minutes", 29), named<ec::hours, sc::hours>("hours", 23), named<ec::days, sc::days>("days", 25),
        named<ec::weeks, sc::weeks>("weeks", 22), named<ec::months, sc::months>("months", 20), named<ec::years, sc::years>("years", 17),
    };
    return v;
}

void fact(char const* subj, char const* what, char const* sit, bool obs, bool exp, char const* args)
{
    vf::crumb(subj, what, sit, "%s", args);
    vf::cover("type-level", vf::mix(vf::fnv(subj), vf::fnv(what)), true);
    vf::eq_bool("value", obs, exp);
}

// conversions between the named durations: every ordered pair (From, To), counts in [-N, N] where representable
template <typename EF, typename SF, typename ET, typename ST>
void conv_pair(char const* fn, char const* tn, int N)
{
    char subj[96];
    std::snprintf(subj, sizeof subj, "chrono::%s,chrono::%s", fn, tn);
    // the periods std::chrono prescribes
    i128 const n1 = SF::period::num, d1 = SF::period::den, n2 = ST::period::num, d2 = ST::period::den;
    i128 a = n1 * d2, b = d1 * n2;
    i128 g = a, h = b;
    while (h != 0) {
        i128 t = g % h;
        g      = h;
        h      = t;
    }
    a /= g;
    b /= g;
    using ER = typename EF::rep;
    using TR = typename ET::rep;
    using CR = std::common_type_t<ER, TR>; // tetl's representations may be narrower than libstdc++'s: floor compares in this type
    i128 gn = n1, hn = n2;
    while (hn != 0) {
        i128 t = gn % hn;
        gn     = hn;
        hn     = t;
    }
    i128 gd = d1, hd = d2;
    while (hd != 0) {
        i128 t = gd % hd;
        gd     = hd;
        hd     = t;
    }
    i128 const ld = d1 / gd * d2;
    i128 const f1 = (n1 / gn) * (ld / d1), f2 = (n2 / gn) * (ld / d2);
    auto fitsCR   = [](i128 x) { return x <= (i128)std::numeric_limits<CR>::max() && x >= (i128)std::numeric_limits<CR>::min(); };
    std::uint64_t n = 0;
    for (int k = -N; k <= N; ++k) {
        i128 const num = (i128)k * a;
        if (num > (i128)std::numeric_limits<long long>::max() || num < (i128)std::numeric_limits<long long>::min()) { continue; }
        i128 const tr = num / b;
        if (tr > (i128)std::numeric_limits<TR>::max() || tr < (i128)std::numeric_limits<TR>::min()) { continue; }
        if (!fitsCR((i128)k * f1) || !fitsCR((tr + 1) * f2) || !fitsCR((tr - 1) * f2)) { continue; }
        auto fl = [&](i128 x, i128 y) { return x / y - ((x % y != 0) && ((x < 0) != (y < 0))); };
        long long const s_cast = sc::duration_cast<ST>(SF{(typename SF::rep)k}).count();
        long long const s_fl   = sc::floor<ST>(SF{(typename SF::rep)k}).count();
        if ((i128)s_cast != tr || (i128)s_fl != fl(num, b)) {
            vf::crumb("oracle", "std-vs-exact", "named", "%s k=%d", subj, k);
            vf::diverge("oracles-disagree", vf::to_s(s_cast), vf::to_s((long long)tr));
        }
        char const* sit = a == 1 && b == 1 ? "same-period" : (b == 1 ? "to-finer" : (a == 1 ? "to-coarser" : "incommensurable"));
        vf::crumb(subj, "duration_cast<To>(from)", sit, "count=%d", k);
        long long const e_cast = ec::duration_cast<ET>(EF{(ER)k}).count();
        vf::eq_int("count", e_cast, s_cast);
        vf::crumb(subj, "floor<To>(from)", sit, "count=%d", k);
        long long const e_fl = ec::floor<ET>(EF{(ER)k}).count();
        vf::eq_int("count", e_fl, s_fl);
        ++n;
    }
    vf::cover_bulk("named: duration_cast / floor", 2 * n, vf::fnv(subj), n);
}

template <typename EF, typename SF>
void conv_row(char const* fn, int N)
{
    conv_pair<EF, SF, ec::nanoseconds, sc::nanoseconds>(fn, "nanoseconds", N);
    conv_pair<EF, SF, ec::microseconds, sc::microseconds>(fn, "microseconds", N);
    conv_pair<EF, SF, ec::milliseconds, sc::milliseconds>(fn, "milliseconds", N);
    conv_pair<EF, SF, ec::seconds, sc::seconds>(fn, "seconds", N);
    conv_pair<EF, SF, ec::minutes, sc::minutes>(fn, "minutes", N);
    conv_pair<EF, SF, ec::hours, sc::hours>(fn, "hours", N);
    conv_pair<EF, SF, ec::days, sc::days>(fn, "days", N);
    conv_pair<EF, SF, ec::weeks, sc::weeks>(fn, "weeks", N);
    conv_pair<EF, SF, ec::months, sc::months>(fn, "months", N);
    conv_pair<EF, SF, ec::years, sc::years>(fn, "years", N);
}

template <typename E, typename S>
void limits_of(char const* name)
{
    char subj[96];
    std::snprintf(subj, sizeof subj, "chrono::%s", name);
    using R = typename E::rep;
    vf::crumb(subj, "zero()", "static", "-");
    vf::cover("duration::zero/min/max", vf::fnv(subj), true);
    vf::eq_int("count", E::zero().count(), 0);
    vf::crumb(subj, "min()", "static", "-");
    vf::eq_bool("is-lowest", E::min().count() == std::numeric_limits<R>::lowest(), S::min().count() == std::numeric_limits<typename S::rep>::lowest());
    vf::crumb(subj, "max()", "static", "-");
    vf::eq_bool("is-max", E::max().count() == std::numeric_limits<R>::max(), S::max().count() == std::numeric_limits<typename S::rep>::max());
    vf::crumb(subj, "duration_values", "static", "-");
    vf::eq_bool("zero", ec::duration_values<R>::zero() == R{}, true);
    vf::eq_bool("min", ec::duration_values<R>::min() == std::numeric_limits<R>::lowest(), true);
    vf::eq_bool("max", ec::duration_values<R>::max() == std::numeric_limits<R>::max(), true);
}

void literals()
{
    using namespace etl::literals::chrono_literals;
    using namespace std::chrono_literals;
    auto one = [](char const* what, long long ecount, long long en, long long ed, long long scount, long long sn, long long sd_) {
        vf::crumb("chrono literals", what, "integer-literal", "-");
        vf::cover("literals", vf::fnv(what), true);
        vf::eq_int("count", ecount, scount);
        vf::eq_int("period-num", en, sn);
        vf::eq_int("period-den", ed, sd_);
    };
#define LIT(WHAT, E, S) one(WHAT, (E).count(), decltype(E)::period::num, decltype(E)::period::den, (S).count(), decltype(S)::period::num, decltype(S)::period::den)
    LIT("_h", 7_h, 7h);
    LIT("_min", 90_min, 90min);
    LIT("_s", 3600_s, 3600s);
    LIT("_ms", 1500_ms, 1500ms);
    LIT("_us", 250_us, 250us);
    LIT("_ns", 999_ns, 999ns);
#undef LIT
    auto onef = [](char const* what, long double ecount, long long en, long long ed, long double scount, long long sn, long long sd_) {
        vf::crumb("chrono literals", what, "floating-literal", "-");
        vf::cover("literals", vf::fnv(what) + 1, true);
        vf::eq_bool("count-equal", ecount == scount, true);
        vf::eq_int("period-num", en, sn);
        vf::eq_int("period-den", ed, sd_);
    };
#define LITF(WHAT, E, S) onef(WHAT, (E).count(), decltype(E)::period::num, decltype(E)::period::den, (S).count(), decltype(S)::period::num, decltype(S)::period::den)
    LITF("_h (fp)", 1.5_h, 1.5h);
    LITF("_min (fp)", 2.25_min, 2.25min);
    LITF("_s (fp)", 0.5_s, 0.5s);
    LITF("_ms (fp)", 12.5_ms, 12.5ms);
    LITF("_us (fp)", 0.125_us, 0.125us);
    LITF("_ns (fp)", 3.0_ns, 3.0ns);
#undef LITF
}

vf::Spec spec(vf::Tier)
{
    vf::Spec s;
    s.n_enum     = 12; // 0: typedef facts, 1: limits + literals, 2..11: conversion rows
    s.n_random   = 0;
    s.batch      = 1;
    s.exhaustive = true;
    return s;
}

void run_case(vf::Case& c)
{
    int const N = c.tier == vf::Tier::thorough ? 3000 : 400;
    switch (c.index) {
    case 0:
        for (Named const& n : all_named()) {
            char subj[96], args[96];
            std::snprintf(subj, sizeof subj, "chrono::%s", n.name);
            std::snprintf(args, sizeof args, "etl period %lld/%lld, std period %lld/%lld, etl rep %d value bits", n.en, n.ed, n.sn, n.sd, n.edigits);
            fact(subj, "period::num", "typedef", n.en == n.sn, true, args);
            fact(subj, "period::den", "typedef", n.ed == n.sd, true, args);
            fact(subj, "rep is a signed integer", "typedef", n.esigned && n.eint, true, args);
            fact(subj, "rep has the required bits", "typedef", n.edigits >= n.need, true, args);
            if (vf::want_sample(subj)) { vf::sample(subj, "%s", args); }
        }
        break;
    case 1:
        limits_of<ec::nanoseconds, sc::nanoseconds>("nanoseconds");
        limits_of<ec::microseconds, sc::microseconds>("microseconds");
        limits_of<ec::milliseconds, sc::milliseconds>("milliseconds");
        limits_of<ec::seconds, sc::seconds>("seconds");
        limits_of<ec::minutes, sc::minutes>("minutes");
        limits_of<ec::hours, sc::hours>("hours");
        limits_of<ec::days, sc::days>("days");
        limits_of<ec::weeks, sc::weeks>("weeks");
        limits_of<ec::months, sc::months>("months");
        limits_of<ec::years, sc::years>("years");
        limits_of<ec::duration<double>, sc::duration<double>>("duration<double>");
        literals();
        break;
    case 2: conv_row<ec::nanoseconds, sc::nanoseconds>("nanoseconds", N); break;
    case 3: conv_row<ec::microseconds, sc::microseconds>("microseconds", N); break;
    case 4: conv_row<ec::milliseconds, sc::milliseconds>("milliseconds", N); break;
    case 5: conv_row<ec::seconds, sc::seconds>("seconds", N); break;
    case 6: conv_row<ec::minutes, sc::minutes>("minutes", N); break;
    case 7: conv_row<ec::hours, sc::hours>("hours", N); break;
    case 8: conv_row<ec::days, sc::days>("days", N); break;
    case 9: conv_row<ec::weeks, sc::weeks>("weeks", N); break;
    case 10: conv_row<ec::months, sc::months>("months", N); break;
    case 11: conv_row<ec::years, sc::years>("years", N); break;
    default: break;
    }
}
} // namespace

VF_MAIN("C12", "C12_misc", spec, run_case)
