// C19 - etl::extents: every constructor / conversion / observer against the shape it was given.
// Build: -DVF_IDX=<index type> -DVF_IDX_NAME="..." [-DVF_PLO= -DVF_PHI= -DVF_PSTEP=] (pattern slice, see vf_c19.hpp)
// Case space: (pattern, shape in {0..4}^rank consistent with the static positions) x 9 operation groups
// (one group per case so that a sanitizer abort in one constructor form does not hide the others).
#include "vf.hpp"
#include "vf_contract.hpp"

#include "vf_c19.hpp"

namespace {
using namespace c19;

constexpr unsigned NGROUP = 9;
std::string const SUBJ    = std::string("extents<") + IDXN + ">";

vf::Spec spec(vf::Tier t)
{
    vf::Spec s;
    s.n_enum     = space().total * NGROUP;
    s.n_random   = t == vf::Tier::thorough ? 6000 : 600;
    s.batch      = 64;
    s.exhaustive = true;
    return s;
}

struct Ctx {
    PInfo const* p;
    Arr shape;
    unsigned group;
    std::string sit;
    std::string desc;
    std::uint64_t h;
    bool nontrivial;
};

// observe an extents object against the expected shape (template part: read the extents; the comparison is shared code)
#define NOINL __attribute__((noinline))
NOINL void check_arr(Arr const& got, unsigned dynmask, std::size_t R, Arr const& shape, char const* what)
{
    for (std::size_t r = 0; r < R; ++r) {
        std::string n = std::string(what) + (((dynmask >> r) & 1U) ? "extent@dynamic-pos" : "extent@static-pos");
        vf::eq_int(n.c_str(), got[r], shape[r]);
    }
}
template <typename X>
NOINL void check_ext(X const& x, Arr const& shape, char const* what = "")
{
    Arr got{};
    unsigned dm = 0;
    for (std::size_t r = 0; r < X::rank(); ++r) {
        got[r] = (LL)x.extent(r);
        dm |= (X::static_extent(r) == dyn ? 1U : 0U) << r;
    }
    check_arr(got, dm, X::rank(), shape, what);
}
NOINL void begin(Ctx const& c, char const* op) { vf::crumb(SUBJ.c_str(), op, c.sit.c_str(), "E=<%s> shape=%s", c.p->name, c.desc.c_str()); }
NOINL void done(Ctx const& c, char const* op, std::uint64_t extra = 0) { vf::cover(op, vf::mix(c.h, extra), c.nontrivial); }
NOINL void expect_int(char const* n, LL got, LL exp) { vf::eq_int(n, got, exp); }
NOINL void expect_bool(char const* n, bool got, bool exp) { vf::eq_bool(n, got, exp); }

template <typename E, typename A>
NOINL void ctor_dynamic_values(Ctx const& c, char const* op)
{
    begin(c, op);
    std::array<LL, MAXR> d{};
    std::size_t n = 0;
    for (std::size_t r = 0; r < E::rank(); ++r) {
        if (E::static_extent(r) == dyn) { d[n++] = c.shape[r]; }
    }
    E e = [&]<std::size_t... Is>(std::index_sequence<Is...>) { return E(static_cast<A>(d[Is])...); }(std::make_index_sequence<E::rank_dynamic()>{});
    done(c, op);
    check_ext(e, c.shape);
}
template <typename E, typename A>
NOINL void ctor_all_values(Ctx const& c, char const* op)
{
    begin(c, op);
    E e = [&]<std::size_t... Is>(std::index_sequence<Is...>) { return E(static_cast<A>(c.shape[Is])...); }(std::make_index_sequence<E::rank()>{});
    done(c, op);
    check_ext(e, c.shape);
}
// values of the N-element source for the array/span constructors: N == rank -> all extents, else the dynamic ones
template <typename E, std::size_t N>
std::array<LL, MAXR> source_values(Arr const& shape)
{
    std::array<LL, MAXR> d{};
    std::size_t n = 0;
    for (std::size_t r = 0; r < E::rank(); ++r) {
        if (N == E::rank() || E::static_extent(r) == dyn) { d[n++] = shape[r]; }
    }
    return d;
}
template <typename E, std::size_t N, typename A>
NOINL void ctor_array(Ctx const& c, char const* op)
{
    auto d = source_values<E, N>(c.shape);
    etl::array<A, N> a{};
    for (std::size_t i = 0; i < N; ++i) { a[i] = static_cast<A>(d[i]); }
    begin(c, op);
    E e(a);
    done(c, op);
    check_ext(e, c.shape);
}
template <typename E, std::size_t N, typename A>
NOINL void ctor_span(Ctx const& c, char const* op)
{
    auto d = source_values<E, N>(c.shape);
    vf::Buf<A> b(N); // exact-size block: reading an (N+1)-th value is an ASan report
    for (std::size_t i = 0; i < N; ++i) { b[i] = static_cast<A>(d[i]); }
    begin(c, op);
    E e(etl::span<A const, N>(b.data(), N));
    done(c, op, 1);
    check_ext(e, c.shape);
    E e2(etl::span<A, N>(b.data(), N));
    done(c, op, 2);
    check_ext(e2, c.shape);
    b.check("span source");
}

// E with static position K made dynamic
template <typename E, std::size_t K, typename Seq>
struct widen_at;
template <typename E, std::size_t K, std::size_t... Is>
struct widen_at<E, K, std::index_sequence<Is...>> {
    using type = etl::extents<typename E::index_type, (Is == K ? dyn : E::static_extent(Is))...>;
};
template <typename E, typename I2, typename Seq>
struct reindex;
template <typename E, typename I2, std::size_t... Is>
struct reindex<E, I2, std::index_sequence<Is...>> {
    using type = etl::extents<I2, E::static_extent(Is)...>;
};

// From -> To conversion (both directions are in the domain: the run-time shape matches every static extent)
template <typename To, typename From>
NOINL void convert(Ctx const& c, char const* op, std::uint64_t salt)
{
    static_assert(std::is_constructible_v<To, From const&>);
    begin(c, "setup:extents(OtherIndexTypes...):N=rank_dynamic");
    From f = make_extents<From>(c.shape);
    begin(c, op);
    To t(f);
    done(c, op, salt);
    check_ext(t, c.shape);
    // equality across the two types (same shape)
    expect_bool("operator==:converted", t == f, true);
}

template <typename E, std::size_t K>
NOINL void widen_narrow_at(Ctx const& c)
{
    if constexpr (E::static_extent(K) != dyn) {
        using W = typename widen_at<E, K, std::make_index_sequence<E::rank()>>::type;
        static_assert(std::is_convertible_v<E, W>, "static -> dynamic at one position is an implicit conversion");
        static_assert(std::is_constructible_v<E, W> && !std::is_convertible_v<W, E>, "dynamic -> static is explicit");
        convert<W, E>(c, "extents(extents<Other>):one-static-position->dynamic", K * 2);
        convert<E, W>(c, "extents(extents<Other>):one-dynamic-position->static", K * 2 + 1);
    }
}

template <std::size_t K>
struct Run {
    static void run(Ctx& c)
    {
        using E                  = sel_t<K>;
        constexpr std::size_t R  = E::rank();
        constexpr std::size_t RD = E::rank_dynamic();
        using D                  = etl::dextents<Idx, R>;
        // a second index type with the opposite signedness / another width (extents <= 8 fit everywhere)
        using I2 = std::conditional_t<std::is_same_v<Idx, std::size_t>, int, std::size_t>;
        using I3 = std::conditional_t<std::is_signed_v<Idx>, std::make_unsigned_t<Idx>, std::make_signed_t<Idx>>;
        Arr const& sh = c.shape;

        switch (c.group) {
        case 0: {
            ctor_dynamic_values<E, Idx>(c, "extents(OtherIndexTypes...):N=rank_dynamic");
            ctor_dynamic_values<E, int>(c, "extents(OtherIndexTypes...):N=rank_dynamic,int");
            ctor_dynamic_values<E, unsigned long>(c, "extents(OtherIndexTypes...):N=rank_dynamic,size_t");
            // observers
            E e = make_extents<E>(sh);
            begin(c, "observers");
            expect_int("rank", (LL)e.rank(), (LL)c.p->rank);
            expect_int("rank_dynamic", (LL)e.rank_dynamic(), (LL)c.p->rd);
            for (std::size_t r = 0; r < R; ++r) {
                expect_bool("static_extent", E::static_extent(r) == c.p->st[r], true);
            }
            done(c, "observers");
            // products (public helpers every mapping is built on)
            for (std::size_t i = 0; i <= R; ++i) {
                LL exp = 1;
                for (std::size_t r = 0; r < i; ++r) { exp *= sh[r]; }
                begin(c, "fwd_prod_of_extents(i)");
                auto got = e.fwd_prod_of_extents(i);
                done(c, "fwd_prod_of_extents(i)", i);
                expect_int(i == R ? "prod:i=rank" : "prod:i<rank", (LL)got, exp);
            }
            for (std::size_t i = 0; i < R; ++i) {
                LL exp = 1;
                for (std::size_t r = i + 1; r < R; ++r) { exp *= sh[r]; }
                begin(c, "rev_prod_of_extents(i)");
                auto got = e.rev_prod_of_extents(i);
                done(c, "rev_prod_of_extents(i)", i);
                expect_int("prod", (LL)got, exp);
            }
            // default construction: dynamic extents are zero, static ones as declared
            {
                Arr z{};
                for (std::size_t r = 0; r < R; ++r) { z[r] = E::static_extent(r) == dyn ? 0 : (LL)E::static_extent(r); }
                begin(c, "extents()");
                E d0{};
                done(c, "extents()");
                check_ext(d0, z);
            }
            // copy / assignment
            {
                begin(c, "extents(extents const&)");
                E cp(e);
                done(c, "extents(extents const&)");
                check_ext(cp, sh);
                E as{};
                begin(c, "operator=(extents const&)");
                as = e;
                done(c, "operator=(extents const&)");
                check_ext(as, sh);
                begin(c, "operator==");
                expect_bool("same-object", e == cp, true);
                done(c, "operator==");
            }
            // operator== against a different shape (one dynamic extent changed) and a different rank
            if constexpr (RD > 0) {
                for (std::size_t r = 0; r < R; ++r) {
                    if (E::static_extent(r) != dyn) { continue; }
                    Arr o = sh;
                    o[r]  = sh[r] + 1;
                    E e2  = make_extents<E>(o);
                    D d2  = make_extents<D>(o);
                    begin(c, "operator==");
                    expect_bool("one-extent-differs", e == e2, false);
                    expect_bool("one-extent-differs,other-type", e == d2, false);
                    expect_bool("operator!=", e != e2, true);
                    done(c, "operator==", 100 + r);
                }
            }
            {
                etl::dextents<Idx, R + 1> bigger{};
                begin(c, "operator==");
                expect_bool("rank-differs", e == bigger, false);
                done(c, "operator==", 200);
            }
            // class template argument deduction from integers: extents<size_t, dyn...>
            {
                begin(c, "extents(Integrals...) deduction");
                auto g = [&]<std::size_t... Is>(std::index_sequence<Is...>) { return etl::extents(static_cast<int>(sh[Is])...); }(std::make_index_sequence<R>{});
                static_assert(std::is_same_v<decltype(g), etl::dextents<std::size_t, R>>);
                done(c, "extents(Integrals...) deduction");
                check_ext(g, sh);
            }
            break;
        }
        case 1:
            if constexpr (RD != R) {
                ctor_all_values<E, Idx>(c, "extents(OtherIndexTypes...):N=rank");
                ctor_all_values<E, int>(c, "extents(OtherIndexTypes...):N=rank,int");
            } else {
                ctor_all_values<E, unsigned>(c, "extents(OtherIndexTypes...):N=rank_dynamic,unsigned");
            }
            break;
        case 2:
            ctor_array<E, RD, Idx>(c, "extents(array<T,N>):N=rank_dynamic");
            ctor_array<E, RD, I2>(c, "extents(array<T,N>):N=rank_dynamic,other-type");
            ctor_span<E, RD, Idx>(c, "extents(span<T,N>):N=rank_dynamic");
            ctor_span<E, RD, I2>(c, "extents(span<T,N>):N=rank_dynamic,other-type");
            break;
        case 3:
            if constexpr (RD != R) {
                ctor_array<E, R, Idx>(c, "extents(array<T,N>):N=rank");
                ctor_array<E, R, I2>(c, "extents(array<T,N>):N=rank,other-type");
            }
            break;
        case 4:
            if constexpr (RD != R) {
                ctor_span<E, R, Idx>(c, "extents(span<T,N>):N=rank");
                ctor_span<E, R, I2>(c, "extents(span<T,N>):N=rank,other-type");
            }
            break;
        case 5:
            // E <-> dextents
            convert<D, E>(c, "extents(extents<Other>):->all-dynamic", 1);
            if constexpr (RD != R) { convert<E, D>(c, "extents(extents<Other>):all-dynamic->this", 2); }
            break;
        case 6:
            [&]<std::size_t... Ks>(std::index_sequence<Ks...>) { (widen_narrow_at<E, Ks>(c), ...); }(std::make_index_sequence<R>{});
            break;
        case 7: {
            using E2 = typename reindex<E, I2, std::make_index_sequence<R>>::type;
            using E3 = typename reindex<E, I3, std::make_index_sequence<R>>::type;
            convert<E2, E>(c, "extents(extents<OtherIndexType>):to-other-index-type", 1);
            convert<E, E2>(c, "extents(extents<OtherIndexType>):from-other-index-type", 2);
            convert<E3, E>(c, "extents(extents<OtherIndexType>):to-other-signedness", 3);
            convert<E, E3>(c, "extents(extents<OtherIndexType>):from-other-signedness", 4);
            break;
        }
        case 8:
            // every other pattern of the same rank with compatible static extents (both directions are reached: the
            // reverse conversion is the same operation in the target pattern's own cases)
            for_each_target<Idx, VF_PLO + K * VF_PSTEP, VF_CONV_EXT>([&]<typename F, std::size_t GF>() {
                if (!shape_matches<F>(sh)) { return; } // precondition of the conversion
                if constexpr (F::rank_dynamic() == RD) {
                    convert<F, E>(c, "extents(extents<Other>):same-rank_dynamic,other-positions", GF);
                } else {
                    convert<F, E>(c, "extents(extents<Other>):other-static/dynamic-pattern", GF);
                }
            });
            break;
        default: break;
        }
    }
};

void run_case(vf::Case& c)
{
    Ctx x;
    std::size_t k   = 0;
    std::uint64_t s = 0;
    if (c.enumerated) {
        space().decode(c.index / NGROUP, k, s);
        x.group = (unsigned)(c.index % NGROUP);
        x.p     = &pinfos()[k];
        x.shape = shape_of(*x.p, s);
    } else {
        k       = (std::size_t)c.rng.below(NSEL);
        x.group = (unsigned)c.rng.below(NGROUP);
        x.p     = &pinfos()[k];
        x.shape = random_shape<Idx>(*x.p, c.rng, 9, 1);
    }
    // domain: the size of the index space is representable in the index type
    if (!fits<Idx>(product(x.shape, x.p->rank))) { return; }
    x.sit        = situation(*x.p, x.shape);
    x.desc       = show(x.shape, x.p->rank);
    x.h          = vf::mix(hash_arr(x.shape, x.p->rank, (VF_PLO + k * VF_PSTEP) * 131 + 17), x.group);
    x.nontrivial = x.p->rank > 0;
    {
        // a few concrete cases per pattern class (skip the degenerate all-zero shapes so the evidence shows real ones)
        std::string const lab = std::string("ext:") + x.p->cls;
        if ((x.p->rank == 0 || product(x.shape, x.p->rank) > 1) && vf::want_sample(lab.c_str())) {
            vf::sample(lab.c_str(), "extents<%s,%s> built for shape %s, operation group %u of 9 (all constructor/conversion forms of that group, extent(r) read back)", IDXN, x.p->name, x.desc.c_str(), x.group);
        }
    }
    begin(x, "setup:extents(OtherIndexTypes...):N=rank_dynamic"); // any fault before the first operation's own breadcrumb is the basic constructor's
    dispatch<Run>(k, x);
}
} // namespace

VF_MAIN("C19", "C19_ext_" VF_IDX_NAME, spec, run_case)
