// C06 - instantiations with iterator categories the standard admits but which are hard errors inside
// tetl on the unfixed tree (one probe per unit: -DC06_PROBE=k), so that such a failure is a keyed
// compile-failure record of its own instead of breaking a main unit.  Each probe is a full sweep.
#include "vf.hpp"
#include "vf_contract.hpp"
#include "vf_algo_tests.hpp"

#ifndef C06_PROBE
    #define C06_PROBE 1
#endif

namespace c06 {
#if C06_PROBE == 1
    #define C06_PROBE_NAME "search_n_fwd"
// search_n(ForwardIt...) with a forward iterator that is not a pointer
void t_probe(Ctx& c)
{
    k_search_n<KFwd>(c);
    k_search_n<KRa>(c);
}
#elif C06_PROBE == 2
    #define C06_PROBE_NAME "unique_copy_out"
// unique_copy into a write-only output iterator (input: single-pass and forward)
void t_probe(Ctx& c)
{
    k_unique_copy<KIn, OOut>(c);
    k_unique_copy<KFwd, OBack>(c);
    k_unique_copy<KIn, OPtr>(c);
}
#elif C06_PROBE == 3
    #define C06_PROBE_NAME "inplace_merge_bidi"
void t_probe(Ctx& c) { k_inplace_merge<KBidi>(c); }
#elif C06_PROBE == 4
    #define C06_PROBE_NAME "stable_partition_bidi"
void t_probe(Ctx& c) { k_stable_partition<KBidi>(c); }
#elif C06_PROBE == 5
    #define C06_PROBE_NAME "shift_right_fwd"
void t_probe(Ctx& c) { k_shift_right<KFwd>(c); }
#elif C06_PROBE == 6
    #define C06_PROBE_NAME "swap_array"
// etl::swap(T(&)[N], T(&)[N])
void t_probe(Ctx& c)
{
    std::size_t const n = c.a.size();
    if (n == 4) {
        Trial t(c, "array", "swap(T(&)[N],T(&)[N])", Pres::exact, "", 3, "-");
        Range<El> r(c.a, Pres::exact, true);
        using A2 = El[2];
        t.call([&] { etl::swap(*reinterpret_cast<A2*>(r.lo), *reinterpret_cast<A2*>(r.lo + 2)); });
        t.seq("arrays", r.get(), Seq{c.a[2], c.a[3], c.a[0], c.a[1]});
        t.done();
    }
}
#endif

Test const kTests[]         = {{C06_PROBE_NAME, t_probe}};
std::size_t const kNumTests = 1;
} // namespace c06

C06_MAIN("C06_probe_" C06_PROBE_NAME)
