// C13_elem.cpp - element-typed algorithm / container kernels through RAW POINTERS.
// The kernels of C13_kern.cpp use int elements only; a run-time-only, type-keyed fast path (memcmp / memchr /
// memmove / memset, SIMD-ish loops behind is_constant_evaluated() / if consteval) is invisible there.  Here every
// algorithm that compares, copies, searches or orders elements runs on E* / E const* ranges for
//   -DC13_ELEM=0 float   1 double   2 long double      value set: +0.0 -0.0 1 -1 denorm -denorm inf -inf 2.5 NaN
//              3 signed char   4 short                 negative values, byte order (memcmp ordering is wrong)
//              5 bool   6 char8_t   7 enum class : signed char   8 struct {key, tag} compared by key only
// Byte equality is not value equality (+0 == -0, NaN != NaN); byte order is not value order (negative / multi-byte).
// Equality-based kernels keep NaN rows; ordering-based kernels (strict weak ordering required) keep NaN out.
// Unstable sorts are digested insensitive to the relative position of +0 / -0 (equivalent elements).
#include "vf.hpp"
#include "vf_contract.hpp"

#include "vf_c13.hpp"

#include <etl/algorithm.hpp>
#include <etl/array.hpp>
#include <etl/functional.hpp>
#include <etl/iterator.hpp>
#include <etl/string_view.hpp>
#include <etl/utility.hpp>
#include <etl/vector.hpp>

#include <bit>

#ifndef C13_ELEM
    #define C13_ELEM 0
#endif

namespace {
using namespace c13;

enum class E8 : signed char {};
// trivially copyable, padding-free struct whose == and ordering look at the key only: two objects can be equal with
// different bytes (like +0.0 / -0.0) and byte order is not value order - what a fast path keyed on
// is_trivially_copyable / has_unique_object_representations (instead of the element type) gets wrong
struct KT {
    signed char key;
    signed char tag;
    friend constexpr bool operator==(KT const& l, KT const& r) { return l.key == r.key; }
    friend constexpr auto operator<=>(KT const& l, KT const& r) { return l.key <=> r.key; }
};

#if C13_ELEM == 0
using E                        = float;
constexpr char const* ename    = "float";
#elif C13_ELEM == 1
using E                        = double;
constexpr char const* ename    = "double";
#elif C13_ELEM == 2
using E                        = long double;
constexpr char const* ename    = "long double";
#elif C13_ELEM == 3
using E                        = signed char;
constexpr char const* ename    = "signed char";
#elif C13_ELEM == 4
using E                        = short;
constexpr char const* ename    = "short";
#elif C13_ELEM == 5
using E                        = bool;
constexpr char const* ename    = "bool";
#elif C13_ELEM == 6
using E                        = char8_t;
constexpr char const* ename    = "char8_t";
#elif C13_ELEM == 7
using E                        = E8;
constexpr char const* ename    = "enum:signed char";
#else
using E                        = KT;
constexpr char const* ename    = "struct{key,tag}";
#endif
constexpr bool is_fp = std::is_floating_point_v<E>;

// ------------------------------------------------------------------ values by code
constexpr char const* code_name(int c)
{
    if constexpr (is_fp) {
        constexpr char const* n[] = {"+0", "-0", "1", "-1", "+denorm", "-denorm", "+inf", "-inf", "2.5", "nan"};
        return n[c];
    } else {
        constexpr char const* n[] = {"v0", "v0'", "v1", "v-1", "v2", "v-2", "vmax", "vmin", "v5", "v-5"};
        return n[c];
    }
}
// (templates on T = E so that `if constexpr` discards the branches that do not apply to the element type)
template <typename T = E>
constexpr T val(int c)
{
    if constexpr (std::is_floating_point_v<T>) {
        using LE      = std::numeric_limits<T>;
        // float: its own smallest denormal; double / long double: double's (so every value is double-representable)
        T const dn    = std::is_same_v<T, float> ? LE::denorm_min() : static_cast<T>(std::numeric_limits<double>::denorm_min());
        T const tab[] = {T(0), -T(0), T(1), T(-1), dn, -dn, LE::infinity(), -LE::infinity(), T(2.5), LE::quiet_NaN()};
        return tab[c];
    } else if constexpr (std::is_same_v<T, bool>) {
        return c >= 2 && (c & 1) == 0; // v0, v0' -> false; then alternating
    } else if constexpr (std::is_same_v<T, signed char>) {
        constexpr signed char tab[] = {0, 0, 1, -1, 2, -2, 127, -128, 5, -5};
        return tab[c];
    } else if constexpr (std::is_same_v<T, short>) {
        constexpr short tab[] = {0, 0, 1, -1, 256, -256, 32767, -32768, 255, -255};
        return tab[c];
    } else if constexpr (std::is_same_v<T, char8_t>) {
        constexpr char8_t tab[] = {0, 0, 1, 0xFF, 2, 0xFE, 0x7F, 0x80, u8'a', 0xE9};
        return tab[c];
    } else if constexpr (std::is_same_v<T, KT>) {
        // v0 and v0' are EQUAL (same key) but have different bytes (tag)
        constexpr KT tab[] = {{0, 1}, {0, 2}, {1, 0}, {-1, 0}, {2, 0}, {-2, 0}, {127, 0}, {-128, 0}, {5, 3}, {-5, 3}};
        return tab[c];
    } else {
        constexpr signed char tab[] = {0, 0, 1, -1, 2, -2, 127, -128, 5, -5};
        return static_cast<T>(tab[c]);
    }
}

struct EArg {
    E a[8];
    E b[8];
    E k;
    int n;     // valid prefix of a and b
    int row;   // which base row
    int bvar;  // how b was derived from a
    int kcode; // code of k
};
constexpr int n_rows                  = 7;
constexpr char const* row_names[]     = {"all-kinds", "equal-runs", "ascending-codes", "descending", "with-nan", "all-same", "zeros-only"};
constexpr int rows[n_rows][8]         = {
    {0, 1, 2, 3, 4, 5, 6, 7}, // one of each (no NaN)
    {2, 2, 0, 1, 1, 0, 8, 8}, // runs of equal values, +0/-0 adjacent
    {7, 3, 5, 1, 0, 4, 2, 6}, // ascending for floating point
    {6, 8, 2, 0, 1, 3, 7, 7}, // descending for floating point
    {9, 2, 0, 9, 1, 8, 9, 3}, // NaN rows: equality-based kernels only
    {8, 8, 8, 8, 8, 8, 8, 8},
    {1, 1, 1, 0, 0, 0, 1, 0},
};
constexpr char const* bvar_names[] = {"b=a", "b=a-with-zero-signs-flipped", "b=a-last-differs", "b=reverse(a)"};
constexpr int ns[]                 = {0, 1, 3, 8};
constexpr int kcodes[]             = {0, 1, 2, 9, 6};
constexpr auto build_table()
{
    std::array<EArg, n_rows * 4 * 4 * 5> t{};
    std::size_t o = 0;
    for (int r = 0; r < n_rows; ++r) {
        for (int bv = 0; bv < 4; ++bv) {
            for (int n : ns) {
                for (int kc : kcodes) {
                    EArg p{};
                    for (int i = 0; i < 8; ++i) { p.a[i] = val(rows[r][i]); }
                    for (int i = 0; i < 8; ++i) {
                        int c = rows[r][i];
                        if (bv == 1 && c <= 1) { c = 1 - c; }
                        if (bv == 3) { c = rows[r][7 - i]; }
                        p.b[i] = val(c);
                    }
                    if (bv == 2 && n > 0) { p.b[n - 1] = val(rows[r][n - 1] == 8 ? 2 : 8); }
                    p.k     = val(kc);
                    p.n     = n;
                    p.row   = r;
                    p.bvar  = bv;
                    p.kcode = kc;
                    t[o++]  = p;
                }
            }
        }
    }
    return t;
}
inline constexpr auto tabE = build_table();

template <typename T = E>
constexpr bool is_nan_e(T x)
{
    if constexpr (std::is_floating_point_v<T>) {
        return x != x;
    } else {
        return false;
    }
}
constexpr bool has_nan(EArg const& p)
{
    for (int i = 0; i < 8; ++i) {
        if (is_nan_e(p.a[i]) || is_nan_e(p.b[i])) { return true; }
    }
    return is_nan_e(p.k);
}

struct ClsE {
    static char const* sit(EArg const& p)
    {
        static char buf[120];
        std::snprintf(buf, sizeof buf, "%s,%s,%s,k=%s", row_names[p.row], bvar_names[p.bvar], p.n == 0 ? "n=0" : p.n == 1 ? "n=1" : p.n == 8 ? "n=8" : "n=3",
            code_name(p.kcode));
        return buf;
    }
    template <typename T = E>
    static std::string one(T x)
    {
        if constexpr (std::is_floating_point_v<T>) {
            return fmt_fp(x);
        } else if constexpr (std::is_same_v<T, KT>) {
            return "{" + std::to_string((int)x.key) + "," + std::to_string((int)x.tag) + "}";
        } else {
            return std::to_string(static_cast<long long>(x));
        }
    }
    static std::string show(EArg const& p)
    {
        std::string s = "a={";
        for (int i = 0; i < p.n; ++i) { s += (i ? "," : "") + one(p.a[i]); }
        s += "} b={";
        for (int i = 0; i < p.n; ++i) { s += (i ? "," : "") + one(p.b[i]); }
        return s + "} k=" + one(p.k);
    }
    static std::uint64_t hash(EArg const& p) { return vf::mix(vf::mix(vf::mix((std::uint64_t)p.row, (std::uint64_t)p.bvar), (std::uint64_t)p.n), (std::uint64_t)p.kcode); }
    static void const* arg0(EArg const&) { return nullptr; }
};

// ------------------------------------------------------------------ digest
// canonical integer image of an element: bit pattern (distinguishes +0 / -0), every NaN the same tag;
// zi = insensitive to the sign of zero (for results whose order among equivalent elements is unspecified)
template <typename T = E>
constexpr long long canon(T x, bool zi)
{
    if constexpr (std::is_floating_point_v<T>) {
        if (x != x) { return 0x7ff8dead; }
        if (x == T(0)) { return zi ? 0 : (__builtin_signbit(x) ? -0x4000000000000000LL : 0); }
        if constexpr (std::is_same_v<T, float>) {
            return std::bit_cast<std::int32_t>(x);
        } else {
            return std::bit_cast<std::int64_t>(static_cast<double>(x)); // table values are double-representable
        }
    } else if constexpr (std::is_same_v<T, KT>) {
        return zi ? static_cast<long long>(x.key) : static_cast<long long>(x.key) * 256 + x.tag;
    } else {
        return static_cast<long long>(x);
    }
}
struct Acc {
    std::uint64_t h = 0xcbf29ce484222325ull;
    bool zi         = false;
    constexpr void add(long long v) { h = (h ^ static_cast<std::uint64_t>(v)) * 0x100000001b3ull + 0x9E37ull; }
    constexpr void elem(E x) { add(canon(x, zi)); }
    template <typename It>
    constexpr void range(It f, It l)
    {
        add(0x7777);
        for (; f != l; ++f) { elem(*f); }
    }
};
using D2 = Digest<2>;

// kernel skeleton.  ca/cb: E const* into the argument (read-only ranges), va/vb: mutable copies, w: 16 scratch slots.
// ORD: the kernel needs a strict weak ordering / equivalence relation -> rows containing NaN are out of its domain.
// The body accumulates element results into `acc` itself; va, vb and w are NOT digested implicitly (moved-from /
// unspecified tails must not enter the digest).
#define EKERNEL(ID, NAME, ORD, ...)                                                                                    \
    struct ID {                                                                                                        \
        static constexpr char const* name = NAME;                                                                      \
        static bool in_domain(EArg const& p) { return !(ORD) || !has_nan(p); }                                         \
        constexpr auto operator()(EArg const& p) const                                                                 \
        {                                                                                                              \
            E va[8] = {p.a[0], p.a[1], p.a[2], p.a[3], p.a[4], p.a[5], p.a[6], p.a[7]};                                \
            E vb[8] = {p.b[0], p.b[1], p.b[2], p.b[3], p.b[4], p.b[5], p.b[6], p.b[7]};                                \
            E w[16]{};                                                                                                 \
            [[maybe_unused]] E const* const ca = p.a;                                                                  \
            [[maybe_unused]] E const* const cb = p.b;                                                                  \
            [[maybe_unused]] int const n       = p.n;                                                                  \
            [[maybe_unused]] E const k         = p.k;                                                                  \
            [[maybe_unused]] int const m       = n < 2 ? n : 2;                                                        \
            Acc acc;                                                                                                   \
            long long ret = 0;                                                                                         \
            __VA_ARGS__;                                                                                               \
            static_cast<void>(va);                                                                                     \
            static_cast<void>(vb);                                                                                     \
            static_cast<void>(w);                                                                                      \
            return D2{{acc.h, static_cast<std::uint64_t>(ret)}};                                                       \
        }                                                                                                              \
    };

// ---- equality-based (NaN rows included)
EKERNEL(K_equal, "equal", false, {
    ret = (etl::equal(ca, ca + n, cb) ? 1 : 0) | (etl::equal(va, va + n, vb) ? 2 : 0) | (etl::equal(ca, ca + n, vb) ? 4 : 0)
        | (etl::equal(ca, ca + n, cb, cb + n) ? 8 : 0) | (etl::equal(va, va + n, vb, vb + (n > 0 ? n - 1 : 0)) ? 16 : 0)
        | (etl::equal(ca, ca + n, cb, etl::equal_to{}) ? 32 : 0) | (etl::equal(ca, ca + n, ca) ? 64 : 0) | (etl::equal(va, va + n, ca) ? 128 : 0);
})
EKERNEL(K_mismatch, "mismatch", false, {
    auto m3 = etl::mismatch(ca, ca + n, cb);
    auto m4 = etl::mismatch(va, va + n, vb, vb + n);
    auto ms = etl::mismatch(ca, ca + n, ca);
    ret     = (m3.first - ca) * 1000 + (m3.second - cb) * 100 + (m4.first - va) * 10 + (ms.first - ca);
})
EKERNEL(K_find_count, "find/find_if/count/count_if", false, {
    ret = (etl::find(ca, ca + n, k) - ca) * 100000 + (etl::find(vb, vb + n, k) - vb) * 10000 + etl::count(ca, ca + n, k) * 1000 + etl::count(vb, vb + n, k) * 100
        + (etl::find_if(ca, ca + n, [k](E x) { return x == k; }) - ca) * 10 + etl::count_if(ca, ca + n, [k](E x) { return x == k; });
})
EKERNEL(K_search, "search/find_end/find_first_of/search_n/adjacent_find", false, {
    ret = (etl::search(ca, ca + n, cb, cb + m) - ca);
    ret = ret * 10 + (etl::find_end(ca, ca + n, cb, cb + m) - ca);
    ret = ret * 10 + (etl::find_first_of(ca, ca + n, cb + (n - m), cb + n) - ca);
    ret = ret * 10 + (etl::search_n(ca, ca + n, 2, k) - ca);
    ret = ret * 10 + (etl::search_n(va, va + n, 1, k) - va);
    ret = ret * 10 + (etl::adjacent_find(ca, ca + n) - ca);
    ret = ret * 10 + (etl::search(va, va + n, va, va + m) - va);
})
EKERNEL(K_unique, "unique/unique_copy", false, {
    ret    = (etl::unique_copy(ca, ca + n, w) - w) * 10;
    auto u = etl::unique(va, va + n);
    ret += u - va;
    acc.range(va, u);
    acc.range(w, w + 8);
})
EKERNEL(K_remove, "remove/remove_if/remove_copy/remove_copy_if", false, {
    auto r1 = etl::remove_copy(ca, ca + n, w, k);
    auto r2 = etl::remove_copy_if(cb, cb + n, w + 8, [k](E x) { return x == k; });
    acc.range(w, r1);
    acc.range(w + 8, r2);
    auto r3 = etl::remove(va, va + n, k);
    acc.range(va, r3);
    auto r4 = etl::remove_if(vb, vb + n, [k](E x) { return x == k; });
    acc.range(vb, r4);
    ret = (r1 - w) * 1000 + (r2 - (w + 8)) * 100 + (r3 - va) * 10 + (r4 - vb);
})
EKERNEL(K_replace, "replace/replace_if", false, {
    etl::replace(va, va + n, k, p.b[7]);
    etl::replace_if(vb, vb + n, [k](E x) { return x == k; }, p.a[7]);
    acc.range(va, va + 8);
    acc.range(vb, vb + 8);
})
EKERNEL(K_copy, "copy/copy_n/copy_if/copy_backward/reverse_copy/rotate_copy", false, {
    ret = (etl::copy(ca, ca + n, w) - w);
    ret = ret * 10 + (etl::copy_n(cb, n, w + 8) - (w + 8));
    acc.range(w, w + 16);
    ret = ret * 10 + (etl::copy_if(ca, ca + n, w, [k](E x) { return !(x == k); }) - w);
    etl::copy_backward(cb, cb + n, w + 16);
    acc.range(w, w + 16);
    ret = ret * 10 + (etl::reverse_copy(ca, ca + n, w) - w);
    ret = ret * 10 + (etl::rotate_copy(cb, cb + n / 2, cb + n, w + 8) - (w + 8));
    acc.range(w, w + 16);
})
EKERNEL(K_move_fill, "move/move_backward/fill/fill_n/swap_ranges/iter_swap/reverse/rotate", false, {
    ret = (etl::move(va, va + n, w) - w) * 10;
    ret += (etl::move_backward(vb, vb + n, w + 16) - w);
    acc.range(w, w + 16);
    etl::fill(va, va + n, k);
    auto f = etl::fill_n(w, n, k);
    ret    = ret * 10 + (f - w);
    acc.range(va, va + 8);
    acc.range(w, w + 16);
    E x[8] = {p.a[0], p.a[1], p.a[2], p.a[3], p.a[4], p.a[5], p.a[6], p.a[7]};
    E y[8] = {p.b[0], p.b[1], p.b[2], p.b[3], p.b[4], p.b[5], p.b[6], p.b[7]};
    ret    = ret * 10 + (etl::swap_ranges(x, x + n, y) - y);
    if (n >= 2) { etl::iter_swap(x, x + n - 1); }
    etl::reverse(y, y + n);
    ret = ret * 10 + (etl::rotate(x, x + n / 2, x + n) - x);
    acc.range(x, x + 8);
    acc.range(y, y + 8);
})
EKERNEL(K_shift, "shift_left/shift_right", false, {
    auto l = etl::shift_left(va, va + n, n / 2);
    acc.range(va, l);
    auto r = etl::shift_right(vb, vb + n, n / 2);
    acc.range(r, vb + n);
    ret = (l - va) * 10 + (r - vb);
})
EKERNEL(K_array_eq, "array ==/!=, static_vector ==/!=", false, {
    etl::array<E, 8> A{};
    etl::array<E, 8> B{};
    etl::static_vector<E, 8> V;
    etl::static_vector<E, 8> W;
    for (int i = 0; i < 8; ++i) {
        A[static_cast<etl::size_t>(i)] = ca[i];
        B[static_cast<etl::size_t>(i)] = (i < n) ? cb[i] : ca[i]; // equal beyond the prefix
    }
    for (int i = 0; i < n; ++i) {
        V.push_back(ca[i]);
        W.push_back(cb[i]);
    }
    ret = (A == B ? 1 : 0) | (A != B ? 2 : 0) | (V == W ? 4 : 0) | (V != W ? 8 : 0) | (A == A ? 16 : 0) | (V == V ? 32 : 0);
    A.fill(k);
    acc.range(A.begin(), A.end());
    A.swap(B);
    acc.range(A.begin(), A.end());
    etl::static_vector<E, 8> C = W;
    acc.range(C.begin(), C.end());
    if (n > 0) {
        C.erase(C.begin());
        acc.range(C.begin(), C.end());
    }
    if (n < 8) {
        C.insert(C.begin(), k);
        acc.range(C.begin(), C.end());
    }
    C.assign(static_cast<etl::size_t>(n), k);
    acc.range(C.begin(), C.end());
})

// ---- ordering-based (no NaN)
EKERNEL(K_lexcmp, "lexicographical_compare", true, {
    ret = (etl::lexicographical_compare(ca, ca + n, cb, cb + n) ? 1 : 0) | (etl::lexicographical_compare(cb, cb + n, ca, ca + n) ? 2 : 0)
        | (etl::lexicographical_compare(va, va + n, vb, vb + (n > 0 ? n - 1 : 0)) ? 4 : 0) | (etl::lexicographical_compare(ca, ca + m, cb, cb + n) ? 8 : 0)
        | (etl::lexicographical_compare(ca, ca + n, ca, ca + n) ? 16 : 0) | (etl::lexicographical_compare(ca, ca + n, cb, cb + n, etl::greater{}) ? 32 : 0);
})
EKERNEL(K_minmax_element, "min_element/max_element/minmax_element", true, {
    auto mm = etl::minmax_element(ca, ca + n);
    ret     = (etl::min_element(ca, ca + n) - ca) * 1000 + (etl::max_element(ca, ca + n) - ca) * 100 + (mm.first - ca) * 10 + (mm.second - ca);
    ret     = ret * 100 + (etl::min_element(vb, vb + n, etl::greater{}) - vb) * 10 + (etl::max_element(vb, vb + n, etl::greater{}) - vb);
})
EKERNEL(K_minmax_value, "min/max/minmax/clamp", true, {
    acc.elem(etl::min(p.a[0], k));
    acc.elem(etl::min(k, p.a[0]));
    acc.elem(etl::max(p.a[1], k));
    acc.elem(etl::max(k, p.a[1]));
    auto mm = etl::minmax(p.a[2], k);
    acc.elem(mm.first);
    acc.elem(mm.second);
    E const lo = etl::min(p.a[3], k);
    E const hi = etl::max(p.a[3], k);
    acc.elem(etl::clamp(p.b[4], lo, hi));
    acc.elem(etl::clamp(p.b[5], lo, hi));
})
EKERNEL(K_is_sorted, "is_sorted/is_sorted_until/is_partitioned/partition_point/is_permutation", true, {
    ret = (etl::is_sorted(ca, ca + n) ? 1 : 0) | (etl::is_sorted(cb, cb + n, etl::greater{}) ? 2 : 0) | (etl::is_permutation(ca, ca + n, cb) ? 4 : 0)
        | (etl::is_permutation(va, va + n, vb, vb + n) ? 8 : 0);
    ret      = ret * 10 + (etl::is_sorted_until(ca, ca + n) - ca);
    auto lt  = [k](E x) { return x < k; };
    bool ip  = etl::is_partitioned(ca, ca + n, lt);
    ret      = ret * 100 + (ip ? 10 + (etl::partition_point(ca, ca + n, lt) - ca) : 0);
})
EKERNEL(K_bounds, "lower_bound/upper_bound/equal_range/binary_search/includes", true, {
    etl::stable_sort(va, va + n);
    etl::stable_sort(vb, vb + n);
    auto er = etl::equal_range(va, va + n, k);
    ret     = (etl::lower_bound(va, va + n, k) - va) * 1000 + (etl::upper_bound(va, va + n, k) - va) * 100 + (er.first - va) * 10 + (er.second - va);
    ret     = ret * 8 + (etl::binary_search(va, va + n, k) ? 1 : 0) + (etl::includes(va, va + n, vb, vb + m) ? 2 : 0) + (etl::includes(vb, vb + n, va, va + n) ? 4 : 0);
})
EKERNEL(K_sort_unstable, "sort/partial_sort/nth_element/insertion_sort/bubble_sort/gnome_sort/merge_sort/exchange_sort", true, {
    acc.zi = true; // the relative order of +0 / -0 (equivalent) is unspecified
    etl::sort(va, va + n);
    acc.range(va, va + n);
    etl::sort(vb, vb + n, etl::greater{});
    acc.range(vb, vb + n);
    E t[8] = {p.a[0], p.a[1], p.a[2], p.a[3], p.a[4], p.a[5], p.a[6], p.a[7]};
    etl::partial_sort(t, t + m, t + n);
    acc.range(t, t + m);
    E q[8] = {p.b[0], p.b[1], p.b[2], p.b[3], p.b[4], p.b[5], p.b[6], p.b[7]};
    if (n > 0) {
        etl::nth_element(q, q + n / 2, q + n);
        acc.elem(q[n / 2]);
    }
    E s1[8] = {p.a[0], p.a[1], p.a[2], p.a[3], p.a[4], p.a[5], p.a[6], p.a[7]};
    etl::insertion_sort(s1, s1 + n);
    acc.range(s1, s1 + n);
    E s2[8] = {p.b[0], p.b[1], p.b[2], p.b[3], p.b[4], p.b[5], p.b[6], p.b[7]};
    etl::bubble_sort(s2, s2 + n);
    acc.range(s2, s2 + n);
    E s3[8] = {p.a[0], p.a[1], p.a[2], p.a[3], p.a[4], p.a[5], p.a[6], p.a[7]};
    etl::gnome_sort(s3, s3 + n);
    acc.range(s3, s3 + n);
    E s4[8] = {p.b[0], p.b[1], p.b[2], p.b[3], p.b[4], p.b[5], p.b[6], p.b[7]};
    etl::merge_sort(s4, s4 + n);
    acc.range(s4, s4 + n);
    E s5[8] = {p.a[0], p.a[1], p.a[2], p.a[3], p.a[4], p.a[5], p.a[6], p.a[7]};
    if (n > 0) { etl::exchange_sort(s5, s5 + n); }
    acc.range(s5, s5 + n);
})
EKERNEL(K_stable, "stable_sort/stable_partition/partition", true, {
    etl::stable_sort(va, va + n);
    acc.range(va, va + n); // stable: +0 / -0 keep their input order -> bit-exact
    etl::stable_sort(vb, vb + n, etl::greater{});
    acc.range(vb, vb + n);
    auto lt  = [k](E x) { return x < k; };
    E t[8]   = {p.a[0], p.a[1], p.a[2], p.a[3], p.a[4], p.a[5], p.a[6], p.a[7]};
    auto sp  = etl::stable_partition(t, t + n, lt);
    acc.range(t, t + n);
    E q[8]   = {p.b[0], p.b[1], p.b[2], p.b[3], p.b[4], p.b[5], p.b[6], p.b[7]};
    auto pp  = etl::partition(q, q + n, lt);
    ret      = (sp - t) * 10 + (pp - q);
    bool ok  = etl::all_of(q, pp, lt) && etl::none_of(pp, q + n, lt);
    ret      = ret * 2 + (ok ? 1 : 0);
})
EKERNEL(K_merge, "merge/inplace_merge", true, {
    etl::stable_sort(va, va + n);
    etl::stable_sort(vb, vb + n);
    ret = etl::merge(va, va + n, vb, vb + n, w) - w;
    acc.range(w, w + 16);
    E t[8] = {p.a[0], p.a[1], p.a[2], p.a[3], p.a[4], p.a[5], p.a[6], p.a[7]};
    etl::stable_sort(t, t + n / 2);
    etl::stable_sort(t + n / 2, t + n);
    etl::inplace_merge(t, t + n / 2, t + n);
    acc.zi = true; // inplace_merge's stability is not relied upon
    acc.range(t, t + n);
})
EKERNEL(K_setops, "set_union/set_intersection/set_difference/set_symmetric_difference", true, {
    etl::stable_sort(va, va + n);
    etl::stable_sort(vb, vb + n);
    E u1[16]{};
    E u2[16]{};
    E u3[16]{};
    auto e0 = etl::set_union(va, va + n, vb, vb + n, w);
    auto e1 = etl::set_intersection(va, va + n, vb, vb + n, u1);
    auto e2 = etl::set_difference(va, va + n, vb, vb + n, u2);
    auto e3 = etl::set_symmetric_difference(va, va + n, vb, vb + n, u3);
    acc.range(w, e0);
    acc.range(u1, e1);
    acc.range(u2, e2);
    acc.range(u3, e3);
    ret = (e0 - w) * 1000 + (e1 - u1) * 100 + (e2 - u2) * 10 + (e3 - u3);
})
EKERNEL(K_array_ord, "array </<=/>/>=, static_vector </<=", true, {
    etl::array<E, 8> A{};
    etl::array<E, 8> B{};
    etl::static_vector<E, 8> V;
    etl::static_vector<E, 8> W;
    for (int i = 0; i < 8; ++i) {
        A[static_cast<etl::size_t>(i)] = ca[i];
        B[static_cast<etl::size_t>(i)] = (i < n) ? cb[i] : ca[i];
    }
    for (int i = 0; i < n; ++i) {
        V.push_back(ca[i]);
        W.push_back(cb[i]);
    }
    if (n > 0) { W.pop_back(); }
    ret = (A < B ? 1 : 0) | (A <= B ? 2 : 0) | (A > B ? 4 : 0) | (A >= B ? 8 : 0) | (V < W ? 16 : 0) | (V <= W ? 32 : 0) | (W < V ? 64 : 0);
})
#if C13_ELEM == 6
EKERNEL(K_u8sv, "u8string_view compare/find", true, {
    etl::u8string_view const s{ca, static_cast<etl::size_t>(n)};
    etl::u8string_view const t{cb, static_cast<etl::size_t>(n)};
    etl::u8string_view const nd{cb, static_cast<etl::size_t>(m)};
    int const c = s.compare(t);
    ret         = (c < 0 ? 1 : c > 0 ? 2 : 0) | (s == t ? 4 : 0) | (s < t ? 8 : 0) | (s.starts_with(nd) ? 16 : 0) | (s.ends_with(nd) ? 32 : 0);
    acc.add(static_cast<long long>(s.find(nd)));
    acc.add(static_cast<long long>(s.find(k)));
    acc.add(static_cast<long long>(s.rfind(k)));
    acc.add(static_cast<long long>(s.find_first_of(nd)));
    acc.add(static_cast<long long>(s.find_first_not_of(nd)));
    acc.add(static_cast<long long>(s.find_last_of(nd)));
})
#endif

#define EK(F) make_entry<F, tabE, ClsE, 40>(std::string(F::name) + "<" + ename + ">")

std::vector<Entry> const& entries()
{
    static std::vector<Entry> const es = {
        EK(K_equal), EK(K_mismatch), EK(K_find_count), EK(K_search), EK(K_unique), EK(K_remove), EK(K_replace), EK(K_copy), EK(K_move_fill), EK(K_shift),
        EK(K_array_eq), EK(K_lexcmp), EK(K_minmax_element), EK(K_minmax_value), EK(K_is_sorted), EK(K_bounds), EK(K_sort_unstable), EK(K_stable),
        EK(K_merge), EK(K_setops), EK(K_array_ord),
#if C13_ELEM == 6
        EK(K_u8sv),
#endif
    };
    return es;
}

vf::Spec spec(vf::Tier)
{
    vf::Spec s;
    s.n_enum     = total_cases(entries());
    s.n_random   = 0;
    s.batch      = 1;
    s.exhaustive = true;
    return s;
}
void run_case(vf::Case& c) { run_case_index(entries(), c.index); }

} // namespace

VF_MAIN("C13", "C13_elem", spec, run_case)
