// C06 - random-access iterators that are NOT contiguous: etl::reverse_iterator<T*> and a strided random-access
//       iterator (every element is followed by a gap object that must stay untouched), for source and/or
//       destination, with a trivially copyable element (int) and a class element (El).  A fast path keyed on the
//       iterator *category* (memmove / memcmp / pointer arithmetic on addressof(*it)) is only visible here:
//       the ra_it wrapper of vf_iter.hpp is a class type but walks contiguous memory in storage order.
// -DC06_NC_PART=1: int elements   =2: El elements
#include "vf.hpp"
#include "vf_contract.hpp"
#include "vf_algo_tests.hpp"

#ifndef C06_NC_PART
    #define C06_NC_PART 1
#endif

namespace c06 {

// ------------------------------------------------------------------ strided random access iterator (bounds-checked)
template <typename T>
struct stride_it {
    using iterator_category = etl::random_access_iterator_tag;
    using value_type        = std::remove_cv_t<T>;
    using difference_type   = std::ptrdiff_t;
    using pointer           = T*;
    using reference         = T&;
    T* base                 = nullptr; // element i lives at base[2 * i + 1]
    std::ptrdiff_t i        = 0;
    std::ptrdiff_t n        = 0;
    stride_it()             = default;
    stride_it(T* b, std::ptrdiff_t idx, std::ptrdiff_t len) : base(b), i(idx), n(len) { }
    T* addr() const
    {
        if (base == nullptr || i < 0 || i >= n) {
            vi::violation(i == n ? "iter:deref-at-end" : "iter:deref-outside-range");
            return &vi::dummy<T>();
        }
        return base + 2 * i + 1;
    }
    void step(difference_type k)
    {
        if (i + k < 0) {
            vi::violation("iter:dec-before-begin");
            i = 0;
        } else if (i + k > n) {
            vi::violation("iter:inc-past-end");
            i = n;
        } else {
            i += k;
        }
    }
    reference operator*() const { return *addr(); }
    pointer operator->() const { return addr(); }
    reference operator[](difference_type k) const
    {
        stride_it t = *this;
        t.step(k);
        return *t;
    }
    stride_it& operator++()
    {
        step(1);
        return *this;
    }
    stride_it operator++(int)
    {
        stride_it t = *this;
        step(1);
        return t;
    }
    stride_it& operator--()
    {
        step(-1);
        return *this;
    }
    stride_it operator--(int)
    {
        stride_it t = *this;
        step(-1);
        return t;
    }
    stride_it& operator+=(difference_type k)
    {
        step(k);
        return *this;
    }
    stride_it& operator-=(difference_type k)
    {
        step(-k);
        return *this;
    }
    friend stride_it operator+(stride_it a, difference_type k)
    {
        a.step(k);
        return a;
    }
    friend stride_it operator+(difference_type k, stride_it a)
    {
        a.step(k);
        return a;
    }
    friend stride_it operator-(stride_it a, difference_type k)
    {
        a.step(-k);
        return a;
    }
    friend difference_type operator-(stride_it const& a, stride_it const& b)
    {
        if (a.base != b.base) { vi::violation("iter:compare-different-ranges"); }
        return a.i - b.i;
    }
    friend bool operator==(stride_it const& a, stride_it const& b) { return a.i == b.i && a.base == b.base; }
    friend bool operator!=(stride_it const& a, stride_it const& b) { return !(a == b); }
    friend bool operator<(stride_it const& a, stride_it const& b) { return a.i < b.i; }
    friend bool operator>(stride_it const& a, stride_it const& b) { return a.i > b.i; }
    friend bool operator<=(stride_it const& a, stride_it const& b) { return a.i <= b.i; }
    friend bool operator>=(stride_it const& a, stride_it const& b) { return a.i >= b.i; }
};

// ------------------------------------------------------------------ element helpers (int / El)
inline int key_of(int x) { return x; }
inline int key_of(El const& e) { return e.key; }
template <typename T>
T elem(El const& e);
template <>
inline int elem<int>(El const& e)
{
    return (e.key + 1) * 7;
}
template <>
inline El elem<El>(El const& e)
{
    return e;
}
template <typename T>
std::vector<T> elems(Seq const& s)
{
    std::vector<T> v;
    for (auto const& e : s) { v.push_back(elem<T>(e)); }
    return v;
}
inline std::string shw(std::vector<int> const& v) { return show(std::vector<long long>(v.begin(), v.end())); }
inline std::string shw(Seq const& v) { return show(v); }
template <typename T>
bool same(Trial& t, char const* name, std::vector<T> const& obs, std::vector<T> const& exp)
{
    if (!t.clean) { return true; }
    bool ok = obs.size() == exp.size();
    for (std::size_t i = 0; ok && i < obs.size(); ++i) { ok = same_obj(obs[i], exp[i]); }
    if (ok) { return true; }
    char sym[96];
    std::snprintf(sym, sizeof sym, "%s:%s", name, obs.size() != exp.size() ? "length" : "values-differ");
    vf::diverge(sym, shw(obs), shw(exp));
    return false;
}
struct LessKey {
    template <typename T>
    bool operator()(T const& a, T const& b) const
    {
        return key_of(a) < key_of(b);
    }
};
struct EvenKey {
    template <typename T>
    bool operator()(T const& a) const
    {
        return (key_of(a) & 1) == 0;
    }
};

// ------------------------------------------------------------------ views: how a logical sequence is laid out and walked
template <typename T>
struct PtrView {
    static constexpr char const* name = "ptr";
    using iter                        = T*;
    Range<T> r;
    PtrView(std::vector<T> const& v, Pres p) : r(v, p, true) { }
    iter it(std::size_t i) { return r.lo ? r.lo + i : nullptr; }
    long idx(iter x) { return x - r.lo; }
    std::vector<T> get() { return r.get(); }
    void check(Trial& t, char const* what) { t.guards(r, what); }
};
template <typename T>
struct RevView { // storage holds the sequence backwards; logical position i is reverse_iterator(hi - i)
    static constexpr char const* name = "reverse_iterator<ptr>";
    using iter                        = etl::reverse_iterator<T*>;
    Range<T> r;
    static std::vector<T> rev(std::vector<T> v)
    {
        std::reverse(v.begin(), v.end());
        return v;
    }
    RevView(std::vector<T> const& v, Pres p) : r(rev(v), p, true) { }
    iter it(std::size_t i) { return iter(r.hi ? r.hi - i : nullptr); }
    long idx(iter x) { return r.hi - x.base(); }
    std::vector<T> get() { return rev(r.get()); }
    void check(Trial& t, char const* what) { t.guards(r, what); }
};
template <typename T>
struct StrideView { // gap e0 gap e1 ... e(n-1) gap : 2n+1 objects in an exact-size block
    static constexpr char const* name = "stride_it";
    using iter                        = stride_it<T>;
    vf::Buf<T> buf;
    std::size_t n;
    StrideView(std::vector<T> const& v, Pres) : buf(2 * v.size() + 1), n(v.size())
    {
        for (std::size_t i = 0; i <= n; ++i) { new (buf.data() + 2 * i) T(guard_value<T>((int)(i & 3))); }
        for (std::size_t i = 0; i < n; ++i) { new (buf.data() + 2 * i + 1) T(v[i]); }
        vi::add_block(buf.data(), buf.data() + buf.size());
        vi::add_handed(buf.data(), buf.data() + buf.size(), true);
    }
    iter it(std::size_t i) { return iter(buf.data(), (std::ptrdiff_t)i, (std::ptrdiff_t)n); }
    long idx(iter x) { return (long)x.i; }
    std::vector<T> get()
    {
        std::vector<T> v;
        for (std::size_t i = 0; i < n; ++i) { v.push_back(buf.data()[2 * i + 1]); }
        return v;
    }
    void check(Trial&, char const* what)
    {
        for (std::size_t i = 0; i <= n; ++i) {
            if (!same_obj(buf.data()[2 * i], guard_value<T>((int)(i & 3)))) {
                vf::diverge("gap-object-between-elements-modified", what, "untouched");
                break;
            }
        }
        buf.check(what);
    }
};
template <typename SV, typename DV>
char const* vkinds()
{
    static std::string s = std::string(SV::name) + "->" + DV::name;
    return s.c_str();
}
template <typename V>
std::vector<Pres> vpres(std::size_t n)
{
    std::vector<Pres> p{Pres::exact};
    if (!std::is_same_v<V, StrideView<int>> && !std::is_same_v<V, StrideView<El>>) {
        p.push_back(Pres::embedded);
        if (n == 0) { p.push_back(Pres::null); }
    }
    return p;
}

// ------------------------------------------------------------------ source view -> destination view
template <typename T, typename SV, typename DV>
void k_transfer(Ctx& c)
{
    std::vector<T> const m = elems<T>(c.a);
    std::size_t const n    = m.size();
    char const* kk         = vkinds<SV, DV>();
    T const fresh          = fresh_value<T>();
    for (Pres pr : vpres<SV>(n)) {
        Pres pd = pres2(pr, n);
#define XFER(OP, H, EXPSIZE, EXPR_EXP, CALL, RETEXP)                                                                   \
    do {                                                                                                               \
        std::vector<T> exp_((EXPSIZE), fresh);                                                                         \
        EXPR_EXP;                                                                                                      \
        Trial t(c, kk, OP, pr, "", H, "-");                                                                            \
        SV s(m, pr);                                                                                                   \
        DV d(std::vector<T>((EXPSIZE), fresh), pres2(pd, (EXPSIZE)));                                                  \
        auto ret_ = t.call([&] { return CALL; });                                                                      \
        t.off("ret", d.idx(ret_), (long)(RETEXP));                                                                     \
        same(t, "output", d.get(), exp_);                                                                              \
        d.check(t, "output");                                                                                          \
        s.check(t, "input");                                                                                           \
        t.done();                                                                                                      \
    } while (0)
        XFER("copy(f,l,d)", 1, n, std::copy(m.begin(), m.end(), exp_.begin()), etl::copy(s.it(0), s.it(n), d.it(0)), n);
        XFER("copy_n(f,n,d)", 2, n, std::copy(m.begin(), m.end(), exp_.begin()), etl::copy_n(s.it(0), (long)n, d.it(0)), n);
        XFER("copy_backward(f,l,dl)", 3, n, std::copy(m.begin(), m.end(), exp_.begin()), etl::copy_backward(s.it(0), s.it(n), d.it(n)), 0);
        XFER("move(f,l,d)", 4, n, std::copy(m.begin(), m.end(), exp_.begin()), etl::move(s.it(0), s.it(n), d.it(0)), n);
        XFER("move_backward(f,l,dl)", 5, n, std::copy(m.begin(), m.end(), exp_.begin()), etl::move_backward(s.it(0), s.it(n), d.it(n)), 0);
        XFER("reverse_copy(f,l,d)", 6, n, std::reverse_copy(m.begin(), m.end(), exp_.begin()), etl::reverse_copy(s.it(0), s.it(n), d.it(0)), n);
        XFER("transform(f,l,d,op)", 7, n, std::copy(m.begin(), m.end(), exp_.begin()), etl::transform(s.it(0), s.it(n), d.it(0), [](T const& x) { return x; }), n);
        {
            std::size_t cnt = (std::size_t)std::count_if(m.begin(), m.end(), EvenKey{});
            XFER("copy_if(f,l,d,p)", 8, cnt, std::copy_if(m.begin(), m.end(), exp_.begin(), EvenKey{}), etl::copy_if(s.it(0), s.it(n), d.it(0), EvenKey{}), cnt);
            XFER("remove_copy_if(f,l,d,p)", 9, n - cnt, std::remove_copy_if(m.begin(), m.end(), exp_.begin(), EvenKey{}),
                etl::remove_copy_if(s.it(0), s.it(n), d.it(0), EvenKey{}), n - cnt);
        }
        {
            std::vector<T> u;
            std::unique_copy(m.begin(), m.end(), std::back_inserter(u), [](T const& a, T const& b) { return key_of(a) == key_of(b); });
            XFER("unique_copy(f,l,d,p)", 10, u.size(), exp_ = u,
                etl::unique_copy(s.it(0), s.it(n), d.it(0), [](T const& a, T const& b) { return key_of(a) == key_of(b); }), u.size());
        }
        for (std::size_t mid = 0; mid <= n; ++mid) {
            XFER("rotate_copy(f,m,l,d)", 20 + mid, n, std::rotate_copy(m.begin(), m.begin() + (long)mid, m.end(), exp_.begin()),
                etl::rotate_copy(s.it(0), s.it(mid), s.it(n), d.it(0)), n);
        }
        if (std::is_sorted(m.begin(), m.end(), LessKey{})) {
            // second input: the same sequence again, through the same kind of view
            XFER("merge(f1,l1,f2,l2,d,c)", 40, 2 * n, std::merge(m.begin(), m.end(), m.begin(), m.end(), exp_.begin(), LessKey{}),
                (([&] {
                    SV s2(m, pr);
                    auto r = etl::merge(s.it(0), s.it(n), s2.it(0), s2.it(n), d.it(0), LessKey{});
                    s2.check(t, "input2");
                    return r;
                })()),
                2 * n);
        }
#undef XFER
    }
}

// ------------------------------------------------------------------ in place on one view
template <typename T, typename V>
void k_inplace(Ctx& c)
{
    std::vector<T> const m = elems<T>(c.a);
    std::size_t const n    = m.size();
    char const* kk         = V::name;
    for (Pres pr : vpres<V>(n)) {
#define INPL(OP, H, SIT, EXPR_EXP, CALL, ...)                                                                          \
    do {                                                                                                               \
        std::vector<T> exp_ = m;                                                                                       \
        long sret_          = 0;                                                                                       \
        (void)sret_;                                                                                                   \
        EXPR_EXP;                                                                                                      \
        Trial t(c, kk, OP, pr, SIT, H, "-");                                                                           \
        V v(m, pr);                                                                                                    \
        CALL;                                                                                                          \
        std::vector<T> got_ = v.get();                                                                                 \
        __VA_ARGS__;                                                                                                     \
        v.check(t, "range");                                                                                           \
        t.done();                                                                                                      \
    } while (0)
        for (std::size_t k = 1; k <= n; ++k) {
            INPL("copy(f,l,d)", 100 + k, "overlapping-left", sret_ = std::copy(exp_.begin() + (long)k, exp_.end(), exp_.begin()) - exp_.begin(),
                auto ret = t.call([&] { return etl::copy(v.it(k), v.it(n), v.it(0)); }), t.off("ret", v.idx(ret), sret_); same(t, "range", got_, exp_));
            INPL("copy_backward(f,l,dl)", 120 + k, "overlapping-right", sret_ = std::copy_backward(exp_.begin(), exp_.end() - (long)k, exp_.end()) - exp_.begin(),
                auto ret = t.call([&] { return etl::copy_backward(v.it(0), v.it(n - k), v.it(n)); }), t.off("ret", v.idx(ret), sret_); same(t, "range", got_, exp_));
            INPL("move(f,l,d)", 140 + k, "overlapping-left", sret_ = std::copy(exp_.begin() + (long)k, exp_.end(), exp_.begin()) - exp_.begin(),
                auto ret = t.call([&] { return etl::move(v.it(k), v.it(n), v.it(0)); }), t.off("ret", v.idx(ret), sret_);
                same(t, "moved-part", std::vector<T>(got_.begin(), got_.end() - (long)k), std::vector<T>(exp_.begin(), exp_.end() - (long)k)));
            INPL("move_backward(f,l,dl)", 160 + k, "overlapping-right", sret_ = std::copy_backward(exp_.begin(), exp_.end() - (long)k, exp_.end()) - exp_.begin(),
                auto ret = t.call([&] { return etl::move_backward(v.it(0), v.it(n - k), v.it(n)); }), t.off("ret", v.idx(ret), sret_);
                same(t, "moved-part", std::vector<T>(got_.begin() + (long)k, got_.end()), std::vector<T>(exp_.begin() + (long)k, exp_.end())));
        }
        {
            T const val = elem<T>(El{1, -1});
            INPL("fill(f,l,v)", 1, "", std::fill(exp_.begin(), exp_.end(), val), t.call([&] { etl::fill(v.it(0), v.it(n), val); }), same(t, "range", got_, exp_));
            INPL("fill_n(d,n,v)", 2, "", std::fill(exp_.begin(), exp_.end(), val), auto ret = t.call([&] { return etl::fill_n(v.it(0), (long)n, val); }),
                t.off("ret", v.idx(ret), (long)n); same(t, "range", got_, exp_));
            INPL("replace_if(f,l,p,new)", 3, "", std::replace_if(exp_.begin(), exp_.end(), EvenKey{}, val), t.call([&] { etl::replace_if(v.it(0), v.it(n), EvenKey{}, val); }),
                same(t, "range", got_, exp_));
        }
        INPL("reverse(f,l)", 4, n % 2 ? "odd" : "even", std::reverse(exp_.begin(), exp_.end()), t.call([&] { etl::reverse(v.it(0), v.it(n)); }), same(t, "range", got_, exp_));
        for (std::size_t mid = 0; mid <= n; ++mid) {
            INPL("rotate(f,m,l)", 10 + mid, mid == 0 ? "mid=first" : (mid == n ? "mid=last" : "mid-inner"),
                sret_ = std::rotate(exp_.begin(), exp_.begin() + (long)mid, exp_.end()) - exp_.begin(), auto ret = t.call([&] { return etl::rotate(v.it(0), v.it(mid), v.it(n)); }),
                t.off("ret", v.idx(ret), sret_); same(t, "range", got_, exp_));
            if (std::is_sorted(m.begin(), m.begin() + (long)mid, LessKey{}) && std::is_sorted(m.begin() + (long)mid, m.end(), LessKey{})) {
                INPL("inplace_merge(f,m,l,c)", 30 + mid, mid == 0 ? "mid=first" : (mid == n ? "mid=last" : "mid-inner"),
                    std::inplace_merge(exp_.begin(), exp_.begin() + (long)mid, exp_.end(), LessKey{}), t.call([&] { etl::inplace_merge(v.it(0), v.it(mid), v.it(n), LessKey{}); }),
                    same(t, "range", got_, exp_));
            }
            INPL("partial_sort(f,m,l,c)", 50 + mid, mid == 0 ? "mid=first" : (mid == n ? "mid=last" : "mid-inner"), std::stable_sort(exp_.begin(), exp_.end(), LessKey{}),
                t.call([&] { etl::partial_sort(v.it(0), v.it(mid), v.it(n), LessKey{}); }), {
                    bool ok = true;
                    for (std::size_t i = 0; i < mid; ++i) { ok = ok && key_of(got_[i]) == key_of(exp_[i]); }
                    t.require("range:prefix-not-the-sorted-smallest", ok, shw(got_), shw(exp_));
                    std::vector<T> g2 = got_;
                    std::stable_sort(g2.begin(), g2.end(), LessKey{});
                    for (std::size_t i = 0; i < n; ++i) { ok = ok && key_of(g2[i]) == key_of(exp_[i]); }
                    t.require("range:not-a-permutation-of-input", ok, shw(got_), shw(m));
                });
            if (mid < n) {
                INPL("nth_element(f,nth,l,c)", 70 + mid, mid == 0 ? "nth=first" : "nth-inner", std::stable_sort(exp_.begin(), exp_.end(), LessKey{}),
                    t.call([&] { etl::nth_element(v.it(0), v.it(mid), v.it(n), LessKey{}); }), {
                        bool ok = key_of(got_[mid]) == key_of(exp_[mid]);
                        for (std::size_t i = 0; i < mid; ++i) { ok = ok && !(key_of(got_[mid]) < key_of(got_[i])); }
                        for (std::size_t j = mid; j < n; ++j) { ok = ok && !(key_of(got_[j]) < key_of(got_[mid])); }
                        t.require("range:nth-not-in-sorted-position", ok, shw(got_), shw(exp_));
                    });
            }
        }
        for (long k = 0; k <= (long)n + 1; ++k) {
            INPL("shift_left(f,l,n)", 200 + (std::uint64_t)k, ncls(k, n), sret_ = std::shift_left(exp_.begin(), exp_.end(), k) - exp_.begin(),
                auto ret = t.call([&] { return etl::shift_left(v.it(0), v.it(n), k); }), if (t.off("ret", v.idx(ret), sret_)) {
                    same(t, "shifted-part", std::vector<T>(got_.begin(), got_.begin() + sret_), std::vector<T>(exp_.begin(), exp_.begin() + sret_));
                });
            INPL("shift_right(f,l,n)", 220 + (std::uint64_t)k, ncls(k, n), sret_ = std::shift_right(exp_.begin(), exp_.end(), k) - exp_.begin(),
                auto ret = t.call([&] { return etl::shift_right(v.it(0), v.it(n), k); }), if (t.off("ret", v.idx(ret), sret_)) {
                    same(t, "shifted-part", std::vector<T>(got_.begin() + sret_, got_.end()), std::vector<T>(exp_.begin() + sret_, exp_.end()));
                });
        }
        INPL("remove_if(f,l,p)", 240, "", sret_ = std::remove_if(exp_.begin(), exp_.end(), EvenKey{}) - exp_.begin(),
            auto ret = t.call([&] { return etl::remove_if(v.it(0), v.it(n), EvenKey{}); }), if (t.off("ret", v.idx(ret), sret_)) {
                same(t, "kept-part", std::vector<T>(got_.begin(), got_.begin() + sret_), std::vector<T>(exp_.begin(), exp_.begin() + sret_));
            });
        INPL("unique(f,l,p)", 241, "", sret_ = std::unique(exp_.begin(), exp_.end(), [](T const& a, T const& b) { return key_of(a) == key_of(b); }) - exp_.begin(),
            auto ret = t.call([&] { return etl::unique(v.it(0), v.it(n), [](T const& a, T const& b) { return key_of(a) == key_of(b); }); }),
            if (t.off("ret", v.idx(ret), sret_)) {
                same(t, "kept-part", std::vector<T>(got_.begin(), got_.begin() + sret_), std::vector<T>(exp_.begin(), exp_.begin() + sret_));
            });
        INPL("stable_partition(f,l,p)", 242, "", sret_ = std::stable_partition(exp_.begin(), exp_.end(), EvenKey{}) - exp_.begin(),
            auto ret = t.call([&] { return etl::stable_partition(v.it(0), v.it(n), EvenKey{}); }), t.off("ret", v.idx(ret), sret_); same(t, "range", got_, exp_));
        INPL("partition(f,l,p)", 243, "", sret_ = std::count_if(m.begin(), m.end(), EvenKey{}), auto ret = t.call([&] { return etl::partition(v.it(0), v.it(n), EvenKey{}); }), {
            t.off("ret", v.idx(ret), sret_);
            bool ok = std::is_partitioned(got_.begin(), got_.end(), EvenKey{});
            std::vector<T> g2 = got_, e2 = m;
            std::stable_sort(g2.begin(), g2.end(), LessKey{});
            std::stable_sort(e2.begin(), e2.end(), LessKey{});
            for (std::size_t i = 0; i < n; ++i) { ok = ok && key_of(g2[i]) == key_of(e2[i]); }
            t.require("range:not-a-partitioned-permutation", ok, shw(got_), shw(m));
        });
        {
            std::vector<T> y(m.rbegin(), m.rend());
            INPL("swap_ranges(f1,l1,f2)", 244, "", exp_ = y, V v2(y, pr); auto ret = t.call([&] { return etl::swap_ranges(v.it(0), v.it(n), v2.it(0)); }), {
                t.off("ret", v2.idx(ret), (long)n);
                same(t, "range1", got_, y);
                same(t, "range2", v2.get(), m);
                v2.check(t, "range2");
            });
        }
        // sorts: stable ones exactly, the others as sorted permutations (by key)
        for (int f = 0; f < 7; ++f) {
            static char const* const nm[] = {"sort(f,l,c)", "stable_sort(f,l,c)", "gnome_sort(f,l,c)", "bubble_sort(f,l,c)", "exchange_sort(f,l,c)", "insertion_sort(f,l,c)",
                "merge_sort(f,l,c)"};
            bool stable = f == 1 || f == 3 || f == 5;
            INPL(nm[f], 300 + f, std::is_sorted(m.begin(), m.end(), LessKey{}) ? "already-sorted" : "unsorted", std::stable_sort(exp_.begin(), exp_.end(), LessKey{}), t.call([&] {
                auto b = v.it(0), e = v.it(n);
                switch (f) {
                case 0: etl::sort(b, e, LessKey{}); break;
                case 1: etl::stable_sort(b, e, LessKey{}); break;
                case 2: etl::gnome_sort(b, e, LessKey{}); break;
                case 3: etl::bubble_sort(b, e, LessKey{}); break;
                case 4: etl::exchange_sort(b, e, LessKey{}); break;
                case 5: etl::insertion_sort(b, e, LessKey{}); break;
                default: etl::merge_sort(b, e, LessKey{}); break;
                }
            }),
                {
                    if (stable) {
                        same(t, "range", got_, exp_);
                    } else {
                        bool ok = got_.size() == exp_.size();
                        for (std::size_t i = 0; ok && i < n; ++i) { ok = key_of(got_[i]) == key_of(exp_[i]); }
                        t.require("range:not-the-sorted-keys", ok, shw(got_), shw(exp_));
                    }
                });
        }
#undef INPL
    }
}

// ------------------------------------------------------------------ non-modifying, one or two views
template <typename T, typename V1, typename V2>
void k_compare(Ctx& c)
{
    std::vector<T> const m = elems<T>(c.a);
    std::size_t const n    = m.size();
    char const* kk         = vkinds<V1, V2>();
    auto eqk               = [](T const& a, T const& b) { return key_of(a) == key_of(b); };
    std::vector<std::vector<T>> others;
    for (Seq const& nd : c.needles) { others.push_back(elems<T>(nd)); }
    others.push_back(m);
    if (!m.empty()) {
        others.push_back(std::vector<T>(m.begin(), m.end() - 1));
        std::vector<T> p = m;
        p.back()         = elem<T>(El{(c.a.back().key + 1) % 3, -9});
        others.push_back(p);
    }
    for (auto const& y : others) {
        std::size_t const ny = y.size();
        LenHint lh(n);
        std::uint64_t hb = vf::mix(ny, ny ? (std::uint64_t)key_of(y[0]) * 131 + (std::uint64_t)key_of(y.back()) : 7);
        for (std::size_t i = 0; i < ny; ++i) { hb = vf::mix(hb, (std::uint64_t)key_of(y[i]) + 3); }
        for (Pres pr : vpres<V1>(n)) {
#define CMP2(OP, H, SIT, STDV, CALL, ...)                                                                              \
    do {                                                                                                               \
        auto sv_ = (STDV);                                                                                             \
        Trial t(c, kk, OP, pr, SIT, vf::mix(hb, H), "y=%s", shw(y).c_str());                                           \
        V1 a(m, pr);                                                                                                   \
        V2 b(y, pres2(pr, ny));                                                                                        \
        auto ev_ = t.call([&] { return CALL; });                                                                       \
        __VA_ARGS__;                                                                                                   \
        a.check(t, "range1");                                                                                          \
        b.check(t, "range2");                                                                                          \
        same(t, "input1", a.get(), m);                                                                                 \
        t.done();                                                                                                      \
    } while (0)
            char const* rl = n == ny ? "len2=len1" : (ny < n ? "len2<len1" : "len2>len1");
            CMP2("equal(f1,l1,f2,l2,p)", 1, rl, std::equal(m.begin(), m.end(), y.begin(), y.end(), eqk), etl::equal(a.it(0), a.it(n), b.it(0), b.it(ny), eqk), t.boolean("ret", ev_, sv_));
            CMP2("lexicographical_compare(f1,l1,f2,l2,c)", 2, rl, std::lexicographical_compare(m.begin(), m.end(), y.begin(), y.end(), LessKey{}),
                etl::lexicographical_compare(a.it(0), a.it(n), b.it(0), b.it(ny), LessKey{}), t.boolean("ret", ev_, sv_));
            CMP2("mismatch(f1,l1,f2,l2,p)", 3, rl, std::mismatch(m.begin(), m.end(), y.begin(), y.end(), eqk), etl::mismatch(a.it(0), a.it(n), b.it(0), b.it(ny), eqk),
                t.off("ret.first", a.idx(ev_.first), sv_.first - m.begin()); t.off("ret.second", b.idx(ev_.second), sv_.second - y.begin()));
            CMP2("search(f,l,sf,sl,p)", 4, rl, std::search(m.begin(), m.end(), y.begin(), y.end(), eqk) - m.begin(), etl::search(a.it(0), a.it(n), b.it(0), b.it(ny), eqk),
                t.off("ret", a.idx(ev_), sv_));
            CMP2("find_end(f,l,sf,sl,p)", 5, rl, std::find_end(m.begin(), m.end(), y.begin(), y.end(), eqk) - m.begin(), etl::find_end(a.it(0), a.it(n), b.it(0), b.it(ny), eqk),
                t.off("ret", a.idx(ev_), sv_));
            CMP2("is_permutation(f1,l1,f2,l2)", 6, rl, std::is_permutation(m.begin(), m.end(), y.begin(), y.end(), eqk),
                etl::is_permutation(a.it(0), a.it(n), b.it(0), b.it(ny)), t.boolean("ret", ev_, sv_));
            if (ny >= n) {
                std::vector<T> yp(y.begin(), y.begin() + (long)n);
                bool s3 = std::equal(m.begin(), m.end(), yp.begin(), eqk);
                Trial t(c, kk, "equal(f1,l1,f2,p)", pr, s3 ? "true" : "false", vf::mix(hb, 7), "y=%s", shw(yp).c_str());
                V1 a(m, pr);
                V2 b(yp, pres2(pr, n));
                t.boolean("ret", t.call([&] { return etl::equal(a.it(0), a.it(n), b.it(0), eqk); }), s3);
                a.check(t, "range1");
                b.check(t, "range2");
                t.done();
            }
            if (std::is_sorted(m.begin(), m.end(), LessKey{}) && std::is_sorted(y.begin(), y.end(), LessKey{})) {
                CMP2("includes(f1,l1,f2,l2,c)", 8, rl, std::includes(m.begin(), m.end(), y.begin(), y.end(), LessKey{}),
                    etl::includes(a.it(0), a.it(n), b.it(0), b.it(ny), LessKey{}), t.boolean("ret", ev_, sv_));
            }
#undef CMP2
        }
    }
    // one range
    for (Pres pr : vpres<V1>(n)) {
#define CMP1(OP, H, STDV, CALL, ...)                                                                                   \
    do {                                                                                                               \
        auto sv_ = (STDV);                                                                                             \
        Trial t(c, V1::name, OP, pr, "", H, "-");                                                                      \
        V1 a(m, pr);                                                                                                   \
        auto ev_ = t.call([&] { return CALL; });                                                                       \
        __VA_ARGS__;                                                                                                   \
        a.check(t, "range");                                                                                           \
        same(t, "input", a.get(), m);                                                                                  \
        t.done();                                                                                                      \
    } while (0)
        for (int k = 0; k <= 3; ++k) {
            T const val = elem<T>(El{k, -1});
            auto byk    = [&](T const& x) { return key_of(x) == key_of(val); };
            CMP1("find_if(f,l,p)", 500 + k, std::find_if(m.begin(), m.end(), byk) - m.begin(), etl::find_if(a.it(0), a.it(n), byk), t.off("ret", a.idx(ev_), sv_));
            CMP1("count_if(f,l,p)", 510 + k, std::count_if(m.begin(), m.end(), byk), etl::count_if(a.it(0), a.it(n), byk), t.off("ret", ev_, sv_));
            if (std::is_sorted(m.begin(), m.end(), LessKey{})) {
                CMP1("lower_bound(f,l,v,c)", 520 + k, std::lower_bound(m.begin(), m.end(), val, LessKey{}) - m.begin(), etl::lower_bound(a.it(0), a.it(n), val, LessKey{}),
                    t.off("ret", a.idx(ev_), sv_));
                CMP1("upper_bound(f,l,v,c)", 530 + k, std::upper_bound(m.begin(), m.end(), val, LessKey{}) - m.begin(), etl::upper_bound(a.it(0), a.it(n), val, LessKey{}),
                    t.off("ret", a.idx(ev_), sv_));
                CMP1("binary_search(f,l,v,c)", 540 + k, std::binary_search(m.begin(), m.end(), val, LessKey{}), etl::binary_search(a.it(0), a.it(n), val, LessKey{}),
                    t.boolean("ret", ev_, sv_));
            }
        }
        CMP1("min_element(f,l,c)", 550, std::min_element(m.begin(), m.end(), LessKey{}) - m.begin(), etl::min_element(a.it(0), a.it(n), LessKey{}), t.off("ret", a.idx(ev_), sv_));
        CMP1("max_element(f,l,c)", 551, std::max_element(m.begin(), m.end(), LessKey{}) - m.begin(), etl::max_element(a.it(0), a.it(n), LessKey{}), t.off("ret", a.idx(ev_), sv_));
        CMP1("is_sorted_until(f,l,c)", 552, std::is_sorted_until(m.begin(), m.end(), LessKey{}) - m.begin(), etl::is_sorted_until(a.it(0), a.it(n), LessKey{}),
            t.off("ret", a.idx(ev_), sv_));
        CMP1("adjacent_find(f,l,p)", 553, std::adjacent_find(m.begin(), m.end(), eqk) - m.begin(), etl::adjacent_find(a.it(0), a.it(n), eqk), t.off("ret", a.idx(ev_), sv_));
        CMP1("accumulate(f,l,init,op)", 554, std::accumulate(m.begin(), m.end(), 7LL, [](long long acc, T const& x) { return acc * 3 + key_of(x); }),
            etl::accumulate(a.it(0), a.it(n), 7LL, [](long long acc, T const& x) { return acc * 3 + key_of(x); }), t.off("ret", ev_, sv_));
        CMP1("distance(f,l)", 555, (long)n, etl::distance(a.it(0), a.it(n)), t.off("ret", ev_, sv_));
#undef CMP1
    }
}

#if C06_NC_PART == 1
using TT = int;
    #define C06_NC_NAME "C06_noncontig_int"
#else
using TT = El;
    #define C06_NC_NAME "C06_noncontig_class"
#endif
#ifndef C06_NC_VIEW
    #define C06_NC_VIEW 0 // 0 = both, 1 = reverse_iterator views, 2 = strided views (compiled in parallel)
#endif
#if C06_NC_VIEW != 2
void t_transfer_rev(Ctx& c)
{
    k_transfer<TT, RevView<TT>, RevView<TT>>(c);
    k_transfer<TT, RevView<TT>, PtrView<TT>>(c);
    k_transfer<TT, PtrView<TT>, RevView<TT>>(c);
}
void t_inplace_rev(Ctx& c) { k_inplace<TT, RevView<TT>>(c); }
void t_compare_rev(Ctx& c)
{
    k_compare<TT, RevView<TT>, RevView<TT>>(c);
    k_compare<TT, RevView<TT>, PtrView<TT>>(c);
}
#endif
#if C06_NC_VIEW != 1
void t_transfer_stride(Ctx& c)
{
    k_transfer<TT, StrideView<TT>, StrideView<TT>>(c);
    k_transfer<TT, StrideView<TT>, PtrView<TT>>(c);
    k_transfer<TT, PtrView<TT>, StrideView<TT>>(c);
    k_transfer<TT, RevView<TT>, StrideView<TT>>(c);
}
void t_inplace_stride(Ctx& c) { k_inplace<TT, StrideView<TT>>(c); }
void t_compare_stride(Ctx& c)
{
    k_compare<TT, StrideView<TT>, StrideView<TT>>(c);
    k_compare<TT, PtrView<TT>, StrideView<TT>>(c);
}
#endif

Test const kTests[] = {
#if C06_NC_VIEW != 2
    {"transfer_rev", t_transfer_rev},
    {"inplace_rev", t_inplace_rev},
    {"compare_rev", t_compare_rev},
#endif
#if C06_NC_VIEW != 1
    {"transfer_stride", t_transfer_stride},
    {"inplace_stride", t_inplace_stride},
    {"compare_stride", t_compare_stride},
#endif
};
std::size_t const kNumTests = sizeof(kTests) / sizeof(kTests[0]);

} // namespace c06

#if C06_NC_VIEW == 1
C06_MAIN(C06_NC_NAME "_rev")
#elif C06_NC_VIEW == 2
C06_MAIN(C06_NC_NAME "_stride")
#else
C06_MAIN(C06_NC_NAME)
#endif
