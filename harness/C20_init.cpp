// C20 - direct (parenthesised) vs list (braced) initialisation wherever the property constructs an object from forwarded
// pieces.  std::pair / std::tuple / std::make_from_tuple / std::function / std::bind_front / std::not_fn direct-initialise
// `T(args...)`.  A library that writes `T{args...}` instead silently selects another constructor as soon as T has an
// initializer_list constructor (container-like `(count, value)` vs `{a, b}`; `T{t}` of a type with an
// initializer_list<T> constructor swallows what should be a copy) and rejects narrowing-but-valid conversions.
// c20i::LI records WHICH of its constructors ran; every construction path of the property is compared with std:
//   make_from_tuple (tuple / pair / array sources, 0-3 elements, narrowing long/double -> int), pair and tuple element
//   construction from values / converting / copy / move, make_pair / make_tuple / tuple_cat / tie copies, apply into a
//   constructing callable, pair's piecewise constructor (where provided), and LI as the *target* of inplace_function
//   (construct, copy, move, assign, swap), function_ref, reference_wrapper, bind_front (target and bound argument), not_fn.
#include "vf.hpp"
#include "vf_contract.hpp"

#include <etl/array.hpp>
#include <etl/functional.hpp>
#include <etl/tuple.hpp>
#include <etl/utility.hpp>

#include <array>
#include <functional>
#include <initializer_list>
#include <string>
#include <tuple>
#include <utility>

namespace c20i {
long long g_calls = 0;
struct LI {
    // kind: 0 default, 1 (int), 2 (int count, int value), 3 initializer_list<int>, 4 initializer_list<LI>, 5 (int,int,int)
    int kind;
    long v;
    int copies = 0, moves = 0;
    LI() : kind(0), v(0) { }
    LI(int x) : kind(1), v(x) { } // NOLINT
    LI(int count, int value) : kind(2), v(count * 100L + value) { }
    LI(int a, int b, int c) : kind(5), v(a * 10000L + b * 100L + c) { }
    LI(std::initializer_list<int> l) : kind(3), v(-(long)l.size())
    {
        for (int e : l) { v = v * 7 - e; }
    }
    LI(std::initializer_list<LI> l) : kind(4), v(-(long)l.size()) { }
    LI(LI const& o) : kind(o.kind), v(o.v), copies(o.copies + 1), moves(o.moves) { }
    LI(LI&& o) noexcept : kind(o.kind), v(o.v), copies(o.copies), moves(o.moves + 1) { }
    LI& operator=(LI const& o)
    {
        kind   = o.kind;
        v      = o.v;
        copies = o.copies + 1;
        moves  = o.moves;
        return *this;
    }
    LI& operator=(LI&& o) noexcept
    {
        kind   = o.kind;
        v      = o.v;
        copies = o.copies;
        moves  = o.moves + 1;
        return *this;
    }
    // LI is also a callable: the result tells which object state is called
    int operator()(int x) const
    {
        ++g_calls;
        return static_cast<int>(kind * 100000 + (v & 0xfff) * 10 + x);
    }
    friend bool operator==(LI const& a, LI const& b) { return a.kind == b.kind && a.v == b.v; }
};
inline std::string show(LI const& l)
{
    static char const* k[] = {"default", "(int)", "(count,value)", "initializer_list<int>", "initializer_list<LI>", "(int,int,int)"};
    return std::string(k[l.kind]) + " v=" + std::to_string(l.v) + " copies=" + std::to_string(l.copies) + " moves=" + std::to_string(l.moves);
}
} // namespace c20i

namespace {
using c20i::LI;

char const* g_subj = "?";
std::uint64_t g_h  = 0;
int g_a = 0, g_b = 0;

void crumb(char const* op, char const* sit) { vf::crumb(g_subj, op, sit, "a=%d b=%d", g_a, g_b); }
void cover(char const* op, char const* sit) { vf::cover(op, vf::mix(g_h, vf::fnv(op) ^ vf::fnv(sit)), true); }

// the constructor that ran and the value it produced (copy/move counts are compared separately, only where the
// standard fixes them)
bool eq_li(char const* name, LI const& e, LI const& s, bool counts = false)
{
    if (e.kind != s.kind) {
        static char const* k[] = {"default", "(int)", "(count,value)", "initializer_list<int>", "initializer_list<T>", "(int,int,int)"};
        std::string sym = std::string(name) + ":constructor:" + k[e.kind] + "-for-" + k[s.kind];
        vf::diverge(sym.c_str(), show(e), show(s));
        return false;
    }
    if (e.v != s.v) {
        vf::diverge((std::string(name) + ":value").c_str(), show(e), show(s));
        return false;
    }
    if (counts && (e.copies != s.copies)) {
        vf::diverge((std::string(name) + (e.copies > s.copies ? ":more-copies" : ":fewer-copies")).c_str(), show(e), show(s));
        return false;
    }
    return true;
}

// ------------------------------------------------------------------------------------------------ make_from_tuple / apply
void t_make_from_tuple()
{
    g_subj = "make_from_tuple<LI>";
    int const a = g_a, b = g_b;
    {
        char const* sit = "tuple<int,int>:(count,value)-vs-{a,b}";
        crumb("make_from_tuple<T>(tuple<int,int>)", sit);
        etl::tuple<int, int> et(a, b);
        std::tuple<int, int> st(a, b);
        eq_li("result", etl::make_from_tuple<LI>(et), std::make_from_tuple<LI>(st));
        eq_li("result(rvalue)", etl::make_from_tuple<LI>(etl::tuple<int, int>(a, b)), std::make_from_tuple<LI>(std::tuple<int, int>(a, b)));
        eq_li("result(const)", etl::make_from_tuple<LI>(std::as_const(et)), std::make_from_tuple<LI>(std::as_const(st)));
        cover("make_from_tuple<T>(tuple<int,int>)", sit);
    }
    {
        char const* sit = "tuple<int>:(int)-vs-{a}";
        crumb("make_from_tuple<T>(tuple<int>)", sit);
        eq_li("result", etl::make_from_tuple<LI>(etl::tuple<int>(a)), std::make_from_tuple<LI>(std::tuple<int>(a)));
        cover("make_from_tuple<T>(tuple<int>)", sit);
    }
    {
        char const* sit = "tuple<int,int,int>";
        crumb("make_from_tuple<T>(tuple<int,int,int>)", sit);
        eq_li("result", etl::make_from_tuple<LI>(etl::tuple<int, int, int>(a, b, a + b)), std::make_from_tuple<LI>(std::tuple<int, int, int>(a, b, a + b)));
        cover("make_from_tuple<T>(tuple<int,int,int>)", sit);
    }
    {
        char const* sit = "pair<int,int>/array<int,2>";
        crumb("make_from_tuple<T>(pair<int,int>)", sit);
        eq_li("result(pair)", etl::make_from_tuple<LI>(etl::pair<int, int>(a, b)), std::make_from_tuple<LI>(std::pair<int, int>(a, b)));
        etl::array<int, 2> ea{{a, b}};
        std::array<int, 2> sa{{a, b}};
        eq_li("result(array)", etl::make_from_tuple<LI>(ea), std::make_from_tuple<LI>(sa));
        cover("make_from_tuple<T>(pair<int,int>)", sit);
    }
    {
        char const* sit = "tuple<LI>:copy-vs-{t}";
        crumb("make_from_tuple<T>(tuple<T>)", sit);
        LI src(a, b);
        etl::tuple<LI> et(src);
        std::tuple<LI> st(src);
        eq_li("result", etl::make_from_tuple<LI>(et), std::make_from_tuple<LI>(st));
        eq_li("result(rvalue)", etl::make_from_tuple<LI>(std::move(et)), std::make_from_tuple<LI>(std::move(st)));
        cover("make_from_tuple<T>(tuple<T>)", sit);
    }
    {
        char const* sit = "narrowing-but-valid-conversions";
        crumb("make_from_tuple<T>(tuple<long,long>)", sit);
        eq_li("result(long,long)", etl::make_from_tuple<LI>(etl::tuple<long, long>(a, b)), std::make_from_tuple<LI>(std::tuple<long, long>(a, b)));
        eq_li("result(double)", etl::make_from_tuple<LI>(etl::tuple<double>(a + 0.75)), std::make_from_tuple<LI>(std::tuple<double>(a + 0.75)));
        eq_li("result(long long,short,unsigned)", etl::make_from_tuple<LI>(etl::tuple<long long, short, unsigned>(a, (short)b, 3u)),
            std::make_from_tuple<LI>(std::tuple<long long, short, unsigned>(a, (short)b, 3u)));
        vf::eq_int("int-from-tuple<long>", etl::make_from_tuple<int>(etl::tuple<long>(a)), std::make_from_tuple<int>(std::tuple<long>(a)));
        cover("make_from_tuple<T>(tuple<long,long>)", sit);
    }
    {
        char const* sit = "aggregate-and-nested-targets";
        crumb("make_from_tuple<pair<LI,LI>>(tuple<int,int>)", sit);
        auto ep = etl::make_from_tuple<etl::pair<LI, LI>>(etl::tuple<int, int>(a, b));
        auto sp = std::make_from_tuple<std::pair<LI, LI>>(std::tuple<int, int>(a, b));
        eq_li("first", ep.first, sp.first);
        eq_li("second", ep.second, sp.second);
        auto et = etl::make_from_tuple<etl::tuple<LI, long>>(etl::tuple<int, int>(a, b));
        auto st = std::make_from_tuple<std::tuple<LI, long>>(std::tuple<int, int>(a, b));
        eq_li("element0", etl::get<0>(et), std::get<0>(st));
        cover("make_from_tuple<pair<LI,LI>>(tuple<int,int>)", sit);
    }
    g_subj = "apply";
    {
        char const* sit = "constructing-callable";
        crumb("apply(construct<T>,tuple<int,int>)", sit);
        auto mk = [](auto&&... x) { return LI(static_cast<decltype(x)&&>(x)...); };
        eq_li("result", etl::apply(mk, etl::tuple<int, int>(a, b)), std::apply(mk, std::tuple<int, int>(a, b)));
        LI src(a, b);
        eq_li("result(copy)", etl::apply(mk, etl::tuple<LI>(src)), std::apply(mk, std::tuple<LI>(src)));
        cover("apply(construct<T>,tuple<int,int>)", sit);
    }
}

// ------------------------------------------------------------------------------------------------ pair / tuple element construction
template <typename EP, typename SP>
void eq_pair_li(char const* what, EP const& e, SP const& s, bool counts = false)
{
    std::string f = std::string(what) + ".first", g = std::string(what) + ".second";
    eq_li(f.c_str(), e.first, s.first, counts);
    eq_li(g.c_str(), e.second, s.second, counts);
}
void t_pair_tuple()
{
    int const a = g_a, b = g_b;
    LI const la(a, b), lb(b);
    g_subj = "pair<LI,LI>";
    {
        char const* sit = "element-construction";
        crumb("pair(U1&&,U2&&)", sit);
        eq_pair_li("from-ints", etl::pair<LI, LI>(a, b), std::pair<LI, LI>(a, b));
        crumb("pair(T1 const&,T2 const&)", sit);
        eq_pair_li("from-lvalues", etl::pair<LI, LI>(la, lb), std::pair<LI, LI>(la, lb), true);
        crumb("pair(U1&&,U2&&)", sit);
        eq_pair_li("from-rvalues", etl::pair<LI, LI>(LI(a, b), LI(b)), std::pair<LI, LI>(LI(a, b), LI(b)), true);
        cover("pair(values)", sit);
        crumb("pair(pair<U1,U2> const&)", sit);
        etl::pair<int, long> const ei(a, b);
        std::pair<int, long> const si(a, b);
        eq_pair_li("converting-copy", etl::pair<LI, LI>(ei), std::pair<LI, LI>(si));
        eq_pair_li("converting-move", etl::pair<LI, LI>(etl::pair<int, short>(a, (short)b)), std::pair<LI, LI>(std::pair<int, short>(a, (short)b)));
        cover("pair(pair<U1,U2>)", sit);
        crumb("pair(pair const&)", sit);
        etl::pair<LI, LI> ep(la, lb);
        std::pair<LI, LI> sp(la, lb);
        etl::pair<LI, LI> ec(ep);
        std::pair<LI, LI> sc(sp);
        eq_pair_li("copy", ec, sc, true);
        etl::pair<LI, LI> em(std::move(ep));
        std::pair<LI, LI> sm(std::move(sp));
        eq_pair_li("move", em, sm, true);
        cover("pair(pair)", sit);
        crumb("make_pair(a,b)", sit);
        eq_pair_li("make_pair", etl::make_pair(la, LI(b)), std::make_pair(la, LI(b)), true);
        cover("make_pair(a,b)", sit);
        crumb("operator=(pair<U1,U2> const&)", sit);
        etl::pair<LI, LI> ea(1, 2);
        std::pair<LI, LI> sa(1, 2);
        ea = ei;
        sa = si;
        eq_pair_li("converting-assign", ea, sa);
        ea = ec;
        sa = sc;
        eq_pair_li("copy-assign", ea, sa, true);
        cover("pair::operator=", sit);
        crumb("swap(pair&)", sit);
        ea.swap(em);
        sa.swap(sm);
        eq_pair_li("swap.lhs", ea, sa);
        eq_pair_li("swap.rhs", em, sm);
        cover("pair::swap", sit);
        // piecewise construction: only where etl provides it (detected; absent API is skipped, not reported)
        auto piecewise = []<typename P = etl::pair<LI, LI>>(int x, int y) {
            if constexpr (std::is_constructible_v<P, etl::piecewise_construct_t const&, etl::tuple<int, int>, etl::tuple<int>>) {
                P e(etl::piecewise_construct, etl::tuple<int, int>(x, y), etl::tuple<int>(y));
                std::pair<LI, LI> s(std::piecewise_construct, std::tuple<int, int>(x, y), std::tuple<int>(y));
                eq_pair_li("piecewise", e, s);
                return true;
            } else {
                return false;
            }
        };
        if (piecewise(a, b)) { cover("pair(piecewise_construct,...)", sit); }
    }
    g_subj = "tuple<LI,LI,int>";
    {
        char const* sit = "element-construction";
        auto eq_t = [](char const* what, auto const& e, auto const& s, bool counts = false) {
            std::string f = std::string(what) + ".element0", g = std::string(what) + ".element1";
            eq_li(f.c_str(), etl::get<0>(e), std::get<0>(s), counts);
            eq_li(g.c_str(), etl::get<1>(e), std::get<1>(s), counts);
        };
        crumb("tuple(Us&&...)", sit);
        eq_t("from-ints", etl::tuple<LI, LI, int>(a, b, 1), std::tuple<LI, LI, int>(a, b, 1));
        eq_t("from-narrowing", etl::tuple<LI, LI, int>(static_cast<long>(a), static_cast<short>(b), 1L), std::tuple<LI, LI, int>(static_cast<long>(a), static_cast<short>(b), 1L));
        crumb("tuple(Ts const&...)", sit);
        eq_t("from-lvalues", etl::tuple<LI, LI, int>(la, lb, 1), std::tuple<LI, LI, int>(la, lb, 1), true);
        crumb("tuple(Us&&...)", sit);
        eq_t("from-rvalues", etl::tuple<LI, LI, int>(LI(a, b), LI(b), 1), std::tuple<LI, LI, int>(LI(a, b), LI(b), 1), true);
        cover("tuple(values)", sit);
        crumb("tuple(tuple const&)", sit);
        etl::tuple<LI, LI, int> et(la, lb, 1);
        std::tuple<LI, LI, int> st(la, lb, 1);
        etl::tuple<LI, LI, int> ec(et);
        std::tuple<LI, LI, int> sc(st);
        eq_t("copy", ec, sc, true);
        etl::tuple<LI, LI, int> em(std::move(et));
        std::tuple<LI, LI, int> sm(std::move(st));
        eq_t("move", em, sm, true);
        cover("tuple(tuple)", sit);
        crumb("make_tuple(a,b,1)", sit);
        eq_t("make_tuple", etl::make_tuple(la, LI(b), 1), std::make_tuple(la, LI(b), 1), true);
        cover("make_tuple(a,b,1)", sit);
        crumb("tuple_cat(t,u&&)", sit);
        eq_t("tuple_cat", etl::tuple_cat(ec, etl::tuple<LI>(LI(a))), std::tuple_cat(sc, std::tuple<LI>(LI(a))), true);
        auto ecat = etl::tuple_cat(etl::tuple<int>(0), etl::tuple<LI>(la));
        auto scat = std::tuple_cat(std::tuple<int>(0), std::tuple<LI>(la));
        eq_li("tuple_cat.last", etl::get<1>(ecat), std::get<1>(scat), true);
        cover("tuple_cat(t,u&&)", sit);
        crumb("tuple t{a} (CTAD)", sit);
        etl::tuple ct{la, 1};
        std::tuple sct{la, 1};
        eq_li("ctad.element0", etl::get<0>(ct), std::get<0>(sct), true);
        cover("tuple t{a} (CTAD)", sit);
        crumb("swap(tuple&)", sit);
        ec.swap(em);
        sc.swap(sm);
        eq_t("swap.lhs", ec, sc);
        cover("tuple::swap", sit);
        // converting construction from another tuple: only where etl provides it
        auto converting = [&]<typename T2 = etl::tuple<LI, LI>>() {
            if constexpr (std::is_constructible_v<T2, etl::tuple<int, int> const&>) {
                crumb("tuple(tuple<Us...> const&)", sit);
                etl::tuple<int, int> const ei(a, b);
                std::tuple<int, int> const si(a, b);
                T2 e2(ei);
                std::tuple<LI, LI> s2(si);
                eq_li("converting.element0", etl::get<0>(e2), std::get<0>(s2));
                cover("tuple(tuple<Us...> const&)", sit);
            }
        };
        converting();
    }
}

// ------------------------------------------------------------------------------------------------ LI as the target / bound argument of the wrappers
void t_wrappers()
{
    int const a = g_a, b = g_b, x = 3;
    LI const target(a, b); // kind 2: a braced copy `LI{target}` would become kind 4 and answer differently
    char const* sit = "target-with-initializer_list<T>-constructor";
    g_subj = "inplace_function";
    {
        crumb("inplace_function<int(int)>(target)", sit);
        etl::inplace_function<int(int), 64> e(target);
        std::function<int(int)> s(target);
        vf::eq_int("call-result", e(x), s(x));
        vf::eq_int("direct.call-result", e(x), target(x));
        cover("inplace_function<int(int)>(target)", sit);
        crumb("inplace_function<int(int)>(target&&)", sit);
        etl::inplace_function<int(int), 64> er{LI(a, b)};
        vf::eq_int("call-result", er(x), target(x));
        cover("inplace_function<int(int)>(target&&)", sit);
        crumb("inplace_function(inplace_function const&)", sit);
        etl::inplace_function<int(int), 64> ec(e);
        std::function<int(int)> sc(s);
        vf::eq_int("copy.call-result", ec(x), sc(x));
        cover("inplace_function(inplace_function const&)", sit);
        crumb("inplace_function(inplace_function&&)", sit);
        etl::inplace_function<int(int), 64> em(std::move(ec));
        vf::eq_int("moved.call-result", em(x), target(x));
        cover("inplace_function(inplace_function&&)", sit);
        crumb("inplace_function<...,128>(inplace_function<...,64> const&)", sit);
        etl::inplace_function<int(int), 128> eb(e);
        vf::eq_int("converted-copy.call-result", eb(x), target(x));
        etl::inplace_function<int(int), 128> eb2(std::move(em));
        vf::eq_int("converted-move.call-result", eb2(x), target(x));
        cover("inplace_function<...,128>(inplace_function<...,64> const&)", sit);
        crumb("operator=(inplace_function) / swap", sit);
        etl::inplace_function<int(int), 64> ea;
        ea = e;
        vf::eq_int("assigned.call-result", ea(x), target(x));
        ea = LI(b);
        vf::eq_int("assigned-from-target.call-result", ea(x), LI(b)(x));
        ea.swap(e);
        vf::eq_int("swapped.lhs.call-result", ea(x), target(x));
        vf::eq_int("swapped.rhs.call-result", e(x), LI(b)(x));
        cover("operator=(inplace_function) / swap", sit);
    }
    g_subj = "function_ref/reference_wrapper";
    {
        crumb("function_ref<int(int)>(target)", sit);
        etl::function_ref<int(int)> f(target);
        vf::eq_int("call-result", f(x), target(x));
        vf::eq_int("ref.call-result", etl::ref(target)(x), std::ref(target)(x));
        vf::eq_int("invoke.call-result", etl::invoke(target, x), std::invoke(target, x));
        vf::eq_int("invoke_r.call-result", etl::invoke_r<long>(target, x), target(x));
        cover("function_ref<int(int)>(target)", sit);
    }
    g_subj = "bind_front/not_fn";
    {
        crumb("bind_front(target)(x)", sit);
        auto eb = etl::bind_front(target);
        auto sb = std::bind_front(target);
        vf::eq_int("call-result", eb(x), sb(x));
        auto eb2 = eb;
        vf::eq_int("copy.call-result", eb2(x), sb(x));
        auto eb3 = std::move(eb2);
        vf::eq_int("move.call-result", eb3(x), sb(x));
        cover("bind_front(target)(x)", sit);
        crumb("bind_front(f,bound)()", "bound-argument-with-initializer_list<T>-constructor");
        auto show_kind = [](LI const& l, int q) { return l.kind * 1000 + (int)(l.v & 0xff) * 4 + q; };
        auto ec = etl::bind_front(show_kind, target);
        auto sc = std::bind_front(show_kind, target);
        vf::eq_int("call-result", ec(1), sc(1));
        auto ed = etl::bind_front(show_kind, LI(a, b));
        vf::eq_int("call-result(rvalue bound)", ed(2), sc(2));
        auto ecopy = ec;
        vf::eq_int("copy.call-result", ecopy(1), sc(1));
        cover("bind_front(f,bound)()", "bound-argument-with-initializer_list<T>-constructor");
        crumb("not_fn(target)(x)", sit);
        auto en = etl::not_fn(target);
        auto sn = std::not_fn(target);
        vf::eq_bool("call-result", en(x), sn(x));
        auto en2 = en;
        vf::eq_bool("copy.call-result", en2(0), sn(0));
        // a predicate whose truth value depends on the constructor kind
        struct P {
            LI l;
            bool operator()(int) const { return l.kind == 2; }
        };
        auto enp = etl::not_fn(P{target});
        auto snp = std::not_fn(P{target});
        vf::eq_bool("kind-dependent.call-result", enp(0), snp(0));
        cover("not_fn(target)(x)", sit);
    }
}

constexpr unsigned kGroups = 3;
vf::Spec spec(vf::Tier t)
{
    vf::Spec s;
    s.n_enum     = kGroups * 16; // (group, a, b) with a, b in {0,1,2,3}
    s.n_random   = t == vf::Tier::thorough ? 3000 : 300;
    s.batch      = 8;
    s.exhaustive = true;
    return s;
}
void run_case(vf::Case& c)
{
    unsigned g;
    if (c.enumerated) {
        g   = (unsigned)(c.index / 16);
        g_a = (int)((c.index % 16) / 4);
        g_b = (int)(c.index % 4);
    } else {
        g   = (unsigned)c.rng.below(kGroups);
        g_a = (int)c.rng.range(-300, 300);
        g_b = (int)c.rng.range(-300, 300);
    }
    g_h = vf::mix(vf::mix(0x1417, g), vf::mix((std::uint64_t)(unsigned)g_a, (std::uint64_t)(unsigned)g_b));
    if (vf::want_sample("case")) { vf::sample("case", "group %u a=%d b=%d: every construction path of the group, constructor kind compared with std", g, g_a, g_b); }
    switch (g) {
    case 0: t_make_from_tuple(); break;
    case 1: t_pair_tuple(); break;
    default: t_wrappers(); break;
    }
}
} // namespace

VF_MAIN("C20", "C20_init", spec, run_case)
