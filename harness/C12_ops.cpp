// C12 - probe unit: the non-member operators of [time.point.nonmember] and [time.duration.nonmember] are used here
// UNCONDITIONALLY (two units: default = time_point operators -> C12_ops_tp, -DC12_OPS_SCALAR=1 = duration (op) scalar -> C12_ops_scalar),
// so a tree that does not declare them yields `compile-failure|C12_ops_tp|build|...` / `compile-failure|C12_ops_scalar|build|...` (a valid program that does
// not compile) instead of a silently skipped cell.  The value/type matrices live in C12_dur / C12_tp / C12_scalar (guarded there
// so that such a tree cannot take those units down); this unit only needs a small cross-section.            (DESIGN 4, C12)
#include "vf.hpp"
#include "vf_contract.hpp"

#include <etl/chrono.hpp>
#include <etl/ratio.hpp>

#include <chrono>
#include <type_traits>

namespace {
namespace ec = etl::chrono;
namespace sc = std::chrono;

#if !defined(C12_OPS_SCALAR)
template <typename EClockTp, typename ED, typename SClockTp, typename SD>
void tp_ops(char const* name, long long a, long long b)
{
    char subj[96];
    std::snprintf(subj, sizeof subj, "probe %s", name);
    EClockTp const ep{typename EClockTp::duration{(typename EClockTp::rep)a}};
    SClockTp const sp{typename SClockTp::duration{(typename SClockTp::rep)a}};
    ED const ed{(typename ED::rep)b};
    SD const sd{(typename SD::rep)b};
    char const* sit = b < 0 ? "d-neg" : (b == 0 ? "d-zero" : "d-pos");
    std::uint64_t const h = vf::mix(vf::fnv(subj), vf::mix((std::uint64_t)a, (std::uint64_t)b));
    vf::crumb(subj, "tp+d", sit, "tp=%lld d=%lld", a, b);
    vf::cover("tp+d", h, true);
    vf::eq_int("count", (ep + ed).time_since_epoch().count(), (sp + sd).time_since_epoch().count());
    vf::crumb(subj, "d+tp", sit, "tp=%lld d=%lld", a, b);
    vf::cover("d+tp", h, true);
    vf::eq_int("count", (ed + ep).time_since_epoch().count(), (sd + sp).time_since_epoch().count());
    vf::crumb(subj, "tp-d", sit, "tp=%lld d=%lld", a, b);
    vf::cover("tp-d", h, true);
    vf::eq_int("count", (ep - ed).time_since_epoch().count(), (sp - sd).time_since_epoch().count());
    vf::crumb(subj, "tp-tp", sit, "tp=%lld d=%lld", a, b);
    vf::cover("tp-tp", h, true);
    vf::eq_int("count", (ep - (ep - ed)).count(), (sp - (sp - sd)).count());
    vf::crumb(subj, "(tp+d)-d==tp", sit, "tp=%lld d=%lld", a, b);
    vf::eq_bool("ret", ((ep + ed) - ed) == ep, ((sp + sd) - sd) == sp);
}

#else
template <typename ED, typename SD, typename K>
void scalar_ops(char const* name, long long c, K k)
{
    char subj[96];
    std::snprintf(subj, sizeof subj, "probe %s", name);
    ED const ed{(typename ED::rep)c};
    SD const sd{(typename SD::rep)c};
    char const* sit = c < 0 ? "count-neg" : (c == 0 ? "count-zero" : "count-pos");
    std::uint64_t const h = vf::mix(vf::fnv(subj), vf::mix((std::uint64_t)c, (std::uint64_t)(long long)k));
    using ER = typename decltype(ed * k)::rep;
    using SR = typename decltype(sd * k)::rep;
    vf::crumb(subj, "rep of d*k is common_type<Rep,K>", "type-level", "compile-time boolean");
    vf::eq_bool("value", std::is_same_v<ER, std::common_type_t<typename ED::rep, K>>, std::is_same_v<SR, std::common_type_t<typename SD::rep, K>>);
    vf::crumb(subj, "d*k", sit, "count=%lld k=%lld", c, (long long)k);
    vf::cover("d*k", h, true);
    vf::eq_bool("equal", (long double)(ed * k).count() == (long double)(sd * k).count(), true);
    vf::crumb(subj, "k*d", sit, "count=%lld k=%lld", c, (long long)k);
    vf::cover("k*d", h, true);
    vf::eq_bool("equal", (long double)(k * ed).count() == (long double)(k * sd).count(), true);
    vf::crumb(subj, "d/k", sit, "count=%lld k=%lld", c, (long long)k);
    vf::cover("d/k", h, true);
    vf::eq_bool("equal", (long double)(ed / k).count() == (long double)(sd / k).count(), true);
    if constexpr (std::is_integral_v<std::common_type_t<typename ED::rep, K>>) {
        vf::crumb(subj, "d%k", sit, "count=%lld k=%lld", c, (long long)k);
        vf::cover("d%k", h, true);
        vf::eq_bool("equal", (long double)(ed % k).count() == (long double)(sd % k).count(), true);
    }
}

#endif

vf::Spec spec(vf::Tier)
{
    vf::Spec s;
    s.n_enum     = 1;
    s.n_random   = 2;
    s.batch      = 1;
    s.exhaustive = true;
    return s;
}

void run_case(vf::Case& c)
{
    std::vector<long long> as, bs;
    if (c.enumerated) {
        for (long long a = -50; a <= 50; a += 5) { as.push_back(a); }
        as.push_back(19000);
        for (long long b = -9; b <= 9; ++b) { bs.push_back(b); }
    } else {
        for (int i = 0; i < 24; ++i) { as.push_back(c.rng.range(-100000, 100000)); }
        for (int i = 0; i < 12; ++i) { bs.push_back(c.rng.range(-3000, 3000)); }
    }
#if !defined(C12_OPS_SCALAR)
    {
        for (long long a : as) {
            for (long long b : bs) {
                tp_ops<ec::sys_days, ec::days, sc::sys_days, sc::days>("sys_days,days", a, b);
                tp_ops<ec::sys_seconds, ec::milliseconds, sc::sys_seconds, sc::milliseconds>("sys_seconds,milliseconds", a, b);
                tp_ops<ec::sys_time<ec::minutes>, ec::duration<long, etl::ratio<5, 7>>, sc::sys_time<sc::minutes>, sc::duration<long, std::ratio<5, 7>>>("sys_time<minutes>,dur<5/7>", a, b);
                tp_ops<ec::local_days, ec::hours, sc::local_days, sc::hours>("local_days,hours", a, b);
            }
        }
    }
#else
    {
        for (long long a : as) {
            for (long long b : bs) {
                if (b == 0) { continue; }
                scalar_ops<ec::minutes, sc::minutes>("minutes,int", a, (int)b);
                scalar_ops<ec::milliseconds, sc::milliseconds>("milliseconds,short", a, (short)b);
                scalar_ops<ec::seconds, sc::seconds>("seconds,double", a, (double)b / 4);
                if (a >= 0 && b > 0) { scalar_ops<ec::duration<unsigned, etl::ratio<1>>, sc::duration<unsigned, std::ratio<1>>>("dur<u32>,unsigned long", a, (unsigned long)b); }
            }
        }
    }
#endif
}
} // namespace

#if !defined(C12_OPS_SCALAR)
VF_MAIN("C12", "C12_ops_tp", spec, run_case)
#else
VF_MAIN("C12", "C12_ops_scalar", spec, run_case)
#endif
