// C16 - the integer-exponent and mixed-argument forms of the two-argument <cmath> functions, in constant expressions
// AND at run time, against libm (DESIGN 4 C16; twin-table style of C13).
//
// (a) pow(T, int), T = float | double: every base in B = {+-0, +-1, +-0.5, +-2, +-1.5, 10, denormal, max, +-inf, NaN}
//     x every exponent in E = {0, +-1, +-2, +-3, +-1023, +-1074, INT_MAX-1, INT_MAX, INT_MIN, INT_MIN+1, INT_MIN+2}.
//     Each cell is evaluated (1) at run time with laundered arguments and (2) as a constant expression when the
//     implementation lets it be one (probed per cell; a cell the compiler refuses to constant-evaluate is counted
//     as skipped, not reported - GCC rejects overflow/invalid operations in constant expressions by itself).
//     Reference: pow evaluated in long double, rounded to T.  Rule: NaN/inf/signed-zero class equal; ulp distance
//     within the committed bound ("pow_int<T>" at run time, "pow_int<T>@consteval" in constant expressions).
//     tetl provides no ldexp/scalbn/scalbln/frexp/ilogb, so pow is the only (floating, integer) function.
// (b) the "additional overloads" of [cmath.syn]/2: pow atan2 fmod remainder fmin fmax fdim hypot copysign nextafter
//     called with (float,double) (double,float) (int,double) (double,int) (float,int) (int,float) (int,int):
//     a call std:: accepts must be accepted, return the same type, and give the same value (run time, and as a
//     constant expression where evaluable) as the std:: call with the same arguments.
// No seeded part: the table is the scope.
#include "vf.hpp"
#include "vf_contract.hpp"
#include "vf_float.hpp"

#include <etl/cmath.hpp>

#include <climits>
#include <cmath>
#include <limits>
#include <type_traits>
#include <utility>

#define VF_T double
#define VF_T_NAME "double"
#include "C16_common.hpp"

namespace {
namespace fp = vf::fp;
using c16::need_bound;
using c16::note_maxulp;

template <typename T>
constexpr char const* tname = std::is_same_v<T, float> ? "float" : "double";

// ---------------------------------------------------------------- (a) pow(T, int)
template <typename T>
struct Bases {
    using L = std::numeric_limits<T>;
    static constexpr T v[] = {T(0), -T(0), T(1), T(-1), T(0.5), T(-0.5), T(2), T(-2), T(1.5), T(-1.5), T(10), L::denorm_min(),
        L::min() / 4, L::max(), L::lowest(), L::infinity(), -L::infinity(), L::quiet_NaN()};
    static constexpr int n = sizeof(v) / sizeof(v[0]);
};
constexpr int kExps[] = {0, 1, -1, 2, -2, 3, -3, 1023, -1023, 1024, 1074, -1074, -1075, INT_MAX - 1, INT_MAX, INT_MIN, INT_MIN + 1,
    INT_MIN + 2};
constexpr int NE = sizeof kExps / sizeof kExps[0];

template <typename T, int BI, int EI>
struct PowCell {
    static constexpr auto call() { return etl::pow(Bases<T>::v[BI], kExps[EI]); }
};
// is C::call() a constant expression?
template <typename C, int = (static_cast<void>(C::call()), 0)>
constexpr bool evaluable(int)
{
    return true;
}
template <typename C>
constexpr bool evaluable(long)
{
    return false;
}

template <typename T>
char const* base_class(T b)
{
    if (fp::is_nan(b)) { return "nan"; }
    if (fp::is_inf(b)) { return fp::sign(b) ? "-inf" : "inf"; }
    if (fp::is_zero(b)) { return fp::sign(b) ? "-zero" : "zero"; }
    if (b == T(1)) { return "one"; }
    if (b == T(-1)) { return "-one"; }
    if (fp::is_denormal(b) || std::fabs(b) < std::numeric_limits<T>::min()) { return fp::sign(b) ? "-denormal" : "denormal"; }
    if (std::fabs(b) == std::numeric_limits<T>::max()) { return fp::sign(b) ? "-max" : "max"; }
    if (std::fabs(b) < T(1)) { return fp::sign(b) ? "-fraction" : "fraction"; }
    return fp::sign(b) ? "-(>1)" : ">1";
}
char const* exp_class(int n)
{
    switch (n) {
    case 0: return "n=0";
    case 1: return "n=1";
    case -1: return "n=-1";
    case INT_MAX: return "n=INT_MAX";
    case INT_MAX - 1: return "n=INT_MAX-1";
    case INT_MIN: return "n=INT_MIN";
    case INT_MIN + 1: return "n=INT_MIN+1";
    case INT_MIN + 2: return "n=INT_MIN+2";
    default: break;
    }
    bool const odd = (n & 1) != 0;
    if (n > 0) { return n > 100 ? (odd ? "n-large,odd" : "n-large,even") : (odd ? "n-small,odd" : "n-small,even"); }
    return n < -100 ? (odd ? "-n-large,odd" : "-n-large,even") : (odd ? "-n-small,odd" : "-n-small,even");
}

struct Tot {
    std::uint64_t n = 0, skipped = 0, max_rt = 0, max_ct = 0;
    char at_rt[160]{}, at_ct[160]{};
};

template <typename T>
void compare(char const* subject, char const* op, char const* sit, char const* args, T obs, T ref, std::uint64_t bound,
    std::uint64_t* maxu, char* maxat)
{
    if (fp::bits(obs) == fp::bits(ref)) { return; }
    char buf[64];
    std::uint64_t ulps = 0;
    char const* sym    = fp::approx_symptom(obs, ref, bound, &ulps, buf, sizeof buf);
    if (ulps > *maxu) {
        *maxu = ulps;
        std::snprintf(maxat, 160, "%s", args);
    }
    if (sym) {
        char o[96], e[96];
        fp::show(o, sizeof o, obs);
        fp::show(e, sizeof e, ref);
        vf::crumb(subject, op, sit, "%s", args);
        vf::diverge(sym, o, e);
    }
}

template <typename T, int BI, int EI>
void pow_cell(Tot& t, std::uint64_t b_rt, std::uint64_t b_ct)
{
    using C          = PowCell<T, BI, EI>;
    T const base     = fp::launder(Bases<T>::v[BI]);
    int volatile vn  = kExps[EI];
    int const n      = vn;
    T const ref      = (T)std::pow((long double)base, (long double)n);
    char subject[48], op_rt[48], op_ct[64], sit[96], args[160], bs[96];
    std::snprintf(subject, sizeof subject, "pow_int<%s>", tname<T>);
    std::snprintf(op_rt, sizeof op_rt, "pow(%s,int)", tname<T>);
    std::snprintf(op_ct, sizeof op_ct, "consteval pow(%s,int)", tname<T>);
    std::snprintf(sit, sizeof sit, "base:%s,%s", base_class(base), exp_class(n));
    fp::show(bs, sizeof bs, base);
    std::snprintf(args, sizeof args, "base=%s n=%d", bs, n);
    // run time
    vf::crumb(subject, op_rt, sit, "%s", args);
    T const rt = etl::pow(base, n);
    vf::cover(op_rt, vf::mix((std::uint64_t)BI * 64 + EI, vf::fnv(op_rt)), true);
    ++t.n;
    compare(subject, op_rt, sit, args, rt, ref, b_rt, &t.max_rt, t.at_rt);
    // constant expression
    if constexpr (evaluable<C>(0)) {
        constexpr T ct = C::call();
        vf::cover(op_ct, vf::mix((std::uint64_t)BI * 64 + EI, vf::fnv(op_ct)), true);
        ++t.n;
        compare(subject, op_ct, sit, args, ct, ref, b_ct, &t.max_ct, t.at_ct);
    } else {
        ++t.skipped;
    }
}
template <typename T, int BI, int... EI>
void pow_row(Tot& t, std::uint64_t b_rt, std::uint64_t b_ct, std::integer_sequence<int, EI...>)
{
    (pow_cell<T, BI, EI>(t, b_rt, b_ct), ...);
}
template <typename T, int... BI>
void pow_table(Tot& t, std::uint64_t b_rt, std::uint64_t b_ct, std::integer_sequence<int, BI...>)
{
    (pow_row<T, BI>(t, b_rt, b_ct, std::make_integer_sequence<int, NE>{}), ...);
}
template <typename T>
void run_pow()
{
    char subject[48], sub_ct[64], op[48];
    std::snprintf(subject, sizeof subject, "pow_int<%s>", tname<T>);
    std::snprintf(sub_ct, sizeof sub_ct, "pow_int<%s>@consteval", tname<T>);
    std::snprintf(op, sizeof op, "pow(%s,int)", tname<T>);
    std::uint64_t b_rt = 0, b_ct = 0;
    if (!need_bound(subject, op, &b_rt) || !need_bound(sub_ct, op, &b_ct)) { return; }
    Tot t;
    pow_table<T>(t, b_rt, b_ct, std::make_integer_sequence<int, Bases<T>::n>{});
    vf::sample(op, "%s: %d bases x %d integer exponents, run time + constant expression: %llu comparisons with long double pow, %llu cells not constant-evaluable",
        subject, Bases<T>::n, NE, (unsigned long long)t.n, (unsigned long long)t.skipped);
    note_maxulp(subject, t.max_rt, t.at_rt);
    note_maxulp(sub_ct, t.max_ct, t.at_ct);
}

// ---------------------------------------------------------------- (b) additional overloads of [cmath.syn]/2
template <typename A>
constexpr char const* aname = std::is_same_v<A, float> ? "float" : (std::is_same_v<A, double> ? "double" : "int");

template <typename V>
void cmp_mixed(char const* subject, char const* op, char const* how, V obs, V ref, bool exact)
{
    if constexpr (std::is_floating_point_v<V> && sizeof(V) <= 8) {
        if (fp::bits(obs) == fp::bits(ref)) { return; }
        char buf[64];
        std::uint64_t ulps = 0;
        char const* sym    = exact ? fp::exact_symptom(obs, ref, V(-123.25), false) : fp::approx_symptom(obs, ref, std::uint64_t(4), &ulps, buf, sizeof buf);
        if (sym) {
            char o[96], e[96], s2[96];
            fp::show(o, sizeof o, obs);
            fp::show(e, sizeof e, ref);
            std::snprintf(s2, sizeof s2, "%s:%s", how, sym);
            vf::diverge(s2, o, e);
        }
    } else if (!(obs == ref) && !(obs != obs && ref != ref)) {
        vf::diverge(how, "differs", "equal");
    }
    (void)subject;
    (void)op;
}

#define MIXFN(NAME, EXACT)                                                                                             \
    template <auto a, auto b>                                                                                          \
    struct MixCell_##NAME {                                                                                            \
        static constexpr auto call() { return etl::NAME(a, b); }                                                       \
    };                                                                                                                 \
    template <auto a, auto b>                                                                                          \
    void mix_##NAME()                                                                                                  \
    {                                                                                                                  \
        using A = std::remove_cv_t<decltype(a)>;                                                                       \
        using B = std::remove_cv_t<decltype(b)>;                                                                       \
        char subject[64], op[64], args[96];                                                                            \
        std::snprintf(subject, sizeof subject, #NAME "<mixed>");                                                       \
        std::snprintf(op, sizeof op, #NAME "(%s,%s)", aname<A>, aname<B>);                                             \
        std::snprintf(args, sizeof args, "a=%g b=%g", (double)a, (double)b);                                           \
        A volatile va = a;                                                                                             \
        B volatile vb = b;                                                                                             \
        A const ra = va;                                                                                               \
        B const rb = vb;                                                                                               \
        if constexpr (requires { std::NAME(ra, rb); }) {                                                               \
            using R = decltype(std::NAME(ra, rb));                                                                     \
            vf::crumb(subject, op, "overload-resolution", "%s", args);                                                 \
            vf::cover(op, vf::mix(vf::fnv(args), vf::fnv(op)), true);                                                  \
            if constexpr (requires { etl::NAME(ra, rb); }) {                                                           \
                using G = decltype(etl::NAME(ra, rb));                                                                 \
                if constexpr (!std::is_same_v<G, R>) {                                                                 \
                    vf::diverge("return-type-differs", sizeof(G) < sizeof(R) ? "narrower" : "other", "type of the std:: call");        \
                } else {                                                                                               \
                    R const ref = std::NAME(ra, rb);                                                                   \
                    vf::crumb(subject, op, "value", "%s", args);                                                       \
                    G const g = etl::NAME(ra, rb);                                                                     \
                    cmp_mixed<R>(subject, op, "run-time", g, ref, EXACT);                                              \
                    if constexpr (evaluable<MixCell_##NAME<a, b>>(0)) {                                                \
                        constexpr G ct = MixCell_##NAME<a, b>::call();                                                 \
                        vf::crumb(subject, op, "value", "%s (constant expression)", args);                             \
                        vf::cover(op, vf::mix(vf::fnv(args), vf::fnv(op)) + 1, true);                                  \
                        cmp_mixed<R>(subject, op, "consteval", ct, ref, false);                                        \
                    }                                                                                                  \
                }                                                                                                      \
            } else {                                                                                                   \
                vf::diverge("call-rejected", "ambiguous or no viable overload", "accepted like the std:: call");      \
            }                                                                                                          \
        }                                                                                                              \
    }                                                                                                                  \
    void mixall_##NAME()                                                                                               \
    {                                                                                                                  \
        mix_##NAME<2.5F, 3.0>();                                                                                       \
        mix_##NAME<0.75, 2.5F>();                                                                                      \
        mix_##NAME<3, 0.5>();                                                                                          \
        mix_##NAME<2.25, 3>();                                                                                         \
        mix_##NAME<1.5F, 2>();                                                                                         \
        mix_##NAME<7, 2.0F>();                                                                                         \
        mix_##NAME<7, 2>();                                                                                            \
        mix_##NAME<-3, 0.5>();                                                                                         \
        mix_##NAME<-2.5F, 3.0>();                                                                                      \
    }

MIXFN(pow, false)
MIXFN(atan2, false)
MIXFN(hypot, false)
MIXFN(fmod, true)
MIXFN(remainder, true)
MIXFN(fmin, true)
MIXFN(fmax, true)
MIXFN(fdim, true)
MIXFN(copysign, true)
MIXFN(nextafter, true)

vf::Spec spec(vf::Tier)
{
    vf::Spec s;
    s.n_enum     = 3;
    s.n_random   = 0;
    s.batch      = 1;
    s.timeout_s  = 300;
    s.exhaustive = true;
    return s;
}

void run_case(vf::Case& c)
{
    switch (c.index) {
    case 0: run_pow<float>(); break;
    case 1: run_pow<double>(); break;
    default:
        mixall_pow();
        mixall_atan2();
        mixall_hypot();
        mixall_fmod();
        mixall_remainder();
        mixall_fmin();
        mixall_fmax();
        mixall_fdim();
        mixall_copysign();
        mixall_nextafter();
        vf::sample("mixed", "10 functions x 9 argument-type pairs of the additional overloads of [cmath.syn]/2");
        break;
    }
}
} // namespace

VF_MAIN("C16", "C16_mixed", spec, run_case)
