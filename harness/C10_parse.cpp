// C10 (parsing half, views) - etl::from_chars and etl::strings::to_integer<Int, options>
// vs std::from_chars on non-null-terminated exact-size views; round trip parse(format(x)) == x
// (DESIGN 4, C10).
#include "vf.hpp"
#include "vf_contract.hpp"
#include "vf_c10.hpp"

#include <etl/charconv.hpp>
#include <etl/string_view.hpp>
#include <etl/strings.hpp>

#include <charconv>
#include <string>

namespace {
using namespace c10;

constexpr unsigned kBases = 35; // 2..36

//  [0, n8)        8-bit type x base                 : all values (round trip + decorated digits) + boundary strings + grammar product
//  [n8, +n16)     16-bit type x base x 16 chunks    : 4096 values each (ASan quick: every 7th); chunk 0 adds boundary strings + grammar product
//  [.., +nw)      32/64-bit type x base             : boundary values (+-2000 around 0) + boundary strings + grammar product
//  random         random type/base, random strings from the grammar
constexpr std::uint64_t n8  = 3 * kBases;
constexpr std::uint64_t n16 = 2 * kBases * 16;
constexpr std::uint64_t nw  = 6 * kBases;

vf::Spec spec(vf::Tier t)
{
    vf::Spec s;
    s.n_enum     = n8 + n16 + nw;
    s.n_random   = t == vf::Tier::thorough ? 60000 : 4000;
    s.batch      = 8;
    s.exhaustive = !(VF_ASAN && t == vf::Tier::quick); // the ASan quick build thins the 16-bit sweep to every 7th value
    return s;
}

bool is_ws(char c) { return c == ' ' || c == '\t' || c == '\n' || c == '\v' || c == '\f' || c == '\r'; }
int digit_val(char c)
{
    if (c >= '0' && c <= '9') { return c - '0'; }
    if (c >= 'a' && c <= 'z') { return c - 'a' + 10; }
    if (c >= 'A' && c <= 'Z') { return c - 'A' + 10; }
    return 99;
}

// shape of the input as the *reference grammar* sees it (computed by the harness, independent of tetl)
struct Shape {
    std::size_t ws = 0;      // leading whitespace characters
    char const* lead = "";   // class of the first character after the whitespace
    bool neg = false;
    std::size_t nsig = 0;    // significant digits (without leading zeros)
    u128 mag = 0;            // magnitude of the digit run (saturating)
    bool sat = false;
};
Shape analyse(std::string const& s, int base)
{
    Shape sh;
    std::size_t i = 0;
    while (i < s.size() && is_ws(s[i])) { ++i; }
    sh.ws = i;
    if (i == s.size()) {
        sh.lead = "end";
        return sh;
    }
    std::size_t j = i;
    if (s[i] == '-') {
        sh.lead = "minus";
        sh.neg  = true;
        ++j;
    } else if (s[i] == '+') {
        sh.lead = "plus";
        ++j;
    } else if (digit_val(s[i]) < base) {
        sh.lead = "digit";
    } else {
        sh.lead = "other";
    }
    bool lz = true;
    for (; j < s.size() && digit_val(s[j]) < base; ++j) {
        unsigned d = (unsigned)digit_val(s[j]);
        if (lz && d == 0) { continue; }
        lz = false;
        sh.nsig++;
        u128 const lim = ~(u128)0;
        if (sh.mag > (lim - d) / (unsigned)base) {
            sh.sat = true;
        } else {
            sh.mag = sh.mag * (unsigned)base + d;
        }
    }
    return sh;
}
std::size_t ndigits(u128 v, int base)
{
    std::size_t n = 0;
    for (; v != 0; v /= (unsigned)base) { ++n; }
    return n ? n : 1;
}
template <typename T>
char const* overflow_cls(Shape const& sh, int base)
{
    u128 const limit = sh.neg ? (u128)0 - (u128)tmin<T>() : (u128)tmax<T>();
    if (!sh.sat && sh.mag == limit + 1) { return "overflow-by-one-unit"; }
    std::size_t const nl = ndigits(limit, base);
    if (sh.nsig == nl) { return "overflow-same-length"; }
    if (sh.nsig == nl + 1) { return "overflow-by-one-digit"; }
    return "overflow-far";
}

char const* ptr_sym(long long obs, long long exp, char* buf, std::size_t n, char const* name)
{
    long long d = obs - exp;
    if (obs == 0) {
        std::snprintf(buf, n, "%s:at-start", name);
    } else if (d >= -2 && d <= 2) {
        std::snprintf(buf, n, "%s:%+lld", name, d);
    } else {
        std::snprintf(buf, n, "%s:%s", name, d > 0 ? "greater" : "less");
    }
    return buf;
}

template <typename T>
struct Parse {
    using EI = etl::strings::to_integer_error;
    char subj_fc[64], subj_ti[64], subj_rt[64];
    Pool& pool;
    Counts& cnt;
    std::size_t i_fc[3], i_ti[3][3], i_rt[2], i_fcd, i_tid;
    static constexpr T sentinel = (T)0x5A;

    Parse(char const* name, Pool& p, Counts& c) : pool(p), cnt(c)
    {
        std::snprintf(subj_fc, sizeof subj_fc, "from_chars<%s>", name);
        std::snprintf(subj_ti, sizeof subj_ti, "to_integer<%s>", name);
        std::snprintf(subj_rt, sizeof subj_rt, "roundtrip<%s>", name);
        char const* res[3] = {"ok", "invalid", "overflow"};
        char const* opt[3] = {"skip-ws,check", "no-skip,check", "skip-ws,no-check"};
        for (unsigned r = 0; r < 3; ++r) {
            i_fc[r] = c.slot(std::string(subj_fc) + "|" + res[r]);
            for (unsigned o = 0; o < 3; ++o) { i_ti[o][r] = c.slot(std::string(subj_ti) + "|" + opt[o] + "|" + res[r]); }
        }
        i_fcd   = c.slot(std::string(subj_fc) + "|default-base");
        i_tid   = c.slot(std::string(subj_ti) + "|default-base");
        i_rt[0] = c.slot(std::string(subj_rt) + "|from_chars(to_chars(x))");
        i_rt[1] = c.slot(std::string(subj_rt) + "|to_integer(from_integer(x))");
    }

    static std::string vstr(T v) { return fmt_i128((i128)v, 10); }

    // situation from the model's view: lead, result class, whether everything was consumed
    void make_sit(char* sit, std::size_t n, int base, Shape const& sh, bool ws_in_lead, Ec ec, bool all)
    {
        char const* res = ec == Ec::ok ? "ok" : (ec == Ec::invalid_argument ? "invalid" : overflow_cls<T>(sh, base));
        std::snprintf(sit, n, "%s%s,%s,%s", ws_in_lead && sh.ws ? "ws-" : "", sh.lead, res, all ? "all" : "tail");
    }

    // ---- etl::from_chars vs std::from_chars on an exact-size, non-terminated view
    void from_chars_one(std::string const& s, int base)
    {
        T sv            = sentinel;
        char const* sp  = s.data();
        auto const sr   = std::from_chars(sp, sp + s.size(), sv, base);
        Ec const sec    = ec_of(sr.ec);
        Shape sh        = analyse(s, base);
        // from_chars does not skip whitespace: a leading blank is just an "other" first character
        if (sh.ws) {
            sh      = Shape{};
            sh.lead = "ws";
        }
        char sit[96];
        make_sit(sit, sizeof sit, base, sh, false, sec, sr.ptr == sp + s.size());
        vf::Buf<char>& b = pool.view(s);
        vf::crumb(subj_fc, "from_chars(first,last,value,base)", sit, "input=%s base=%d", show(s).c_str(), base);
        T ev          = sentinel;
        auto const er = etl::from_chars(b.data(), b.data() + s.size(), ev, base);
        cnt.bump(i_fc[sec == Ec::ok ? 0 : (sec == Ec::invalid_argument ? 1 : 2)]);
        if (!eq_ec("ec", ec_of_etl(er.ec), sec)) { return; }
        if (ev != sv) {
            if (sec == Ec::ok) {
                vf::eq_int("value", (long long)ev, (long long)sv);
            } else {
                vf::diverge("value:modified-on-error", vstr(ev), vstr(sv));
            }
            return;
        }
        long long const op = er.ptr - b.data(), xp = sr.ptr - sp;
        if (op != xp) {
            char sym[64];
            vf::diverge(ptr_sym(op, xp, sym, sizeof sym, "ptr"), vf::to_s(op), vf::to_s(xp));
        }
    }

    // ---- strings::to_integer<T, {skip_whitespace, check_overflow}> vs "optional whitespace, then std::from_chars"
    template <bool Skip, bool Check>
    void to_integer_one(std::string const& s, int base)
    {
        Shape sh             = analyse(s, base);
        std::size_t const ws = Skip ? sh.ws : 0;
        if (!Skip && sh.ws) {
            sh      = Shape{};
            sh.lead = "ws";
        }
        T sv           = sentinel;
        char const* sp = s.data();
        auto const sr  = std::from_chars(sp + ws, sp + s.size(), sv, base);
        Ec const sec   = ec_of(sr.ec);
        if (!Check && sec == Ec::result_out_of_range) { return; } // unchecked overflow has no reference result: outside the domain
        char sit[96];
        make_sit(sit, sizeof sit, base, sh, true, sec, sr.ptr == sp + s.size());
        constexpr unsigned oi = Skip ? (Check ? 0 : 2) : 1;
        char const* const op  = oi == 0 ? "to_integer<skip-ws,check>(str,base)" : (oi == 1 ? "to_integer<no-skip,check>(str,base)" : "to_integer<skip-ws,no-check>(str,base)");
        vf::Buf<char>& b = pool.view(s);
        vf::crumb(subj_ti, op, sit, "input=%s base=%d", show(s).c_str(), base);
        constexpr auto opts = etl::strings::to_integer_options{.skip_whitespace = Skip, .check_overflow = Check};
        auto const r        = etl::strings::to_integer<T, opts>(etl::string_view{b.data(), s.size()}, static_cast<T>(base));
        cnt.bump(i_ti[oi][sec == Ec::ok ? 0 : (sec == Ec::invalid_argument ? 1 : 2)]);
        Ec const oec = r.error == EI::none ? Ec::ok : (r.error == EI::invalid_input ? Ec::invalid_argument : (r.error == EI::overflow ? Ec::result_out_of_range : Ec::other));
        if (!eq_ec("error", oec, sec)) { return; }
        if (sec == Ec::ok && r.value != sv) {
            vf::eq_int("value", (long long)r.value, (long long)sv);
            return;
        }
        // consumed characters: everything up to the end of the digits on success and on overflow, nothing when there is no number
        long long const xe = sec == Ec::invalid_argument ? 0 : (long long)(sr.ptr - sp);
        long long const oe = r.end - b.data();
        if (oe != xe) {
            char sym[64];
            vf::diverge(ptr_sym(oe, xe, sym, sizeof sym, "end"), vf::to_s(oe), vf::to_s(xe));
        }
    }

    // ---- overloads with the defaulted base (10): from_chars(first,last,value) and to_integer<T>(str)
    void default_base_one(std::string const& s)
    {
        T sv           = sentinel;
        char const* sp = s.data();
        auto const sr  = std::from_chars(sp, sp + s.size(), sv);
        Ec const sec   = ec_of(sr.ec);
        Shape sh       = analyse(s, 10);
        Shape const shws = sh;
        if (sh.ws) {
            sh      = Shape{};
            sh.lead = "ws";
        }
        char sit[96];
        make_sit(sit, sizeof sit, 10, sh, false, sec, sr.ptr == sp + s.size());
        vf::Buf<char>& b = pool.view(s);
        vf::crumb(subj_fc, "from_chars(first,last,value)", sit, "input=%s", show(s).c_str());
        T ev          = sentinel;
        auto const er = etl::from_chars(b.data(), b.data() + s.size(), ev);
        cnt.bump(i_fcd);
        if (eq_ec("ec", ec_of_etl(er.ec), sec)) {
            if (ev != sv) {
                vf::diverge(sec == Ec::ok ? "value:differs" : "value:modified-on-error", vstr(ev), vstr(sv));
            } else if (er.ptr - b.data() != sr.ptr - sp) {
                char sym[64];
                vf::diverge(ptr_sym(er.ptr - b.data(), sr.ptr - sp, sym, sizeof sym, "ptr"), vf::to_s(er.ptr - b.data()), vf::to_s(sr.ptr - sp));
            }
        }
        // to_integer<T>(str): default options (skip whitespace, check overflow), default base
        T sv2          = sentinel;
        auto const sr2 = std::from_chars(sp + shws.ws, sp + s.size(), sv2);
        Ec const sec2  = ec_of(sr2.ec);
        make_sit(sit, sizeof sit, 10, shws, true, sec2, sr2.ptr == sp + s.size());
        vf::crumb(subj_ti, "to_integer<skip-ws,check>(str)", sit, "input=%s", show(s).c_str());
        auto const r = etl::strings::to_integer<T>(etl::string_view{b.data(), s.size()});
        cnt.bump(i_tid);
        Ec const oec = r.error == EI::none ? Ec::ok : (r.error == EI::invalid_input ? Ec::invalid_argument : (r.error == EI::overflow ? Ec::result_out_of_range : Ec::other));
        if (!eq_ec("error", oec, sec2)) { return; }
        if (sec2 == Ec::ok && r.value != sv2) {
            vf::eq_int("value", (long long)r.value, (long long)sv2);
            return;
        }
        long long const xe = sec2 == Ec::invalid_argument ? 0 : (long long)(sr2.ptr - sp);
        long long const oe = r.end - b.data();
        if (oe != xe) {
            char sym[64];
            vf::diverge(ptr_sym(oe, xe, sym, sizeof sym, "end"), vf::to_s(oe), vf::to_s(xe));
        }
    }

    void parse_all(std::string const& s, int base)
    {
        if (base == 10) { default_base_one(s); }
        from_chars_one(s, base);
        to_integer_one<true, true>(s, base);
        to_integer_one<false, true>(s, base);
        to_integer_one<true, false>(s, base);
    }

    // ---- round trip through tetl's own formatter
    void roundtrip(T v, int base)
    {
        char sit[64];
        std::snprintf(sit, sizeof sit, "%s,%s", base_cls(base), v < 0 ? "neg" : (v == 0 ? "zero" : "pos"));
        {
            vf::Buf<char>& out = pool.get(70);
            vf::crumb(subj_rt, "from_chars(to_chars(x))", sit, "x=%s base=%d", vstr(v).c_str(), base);
            auto const f = etl::to_chars(out.data(), out.data() + 70, v, base);
            if (f.ec != etl::errc{} || f.ptr < out.data() || f.ptr > out.data() + 70) {
                vf::diverge("format-failed", "error", "digits");
            } else {
                std::string const txt(out.data(), (std::size_t)(f.ptr - out.data()));
                vf::Buf<char>& in = pool.view(txt);
                T back            = sentinel;
                auto const p      = etl::from_chars(in.data(), in.data() + txt.size(), back, base);
                cnt.bump(i_rt[0]);
                if (p.ec != etl::errc{}) {
                    eq_ec("parse-ec", ec_of_etl(p.ec), Ec::ok);
                } else if (back != v) {
                    vf::diverge("value:not-original", vstr(back), vstr(v));
                } else if (p.ptr != in.data() + txt.size()) {
                    vf::diverge("ptr:not-all-consumed", vf::to_s(p.ptr - in.data()), vf::to_s((long long)txt.size()));
                }
            }
        }
        {
            vf::Buf<char>& out = pool.get(70);
            vf::crumb(subj_rt, "to_integer(from_integer(x))", sit, "x=%s base=%d", vstr(v).c_str(), base);
            auto const f = etl::strings::from_integer<T>(v, out.data(), 70, base);
            if (f.error != etl::strings::from_integer_error::none || f.end < out.data() || f.end > out.data() + 70) {
                vf::diverge("format-failed", "error", "digits");
            } else {
                std::string const txt(out.data(), (std::size_t)(f.end - out.data()));
                vf::Buf<char>& in = pool.view(txt);
                auto const p      = etl::strings::to_integer<T>(etl::string_view{in.data(), txt.size()}, static_cast<T>(base));
                cnt.bump(i_rt[1]);
                if (p.error != EI::none) {
                    vf::diverge(p.error == EI::overflow ? "parse-error:overflow" : "parse-error:invalid_input", "error", "none");
                } else if (p.value != v) {
                    vf::diverge("value:not-original", vstr(p.value), vstr(v));
                } else if (p.end != in.data() + txt.size()) {
                    vf::diverge("end:not-all-consumed", vf::to_s(p.end - in.data()), vf::to_s((long long)txt.size()));
                }
            }
        }
    }

    // ---- per value: round trip + the reference digits in several decorations
    void value(T v, int base, unsigned salt)
    {
        roundtrip(v, base);
        std::string const digits = fmt_i128((i128)v, base);
        parse_all(digits, base);
        bool const neg        = v < 0;
        std::string const mag = neg ? digits.substr(1) : digits;
        if (base > 10) {
            std::string const up = fmt_i128((i128)v, base, true);
            if (up != digits) { parse_all(up, base); }
        }
        parse_all(std::string(neg ? "-" : "") + (salt % 3 == 0 ? "0" : "000") + mag, base);
        static char const garbage[] = {' ', 'x', '-', '+', '\0', '.', '\xE9', 'Z', '_', '9', '@', '[', '`', '{', '/', ':', 'G', 'g'};
        char g = garbage[salt % sizeof garbage];
        parse_all(digits + g, base);
        // the character that is exactly the digit "base" (first non-digit of this base)
        parse_all(digits + digit_char((unsigned)base % 36, (salt & 1) != 0), base);
        static char const* const wss[] = {" ", "\t", "\n ", "\v\f\r", "  \t"};
        parse_all(wss[salt % 5] + digits, base);
        if (vf::want_sample(subj_fc)) {
            vf::sample(subj_fc, "value %s base %d: round trip through etl::to_chars/from_integer, then '%s' plain, upper-case, zero-padded, with a trailing non-digit, with leading whitespace -> from_chars + 3 to_integer option sets",
                vstr(v).c_str(), base, digits.c_str());
        }
    }

    // ---- strings around the limits of T (overflow by one unit / one digit, 64/128-bit wrap-around candidates)
    void boundary_strings(int base)
    {
        std::vector<i128> vals;
        i128 const mx = tmax<T>(), mn = tmin<T>();
        for (int d = -2; d <= 2; ++d) {
            vals.push_back(mx + d);
            vals.push_back(mn + d);
        }
        i128 const extra[] = {mx + base, mx * base, mx * base + base - 1, (mx + 1) * base, mx / base, mx / base + 1, mn - base, mn * base, mn * base - (base - 1),
            mn / base, mn / base - 1, -mx, -mx - 2, -mn, (i128)1 << 31, (i128)1 << 32, ((i128)1 << 32) + 1, (i128)1 << 63, ((i128)1 << 63) - 1, -((i128)1 << 63) - 1,
            (i128)1 << 64, ((i128)1 << 64) + 1, ((i128)1 << 64) - 1, -((i128)1 << 64), ((i128)1 << 64) + (i128)tmax<T>(), ((i128)1 << 64) * base, ((i128)1 << 16),
            ((i128)1 << 16) + 5, ((i128)1 << 8) + 1, ((i128)1 << 8), 0, -1, 1};
        for (i128 v : extra) { vals.push_back(v); }
        static char const* const tails[] = {"", "!", " 1"};
        for (i128 v : vals) {
            for (int upper = 0; upper < (base > 10 ? 2 : 1); ++upper) {
                std::string const d = fmt_i128(v, base, upper != 0);
                std::string const m = v < 0 ? d.substr(1) : d;
                std::string const sg = v < 0 ? "-" : "";
                for (char const* t : tails) {
                    parse_all(d + t, base);
                    parse_all(sg + "0" + m + t, base);
                    parse_all(sg + std::string(30, '0') + m + t, base);
                    parse_all(" " + d + t, base);
                    parse_all("+" + m + t, base);
                    if (v > 0) { parse_all("-" + m + t, base); }
                }
            }
        }
        // very long digit runs (wrap-around of any accumulator width)
        char const top = digit_char((unsigned)base - 1);
        for (std::size_t n : {(std::size_t)20, (std::size_t)40, (std::size_t)65, (std::size_t)130}) {
            parse_all(std::string(n, top), base);
            parse_all("-" + std::string(n, top), base);
            parse_all("1" + std::string(n, '0'), base);
            parse_all("-1" + std::string(n, '0') + "x", base);
        }
        if (vf::want_sample(subj_ti)) {
            vf::sample(subj_ti, "base %d: max%+d..max+2, min-2..min+2, max*base, 2^32, 2^63, 2^64 (+-1), 20..130-digit runs; each plain, zero-padded (1 and 30 zeros), with blank, '+', '-', tails '', '!', ' 1'", base, -2);
        }
    }

    // ---- small product of the grammar  ws* sign? prefix? digit* garbage*
    void grammar_product(int base)
    {
        static std::string const wss[]   = {"", " ", "\t\n\v\f\r ", std::string(1, '\0')};
        static char const* const signs[] = {"", "-", "+", "--", "-+", "+-", "- "};
        static char const* const pres[]  = {"", "0x", "0X", "0", "0b"};
        std::vector<std::string> digs    = {"", "0", "1", "00", "10", "z", "Z", "a", "F"};
        digs.push_back(std::string(1, digit_char((unsigned)base - 1)));
        digs.push_back(std::string(1, digit_char((unsigned)base - 1, true)));
        digs.push_back(std::string(1, digit_char((unsigned)base % 36)));
        digs.push_back(fmt_i128(tmax<T>(), base));
        digs.push_back(fmt_i128(tmax<T>() + 1, base));
        static std::string const tails[] = {"", " ", "x", "-1", std::string("\0" "1", 2), ".5", "\xE9", "+"};
        for (auto const& w : wss) {
            for (char const* sg : signs) {
                for (char const* pr : pres) {
                    for (auto const& dg : digs) {
                        for (auto const& tl : tails) { parse_all(w + sg + pr + dg + tl, base); }
                    }
                }
            }
        }
    }

    // ---- seeded random string from the same grammar
    std::string random_input(vf::Rng& r, int base)
    {
        std::string s;
        static char const wsc[] = {' ', '\t', '\n', '\v', '\f', '\r'};
        if (r.chance(1, 4)) {
            for (std::uint64_t n = r.below(4); n-- > 0;) { s += wsc[r.below(6)]; }
        }
        switch (r.below(8)) {
        case 0: s += '-'; break;
        case 1: s += '-'; break;
        case 2: s += '+'; break;
        case 3: s += r.coin() ? "--" : "+-"; break;
        default: break;
        }
        if (r.chance(1, 10)) { s += r.coin() ? "0x" : "0"; }
        if (r.chance(1, 8)) { s += std::string((std::size_t)r.below(5), '0'); }
        switch (r.below(4)) {
        case 0: { // near a limit
            i128 lim = r.coin() ? tmax<T>() : tmin<T>();
            i128 v   = lim + r.range(-3, 3);
            if (r.chance(1, 4)) { v = v * base + (i128)r.below((std::uint64_t)base); }
            std::string d = fmt_i128(v < 0 ? -v : v, base, r.coin());
            s += d;
            break;
        }
        case 1: { // random value of T
            T v           = random_value<T>(r);
            std::string d = fmt_i128((i128)v, base, r.coin());
            s += (d[0] == '-' ? d.substr(1) : d);
            break;
        }
        case 2: { // random digits of the base, random length
            for (std::uint64_t n = r.below(26); n-- > 0;) { s += digit_char((unsigned)r.below((std::uint64_t)base), r.coin()); }
            break;
        }
        default: { // random alnum (digits >= base included)
            for (std::uint64_t n = r.below(8); n-- > 0;) { s += digit_char((unsigned)r.below(36), r.coin()); }
            break;
        }
        }
        if (r.chance(1, 3)) {
            for (std::uint64_t n = 1 + r.below(3); n-- > 0;) { s += (char)r.below(256); }
        }
        return s;
    }
};

void run_case(vf::Case& c)
{
    Pool pool;
    Counts cnt(vf::mix(c.id, c.enumerated ? 0x20f : vf::g().seed));
    bool const thin = VF_ASAN && c.tier == vf::Tier::quick;
    if (c.enumerated && c.index < n8) {
        unsigned ti = (unsigned)(c.index / kBases);
        int base    = 2 + (int)(c.index % kBases);
        with_type(ti, [&](auto tag) {
            using T = typename decltype(tag)::type;
            Parse<T> p(tag.name, pool, cnt);
            for (int v = (int)tmin<T>(); v <= (int)tmax<T>(); ++v) { p.value((T)v, base, (unsigned)(v + 128 + base)); }
            p.boundary_strings(base);
            if (!thin || base == 2 || base == 8 || base == 10 || base == 16 || base == 36 || base % 11 == (int)(ti % 11)) { p.grammar_product(base); }
        });
    } else if (c.enumerated && c.index < n8 + n16) {
        std::uint64_t k = c.index - n8;
        unsigned ti     = 3 + (unsigned)(k / (kBases * 16));
        int base        = 2 + (int)((k / 16) % kBases);
        int chunk       = (int)(k % 16);
        with_type(ti, [&](auto tag) {
            using T = typename decltype(tag)::type;
            if constexpr (sizeof(T) == 2) {
                Parse<T> p(tag.name, pool, cnt);
                int lo   = (int)tmin<T>() + chunk * 4096;
                int step = thin ? 7 : 1;
                p.value((T)lo, base, (unsigned)chunk);
                p.value((T)(lo + 4095), base, (unsigned)chunk + 1);
                for (int v = lo + 1 + (thin ? (base + chunk) % 7 : 0); v < lo + 4095; v += step) { p.value((T)v, base, (unsigned)(v + 40000 + base)); }
                if (chunk == 0) {
                    p.boundary_strings(base);
                    if (!thin || base == 2 || base == 8 || base == 10 || base == 16 || base == 36 || base % 11 == (int)(ti % 11)) { p.grammar_product(base); }
                }
            }
        });
    } else if (c.enumerated) {
        std::uint64_t k = c.index - n8 - n16;
        unsigned ti     = 5 + (unsigned)(k / kBases);
        int base        = 2 + (int)(k % kBases);
        with_type(ti, [&](auto tag) {
            using T = typename decltype(tag)::type;
            Parse<T> p(tag.name, pool, cnt);
            unsigned salt = (unsigned)base;
            for (T v : boundary_values<T>(base, thin ? 300 : 2000)) { p.value(v, base, salt++); }
            p.boundary_strings(base);
            // ASan quick build: the grammar product for the common bases and one more per type (the plain build runs all 35)
            if (!thin || base == 2 || base == 8 || base == 10 || base == 16 || base == 36 || base % 11 == (int)(ti % 11)) { p.grammar_product(base); }
        });
    } else {
        unsigned ti = (unsigned)c.rng.below(kTypes);
        int base    = c.rng.chance(1, 4) ? 10 : 2 + (int)c.rng.below(kBases);
        with_type(ti, [&](auto tag) {
            using T = typename decltype(tag)::type;
            Parse<T> p(tag.name, pool, cnt);
            for (int i = 0; i < 40; ++i) { p.parse_all(p.random_input(c.rng, base), base); }
            for (int i = 0; i < 8; ++i) { p.value(random_value<T>(c.rng), base, (unsigned)c.rng.below(1000)); }
        });
    }
}
} // namespace

VF_MAIN("C10", "C10_parse", spec, run_case)
