// C14 - safe integer comparisons, in_range and saturate_cast over signed/unsigned type pairs vs std <utility> / __int128
// (DESIGN section 4, C14).  Public tetl API only.
//   -DC14_ROWS=0..3 : first parameter type in {int8,int16} / {int32,int64} / {uint8,uint16} / {uint32,uint64}   (split for parallel compiles)
//   -DC14_ROWS=9 : bulk sweep (thorough tier, plain flavour): every pair of 16-bit values for the six comparisons
#include "vf.hpp"
#include "vf_contract.hpp"

#include "vf_c14.hpp"

#include <etl/cstdint.hpp>
#include <etl/numeric.hpp>
#include <etl/utility.hpp>

#include <utility>

#ifndef C14_ROWS
    #define C14_ROWS 0
#endif

namespace {
using namespace c14;

template <class T, class U>
std::string sub2(char const* fn)
{
    return std::string(fn) + "<" + TN<T>::v + "," + TN<U>::v + ">";
}
template <class T, class U>
char const* cmpclass(T t, U u)
{
    i128 a = i128(t), b = i128(u);
    int rel = a < b ? 0 : a == b ? 1 : 2;
    int sg  = (a < 0 ? 2 : 0) + (b < 0 ? 1 : 0);
    static char const* const tab[4][3] = {
        {"t>=0,u>=0,t<u", "t>=0,u>=0,t==u", "t>=0,u>=0,t>u"},
        {"t>=0,u<0,t<u", "t>=0,u<0,t==u", "t>=0,u<0,t>u"},
        {"t<0,u>=0,t<u", "t<0,u>=0,t==u", "t<0,u>=0,t>u"},
        {"t<0,u<0,t<u", "t<0,u<0,t==u", "t<0,u<0,t>u"},
    };
    return tab[sg][rel];
}

#define C14_CMP(S, FN)                                                                                                 \
    template <class T, class U>                                                                                        \
    struct S {                                                                                                         \
        using A = T;                                                                                                   \
        using B = U;                                                                                                   \
        using R = bool;                                                                                                \
        static constexpr char const* name = #FN "(t,u)";                                                               \
        static std::string subject() { return sub2<T, U>(#FN); }                                                       \
        static bool dom(T, U) { return true; }                                                                         \
        static R ref(T t, U u) { return std::FN(t, u); }                                                               \
        static R impl(T t, U u) { return etl::FN(t, u); }                                                              \
        static char const* sit(T t, U u) { return cmpclass(t, u); }                                                    \
    }
C14_CMP(CmpEqual, cmp_equal);
C14_CMP(CmpNotEqual, cmp_not_equal);
C14_CMP(CmpLess, cmp_less);
C14_CMP(CmpGreater, cmp_greater);
C14_CMP(CmpLessEqual, cmp_less_equal);
C14_CMP(CmpGreaterEqual, cmp_greater_equal);

template <class To, class From>
char const* rangeclass(From x)
{
    i128 v = i128(x);
    if (v < lo<To>) { return v == lo<To> - 1 ? "min-1" : "below-min"; }
    if (v > hi<To>) { return v == hi<To> + 1 ? "max+1" : "above-max"; }
    if (v == lo<To>) { return "exactly-min"; }
    if (v == hi<To>) { return "exactly-max"; }
    return "in-range";
}
// in_range<R>(t): first type = argument type T, second = range type
template <class T, class Rg>
struct InRange {
    using A = T;
    using R = bool;
    static constexpr char const* name = "in_range<R>(t)";
    static std::string subject() { return std::string("in_range<R=") + TN<Rg>::v + ">(" + TN<T>::v + ")"; }
    static bool dom(T) { return true; }
    static R ref(T t) { return std::in_range<Rg>(t); }
    static R impl(T t) { return etl::in_range<Rg>(t); }
    static char const* sit(T t) { return rangeclass<Rg>(t); }
};
template <class From, class To>
struct SaturateCast {
    using A = From;
    using R = i128;
    static constexpr char const* name = "saturate_cast<To>(x)";
    static std::string subject() { return std::string("saturate_cast<To=") + TN<To>::v + ">(" + TN<From>::v + ")"; }
    static bool dom(From) { return true; }
    static R ref(From x) { return i128(x) < lo<To> ? lo<To> : i128(x) > hi<To> ? hi<To> : i128(x); }
    static R impl(From x) { return i128(etl::saturate_cast<To>(x)); }
    static char const* sit(From x) { return rangeclass<To>(x); }
};

template <class T, class U>
void reg_pair()
{
    reg_binary<CmpEqual<T, U>>();
    reg_binary<CmpNotEqual<T, U>>();
    reg_binary<CmpLess<T, U>>();
    reg_binary<CmpGreater<T, U>>();
    reg_binary<CmpLessEqual<T, U>>();
    reg_binary<CmpGreaterEqual<T, U>>();
    reg_unary<InRange<T, U>>();
    reg_unary<SaturateCast<T, U>>();
}
template <class T>
void reg_row()
{
    reg_pair<T, signed char>();
    reg_pair<T, unsigned char>();
    reg_pair<T, short>();
    reg_pair<T, unsigned short>();
    reg_pair<T, int>();
    reg_pair<T, unsigned>();
    reg_pair<T, long>();
    reg_pair<T, unsigned long>();
}
vf::Spec spec(vf::Tier t) { return make_spec(t, 1, 32); }
} // namespace

void c14::register_all()
{
#if C14_ROWS == 0
    reg_row<signed char>();
    reg_row<short>();
    reg_pair<long long, unsigned long long>();
    reg_pair<long long, unsigned>();
    reg_pair<long long, long>();
#elif C14_ROWS == 9
    max_block() = 1u << 22;
    auto bulk = []<class T, class U>(T, U) {
        reg_binary<AllY<CmpEqual<T, U>>>(false, 3, "all-pairs-16bit");
        reg_binary<AllY<CmpNotEqual<T, U>>>(false, 3, "all-pairs-16bit");
        reg_binary<AllY<CmpLess<T, U>>>(false, 3, "all-pairs-16bit");
        reg_binary<AllY<CmpGreater<T, U>>>(false, 3, "all-pairs-16bit");
        reg_binary<AllY<CmpLessEqual<T, U>>>(false, 3, "all-pairs-16bit");
        reg_binary<AllY<CmpGreaterEqual<T, U>>>(false, 3, "all-pairs-16bit");
    };
    bulk(short{}, static_cast<unsigned short>(0));
    bulk(static_cast<unsigned short>(0), short{});
    // same signedness: the other four are thin wrappers of these two
    reg_binary<AllY<CmpEqual<short, short>>>(false, 3, "all-pairs-16bit");
    reg_binary<AllY<CmpLess<short, short>>>(false, 3, "all-pairs-16bit");
    reg_binary<AllY<CmpEqual<unsigned short, unsigned short>>>(false, 3, "all-pairs-16bit");
    reg_binary<AllY<CmpLess<unsigned short, unsigned short>>>(false, 3, "all-pairs-16bit");
#elif C14_ROWS == 1
    reg_row<int>();
    reg_row<long>();
#elif C14_ROWS == 2
    reg_row<unsigned char>();
    reg_row<unsigned short>();
    reg_pair<unsigned long long, long long>();
    reg_pair<unsigned long long, signed char>();
    reg_pair<unsigned long long, unsigned long>();
#else
    reg_row<unsigned>();
    reg_row<unsigned long>();
#endif
}

#define C14_STR2(x) #x
#define C14_STR(x) C14_STR2(x)
VF_MAIN("C14", "C14_cmp_" C14_STR(C14_ROWS), spec, c14::run_case)
