// C02 - element-converting range algorithms between pointer ranges of DIFFERENT element types on exact-size heap blocks (DESIGN 12.6; added
// after adversary round 5).  A bytewise fast path (memcpy/memmove) that forgets to require identical element types writes
// count * sizeof(source) bytes into a destination that holds count * sizeof(destination): an out-of-block write ASan reports; where the
// destination type is the wider one the bytes land inside the block and only the values are wrong, so the result is also compared with std.
#include "vf.hpp"
#include "vf_contract.hpp"

#include <etl/algorithm.hpp>
#include <etl/array.hpp>
#include <etl/memory.hpp>
#include <etl/numeric.hpp>
#include <etl/span.hpp>
#include <etl/vector.hpp>

#include <algorithm>
#include <memory>
#include <numeric>
#include <string>

namespace {
template <typename T> constexpr char const* tn();
template <> constexpr char const* tn<signed char>() { return "int8"; }
template <> constexpr char const* tn<unsigned char>() { return "uint8"; }
template <> constexpr char const* tn<short>() { return "int16"; }
template <> constexpr char const* tn<int>() { return "int32"; }
template <> constexpr char const* tn<unsigned>() { return "uint32"; }
template <> constexpr char const* tn<long long>() { return "int64"; }
template <> constexpr char const* tn<float>() { return "float"; }
template <> constexpr char const* tn<double>() { return "double"; }
template <> constexpr char const* tn<wchar_t>() { return "wchar_t"; }
template <> constexpr char const* tn<char>() { return "char"; }

template <typename D>
std::string show(D const* p, std::size_t n)
{
    std::string s;
    for (std::size_t i = 0; i < n; ++i) { s += std::to_string((long long)p[i]) + " "; }
    return s;
}

template <typename S, typename D>
void pair_case(std::size_t n, vf::Rng& rng)
{
    char subj[64];
    std::snprintf(subj, sizeof subj, "%s -> %s", tn<S>(), tn<D>());
    char const* sit = sizeof(S) > sizeof(D) ? "source-wider" : (sizeof(S) < sizeof(D) ? "destination-wider" : "same-width");
    vf::Buf<S> src(n);
    for (std::size_t i = 0; i < n; ++i) { src[i] = static_cast<S>((long long)rng.below(100)); } // small values: every conversion is exact
    auto run = [&](char const* op, auto etl_call, auto std_call) {
        vf::Buf<D> de(n), ds(n);
        for (std::size_t i = 0; i < n; ++i) { de[i] = ds[i] = D(77); }
        vf::crumb(subj, op, sit, "n=%zu", n);
        etl_call(src.data(), src.data() + n, de.data(), de.data() + n);
        std_call(src.data(), src.data() + n, ds.data(), ds.data() + n);
        vf::cover(op, vf::mix(vf::fnv(subj), vf::mix(n, vf::fnv(op))));
        vf::eq_str("destination", show(de.data(), n), show(ds.data(), n));
        de.check("destination block");
        src.check("source block");
    };
    run("copy(f,l,d)", [](S const* f, S const* l, D* d, D*) { etl::copy(f, l, d); }, [](S const* f, S const* l, D* d, D*) { std::copy(f, l, d); });
    run("copy_n(f,n,d)", [n](S const* f, S const*, D* d, D*) { etl::copy_n(f, n, d); }, [n](S const* f, S const*, D* d, D*) { std::copy_n(f, n, d); });
    run("copy_backward(f,l,dl)", [](S const* f, S const* l, D*, D* dl) { etl::copy_backward(f, l, dl); }, [](S const* f, S const* l, D*, D* dl) { std::copy_backward(f, l, dl); });
    run("copy_if(f,l,d,pred)", [](S const* f, S const* l, D* d, D*) { etl::copy_if(f, l, d, [](S) { return true; }); },
        [](S const* f, S const* l, D* d, D*) { std::copy_if(f, l, d, [](S) { return true; }); });
    run("move(f,l,d)", [](S const* f, S const* l, D* d, D*) { etl::move(f, l, d); }, [](S const* f, S const* l, D* d, D*) { std::move(f, l, d); });
    run("move_backward(f,l,dl)", [](S const* f, S const* l, D*, D* dl) { etl::move_backward(f, l, dl); }, [](S const* f, S const* l, D*, D* dl) { std::move_backward(f, l, dl); });
    run("transform(f,l,d,identity)", [](S const* f, S const* l, D* d, D*) { etl::transform(f, l, d, [](S x) { return x; }); },
        [](S const* f, S const* l, D* d, D*) { std::transform(f, l, d, [](S x) { return x; }); });
    run("reverse_copy(f,l,d)", [](S const* f, S const* l, D* d, D*) { etl::reverse_copy(f, l, d); }, [](S const* f, S const* l, D* d, D*) { std::reverse_copy(f, l, d); });
    run("rotate_copy(f,m,l,d)", [n](S const* f, S const* l, D* d, D*) { etl::rotate_copy(f, f + n / 2, l, d); }, [n](S const* f, S const* l, D* d, D*) { std::rotate_copy(f, f + n / 2, l, d); });
    run("remove_copy_if(f,l,d,pred)", [](S const* f, S const* l, D* d, D*) { etl::remove_copy_if(f, l, d, [](S) { return false; }); },
        [](S const* f, S const* l, D* d, D*) { std::remove_copy_if(f, l, d, [](S) { return false; }); });
    run("unique_copy(f,l,d)", [](S const* f, S const* l, D* d, D*) {
            if constexpr (requires { etl::unique_copy(f, l, d); }) { auto e = etl::unique_copy(f, l, d); for (; e != d + (l - f); ++e) { *e = D(77); } } else { std::unique_copy(f, l, d); }
        }, [](S const* f, S const* l, D* d, D*) { std::unique_copy(f, l, d); });
    run("uninitialized_copy(f,l,d)", [](S const* f, S const* l, D* d, D*) { etl::uninitialized_copy(f, l, d); }, [](S const* f, S const* l, D* d, D*) { std::uninitialized_copy(f, l, d); });
    run("partial_sum(f,l,d)", [](S const* f, S const* l, D* d, D*) { etl::partial_sum(f, l, d); }, [](S const* f, S const* l, D* d, D*) { std::partial_sum(f, l, d); });
    run("adjacent_difference(f,l,d)", [](S const* f, S const* l, D* d, D*) { etl::adjacent_difference(f, l, d); }, [](S const* f, S const* l, D* d, D*) { std::adjacent_difference(f, l, d); });
    // container members fed with a range of another element type
    if (n <= 8) {
        vf::crumb(subj, "static_vector<D,8>(f,l) / assign / insert", sit, "n=%zu", n);
        etl::static_vector<D, 8> v(src.data(), src.data() + n);
        std::vector<D> m(src.data(), src.data() + n);
        vf::cover("static_vector<D,8>(f,l)", vf::mix(vf::fnv(subj), n));
        vf::eq_str("elements", show(v.data(), v.size()), show(m.data(), m.size()));
    }
}

using Fn = void (*)(std::size_t, vf::Rng&);
constexpr Fn kPairs[] = {
    &pair_case<int, short>, &pair_case<short, int>, &pair_case<long long, unsigned char>, &pair_case<unsigned char, long long>, &pair_case<int, long long>,
    &pair_case<long long, int>, &pair_case<float, int>, &pair_case<int, float>, &pair_case<double, float>, &pair_case<float, double>, &pair_case<int, double>,
    &pair_case<char, wchar_t>, &pair_case<wchar_t, char>, &pair_case<signed char, unsigned>, &pair_case<unsigned, signed char>, &pair_case<int, unsigned>,
    &pair_case<int, int>,
};
constexpr std::size_t kNPairs  = sizeof(kPairs) / sizeof(kPairs[0]);
constexpr std::size_t kSizes[] = {0, 1, 2, 3, 7, 8, 15, 16, 17, 63, 64, 129};
constexpr std::size_t kNSizes  = sizeof(kSizes) / sizeof(kSizes[0]);

vf::Spec spec(vf::Tier)
{
    vf::Spec s;
    s.n_enum     = kNPairs * kNSizes;
    s.n_random   = 0;
    s.batch      = 4;
    s.exhaustive = true;
    return s;
}
void run_case(vf::Case& c) { kPairs[c.index / kNSizes](kSizes[c.index % kNSizes], c.rng); }
} // namespace

VF_MAIN("C02", "C02_conv", spec, run_case)
