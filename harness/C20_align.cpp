// C20 - over-aligned targets / elements (alignas 32 / 64) through the wrappers of the property.
// A wrapper that STORES its target (inplace_function with an explicit Alignment, bind_front, not_fn, pair, tuple) must be at
// least as aligned as the target and must construct / copy / relocate / call it at an address that is a multiple of the
// target's alignment; a wrapper that REFERS to its target (reference_wrapper, function_ref) must call the very object.
// The instrumented target c20a::OA<AL> reports its own `this` from every constructor, destructor and call.  Wrappers are
// placed where they are not aligned by luck: at offset alignof(wrapper) of a 128-aligned heap block (a member behind a
// char) and as element [1] of an array that starts there (placement idiom of C02_align.cpp).  UBSan's alignment check is
// active in the asan flavours and watches the library's own accesses in addition.
#include "vf.hpp"
#include "vf_contract.hpp"

#include <etl/functional.hpp>
#include <etl/tuple.hpp>
#include <etl/utility.hpp>

#include <cstddef>
#include <cstdint>
#include <new>
#include <string>
#include <utility>

namespace c20a {
struct Events {
    long misaligned = 0;
    char first[64]  = "";
    std::size_t rem = 0;
    void const* last_this = nullptr; // `this` of the most recent call
    long calls = 0;
    long live  = 0;
};
inline Events& ev()
{
    static Events e;
    return e;
}
template <std::size_t AL>
inline void note(void const* p, char const* what)
{
    auto a = reinterpret_cast<std::uintptr_t>(p);
    if (a % AL != 0) {
        Events& e = ev();
        if (e.misaligned++ == 0) {
            std::snprintf(e.first, sizeof e.first, "%s", what);
            e.rem = static_cast<std::size_t>(a % AL);
        }
    }
}
template <std::size_t AL>
struct alignas(AL) OA {
    int base;
    int calls = 0;
    explicit OA(int b) : base(b)
    {
        note<AL>(this, "constructor");
        ++ev().live;
    }
    OA(OA const& o) : base(o.base), calls(o.calls)
    {
        note<AL>(this, "copy-constructor");
        note<AL>(&o, "copy-constructor-source");
        ++ev().live;
    }
    OA(OA&& o) noexcept : base(o.base), calls(o.calls)
    {
        note<AL>(this, "move-constructor");
        note<AL>(&o, "move-constructor-source");
        ++ev().live;
    }
    OA& operator=(OA const& o)
    {
        note<AL>(this, "copy-assignment");
        base  = o.base;
        calls = o.calls;
        return *this;
    }
    OA& operator=(OA&& o) noexcept
    {
        note<AL>(this, "move-assignment");
        base  = o.base;
        calls = o.calls;
        return *this;
    }
    ~OA()
    {
        note<AL>(this, "destructor");
        --ev().live;
    }
    int answer(int x) const { return base * 1000 + calls * 10 + x; }
    int operator()(int x)
    {
        note<AL>(this, "call");
        ev().last_this = this;
        ++ev().calls;
        ++calls;
        return answer(x);
    }
    int operator()(int x) const
    {
        note<AL>(this, "call(const)");
        ev().last_this = this;
        ++ev().calls;
        return answer(x) + 5;
    }
    friend bool operator==(OA const& a, OA const& b) { return a.base == b.base; }
};
} // namespace c20a

namespace {
using c20a::ev;
using c20a::OA;

char g_subj[128];
char g_sit[64];
int g_v          = 0;
std::uint64_t g_h = 0;

void crumb(char const* op) { vf::crumb(g_subj, op, g_sit, "v=%d", g_v); }
void cover(char const* op) { vf::cover(op, vf::mix(g_h, vf::fnv(op) ^ vf::fnv(g_subj) ^ vf::fnv(g_sit)), true); }

// after every library operation: nothing ran at a misaligned address
void check_events(char const* after)
{
    c20a::Events& e = ev();
    if (e.misaligned != 0) {
        char obs[160];
        std::snprintf(obs, sizeof obs, "%ld target operation(s) at a misaligned address after %s; first: %s at an address that is %zu modulo alignof(target)", e.misaligned,
            after, e.first, e.rem);
        std::string sym = std::string("target-address:misaligned-in-") + e.first;
        vf::diverge(sym.c_str(), obs, "every constructor/destructor/call of the target runs at a multiple of alignof(target)");
        e.misaligned = 0;
    }
}
template <typename W>
bool inside(void const* p, W const& w)
{
    auto a = reinterpret_cast<std::uintptr_t>(p), lo = reinterpret_cast<std::uintptr_t>(&w);
    return a >= lo && a < lo + sizeof(W);
}
template <typename T>
void check_addr(char const* what, T const& t)
{
    auto a = reinterpret_cast<std::uintptr_t>(&t);
    if (a % alignof(T) != 0) {
        char obs[96];
        std::snprintf(obs, sizeof obs, "%s at an address that is %zu modulo %zu", what, (std::size_t)(a % alignof(T)), alignof(T));
        vf::diverge("element-address:misaligned", obs, "multiple of alignof(T)");
    }
}
template <typename W, typename T>
void check_alignof()
{
    crumb("alignof(wrapper)");
    if (alignof(W) < alignof(T)) { vf::diverge("alignof(wrapper):smaller-than-alignof(target)", vf::to_su(alignof(W)), vf::to_su(alignof(T))); }
    if (sizeof(W) % alignof(W) != 0) { vf::diverge("sizeof(wrapper):not-a-multiple-of-alignof", vf::to_su(sizeof(W)), vf::to_su(alignof(W))); }
    cover("alignof(wrapper)");
}

// N slots of storage for W, the first at offset alignof(W) of a 128-aligned block, the others following like array elements
template <typename W, unsigned N>
struct Place {
    void* raw;
    explicit Place()
    {
        raw = ::operator new(alignof(W) + N * sizeof(W), std::align_val_t(128));
        std::memset(raw, 0xAB, alignof(W) + N * sizeof(W));
    }
    Place(Place const&)            = delete;
    Place& operator=(Place const&) = delete;
    ~Place() { ::operator delete(raw, std::align_val_t(128)); }
    void* slot(unsigned i) const { return static_cast<unsigned char*>(raw) + alignof(W) + i * sizeof(W); }
};

// ------------------------------------------------------------------------------------------------ inplace_function with explicit Alignment
template <std::size_t Cap, std::size_t AL, typename T>
void ipf_history(char const* tname)
{
    using W = etl::inplace_function<int(int), Cap, AL>;
    std::snprintf(g_subj, sizeof g_subj, "inplace_function<int(int),%zu,%zu>/%s", Cap, AL, tname);
    std::snprintf(g_sit, sizeof g_sit, "wrapper-at-offset-alignof(wrapper)");
    check_alignof<W, T>();
    ev()         = c20a::Events{};
    Place<W, 4> pl;
    int const v = g_v;
    // model: (base, calls) of the target each wrapper holds
    struct M {
        bool has = false;
        int base = 0, calls = 0;
        int call(int x)
        {
            ++calls;
            return base * 1000 + calls * 10 + x;
        }
    };
    auto call_check = [&](W& w, M& m, char const* op) {
        crumb(op);
        long before = ev().calls;
        int obs     = w(7);
        int exp     = m.call(7);
        vf::eq_int("call-result", obs, exp);
        vf::eq_int("targets-invoked", ev().calls - before, 1);
        vf::eq_bool("target-lives-inside-the-wrapper", inside(ev().last_this, w), true);
        check_events(op);
        cover(op);
    };
    {
        T t(v);
        crumb("inplace_function(target const&)");
        W* a = ::new (pl.slot(0)) W(t);
        M ma{true, v, 0};
        check_events("inplace_function(target const&)");
        cover("inplace_function(target const&)");
        call_check(*a, ma, "operator()");
        call_check(*a, ma, "operator()");
        crumb("inplace_function(inplace_function const&)");
        W* b = ::new (pl.slot(1)) W(*a); // element [1] of the "array"
        M mb = ma;
        check_events("inplace_function(inplace_function const&)");
        cover("inplace_function(inplace_function const&)");
        call_check(*b, mb, "copy.operator()");
        call_check(*a, ma, "source.operator()");
        crumb("inplace_function(inplace_function&&)");
        W* c = ::new (pl.slot(2)) W(std::move(*b));
        M mc = mb;
        mb   = M{};
        check_events("inplace_function(inplace_function&&)");
        vf::eq_bool("moved-from-is-empty", static_cast<bool>(*b), false);
        cover("inplace_function(inplace_function&&)");
        call_check(*c, mc, "moved-to.operator()");
        crumb("inplace_function(target&&)");
        W* d = ::new (pl.slot(3)) W(T(v + 1));
        M md{true, v + 1, 0};
        check_events("inplace_function(target&&)");
        cover("inplace_function(target&&)");
        call_check(*d, md, "operator()");
        crumb("operator=(inplace_function const&)");
        *b = *d;
        mb = md;
        check_events("operator=(inplace_function const&)");
        cover("operator=(inplace_function const&)");
        call_check(*b, mb, "assigned.operator()");
        crumb("operator=(inplace_function&&)");
        *d = std::move(*c);
        md = mc;
        mc = M{};
        check_events("operator=(inplace_function&&)");
        cover("operator=(inplace_function&&)");
        call_check(*d, md, "move-assigned.operator()");
        crumb("swap(inplace_function&)");
        a->swap(*b);
        std::swap(ma, mb);
        check_events("swap(inplace_function&)");
        cover("swap(inplace_function&)");
        call_check(*a, ma, "swapped.lhs.operator()");
        call_check(*b, mb, "swapped.rhs.operator()");
        crumb("swap(empty)");
        c->swap(*a); // c is empty
        std::swap(mc, ma);
        check_events("swap(empty)");
        cover("swap(empty)");
        call_check(*c, mc, "swapped-into-empty.operator()");
        vf::eq_bool("swapped-out-is-empty", static_cast<bool>(*a), false);
        crumb("swap(self)");
        c->swap(*c);
        check_events("swap(self)");
        call_check(*c, mc, "self-swapped.operator()");
        crumb("operator=(target&&)");
        *a = T(v + 2);
        ma = M{true, v + 2, 0};
        check_events("operator=(target&&)");
        cover("operator=(target&&)");
        call_check(*a, ma, "reassigned.operator()");
        {
            // converting copy / move into a larger capacity of the same alignment, on the stack
            using W2 = etl::inplace_function<int(int), 2 * Cap, AL>;
            check_alignof<W2, T>();
            crumb("inplace_function<2*Cap,AL>(inplace_function<Cap,AL> const&)");
            W2 big(*a);
            M mbig = ma;
            check_events("inplace_function<2*Cap,AL>(inplace_function<Cap,AL> const&)");
            cover("inplace_function<2*Cap,AL>(inplace_function<Cap,AL> const&)");
            long before = ev().calls;
            vf::eq_int("converted-copy.call-result", big(7), mbig.call(7));
            vf::eq_int("targets-invoked", ev().calls - before, 1);
            vf::eq_bool("target-lives-inside-the-wrapper", inside(ev().last_this, big), true);
            W2 big2(std::move(*a));
            M mbig2 = ma;
            ma      = M{};
            vf::eq_int("converted-move.call-result", big2(7), mbig2.call(7));
            check_events("converting construction");
        }
        crumb("operator=(nullptr)");
        *b = nullptr;
        check_events("operator=(nullptr)");
        cover("operator=(nullptr)");
        crumb("~inplace_function");
        a->~W();
        b->~W();
        c->~W();
        d->~W();
        check_events("~inplace_function");
        cover("~inplace_function");
    }
    vf::eq_int("live-targets-at-the-end", ev().live, 0);
}

// ------------------------------------------------------------------------------------------------ wrappers that store a copy of the target: bind_front, not_fn
template <std::size_t AL>
void stored_copies()
{
    using T     = OA<AL>;
    int const v = g_v;
    std::snprintf(g_sit, sizeof g_sit, "wrapper-at-offset-alignof(wrapper)");
    ev() = c20a::Events{};
    {
        T t(v), bound(v + 1);
        auto proto = etl::bind_front(t);
        using W    = decltype(proto);
        std::snprintf(g_subj, sizeof g_subj, "bind_front(OA<%zu>)", AL);
        check_alignof<W, T>();
        Place<W, 2> pl;
        crumb("bind_front(target) copy-constructed in place");
        W* a = ::new (pl.slot(0)) W(proto);
        W* b = ::new (pl.slot(1)) W(std::move(proto));
        check_events("bind_front(target) in place");
        T m1(v), m2(v);
        vf::eq_int("call-result", (*a)(3), m1(3));
        vf::eq_bool("target-lives-inside-the-wrapper", inside(ev().last_this, *a) || ev().last_this == &m1, true);
        long before = ev().calls;
        int r       = (*b)(4);
        void const* where = ev().last_this;
        vf::eq_int("targets-invoked", ev().calls - before, 1);
        vf::eq_bool("target-lives-inside-the-wrapper", inside(where, *b), true);
        vf::eq_int("call-result", r, m2(4));
        vf::eq_int("call-result(const)", std::as_const(*a)(5), std::as_const(m1)(5));
        vf::eq_int("call-result(rvalue)", std::move(*b)(6), std::move(m2)(6));
        check_events("bind_front(target)(x)");
        cover("bind_front(target)(x)");
        a->~W();
        b->~W();
        // over-aligned bound argument
        auto f      = [](T const& x, int q) { return x.base * 10 + q + (reinterpret_cast<std::uintptr_t>(&x) % AL == 0 ? 0 : 100000); };
        auto proto2 = etl::bind_front(f, bound);
        using W2    = decltype(proto2);
        std::snprintf(g_subj, sizeof g_subj, "bind_front(f,OA<%zu>)", AL);
        check_alignof<W2, T>();
        Place<W2, 2> pl2;
        crumb("bind_front(f,bound) copy-constructed in place");
        W2* c = ::new (pl2.slot(0)) W2(proto2);
        W2* d = ::new (pl2.slot(1)) W2(std::move(proto2));
        vf::eq_int("call-result", (*c)(1), (v + 1) * 10 + 1);
        vf::eq_int("call-result([1])", (*d)(2), (v + 1) * 10 + 2);
        check_events("bind_front(f,bound)(x)");
        cover("bind_front(f,bound)(x)");
        c->~W2();
        d->~W2();
    }
    {
        T t(v);
        auto proto = etl::not_fn(t);
        using W    = decltype(proto);
        std::snprintf(g_subj, sizeof g_subj, "not_fn(OA<%zu>)", AL);
        check_alignof<W, T>();
        Place<W, 2> pl;
        crumb("not_fn(target) copy-constructed in place");
        W* a = ::new (pl.slot(0)) W(proto);
        W* b = ::new (pl.slot(1)) W(std::move(proto));
        T m1(v);
        long before = ev().calls;
        bool r      = (*b)(3);
        vf::eq_int("targets-invoked", ev().calls - before, 1);
        vf::eq_bool("target-lives-inside-the-wrapper", inside(ev().last_this, *b), true);
        vf::eq_bool("call-result", r, !m1(3));
        vf::eq_bool("call-result(const)", std::as_const(*a)(3), !std::as_const(m1)(3));
        check_events("not_fn(target)(x)");
        cover("not_fn(target)(x)");
        a->~W();
        b->~W();
    }
    vf::eq_int("live-targets-at-the-end", ev().live, 0);
}

// ------------------------------------------------------------------------------------------------ wrappers that refer to the target
template <std::size_t AL>
void referring()
{
    using T     = OA<AL>;
    int const v = g_v;
    std::snprintf(g_sit, sizeof g_sit, "target-at-offset-alignof(target)");
    ev() = c20a::Events{};
    Place<T, 2> pt;
    T* t = ::new (pt.slot(1)) T(v);
    T model(v);
    {
        using W = etl::reference_wrapper<T>;
        std::snprintf(g_subj, sizeof g_subj, "reference_wrapper<OA<%zu>>", AL);
        Place<W, 2> pl;
        crumb("ref(target)(x)");
        W* r = ::new (pl.slot(1)) W(*t);
        vf::eq_int("call-result", (*r)(3), model(3));
        vf::eq_bool("calls-the-wrapped-object", ev().last_this == t, true);
        vf::eq_bool("get-identity", &r->get() == t, true);
        vf::eq_int("invoke(pmd,ref)", etl::invoke(&T::base, *r), v);
        check_events("ref(target)(x)");
        cover("ref(target)(x)");
    }
    {
        using W = etl::function_ref<int(int)>;
        std::snprintf(g_subj, sizeof g_subj, "function_ref<int(int)>(OA<%zu>)", AL);
        Place<W, 2> pl;
        crumb("function_ref(target)(x)");
        W* f = ::new (pl.slot(1)) W(*t);
        vf::eq_int("call-result", (*f)(4), model(4));
        vf::eq_bool("calls-the-wrapped-object", ev().last_this == t, true);
        W* fc = ::new (pl.slot(0)) W(std::as_const(*t));
        vf::eq_int("call-result(const target)", (*fc)(5), std::as_const(model)(5));
        vf::eq_bool("calls-the-wrapped-object", ev().last_this == t, true);
        check_events("function_ref(target)(x)");
        cover("function_ref(target)(x)");
    }
    {
        std::snprintf(g_subj, sizeof g_subj, "invoke(OA<%zu>)", AL);
        crumb("invoke(target,x) / invoke_r / inplace_function(ref(target))");
        vf::eq_int("invoke.call-result", etl::invoke(*t, 6), model(6));
        vf::eq_bool("calls-the-wrapped-object", ev().last_this == t, true);
        vf::eq_int("invoke_r.call-result", etl::invoke_r<long>(*t, 7), model(7));
        etl::inplace_function<int(int), 16> viaref(etl::ref(*t));
        vf::eq_int("inplace_function(ref).call-result", viaref(8), model(8));
        vf::eq_bool("calls-the-wrapped-object", ev().last_this == t, true);
        check_events("invoke(target,x)");
        cover("invoke(target,x)");
    }
    t->~T();
}

// ------------------------------------------------------------------------------------------------ pair / tuple holding over-aligned elements
template <std::size_t AL>
void pairs_tuples()
{
    using T     = OA<AL>;
    int const v = g_v;
    std::snprintf(g_sit, sizeof g_sit, "owner-at-offset-alignof(owner)");
    ev() = c20a::Events{};
    {
        using W = etl::pair<char, T>;
        std::snprintf(g_subj, sizeof g_subj, "pair<char,OA<%zu>>", AL);
        check_alignof<W, T>();
        Place<W, 3> pl;
        T t(v);
        crumb("pair(T1 const&,T2 const&) / copy / move / assign / swap");
        W* a = ::new (pl.slot(0)) W('a', t);
        W* b = ::new (pl.slot(1)) W(*a);
        W* c = ::new (pl.slot(2)) W('c', T(v + 1));
        check_addr("pair.second", a->second);
        check_addr("copy.second", b->second);
        check_addr("get<1>(pair)", etl::get<1>(*c));
        *b = *c;
        a->swap(*c);
        swap(*a, *b);
        W m(std::move(*c));
        check_addr("moved.second", m.second);
        vf::eq_int("values", a->second.base * 100 + b->second.base * 10 + m.second.base, (v + 1) * 100 + (v + 1) * 10 + v);
        auto mp = etl::make_pair(t, 'x');
        check_addr("make_pair.first", mp.first);
        etl::pair<T, T> conv(etl::pair<T, T>(T(v), T(v + 2)));
        check_addr("pair<T,T>.second", conv.second);
        vf::eq_int("apply(f,pair)", etl::apply([](char, T const& x) { return static_cast<int>(reinterpret_cast<std::uintptr_t>(&x) % AL); }, *a), 0);
        check_events("pair operations");
        cover("pair<char,OA>");
        a->~W();
        b->~W();
        c->~W();
    }
    {
        using W = etl::tuple<char, T, char>;
        std::snprintf(g_subj, sizeof g_subj, "tuple<char,OA<%zu>,char>", AL);
        check_alignof<W, T>();
        Place<W, 3> pl;
        T t(v);
        crumb("tuple(values) / copy / move / swap / get / apply / tuple_cat");
        W* a = ::new (pl.slot(0)) W('a', t, 'z');
        W* b = ::new (pl.slot(1)) W(*a);
        W* c = ::new (pl.slot(2)) W('c', T(v + 1), 'y');
        check_addr("get<1>(tuple&)", etl::get<1>(*a));
        check_addr("get<1>(copy)", etl::get<1>(*b));
        check_addr("get<1>(tuple const&)", etl::get<1>(std::as_const(*c)));
        a->swap(*c);
        W m(std::move(*b));
        check_addr("get<1>(moved)", etl::get<1>(m));
        vf::eq_int("values", etl::get<1>(*a).base * 100 + etl::get<1>(*c).base * 10 + etl::get<1>(m).base, (v + 1) * 100 + v * 10 + v);
        vf::eq_int("apply(f,tuple)", etl::apply([](char, T& x, char) { return static_cast<int>(reinterpret_cast<std::uintptr_t>(&x) % AL); }, *a), 0);
        auto cat = etl::tuple_cat(*a, etl::tuple<T>(T(v + 3)), etl::pair<char, T>('p', t));
        check_addr("tuple_cat.element1", etl::get<1>(cat));
        check_addr("tuple_cat.element3", etl::get<3>(cat));
        check_addr("tuple_cat.element5", etl::get<5>(cat));
        vf::eq_int("tuple_cat.values", etl::get<3>(cat).base * 10 + etl::get<5>(cat).base, (v + 3) * 10 + v);
        auto mt = etl::make_tuple('q', t, T(v + 4));
        check_addr("make_tuple.element1", etl::get<1>(mt));
        check_addr("make_tuple.element2", etl::get<2>(mt));
        struct Holder2 {
            T t;
            char c;
            Holder2(char cc, T const& x, char) : t(x), c(cc) { }
        };
        auto made = etl::make_from_tuple<Holder2>(*a);
        vf::eq_int("make_from_tuple.value", made.t.base, v + 1);
        etl::tuple<OA<32>, char, OA<64>> mixed(OA<32>(v), 'm', OA<64>(v + 1));
        check_addr("mixed.element0", etl::get<0>(mixed));
        check_addr("mixed.element2", etl::get<2>(mixed));
        check_events("tuple operations");
        cover("tuple<char,OA,char>");
        a->~W();
        b->~W();
        c->~W();
    }
    vf::eq_int("live-targets-at-the-end", ev().live, 0);
}

// closures that capture an over-aligned object (the closure type inherits the alignment)
template <std::size_t AL>
void ipf_lambda()
{
    OA<AL> o(g_v);
    auto lam = [o](int x) mutable { return o(x); };
    using L  = decltype(lam);
    static_assert(alignof(L) == AL, "closure alignment");
    using W = etl::inplace_function<int(int), 2 * AL, AL>;
    std::snprintf(g_subj, sizeof g_subj, "inplace_function<int(int),%zu,%zu>/lambda-capturing-OA", 2 * AL, AL);
    std::snprintf(g_sit, sizeof g_sit, "wrapper-at-offset-alignof(wrapper)");
    check_alignof<W, L>();
    ev() = c20a::Events{};
    {
        Place<W, 2> pl;
        OA<AL> model(g_v);
        crumb("inplace_function(lambda) / copy");
        W* a = ::new (pl.slot(0)) W(lam);
        W* b = ::new (pl.slot(1)) W(*a);
        vf::eq_int("call-result", (*a)(1), model(1));
        vf::eq_bool("target-lives-inside-the-wrapper", inside(ev().last_this, *a), true);
        OA<AL> model2(g_v);
        vf::eq_int("copy.call-result", (*b)(2), model2(2));
        vf::eq_bool("target-lives-inside-the-wrapper", inside(ev().last_this, *b), true);
        a->swap(*b);
        vf::eq_int("swapped.call-result", (*a)(3), model2(3));
        check_events("inplace_function(lambda)");
        cover("inplace_function(lambda)");
        a->~W();
        b->~W();
    }
}

constexpr unsigned kGroups = 5;
template <std::size_t AL>
void run_group(unsigned g)
{
    switch (g) {
    case 0:
        ipf_history<AL, AL, OA<AL>>("OA");
        ipf_history<2 * AL, AL, OA<AL>>("OA");
        break;
    case 1:
        ipf_history<128, 64, OA<AL>>("OA-in-64-aligned-wrapper");
        ipf_lambda<AL>();
        break;
    case 2: stored_copies<AL>(); break;
    case 3: referring<AL>(); break;
    default: pairs_tuples<AL>(); break;
    }
}

vf::Spec spec(vf::Tier t)
{
    vf::Spec s;
    s.n_enum     = kGroups * 2 * 3; // (group, alignment in {32,64}, v in {0,1,2})
    s.n_random   = t == vf::Tier::thorough ? 2000 : 200;
    s.batch      = 2;
    s.exhaustive = true;
    return s;
}
void run_case(vf::Case& c)
{
    unsigned g, al;
    if (c.enumerated) {
        g   = (unsigned)(c.index / 6);
        al  = (unsigned)((c.index % 6) / 3);
        g_v = (int)(c.index % 3);
    } else {
        g   = (unsigned)c.rng.below(kGroups);
        al  = (unsigned)c.rng.below(2);
        g_v = (int)c.rng.range(0, 2000);
    }
    g_h = vf::mix(vf::mix(0xA119, g * 2 + al), (std::uint64_t)g_v);
    if (vf::want_sample("case")) { vf::sample("case", "group %u with alignas(%u) targets, v=%d", g, al ? 64u : 32u, g_v); }
    if (al == 0) {
        run_group<32>(g);
    } else {
        run_group<64>(g);
    }
}
} // namespace

VF_MAIN("C20", "C20_align", spec, run_case)
