// C20 - probe cells: value-category / API-shape facts of pair, tuple and the callable wrappers, one cell per
// binary (-DVF_PROBE=<family> -DVF_KIND=<element kind | sub-cell> -DVF_CAT=<category | 9 = all four>).
// Each cell compares decltype(etl expression) with decltype(std expression) (compile-time boolean reported at run
// time as a diverge record), the values, and - for reference results - the identity of the object referred to.
// A cell that does not compile against the tree is reported by the driver as compile-failure|<unit>|... for that
// cell only; it cannot hide the other cells or the main monitors (HARNESS_GUIDE: probes live in their own units).
//
// families: 1 get<I>(tuple)  2 get<I>(pair)  3 structured bindings (tuple)  4 structured bindings (pair)
//           5 apply  6 make_from_tuple  7 tuple_cat(t, tuple<char>)  8 tuple_cat shapes  9 forward_as_tuple/tie/make_tuple
//           10 tuple<>  11 bind_front shapes  12 inplace_function shapes  13 function_ref shapes
//           14 reference_wrapper shapes  15 pair with reference members  16 invoke shapes  17 not_fn shapes
//           18 tuple construction shapes  19 further tuple-like sources / reference tuples
//           20 swap through the element type's own (ADL) swap  21 class element compared with a different element type
//           22 element with < only (no ==): ordering of pairs
// element kinds: 0 int  1 int const  2 move-only  3 copy-only  4 int&  5 int&&  6 int const&
#include "vf.hpp"
#include "vf_contract.hpp"

#include "vf_c20.hpp"

#include <memory>

#ifndef VF_PROBE
    #error "VF_PROBE required"
#endif
#ifndef VF_KIND
    #define VF_KIND 0
#endif
#ifndef VF_CAT
    #define VF_CAT 9
#endif

namespace {
using namespace c20;

template <int K>
struct kind;
template <>
struct kind<0> {
    using type = int;
};
template <>
struct kind<1> {
    using type = int const;
};
template <>
struct kind<2> {
    using type = Mo;
};
template <>
struct kind<3> {
    using type = Co;
};
template <>
struct kind<4> {
    using type = int&;
};
template <>
struct kind<5> {
    using type = int&&;
};
template <>
struct kind<6> {
    using type = int const&;
};
struct Src {
    int x = 5;
    Mo m{6};
    Co c{7};
};
template <int K>
constexpr decltype(auto) init(Src& s)
{
    if constexpr (K == 2) {
        return std::move(s.m);
    } else if constexpr (K == 3) {
        return (s.c);
    } else if constexpr (K == 5) {
        return std::move(s.x);
    } else {
        return (s.x);
    }
}
template <int K>
constexpr bool is_ref_kind = K >= 4;

std::string g_subject;
void crumb(char const* op, char const* sit, char const* extra = "")
{
    vf::crumb(g_subject.c_str(), op, sit, "%s", extra);
}
template <typename T>
void subject()
{
    g_subject = type_name<T>();
    for (char const* pre : {"etl::"}) {
        for (auto q = g_subject.find(pre); q != std::string::npos; q = g_subject.find(pre)) { g_subject.erase(q, std::strlen(pre)); }
    }
}
std::uint64_t g_h = 0;
void cover(char const* label) { vf::cover(label, vf::mix(vf::fnv(g_subject.c_str()), ++g_h), true); }

template <typename Obj, typename T>
bool inside(T const& r, Obj const& o)
{
    auto p  = reinterpret_cast<unsigned char const*>(&r);
    auto lo = reinterpret_cast<unsigned char const*>(&o);
    return p >= lo && p < lo + sizeof(Obj);
}
// compares an element reference obtained from etl with the one obtained from std
template <int K, typename ER, typename SR, typename EO, typename SO>
void element_checks(ER&& er, SR&& sr, EO const& eo, SO const& so, Src& s1, Src& s2)
{
    vf::eq_int("value", val(er), val(sr));
    if constexpr (is_ref_kind<K>) {
        vf::eq_bool("refers-to-the-bound-object", static_cast<void const*>(&er) == &s1.x, static_cast<void const*>(&sr) == &s2.x);
    } else {
        vf::eq_bool("refers-into-the-owner", inside(er, eo), inside(sr, so));
    }
}

// run F<K,C> for the selected category, or all four
template <template <int, int> class F, int K>
void for_cats()
{
    if constexpr (VF_CAT == 9) {
        F<K, 0>::run();
        F<K, 1>::run();
        F<K, 2>::run();
        F<K, 3>::run();
    } else {
        F<K, VF_CAT>::run();
    }
}

// ============================================================================================ 1 / 2 get<I>
#if VF_PROBE == 1 || VF_PROBE == 2
    #if VF_PROBE == 1
template <typename... T>
using ET = etl::tuple<T...>;
template <typename... T>
using ST = std::tuple<T...>;
constexpr char const* PNAME = "get(tuple)";
    #else
template <typename... T>
using ET = etl::pair<T...>;
template <typename... T>
using ST = std::pair<T...>;
constexpr char const* PNAME = "get(pair)";
    #endif
template <int K, int C>
struct Cell {
    static void run()
    {
        using E = typename kind<K>::type;
        Src s1, s2;
        ET<E, long> et(init<K>(s1), 9L);
        ST<E, long> st(init<K>(s2), 9L);
        subject<ET<E, long>>();
        crumb("get<0>(t)", kCat[C]);
        C20_SAME(etl::get<0>(as<C>(et)), std::get<0>(as<C>(st)));
        cover("get<0>(t)");
        {
            auto&& er = etl::get<0>(as<C>(et));
            auto&& sr = std::get<0>(as<C>(st));
            element_checks<K>(er, sr, et, st, s1, s2);
        }
        crumb("get<1>(t)", kCat[C]);
        C20_SAME(etl::get<1>(as<C>(et)), std::get<1>(as<C>(st)));
        cover("get<1>(t)");
        {
            auto&& er = etl::get<1>(as<C>(et));
            auto&& sr = std::get<1>(as<C>(st));
            vf::eq_int("value", er, sr);
            vf::eq_bool("refers-into-the-owner", inside(er, et), inside(sr, st));
        }
        crumb("tuple_element_t<0,T>", kCat[C]);
        same_type<etl::tuple_element_t<0, ET<E, long>>, std::tuple_element_t<0, ST<E, long>>>("type");
        same_type<etl::tuple_element_t<1, ET<E, long> const>, std::tuple_element_t<1, ST<E, long> const>>("type");
        vf::eq_int("tuple_size", etl::tuple_size_v<ET<E, long>>, std::tuple_size_v<ST<E, long>>);
        cover("tuple_element/tuple_size");
    }
};
void probe() { for_cats<Cell, VF_KIND>(); }

// ============================================================================================ 3 / 4 structured bindings
#elif VF_PROBE == 3 || VF_PROBE == 4
    #if VF_PROBE == 3
template <typename... T>
using ET = etl::tuple<T...>;
template <typename... T>
using ST = std::tuple<T...>;
constexpr char const* PNAME = "structured-binding(tuple)";
    #else
template <typename... T>
using ET = etl::pair<T...>;
template <typename... T>
using ST = std::pair<T...>;
constexpr char const* PNAME = "structured-binding(pair)";
    #endif
constexpr char const* kForm[4] = {"auto [a,b] = t", "auto& [a,b] = t", "auto const& [a,b] = t", "auto&& [a,b] = move(t)"};
template <int K, int C>
struct Cell {
    static void run()
    {
        using E = typename kind<K>::type;
        Src s1, s2;
        ET<E, long> et(init<K>(s1), 9L);
        ST<E, long> st(init<K>(s2), 9L);
        subject<ET<E, long>>();
        if constexpr (C == 0) {
            if constexpr (std::is_copy_constructible_v<ST<E, long>>) {
                crumb(kForm[C], "copy");
                auto [ea, eb] = et;
                auto [sa, sb] = st;
                same_type<decltype(ea), decltype(sa)>("decltype(a)");
                same_type<decltype(eb), decltype(sb)>("decltype(b)");
                vf::eq_int("a", val(ea), val(sa));
                vf::eq_int("b", eb, sb);
                if constexpr (is_ref_kind<K>) { vf::eq_bool("a-refers-to-the-bound-object", &ea == &s1.x, &sa == &s2.x); }
                cover(kForm[C]);
            }
        } else if constexpr (C == 1) {
            crumb(kForm[C], "lvalue");
            auto& [ea, eb] = et;
            auto& [sa, sb] = st;
            same_type<decltype(ea), decltype(sa)>("decltype(a)");
            same_type<decltype(eb), decltype(sb)>("decltype(b)");
            same_type<decltype((ea)), decltype((sa))>("decltype((a))");
            element_checks<K>(ea, sa, et, st, s1, s2);
            vf::eq_int("b", eb, sb);
            cover(kForm[C]);
        } else if constexpr (C == 2) {
            crumb(kForm[C], "const-lvalue");
            auto const& [ea, eb] = et;
            auto const& [sa, sb] = st;
            same_type<decltype(ea), decltype(sa)>("decltype(a)");
            same_type<decltype(eb), decltype(sb)>("decltype(b)");
            same_type<decltype((ea)), decltype((sa))>("decltype((a))");
            element_checks<K>(ea, sa, et, st, s1, s2);
            vf::eq_int("b", eb, sb);
            cover(kForm[C]);
        } else {
            crumb(kForm[C], "rvalue");
            auto&& [ea, eb] = std::move(et);
            auto&& [sa, sb] = std::move(st);
            same_type<decltype(ea), decltype(sa)>("decltype(a)");
            same_type<decltype(eb), decltype(sb)>("decltype(b)");
            same_type<decltype((ea)), decltype((sa))>("decltype((a))");
            element_checks<K>(ea, sa, et, st, s1, s2);
            vf::eq_int("b", eb, sb);
            cover(kForm[C]);
        }
    }
};
void probe() { for_cats<Cell, VF_KIND>(); }

// ============================================================================================ 5 apply
#elif VF_PROBE == 5
constexpr char const* PNAME = "apply";
template <int K, int C>
struct Cell {
    template <int CF>
    static void one()
    {
        using E = typename kind<K>::type;
        Src s1, s2;
        etl::tuple<E, long> et(init<K>(s1), 9L);
        std::tuple<E, long> st(init<K>(s2), 9L);
        subject<etl::tuple<E, long>>();
        char sit[64];
        std::snprintf(sit, sizeof sit, "t:%s,f:%s", kCat[C], kCat[CF]);
        Fn<0> f1(1), f2(1);
        calllog().track_ids = false;
        crumb("apply(f,t)", sit);
        C20_SAME(etl::apply(as<CF>(f1), as<C>(et)), std::apply(as<CF>(f2), as<C>(st)));
        compare_call([&] { return C20_RES(std::apply(as<CF>(f2), as<C>(st))); }, [&] { return C20_RES(etl::apply(as<CF>(f1), as<C>(et))); });
        cover("apply(f,t)");
    }
    static void run()
    {
        one<0>();
        one<1>();
        one<2>();
        one<3>();
        // result category is whatever the callable returns
        using E = typename kind<K>::type;
        Src s1, s2;
        etl::tuple<E, long> et(init<K>(s1), 9L);
        std::tuple<E, long> st(init<K>(s2), 9L);
        char sit[64];
        std::snprintf(sit, sizeof sit, "t:%s,result-category", kCat[C]);
        crumb("apply(f,t)", sit);
        Fn<1> r1(1), r1b(1);
        Fn<2> r2(1);
        Fn<3> r3(1);
        Fn<4> r4(1);
        Fn<5> r5(1);
        C20_SAME(etl::apply(r1, as<C>(et)), std::apply(r1, as<C>(st)));
        C20_SAME(etl::apply(r2, as<C>(et)), std::apply(r2, as<C>(st)));
        C20_SAME(etl::apply(r3, as<C>(et)), std::apply(r3, as<C>(st)));
        C20_SAME(etl::apply(r4, as<C>(et)), std::apply(r4, as<C>(st)));
        C20_SAME(etl::apply(r5, as<C>(et)), std::apply(r5, as<C>(st)));
        compare_call([&] { return C20_RES(std::apply(r1b, as<C>(st))); }, [&] { return C20_RES(etl::apply(r1, as<C>(et))); });
        cover("apply(f,t)->category");
    }
};
void probe() { for_cats<Cell, VF_KIND>(); }

// ============================================================================================ 6 make_from_tuple
#elif VF_PROBE == 6
constexpr char const* PNAME = "make_from_tuple";
struct S2 {
    int c0, v0, c1, v1;
    template <typename X, typename Y>
    S2(X&& x, Y&& y) : c0(cat_of<X>()), v0(val(x)), c1(cat_of<Y>()), v1((int)y)
    {
    }
};
template <int K, int C>
struct Cell {
    static void run()
    {
        using E = typename kind<K>::type;
        Src s1, s2;
        etl::tuple<E, long> et(init<K>(s1), 9L);
        std::tuple<E, long> st(init<K>(s2), 9L);
        subject<etl::tuple<E, long>>();
        crumb("make_from_tuple<S>(t)", kCat[C]);
        C20_SAME(etl::make_from_tuple<S2>(as<C>(et)), std::make_from_tuple<S2>(as<C>(st)));
        S2 e = etl::make_from_tuple<S2>(as<C>(et));
        S2 s = std::make_from_tuple<S2>(as<C>(st));
        if (e.c0 != s.c0) { vf::diverge((std::string("arg0-category:") + kCat[e.c0] + "-for-" + kCat[s.c0]).c_str(), kCat[e.c0], kCat[s.c0]); }
        if (e.c1 != s.c1) { vf::diverge((std::string("arg1-category:") + kCat[e.c1] + "-for-" + kCat[s.c1]).c_str(), kCat[e.c1], kCat[s.c1]); }
        vf::eq_int("arg0-value", e.v0, s.v0);
        vf::eq_int("arg1-value", e.v1, s.v1);
        cover("make_from_tuple<S>(t)");
        // pair as the source
        etl::pair<E, long> ep(init<K>(s1), 9L);
        std::pair<E, long> sp(init<K>(s2), 9L);
        subject<etl::pair<E, long>>();
        crumb("make_from_tuple<S>(p)", kCat[C]);
        S2 e2 = etl::make_from_tuple<S2>(as<C>(ep));
        S2 s2b = std::make_from_tuple<S2>(as<C>(sp));
        if (e2.c0 != s2b.c0) { vf::diverge((std::string("arg0-category:") + kCat[e2.c0] + "-for-" + kCat[s2b.c0]).c_str(), kCat[e2.c0], kCat[s2b.c0]); }
        vf::eq_int("arg0-value", e2.v0, s2b.v0);
        vf::eq_int("arg1-value", e2.v1, s2b.v1);
        cover("make_from_tuple<S>(p)");
    }
};
void probe() { for_cats<Cell, VF_KIND>(); }

// ============================================================================================ 7 tuple_cat(t, tuple<char>)
#elif VF_PROBE == 7
constexpr char const* PNAME = "tuple_cat";
template <int K, int C>
struct Cell {
    static void run()
    {
        using E = typename kind<K>::type;
        Src s1, s2;
        etl::tuple<E, long> et(init<K>(s1), 9L);
        std::tuple<E, long> st(init<K>(s2), 9L);
        subject<etl::tuple<E, long>>();
        // std-side first: the concatenation is only valid when E can be built from what get<0> yields for this category
        if constexpr (std::is_constructible_v<E, decltype(std::get<0>(as<C>(st)))>) {
            crumb("tuple_cat(t,tuple<char>)", kCat[C]);
            C20_SAME(etl::tuple_cat(as<C>(et), etl::tuple<char>('c')), std::tuple_cat(as<C>(st), std::tuple<char>('c')));
            auto er = etl::tuple_cat(as<C>(et), etl::tuple<char>('c'));
            auto sr = std::tuple_cat(as<C>(st), std::tuple<char>('c'));
            vf::eq_int("size", etl::tuple_size_v<decltype(er)>, std::tuple_size_v<decltype(sr)>);
            vf::eq_int("element0", val(etl::get<0>(er)), val(std::get<0>(sr)));
            vf::eq_int("element1", etl::get<1>(er), std::get<1>(sr));
            vf::eq_int("element2", etl::get<2>(er), std::get<2>(sr));
            if constexpr (is_ref_kind<K>) {
                vf::eq_bool("element0-refers-to-the-bound-object", static_cast<void const*>(&etl::get<0>(er)) == &s1.x,
                    static_cast<void const*>(&std::get<0>(sr)) == &s2.x);
            }
            cover("tuple_cat(t,tuple<char>)");
        }
    }
};
void probe() { for_cats<Cell, VF_KIND>(); }

// ============================================================================================ 8 tuple_cat shapes
#elif VF_PROBE == 8
constexpr char const* PNAME = "tuple_cat-shapes";
void probe()
{
    g_subject = "tuple_cat";
    #if VF_KIND == 0
    crumb("tuple_cat()", "no-arguments");
    C20_SAME(etl::tuple_cat(), std::tuple_cat());
    cover("tuple_cat()");
    #elif VF_KIND == 1
    crumb("tuple_cat(tuple<>,tuple<int>,tuple<>)", "empty-tuples");
    C20_SAME(etl::tuple_cat(etl::tuple<>{}, etl::tuple<int>{3}, etl::tuple<>{}), std::tuple_cat(std::tuple<>{}, std::tuple<int>{3}, std::tuple<>{}));
    auto e = etl::tuple_cat(etl::tuple<>{}, etl::tuple<int>{3}, etl::tuple<>{});
    vf::eq_int("element0", etl::get<0>(e), 3);
    cover("tuple_cat(empty...)");
    #elif VF_KIND == 2
    crumb("tuple_cat(tuple<tuple<int>>)", "nested-tuple-element");
    etl::tuple<etl::tuple<int>> en(etl::tuple<int>(4));
    std::tuple<std::tuple<int>> sn(std::tuple<int>(4));
    C20_SAME(etl::tuple_cat(en), std::tuple_cat(sn));
    C20_SAME(etl::tuple_cat(std::move(en)), std::tuple_cat(std::move(sn)));
    cover("tuple_cat(nested)");
    #elif VF_KIND == 3
    crumb("tuple_cat(pair,array)", "tuple-like-sources");
    etl::pair<int, char> ep(1, 'x');
    std::pair<int, char> sp(1, 'x');
    etl::array<short, 2> ea{{7, 8}};
    std::array<short, 2> sa{{7, 8}};
    C20_SAME(etl::tuple_cat(ep, ea), std::tuple_cat(sp, sa));
    auto e = etl::tuple_cat(ep, ea);
    auto s = std::tuple_cat(sp, sa);
    vf::eq_int("element0", etl::get<0>(e), std::get<0>(s));
    vf::eq_int("element1", etl::get<1>(e), std::get<1>(s));
    vf::eq_int("element2", etl::get<2>(e), std::get<2>(s));
    vf::eq_int("element3", etl::get<3>(e), std::get<3>(s));
    cover("tuple_cat(pair,array)");
    #elif VF_KIND == 4
    crumb("tuple_cat(lvalue,const lvalue,rvalue)", "three-tuples,mixed-categories");
    for (int a = 0; a < 3; ++a) {
        for (int b = 0; b < 3; ++b) {
            etl::tuple<int, int> e1(a, b);
            etl::tuple<long> const e2(b * 3L);
            std::tuple<int, int> s1(a, b);
            std::tuple<long> const s2(b * 3L);
            C20_SAME(etl::tuple_cat(e1, e2, etl::tuple<Mo>(Mo(a))), std::tuple_cat(s1, s2, std::tuple<Mo>(Mo(a))));
            auto e = etl::tuple_cat(e1, e2, etl::tuple<Mo>(Mo(a)));
            auto s = std::tuple_cat(s1, s2, std::tuple<Mo>(Mo(a)));
            vf::eq_int("element0", etl::get<0>(e), std::get<0>(s));
            vf::eq_int("element1", etl::get<1>(e), std::get<1>(s));
            vf::eq_int("element2", etl::get<2>(e), std::get<2>(s));
            vf::eq_int("element3", etl::get<3>(e).v, std::get<3>(s).v);
            cover("tuple_cat(3 tuples)");
        }
    }
    #elif VF_KIND == 5
    crumb("tuple_cat(tuple<int const,int const&>)", "const-and-reference-elements-kept");
    int x = 3;
    etl::tuple<int const, int const&> e1(1, x);
    std::tuple<int const, int const&> s1(1, x);
    C20_SAME(etl::tuple_cat(e1), std::tuple_cat(s1));
    cover("tuple_cat(const elements)");
    #endif
}

// ============================================================================================ 9 forward_as_tuple / tie / make_tuple
#elif VF_PROBE == 9
constexpr char const* PNAME = "forward_as_tuple/tie/make_tuple";
void probe()
{
    int a = 1;
    int const b = 2;
    Mo m(3);
    #if VF_KIND == 0
    g_subject = "forward_as_tuple";
    crumb("forward_as_tuple(l,cl,r,cr)", "all-categories");
    C20_SAME(etl::forward_as_tuple(a, b, std::move(a), std::move(b), Mo(1)), std::forward_as_tuple(a, b, std::move(a), std::move(b), Mo(1)));
    C20_SAME(etl::forward_as_tuple(), std::forward_as_tuple());
    auto e = etl::forward_as_tuple(a, b, std::move(m));
    auto s = std::forward_as_tuple(a, b, std::move(m));
    vf::eq_bool("element0-identity", &etl::get<0>(e) == &a, &std::get<0>(s) == &a);
    vf::eq_bool("element1-identity", &etl::get<1>(e) == &b, &std::get<1>(s) == &b);
    vf::eq_bool("element2-identity", &etl::get<2>(e) == &m, &std::get<2>(s) == &m);
    vf::eq_bool("not-moved-from", m.moved_from, false);
    cover("forward_as_tuple");
    #elif VF_KIND == 1
    g_subject = "forward_as_tuple";
    crumb("get<I>(forward_as_tuple(...))", "rvalue-tuple-of-references");
    C20_SAME(etl::get<0>(etl::forward_as_tuple(a, std::move(m))), std::get<0>(std::forward_as_tuple(a, std::move(m))));
    C20_SAME(etl::get<1>(etl::forward_as_tuple(a, std::move(m))), std::get<1>(std::forward_as_tuple(a, std::move(m))));
    vf::eq_bool("identity", &etl::get<0>(etl::forward_as_tuple(a, std::move(m))) == &a, true);
    cover("get<I>(forward_as_tuple)");
    for (int v = 0; v < 3; ++v) {
        int p = v, q = v + 1;
        auto weigh = [](int x, int y, int z) { return x * 100 + y * 10 + z; };
        vf::eq_int("apply(f,forward_as_tuple(l,r,cl))", etl::apply(weigh, etl::forward_as_tuple(p, std::move(q), b)),
            std::apply(weigh, std::forward_as_tuple(p, std::move(q), b)));
        cover("apply(f,forward_as_tuple)");
    }
    #elif VF_KIND == 2
    g_subject = "tie";
    crumb("tie(a,b,m)", "lvalues");
    C20_SAME(etl::tie(a, b, m), std::tie(a, b, m));
    C20_SAME(etl::tie(), std::tie());
    auto e = etl::tie(a, b, m);
    vf::eq_bool("element0-identity", &etl::get<0>(e) == &a, true);
    vf::eq_bool("element1-identity", &etl::get<1>(e) == &b, true);
    vf::eq_bool("element2-identity", &etl::get<2>(e) == &m, true);
    etl::get<0>(e) = 42;
    vf::eq_int("write-through", a, 42);
    cover("tie");
    #elif VF_KIND == 3
    g_subject = "make_tuple";
    crumb("make_tuple(l,cl,r,ref,cref,array)", "decay-and-unwrap");
    int arr[2] = {1, 2};
    C20_SAME(etl::make_tuple(a, b, Mo(1), etl::ref(a), etl::cref(a), arr), std::make_tuple(a, b, Mo(1), std::ref(a), std::cref(a), arr));
    C20_SAME(etl::make_tuple(), std::make_tuple());
    auto e = etl::make_tuple(a, etl::ref(a), Mo(5));
    vf::eq_int("element0", etl::get<0>(e), 1);
    vf::eq_bool("element1-identity", &etl::get<1>(e) == &a, true);
    vf::eq_int("element2", etl::get<2>(e).v, 5);
    cover("make_tuple");
    #elif VF_KIND == 4
    g_subject = "make_pair";
    crumb("make_pair(l,ref)", "decay-and-unwrap");
    C20_SAME(etl::make_pair(a, b), std::make_pair(a, b));
    C20_SAME(etl::make_pair(Mo(1), "x"), std::make_pair(Mo(1), "x"));
    C20_SAME(etl::make_pair(etl::ref(a), etl::cref(a)), std::make_pair(std::ref(a), std::cref(a)));
    cover("make_pair");
    #endif
}

// ============================================================================================ 10 tuple<>
#elif VF_PROBE == 10
constexpr char const* PNAME = "tuple<>";
void probe()
{
    g_subject = "tuple<>";
    #if VF_KIND == 0
    crumb("tuple<>{}", "empty");
    etl::tuple<> e{};
    (void)e;
    vf::eq_int("tuple_size", etl::tuple_size_v<etl::tuple<>>, std::tuple_size_v<std::tuple<>>);
    cover("tuple<>{}");
    #elif VF_KIND == 1
    crumb("operator==", "empty");
    etl::tuple<> a{}, b{};
    vf::eq_bool("==", a == b, std::tuple<>{} == std::tuple<>{});
    vf::eq_bool("!=", a != b, std::tuple<>{} != std::tuple<>{});
    cover("tuple<>==");
    #elif VF_KIND == 2
    crumb("swap", "empty");
    etl::tuple<> a{}, b{};
    a.swap(b);
    a.swap(a);
    cover("tuple<>.swap");
    #elif VF_KIND == 3
    crumb("apply(f,tuple<>)", "empty");
    Fn<0> f(1), g(1);
    compare_call([&] { return C20_RES(std::apply(g, std::tuple<>{})); }, [&] { return C20_RES(etl::apply(f, etl::tuple<>{})); });
    vf::eq_int("make_from_tuple<int>", etl::make_from_tuple<int>(etl::tuple<>{}), std::make_from_tuple<int>(std::tuple<>{}));
    cover("apply(f,tuple<>)");
    #endif
}

// ============================================================================================ 11 bind_front shapes
#elif VF_PROBE == 11
constexpr char const* PNAME = "bind_front-shapes";
void probe()
{
    g_subject = "bind_front";
    A a0{1}, a1{2};
    calllog().track_ids = false;
    #if VF_KIND == 0
    crumb("bind_front(f,lvalue)(x)", "lvalue-bound-argument");
    auto eb = etl::bind_front(Fn<0>(1), a0);
    auto sb = std::bind_front(Fn<0>(1), a0);
    C20_SAME(eb(a1), sb(a1));
    compare_call([&] { return C20_RES(sb(a1)); }, [&] { return C20_RES(eb(a1)); });
    compare_call([&] { return C20_RES(std::move(sb)(std::move(a1))); }, [&] { return C20_RES(std::move(eb)(std::move(a1))); });
    cover("bind_front(f,lvalue)");
    #elif VF_KIND == 1
    crumb("bind_front(f,ref(a))(x)", "reference_wrapper-bound-argument");
    calllog().track_ids     = true;
    calllog().caller_obj[0] = &a0;
    calllog().caller_obj[1] = &a1;
    auto eb = etl::bind_front(Fn<0>(1), etl::ref(a0));
    auto sb = std::bind_front(Fn<0>(1), std::ref(a0));
    compare_call([&] { return C20_RES(sb(a1)); }, [&] { return C20_RES(eb(a1)); });
    compare_call([&] { return C20_RES(std::as_const(sb)(a1)); }, [&] { return C20_RES(std::as_const(eb)(a1)); });
    compare_call([&] { return C20_RES(std::move(sb)(a1)); }, [&] { return C20_RES(std::move(eb)(a1)); });
    cover("bind_front(f,ref)");
    #elif VF_KIND == 2
    crumb("bind_front(f)(x)", "no-bound-arguments");
    auto eb = etl::bind_front(Fn<0>(1));
    auto sb = std::bind_front(Fn<0>(1));
    compare_call([&] { return C20_RES(sb(a1)); }, [&] { return C20_RES(eb(a1)); });
    compare_call([&] { return C20_RES(std::move(sb)()); }, [&] { return C20_RES(std::move(eb)()); });
    cover("bind_front(f)");
    #elif VF_KIND == 3
    crumb("bind_front(&T::f,obj)(x)", "member-function-pointer");
    struct T {
        int base;
        int add(int x) const { return base + x; }
    };
    T t{40};
    auto eb = etl::bind_front(&T::add, t);
    auto sb = std::bind_front(&T::add, t);
    vf::eq_int("result", eb(2), sb(2));
    auto eb2 = etl::bind_front(&T::add, &t);
    vf::eq_int("result(pointer receiver)", eb2(3), 43);
    auto eb3 = etl::bind_front(&T::base, etl::ref(t));
    t.base = 50;
    vf::eq_int("result(member data, ref)", eb3(), 50);
    cover("bind_front(memptr)");
    #elif VF_KIND == 4
    crumb("bind_front(f,Mo)(x)", "move-only-bound-argument");
    auto eb = etl::bind_front(Fn<0>(1), Mo(3));
    auto sb = std::bind_front(Fn<0>(1), Mo(3));
    compare_call([&] { return C20_RES(sb(a1)); }, [&] { return C20_RES(eb(a1)); });
    compare_call([&] { return C20_RES(std::as_const(sb)(a1)); }, [&] { return C20_RES(std::as_const(eb)(a1)); });
    compare_call([&] { return C20_RES(std::move(sb)(a1)); }, [&] { return C20_RES(std::move(eb)(a1)); });
    cover("bind_front(f,Mo)");
    #elif VF_KIND == 5
    crumb("bind_front(f,a)(x)", "result-category");
    auto e1 = etl::bind_front(Fn<1>(1), 5);
    auto s1 = std::bind_front(Fn<1>(1), 5);
    C20_SAME(e1(a1), s1(a1));
    auto e2 = etl::bind_front(Fn<2>(1), 5);
    auto s2 = std::bind_front(Fn<2>(1), 5);
    C20_SAME(e2(a1), s2(a1));
    auto e3 = etl::bind_front(Fn<3>(1), 5);
    auto s3 = std::bind_front(Fn<3>(1), 5);
    C20_SAME(e3(a1), s3(a1));
    compare_call([&] { return C20_RES(s1(a1)); }, [&] { return C20_RES(e1(a1)); });
    cover("bind_front->category");
    #endif
}

// ============================================================================================ 12 inplace_function shapes
#elif VF_PROBE == 12
constexpr char const* PNAME = "inplace_function-shapes";
int free_fn(int x) { return x * 3 + 1; }
void probe()
{
    g_subject = "inplace_function";
    calllog().track_ids = false;
    #if VF_KIND == 0
    crumb("inplace_function<void(int)>(f returning int)", "result-discarded");
    etl::inplace_function<void(int), 16> e{Fn<0>(1)};
    std::function<void(int)> s{Fn<0>(1)};
    compare_call([&] { return C20_RES(s(4)); }, [&] { return C20_RES(e(4)); });
    cover("inplace_function<void(int)>");
    #elif VF_KIND == 1
    crumb("inplace_function<int(int)>(function pointer)", "function-pointer-target");
    etl::inplace_function<int(int)> e{free_fn};
    etl::inplace_function<int(int)> e2{&free_fn};
    vf::eq_int("result", e(5), free_fn(5));
    vf::eq_int("result", e2(6), free_fn(6));
    auto c = e;
    vf::eq_int("copy.result", c(7), free_fn(7));
    cover("inplace_function(fnptr)");
    #elif VF_KIND == 2
    crumb("inplace_function<long(int)>(f returning int)", "result-converted");
    etl::inplace_function<long(int), 16> e{Fn<0>(1)};
    std::function<long(int)> s{Fn<0>(1)};
    compare_call([&] { return C20_RES(s(4)); }, [&] { return C20_RES(e(4)); });
    cover("inplace_function<long(int)>");
    #elif VF_KIND == 3
    crumb("inplace_function<A&(A&)>", "reference-result");
    etl::inplace_function<A&(A&), 16> e{Fn<1>(1)};
    std::function<A&(A&)> s{Fn<1>(1)};
    A a{2};
    compare_call([&] { return C20_RES(s(a)); }, [&] { return C20_RES(e(a)); });
    etl::inplace_function<A && (A&&), 16> e2{Fn<2>(1)};
    std::function<A && (A&&)> s2{Fn<2>(1)};
    compare_call([&] { return C20_RES(s2(std::move(a))); }, [&] { return C20_RES(e2(std::move(a))); });
    cover("inplace_function<A&(A&)>");
    #elif VF_KIND == 4
    crumb("inplace_function<int(Mo)>", "move-only-argument-by-value");
    etl::inplace_function<int(Mo), 16> e{Fn<0>(1)};
    std::function<int(Mo)> s{Fn<0>(1)};
    compare_call([&] { return C20_RES(s(Mo(3))); }, [&] { return C20_RES(e(Mo(3))); });
    cover("inplace_function<int(Mo)>");
    #elif VF_KIND == 5
    crumb("inplace_function<int(int)>(lambda capturing by value)", "mutable-lambda");
    int k = 0;
    etl::inplace_function<int(int), 16> e{[k](int x) mutable { return x + ++k; }};
    vf::eq_int("result", e(10), 11);
    vf::eq_int("result", e(10), 12);
    auto c = e;
    vf::eq_int("copy.result", c(10), 13);
    vf::eq_int("result", e(10), 13);
    cover("inplace_function(mutable lambda)");
    #endif
}

// ============================================================================================ 13 function_ref shapes
#elif VF_PROBE == 13
constexpr char const* PNAME = "function_ref-shapes";
int free_fn(int x) { return x * 3 + 1; }
int free_fn2(int x) { return x * 5 + 2; }
int free_ne(int x) noexcept { return x + 1; }
void probe()
{
    g_subject = "function_ref";
    calllog().track_ids = false;
    #if VF_KIND == 0
    crumb("function_ref<int(int)>(&f)", "function-pointer-prvalue");
    etl::function_ref<int(int)> e{&free_fn};
    // some unrelated stack traffic between construction and call
    volatile int sink[16];
    for (int i = 0; i < 16; ++i) { sink[i] = i; }
    vf::eq_int("result", e(5), free_fn(5));
    cover("function_ref(&f)");
    #elif VF_KIND == 1
    crumb("function_ref<int(int)>(f)", "function-lvalue");
    etl::function_ref<int(int)> e{free_fn};
    vf::eq_int("result", e(5), free_fn(5));
    etl::function_ref<int(int)> c = e;
    vf::eq_int("copy.result", c(6), free_fn(6));
    etl::function_ref<int(int)> o{free_fn2};
    c = o;
    vf::eq_int("assigned.result", c(6), free_fn2(6));
    vf::eq_int("source.result", e(6), free_fn(6));
    cover("function_ref(f)");
    #elif VF_KIND == 2
    crumb("function_ref<void(int)>(f returning int)", "result-discarded");
    Fn<0> f(1), g(1);
    etl::function_ref<void(int)> e{f};
    compare_call([&] { return C20_RES(static_cast<void>(g(4))); }, [&] { return C20_RES(e(4)); });
    etl::function_ref<long(int)> e2{f};
    compare_call([&] { return C20_RES(static_cast<long>(g(4))); }, [&] { return C20_RES(e2(4)); });
    cover("function_ref<void(int)>");
    #elif VF_KIND == 3
    crumb("function_ref<int(int) noexcept>", "noexcept-signature");
    etl::function_ref<int(int) noexcept> e{free_ne};
    vf::eq_int("result", e(5), 6);
    vf::eq_bool("noexcept(call)", noexcept(e(5)), true);
    etl::function_ref<int(int)> e2{free_ne};
    vf::eq_bool("noexcept(call)", noexcept(e2(5)), false);
    cover("function_ref<noexcept>");
    #elif VF_KIND == 4
    crumb("function_ref(f) CTAD", "deduction-from-function");
    etl::function_ref e = free_fn;
    same_type<decltype(e), etl::function_ref<int(int)>>("ctad");
    vf::eq_int("result", e(5), free_fn(5));
    cover("function_ref CTAD");
    #elif VF_KIND == 5
    crumb("function_ref<A&(A&)>", "reference-result-and-argument");
    Fn<1> f(1), g(1);
    A a{2};
    calllog().track_ids     = true;
    calllog().caller_obj[0] = &a;
    etl::function_ref<A&(A&)> e{f};
    compare_call([&] { return C20_RES(g(a)); }, [&] { return C20_RES(e(a)); });
    Fn<2> f2(1), g2(1);
    etl::function_ref<A && (A&&)> e2{f2};
    compare_call([&] { return C20_RES(g2(std::move(a))); }, [&] { return C20_RES(e2(std::move(a))); });
    Fn<0> f3(1), g3(1);
    calllog().track_ids = false;
    etl::function_ref<int(Mo)> e3{f3};
    compare_call([&] { return C20_RES(g3(Mo(4))); }, [&] { return C20_RES(e3(Mo(4))); });
    cover("function_ref<A&(A&)>");
    #endif
}

// ============================================================================================ 14 reference_wrapper shapes
#elif VF_PROBE == 14
constexpr char const* PNAME = "reference_wrapper-shapes";
int free_fn(int x) { return x * 3 + 1; }
void probe()
{
    g_subject = "reference_wrapper";
    int a = 1, b = 2;
    int const c = 3;
    #if VF_KIND == 0
    crumb("ref/cref", "types-and-identity");
    C20_SAME(etl::ref(a), std::ref(a));
    C20_SAME(etl::cref(a), std::cref(a));
    C20_SAME(etl::ref(c), std::ref(c));
    C20_SAME(etl::ref(etl::ref(a)), std::ref(std::ref(a)));
    C20_SAME(etl::cref(etl::ref(a)), std::cref(std::ref(a)));
    C20_SAME(etl::ref(a).get(), std::ref(a).get());
    C20_SAME(etl::cref(a).get(), std::cref(a).get());
    same_type<etl::reference_wrapper<int>::type, std::reference_wrapper<int>::type>("type");
    auto r = etl::ref(a);
    vf::eq_bool("get-identity", &r.get() == &a, true);
    int& via = r;
    vf::eq_bool("conversion-identity", &via == &a, true);
    r.get() = 10;
    vf::eq_int("write-through", a, 10);
    cover("ref/cref");
    #elif VF_KIND == 1
    crumb("operator=(reference_wrapper)", "rebind");
    auto r = etl::ref(a);
    auto q = etl::ref(b);
    r      = q;
    vf::eq_bool("rebinds", &r.get() == &b, true);
    vf::eq_int("target-unchanged", a, 1);
    etl::reference_wrapper<int> cp(r);
    vf::eq_bool("copy-identity", &cp.get() == &b, true);
    etl::reference_wrapper<int const> rc(a); // from non-const lvalue
    vf::eq_bool("const-identity", &rc.get() == &a, true);
    vf::eq_bool("trivially-copyable", std::is_trivially_copyable_v<etl::reference_wrapper<int>>, std::is_trivially_copyable_v<std::reference_wrapper<int>>);
    cover("reference_wrapper rebind");
    #elif VF_KIND == 2
    crumb("reference_wrapper<int(int)>", "function-target");
    auto r = etl::ref(free_fn);
    vf::eq_int("result", r(5), free_fn(5));
    C20_SAME(r(5), std::ref(free_fn)(5));
    cover("reference_wrapper<function>");
    #elif VF_KIND == 3
    crumb("ref(rvalue)", "rejected");
    auto wf = []<typename T>(T& x) {
        constexpr bool e1 = requires { etl::ref(std::move(x)); };
        constexpr bool s1 = requires { std::ref(std::move(x)); };
        constexpr bool e2 = requires { etl::cref(std::move(x)); };
        constexpr bool s2 = requires { std::cref(std::move(x)); };
        vf::eq_bool("ref(rvalue)-well-formed", e1, s1);
        vf::eq_bool("cref(rvalue)-well-formed", e2, s2);
    };
    wf(a);
    constexpr bool e3 = std::is_constructible_v<etl::reference_wrapper<int>, int>;
    constexpr bool s3 = std::is_constructible_v<std::reference_wrapper<int>, int>;
    constexpr bool e4 = std::is_constructible_v<etl::reference_wrapper<int const>, int>;
    constexpr bool s4 = std::is_constructible_v<std::reference_wrapper<int const>, int>;
    constexpr bool e5 = std::is_constructible_v<etl::reference_wrapper<int>, int const&>;
    constexpr bool s5 = std::is_constructible_v<std::reference_wrapper<int>, int const&>;
    vf::eq_bool("reference_wrapper<int>(rvalue)-well-formed", e3, s3);
    vf::eq_bool("reference_wrapper<int const>(rvalue)-well-formed", e4, s4);
    vf::eq_bool("reference_wrapper<int>(const lvalue)-well-formed", e5, s5);
    cover("reference_wrapper(rvalue)");
    #endif
}

// ============================================================================================ 15 pair with reference members
#elif VF_PROBE == 15
constexpr char const* PNAME = "pair-of-references";
void probe()
{
    g_subject = "pair<int&,int>";
    #if VF_KIND == 0
    for (int v = 0; v < 3; ++v) {
        int a1 = v, b1 = 7, a2 = v, b2 = 7;
        crumb("operator=(pair const&)", "assign-through-reference");
        etl::pair<int&, int> e1(a1, 1), e2(b1, 2);
        std::pair<int&, int> s1(a2, 1), s2(b2, 2);
        e1 = e2;
        s1 = s2;
        vf::eq_int("referred", a1, a2);
        vf::eq_int("second", e1.second, s1.second);
        vf::eq_bool("still-bound", &e1.first == &a1, &s1.first == &a2);
        cover("pair<int&,int>=");
        crumb("operator=(pair<U1,U2> const&)", "converting-assign-through-reference");
        etl::pair<long, short> ec(40 + v, (short)3);
        std::pair<long, short> sc(40 + v, (short)3);
        e1 = ec;
        s1 = sc;
        vf::eq_int("referred", a1, a2);
        vf::eq_int("second", e1.second, s1.second);
        cover("pair<int&,int>=pair<long,short>");
    }
    #elif VF_KIND == 1
    int a1 = 1, b1 = 2, a2 = 1, b2 = 2;
    crumb("swap", "swaps-referred-objects");
    etl::pair<int&, int> e1(a1, 10), e2(b1, 20);
    std::pair<int&, int> s1(a2, 10), s2(b2, 20);
    e1.swap(e2);
    s1.swap(s2);
    vf::eq_int("a", a1, a2);
    vf::eq_int("b", b1, b2);
    vf::eq_int("lhs.second", e1.second, s1.second);
    vf::eq_bool("still-bound", &e1.first == &a1, &s1.first == &a2);
    cover("pair<int&,int>.swap");
    #elif VF_KIND == 2
    int a1 = 5;
    crumb("pair<int,long>(pair<int&,int> const&)", "converting-construction-from-reference-pair");
    etl::pair<int&, int> e1(a1, 10);
    std::pair<int&, int> s1(a1, 10);
    etl::pair<int, long> ec(e1);
    std::pair<int, long> sc(s1);
    vf::eq_int("first", ec.first, sc.first);
    vf::eq_int("second", ec.second, sc.second);
    etl::pair<int const&, long> er(e1);
    std::pair<int const&, long> sr(s1);
    vf::eq_bool("bound-to-original", &er.first == &a1, &sr.first == &a1);
    cover("pair(pair<int&,int>)");
    #elif VF_KIND == 3
    crumb("pair<int&&,int>", "rvalue-reference-member");
    int a1 = 5, a2 = 5;
    etl::pair<int&&, int> e1(std::move(a1), 1);
    std::pair<int&&, int> s1(std::move(a2), 1);
    etl::pair<int&&, int> em(std::move(e1));
    std::pair<int&&, int> sm(std::move(s1));
    vf::eq_bool("move-construct-keeps-binding", &em.first == &a1, &sm.first == &a2);
    cover("pair<int&&,int>");
    #endif
}

// ============================================================================================ 16 invoke shapes
#elif VF_PROBE == 16
constexpr char const* PNAME = "invoke-shapes";
struct Base {
    int v = 11;
    int get(int x) const { return v + x; }
    int& self_v() { return v; }
};
struct Derived : Base { };
struct Ptr {
    Base* p;
    Base& operator*() const { return *p; }
};
int free_fn(int x) { return x * 3 + 1; }
void probe()
{
    g_subject = "invoke";
    Base b;
    Derived d;
    #if VF_KIND == 0
    crumb("invoke(pmf,derived)", "derived-receiver");
    C20_SAME(etl::invoke(&Base::get, d, 1), std::invoke(&Base::get, d, 1));
    vf::eq_int("result", etl::invoke(&Base::get, d, 1), 12);
    vf::eq_int("result(pointer)", etl::invoke(&Base::get, &d, 2), 13);
    vf::eq_int("result(ref)", etl::invoke(&Base::get, etl::ref(d), 3), 14);
    C20_SAME(etl::invoke(&Base::v, d), std::invoke(&Base::v, d));
    C20_SAME(etl::invoke(&Base::v, std::move(d)), std::invoke(&Base::v, std::move(d)));
    C20_SAME(etl::invoke(&Base::v, std::as_const(d)), std::invoke(&Base::v, std::as_const(d)));
    cover("invoke(derived)");
    #elif VF_KIND == 1
    crumb("invoke(pmf,smart-pointer)", "dereferenceable-receiver");
    Ptr p{&b};
    auto up = std::make_unique<Base>();
    C20_SAME(etl::invoke(&Base::get, p, 1), std::invoke(&Base::get, p, 1));
    vf::eq_int("result", etl::invoke(&Base::get, p, 1), 12);
    vf::eq_int("result(unique_ptr)", etl::invoke(&Base::get, up, 1), 12);
    C20_SAME(etl::invoke(&Base::v, p), std::invoke(&Base::v, p));
    vf::eq_bool("identity", &etl::invoke(&Base::v, p) == &b.v, true);
    cover("invoke(smart pointer)");
    #elif VF_KIND == 2
    crumb("invoke_r<void>", "result-discarded");
    // std::invoke_r is C++23 (not in libstdc++ 12): the expected type is R by definition
    same_type<decltype(etl::invoke_r<void>(free_fn, 1)), void>();
    same_type<decltype(etl::invoke_r<long>(free_fn, 1)), long>();
    vf::eq_int("result", etl::invoke_r<long>(free_fn, 1), 4);
    etl::invoke_r<void>(free_fn, 1);
    same_type<decltype(etl::invoke_r<int const&>(&Base::v, b)), int const&>();
    vf::eq_bool("identity", &etl::invoke_r<int const&>(&Base::v, b) == &b.v, true);
    cover("invoke_r");
    #elif VF_KIND == 3
    crumb("invoke(function)", "function-and-function-pointer");
    C20_SAME(etl::invoke(free_fn, 1), std::invoke(free_fn, 1));
    vf::eq_int("result", etl::invoke(free_fn, 1), 4);
    vf::eq_int("result", etl::invoke(&free_fn, 2), 7);
    auto lam = [](int x) { return x + 1; };
    vf::eq_int("result", etl::invoke(lam, 2), 3);
    vf::eq_int("result", etl::invoke(+lam, 2), 3);
    cover("invoke(function)");
    #elif VF_KIND == 4
    crumb("invoke(pmf returning reference)", "reference-result");
    C20_SAME(etl::invoke(&Base::self_v, b), std::invoke(&Base::self_v, b));
    vf::eq_bool("identity", &etl::invoke(&Base::self_v, b) == &b.v, true);
    vf::eq_bool("identity(ref)", &etl::invoke(&Base::self_v, etl::ref(b)) == &b.v, true);
    cover("invoke(pmf->ref)");
    #endif
}

// ============================================================================================ 17 not_fn shapes
#elif VF_PROBE == 17
constexpr char const* PNAME = "not_fn-shapes";
bool is_odd(int x) { return (x & 1) != 0; }
struct Tri { // result type with its own operator!
    int v;
    int operator!() const { return v + 100; }
};
struct RetTri {
    Tri operator()(int x) const { return Tri{x}; }
};
void probe()
{
    g_subject = "not_fn";
    #if VF_KIND == 0
    crumb("not_fn<f>()", "stateless-form");
    auto e = etl::not_fn<is_odd>();
    vf::eq_bool("result", e(3), false);
    vf::eq_bool("result", e(4), true);
    cover("not_fn<f>()");
    #elif VF_KIND == 1
    crumb("not_fn(f)(x)", "result-type-with-own-operator!");
    auto e = etl::not_fn(RetTri{});
    auto s = std::not_fn(RetTri{});
    C20_SAME(e(1), s(1));
    vf::eq_int("result", e(1), s(1));
    cover("not_fn(custom !)");
    #elif VF_KIND == 2
    crumb("not_fn(function pointer / member pointer)", "pointer-targets");
    struct T {
        bool flag;
        bool f() const { return flag; }
    };
    T t{true};
    vf::eq_bool("result(fnptr)", etl::not_fn(is_odd)(3), std::not_fn(is_odd)(3));
    vf::eq_bool("result(pmf)", etl::not_fn(&T::f)(t), std::not_fn(&T::f)(t));
    vf::eq_bool("result(pmd)", etl::not_fn(&T::flag)(t), std::not_fn(&T::flag)(t));
    cover("not_fn(pointers)");
    #endif
}

// ============================================================================================ 18 tuple construction shapes
#elif VF_PROBE == 18
constexpr char const* PNAME = "tuple-construction-shapes";
void probe()
{
    g_subject = "tuple";
    #if VF_KIND == 0
    crumb("tuple t{1,2L}", "ctad");
    etl::tuple e{1, 2L};
    std::tuple s{1, 2L};
    same_type<decltype(e), decltype(s)>("ctad");
    int x = 1;
    int const cx = 2;
    etl::tuple e2{x, cx, Mo(3)};
    std::tuple s2{x, cx, Mo(3)};
    same_type<decltype(e2), decltype(s2)>("ctad");
    cover("tuple ctad");
    #elif VF_KIND == 1
    crumb("tuple<int,long> t = {1,2}", "copy-list-initialisation");
    etl::tuple<int, long> e = {1, 2};
    vf::eq_int("element0", etl::get<0>(e), 1);
    vf::eq_int("element1", etl::get<1>(e), 2);
    constexpr bool ei = std::is_convertible_v<int, etl::tuple<int>>;
    constexpr bool si = std::is_convertible_v<int, std::tuple<int>>;
    vf::eq_bool("implicit-from-value", ei, si);
    struct Ex {
        explicit Ex(int) { }
    };
    constexpr bool ee = std::is_convertible_v<int, etl::tuple<Ex>>;
    constexpr bool se = std::is_convertible_v<int, std::tuple<Ex>>;
    vf::eq_bool("implicit-when-element-ctor-explicit", ee, se);
    constexpr bool ec = std::is_constructible_v<etl::tuple<Ex>, int>;
    constexpr bool sc = std::is_constructible_v<std::tuple<Ex>, int>;
    vf::eq_bool("explicit-construction", ec, sc);
    cover("tuple list-init");
    #elif VF_KIND == 2
    crumb("tuple<Mo,Co>(Mo&&,Co const&)", "move-only-and-copy-only-elements");
    Co c(4);
    etl::tuple<Mo, Co> e(Mo(3), c);
    vf::eq_int("element0", etl::get<0>(e).v, 3);
    vf::eq_int("element1", etl::get<1>(e).v, 4);
    etl::tuple<Mo, Co> m(std::move(e));
    vf::eq_int("moved.element0", etl::get<0>(m).v, 3);
    vf::eq_bool("source-moved-from", etl::get<0>(e).moved_from, true);
    constexpr bool ecc = std::is_copy_constructible_v<etl::tuple<Mo, Co>>;
    constexpr bool scc = std::is_copy_constructible_v<std::tuple<Mo, Co>>;
    vf::eq_bool("copy-constructible", ecc, scc);
    cover("tuple<Mo,Co>");
    #elif VF_KIND == 3
    crumb("tuple<int&,int const&>(a,b)", "reference-elements");
    int a = 1, b = 2;
    etl::tuple<int&, int const&> e(a, b);
    etl::tuple<int&, int const&> c(e);
    vf::eq_bool("copy-keeps-binding", &etl::get<0>(c) == &a && &etl::get<1>(c) == &b, true);
    etl::get<0>(c) = 9;
    vf::eq_int("write-through", a, 9);
    cover("tuple<int&,int const&>");
    #elif VF_KIND == 4
    crumb("tuple<int,char>(long,int)", "narrowing-conversions-allowed");
    long l = 3;
    int i  = 65;
    etl::tuple<int, char> e(l, i);
    std::tuple<int, char> s(l, i);
    vf::eq_int("element0", etl::get<0>(e), std::get<0>(s));
    vf::eq_int("element1", etl::get<1>(e), std::get<1>(s));
    cover("tuple(narrowing)");
    #elif VF_KIND == 5
    crumb("tuple<int&>(reference_wrapper<int>)", "reference-element-from-reference_wrapper");
    int a = 1;
    etl::tuple<int&, long> e(etl::ref(a), 2L);
    vf::eq_bool("bound-to-original", &etl::get<0>(e) == &a, true);
    cover("tuple<int&>(ref)");
    #endif
}

// ============================================================================================ 19 further tuple-like sources / reference tuples
//           20 swap through the element type's own (ADL) swap  21 class element compared with a different element type
//           22 element with < only (no ==): ordering of pairs
#elif VF_PROBE == 19
constexpr char const* PNAME = "tuple-like-sources";
void probe()
{
    #if VF_KIND == 0
    g_subject = "pair<int,long>";
    for (int a = 0; a < 3; ++a) {
        for (int b = 0; b < 3; ++b) {
            crumb("apply(f,pair)", "pair-as-tuple-like");
            auto w2 = [](int p, long q) { return p * 10 + q; };
            etl::pair<int, long> ep(a, b);
            std::pair<int, long> sp(a, b);
            vf::eq_int("result(lvalue)", etl::apply(w2, ep), std::apply(w2, sp));
            vf::eq_int("result(const)", etl::apply(w2, std::as_const(ep)), std::apply(w2, std::as_const(sp)));
            vf::eq_int("result(rvalue)", etl::apply(w2, etl::pair<int, long>(a, b)), std::apply(w2, std::pair<int, long>(a, b)));
            cover("apply(f,pair)");
        }
    }
    calllog().track_ids = false;
    Fn<0> f1(1), f2(1);
    etl::pair<Mo, int> em(Mo(3), 4);
    std::pair<Mo, int> sm(Mo(3), 4);
    crumb("apply(f,pair&&)", "move-only-first");
    compare_call([&] { return C20_RES(std::apply(f2, std::move(sm))); }, [&] { return C20_RES(etl::apply(f1, std::move(em))); });
    cover("apply(f,pair&&)");
    #elif VF_KIND == 1
    g_subject = "tuple<int&,int&>";
    int a1 = 1, b1 = 2, c1 = 3, d1 = 4, a2 = 1, b2 = 2, c2 = 3, d2 = 4;
    crumb("swap(tuple&)", "swaps-referred-objects");
    etl::tuple<int&, int&> e1(a1, b1), e2(c1, d1);
    std::tuple<int&, int&> s1(a2, b2), s2(c2, d2);
    e1.swap(e2);
    s1.swap(s2);
    vf::eq_int("a", a1, a2);
    vf::eq_int("b", b1, b2);
    vf::eq_int("c", c1, c2);
    vf::eq_int("d", d1, d2);
    vf::eq_bool("still-bound", &etl::get<0>(e1) == &a1, &std::get<0>(s1) == &a2);
    cover("tuple<int&,int&>.swap");
    crumb("operator==", "reference-elements");
    vf::eq_bool("==", e1 == e2, s1 == s2);
    vf::eq_bool("==(tuple<int,int>)", e1 == etl::tuple<int, int>(3, 4), s1 == std::tuple<int, int>(3, 4));
    cover("tuple<int&,int&>==");
    #elif VF_KIND == 2
    g_subject = "tuple<int,int>";
    for (int a = 0; a < 3; ++a) {
        for (int b = 0; b < 3; ++b) {
            crumb("tuple_cat(t&,u const&,pair)", "lvalue-sources");
            etl::tuple<int, int> e1(a, b);
            etl::tuple<long, int> const e2(b, a + 1);
            std::tuple<int, int> s1(a, b);
            std::tuple<long, int> const s2(b, a + 1);
            etl::pair<int, long> ep(a + 2, b + 2);
            std::pair<int, long> sp(a + 2, b + 2);
            C20_SAME(etl::tuple_cat(e1, e2, ep), std::tuple_cat(s1, s2, sp));
            auto e = etl::tuple_cat(e1, e2, ep);
            auto s = std::tuple_cat(s1, s2, sp);
            vf::eq_int("element0", etl::get<0>(e), std::get<0>(s));
            vf::eq_int("element1", etl::get<1>(e), std::get<1>(s));
            vf::eq_int("element2", etl::get<2>(e), std::get<2>(s));
            vf::eq_int("element3", etl::get<3>(e), std::get<3>(s));
            vf::eq_int("element4", etl::get<4>(e), std::get<4>(s));
            vf::eq_int("element5", etl::get<5>(e), std::get<5>(s));
            vf::eq_int("source-unchanged", etl::get<0>(e1) * 10 + etl::get<1>(e1), a * 10 + b);
            cover("tuple_cat(lvalues)");
        }
    }
    #elif VF_KIND == 3
    g_subject = "tuple<Mo,int,Co,Mo>";
    crumb("apply(f,t&&)", "move-only-elements");
    etl::tuple<Mo, int, Co, Mo> ec(Mo(1), 2, Co(3), Mo(4));
    std::tuple<Mo, int, Co, Mo> sc(Mo(1), 2, Co(3), Mo(4));
    auto take = [](Mo&& m, int i, Co const& co, Mo&& m2) {
        Mo x(std::move(m));
        return x.v * 1000 + i * 100 + co.v * 10 + m2.v;
    };
    vf::eq_int("result", etl::apply(take, std::move(ec)), std::apply(take, std::move(sc)));
    vf::eq_bool("source-moved-from", etl::get<0>(ec).moved_from, std::get<0>(sc).moved_from);
    vf::eq_bool("untouched-not-moved-from", etl::get<3>(ec).moved_from, std::get<3>(sc).moved_from);
    cover("apply(f,t&&)");
    #endif
}

// ============================================================================================ 20 swap through the element type's own (ADL) swap
#elif VF_PROBE == 20
constexpr char const* PNAME = "adl-swap-shapes";
int fa(int x) { return x + 1; }
int fb(int x) { return x + 2; }
void probe()
{
    using c20adl::NoMove;
    auto& cnt = c20adl::counters();
    #if VF_KIND == 0
    g_subject = "pair<NoMove,int>";
    for (int a = 0; a < 3; ++a) {
        for (int b = 0; b < 3; ++b) {
            etl::pair<NoMove, int> e1(a, 10), e2(b, 20);
            std::pair<NoMove, int> s1(a, 10), s2(b, 20);
            crumb("swap(pair&)", "element-swappable-only-through-its-own-swap");
            cnt.clear();
            s1.swap(s2);
            int sc = cnt.swaps;
            cnt.clear();
            e1.swap(e2);
            vf::eq_int("element-swap-calls", cnt.swaps, sc);
            vf::eq_int("lhs.first", e1.first.payload, s1.first.payload);
            vf::eq_int("rhs.first", e2.first.payload, s2.first.payload);
            vf::eq_int("lhs.second", e1.second, s1.second);
            vf::eq_int("lhs.first.marks", e1.first.marks, s1.first.marks);
            cover("pair<NoMove,int>.swap");
            crumb("swap(a,b)", "element-swappable-only-through-its-own-swap");
            cnt.clear();
            swap(s1, s2);
            sc = cnt.swaps;
            cnt.clear();
            swap(e1, e2); // ADL
            vf::eq_int("element-swap-calls", cnt.swaps, sc);
            vf::eq_int("lhs.first", e1.first.payload, s1.first.payload);
            vf::eq_int("rhs.second", e2.second, s2.second);
            cover("swap(pair<NoMove,int>)");
        }
    }
    #elif VF_KIND == 1
    g_subject = "tuple<NoMove,int,NoMove>";
    for (int a = 0; a < 3; ++a) {
        for (int b = 0; b < 3; ++b) {
            etl::tuple<NoMove, int, NoMove> e1(a, 10, b), e2(b, 20, a + 5);
            std::tuple<NoMove, int, NoMove> s1(a, 10, b), s2(b, 20, a + 5);
            crumb("swap(tuple&)", "element-swappable-only-through-its-own-swap");
            cnt.clear();
            s1.swap(s2);
            int sc = cnt.swaps;
            cnt.clear();
            e1.swap(e2);
            vf::eq_int("element-swap-calls", cnt.swaps, sc);
            vf::eq_int("lhs.element0", etl::get<0>(e1).payload, std::get<0>(s1).payload);
            vf::eq_int("lhs.element1", etl::get<1>(e1), std::get<1>(s1));
            vf::eq_int("lhs.element2", etl::get<2>(e1).payload, std::get<2>(s1).payload);
            vf::eq_int("rhs.element0", etl::get<0>(e2).payload, std::get<0>(s2).payload);
            vf::eq_int("rhs.element2.marks", etl::get<2>(e2).marks, std::get<2>(s2).marks);
            cover("tuple<NoMove,int,NoMove>.swap");
        }
    }
    #elif VF_KIND == 2
    g_subject = "pair/tuple<NoMove,...>";
    crumb("is_swappable / noexcept(swap)", "traits");
    auto t = []<typename N>(N*) {
        using EP = etl::pair<N, int>;
        using SP = std::pair<N, int>;
        using ET = etl::tuple<N, int>;
        using ST = std::tuple<N, int>;
        constexpr bool em = requires(EP& a, EP& b) { a.swap(b); }, sm = requires(SP& a, SP& b) { a.swap(b); };
        constexpr bool ef = requires(EP& a, EP& b) { swap(a, b); }, sf = requires(SP& a, SP& b) { swap(a, b); };
        constexpr bool tm = requires(ET& a, ET& b) { a.swap(b); }, stm = requires(ST& a, ST& b) { a.swap(b); };
        vf::eq_bool("pair.swap-well-formed", em, sm);
        vf::eq_bool("swap(pair,pair)-well-formed", ef, sf);
        vf::eq_bool("tuple.swap-well-formed", tm, stm);
        vf::eq_bool("noexcept(pair.swap)", noexcept(std::declval<EP&>().swap(std::declval<EP&>())), noexcept(std::declval<SP&>().swap(std::declval<SP&>())));
        vf::eq_bool("noexcept(tuple.swap)", noexcept(std::declval<ET&>().swap(std::declval<ET&>())), noexcept(std::declval<ST&>().swap(std::declval<ST&>())));
    };
    t(static_cast<NoMove*>(nullptr));
    cover("swap traits");
    #elif VF_KIND == 3
    g_subject = "reference_wrapper/function_ref";
    crumb("using etl::swap; swap(a,b)", "rebinds-not-the-targets");
    int x = 1, y = 2;
    auto rx = etl::ref(x), ry = etl::ref(y);
    {
        using etl::swap;
        swap(rx, ry);
    }
    vf::eq_bool("rebinding", &rx.get() == &y && &ry.get() == &x, true);
    vf::eq_int("targets-untouched", x * 10 + y, 12);
    etl::function_ref<int(int)> f1(fa), f2(fb);
    {
        using etl::swap;
        swap(f1, f2);
    }
    vf::eq_int("function_ref-lhs", f1(0), 2);
    vf::eq_int("function_ref-rhs", f2(0), 1);
    cover("swap(reference_wrapper/function_ref)");
    #endif
}

// ============================================================================================ 21 class element compared with a different element type
//           22 element with < only (no ==): ordering of pairs
#elif VF_PROBE == 21
constexpr char const* PNAME = "heterogeneous-class-element";
template <typename E1, typename E2, typename S1, typename S2>
void rels(E1 const& e1, E2 const& e2, S1 const& s1, S2 const& s2)
{
    if constexpr (requires { s1 == s2; } && requires { e1 == e2; }) {
        vf::eq_bool("==", e1 == e2, s1 == s2);
        vf::eq_bool("!=", e1 != e2, s1 != s2);
        vf::eq_bool("==(swapped)", e2 == e1, s2 == s1);
        vf::eq_bool("!=(swapped)", e2 != e1, s2 != s1);
        cover("operator==");
    }
    if constexpr (requires { s1 < s2; } && requires { e1 < e2; }) {
        vf::eq_bool("<", e1 < e2, s1 < s2);
        vf::eq_bool("<=", e1 <= e2, s1 <= s2);
        vf::eq_bool(">", e1 > e2, s1 > s2);
        vf::eq_bool(">=", e1 >= e2, s1 >= s2);
        vf::eq_bool("<(swapped)", e2 < e1, s2 < s1);
        cover("operator<");
    }
}
void probe()
{
    for (int a = -1; a < 3; ++a) {
        for (int b = -1; b < 3; ++b) {
            for (int tail = 0; tail < 2; ++tail) {
                char sit[64];
                std::snprintf(sit, sizeof sit, "first-%s,second-%s", a < b ? "less" : (a > b ? "greater" : "equal"), tail ? "differs" : "equal");
    #if VF_KIND == 0
                g_subject = "tuple<CI,int> vs tuple<int,int>";
                crumb("relations", sit);
                rels(etl::tuple<CI, int>(CI(a), 1), etl::tuple<int, int>(b, 1 + tail), std::tuple<CI, int>(CI(a), 1), std::tuple<int, int>(b, 1 + tail));
                g_subject = "tuple<int,CI,long> vs tuple<int,int,int>";
                crumb("relations", sit);
                rels(etl::tuple<int, CI, long>(1, CI(a), 2L), etl::tuple<int, int, int>(1 + tail, b, 2), std::tuple<int, CI, long>(1, CI(a), 2L), std::tuple<int, int, int>(1 + tail, b, 2));
    #elif VF_KIND == 1
                g_subject = "pair<CI,int> vs pair<int,int>";
                crumb("relations", sit);
                rels(etl::pair<CI, int>(CI(a), 1), etl::pair<int, int>(b, 1 + tail), std::pair<CI, int>(CI(a), 1), std::pair<int, int>(b, 1 + tail));
                crumb("pair<CI,int>(pair<int,int>) / operator=", sit);
                etl::pair<int, int> const esrc(b, 1 + tail);
                std::pair<int, int> const ssrc(b, 1 + tail);
                etl::pair<CI, int> ec(esrc);
                std::pair<CI, int> sc(ssrc);
                vf::eq_int("converted.first", ec.first.v, sc.first.v);
                etl::pair<CI, int> ea(CI(a), 0);
                std::pair<CI, int> sa(CI(a), 0);
                ea = esrc;
                sa = ssrc;
                vf::eq_int("assigned.first", ea.first.v, sa.first.v);
                vf::eq_int("assigned.second", ea.second, sa.second);
                rels(ea, ec, sa, sc);
                etl::tuple<CI, int> et(b, 1);
                std::tuple<CI, int> st(b, 1);
                vf::eq_int("tuple(Us&&...).element0", etl::get<0>(et).v, std::get<0>(st).v);
                cover("converting");
    #endif
            }
        }
    }
}

// ============================================================================================ 22 element with < only (no ==): ordering of pairs
#elif VF_PROBE == 22
constexpr char const* PNAME = "element-with-less-only";
void probe()
{
    for (int a = 0; a < 3; ++a) {
        for (int b = 0; b < 3; ++b) {
            for (int p = 0; p < 3; ++p) {
                for (int q = 0; q < 3; ++q) {
                    char sit[64];
                    std::snprintf(sit, sizeof sit, "first-%s,second-%s", a < b ? "less" : (a > b ? "greater" : "tie"), p < q ? "less" : (p > q ? "greater" : "tie"));
    #if VF_KIND == 0
                    g_subject = "pair<OnlyLess,int>";
                    etl::pair<OnlyLess, int> const e1(OnlyLess{a}, p), e2(OnlyLess{b}, q);
                    std::pair<OnlyLess, int> const s1(OnlyLess{a}, p), s2(OnlyLess{b}, q);
    #elif VF_KIND == 1
                    g_subject = "pair<int,OnlyLess>";
                    etl::pair<int, OnlyLess> const e1(a, OnlyLess{p}), e2(b, OnlyLess{q});
                    std::pair<int, OnlyLess> const s1(a, OnlyLess{p}), s2(b, OnlyLess{q});
    #else
                    g_subject = "pair<OnlyLess,OnlyLess>";
                    etl::pair<OnlyLess, OnlyLess> const e1(OnlyLess{a}, OnlyLess{p}), e2(OnlyLess{b}, OnlyLess{q});
                    std::pair<OnlyLess, OnlyLess> const s1(OnlyLess{a}, OnlyLess{p}), s2(OnlyLess{b}, OnlyLess{q});
    #endif
                    crumb("operator<", sit);
                    vf::eq_bool("<", e1 < e2, s1 < s2);
                    vf::eq_bool("<(swapped)", e2 < e1, s2 < s1);
                    crumb("operator<=", sit);
                    vf::eq_bool("<=", e1 <= e2, s1 <= s2);
                    crumb("operator>", sit);
                    vf::eq_bool(">", e1 > e2, s1 > s2);
                    crumb("operator>=", sit);
                    vf::eq_bool(">=", e1 >= e2, s1 >= s2);
                    vf::eq_bool(">=(swapped)", e2 >= e1, s2 >= s1);
                    cover("pair ordering with a <-only element");
                }
            }
        }
    }
}
#endif

vf::Spec spec(vf::Tier)
{
    vf::Spec s;
    s.n_enum     = 1;
    s.n_random   = 0;
    s.batch      = 1;
    s.exhaustive = true;
    return s;
}
void run_case(vf::Case&)
{
    probe();
    if (vf::want_sample(PNAME)) { vf::sample(PNAME, "cell family %d kind/sub %d category %d: subject %s", VF_PROBE, VF_KIND, VF_CAT, g_subject.c_str()); }
}
} // namespace

VF_MAIN("C20", "C20_probe", spec, run_case)
