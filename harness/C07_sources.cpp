// C07 - copy-style operations take their source as an lvalue and must leave it UNCHANGED.
// Every construction / assignment / emplace / value_or / monadic call that receives a NON-const lvalue (T&, U&,
// optional<U>&, variant&, expected&) is run on the std owner and on the etl owner, with the target in the "same
// alternative / engaged" and in the "other alternative / empty" state; the source is inspected afterwards and used
// again (assigned to a second and third target).  Payloads whose rvalue overloads visibly damage their argument:
//   Val  - copyable value; its move constructor / move assignment set the source to -777
//   Wrap - constructible and assignable from Val const& (copies) and from Val&& (damages the Val), own moves damage too
//   c07::StrLike - a moved-from std::string is empty
// Twin-world traces (vf_c07.hpp): state of target, source and the re-used copies.
#include "vf.hpp"
#include "vf_contract.hpp"
#include "vf_tracked.hpp"

#include "vf_c07.hpp"

#if __cplusplus <= 202002L
    #error "this unit needs -std=c++23 (std::expected)"
#endif

namespace {
using namespace c07;

constexpr int kDamaged = -777;
struct Val {
    int v;
    Val() noexcept : v(0) { }
    Val(int x) noexcept : v(x) { } // NOLINT implicit on purpose
    Val(Val const& o) noexcept = default;
    Val(Val&& o) noexcept : v(o.v) { o.v = kDamaged; }
    auto operator=(Val const& o) noexcept -> Val& = default;
    auto operator=(Val&& o) noexcept -> Val&
    {
        if (this != &o) {
            v   = o.v;
            o.v = kDamaged;
        }
        return *this;
    }
    friend bool operator==(Val const& a, Val const& b) { return a.v == b.v; }
};
struct Wrap {
    int v;
    Wrap() noexcept : v(0) { }
    Wrap(int x) noexcept : v(x) { } // NOLINT
    Wrap(Val const& x) noexcept : v(x.v + 100) { } // NOLINT
    Wrap(Val&& x) noexcept : v(x.v + 100) { x.v = kDamaged; } // NOLINT
    Wrap(Wrap const& o) noexcept = default;
    Wrap(Wrap&& o) noexcept : v(o.v) { o.v = kDamaged; }
    auto operator=(Wrap const& o) noexcept -> Wrap& = default;
    auto operator=(Wrap&& o) noexcept -> Wrap&
    {
        if (this != &o) {
            v   = o.v;
            o.v = kDamaged;
        }
        return *this;
    }
    auto operator=(Val const& x) noexcept -> Wrap&
    {
        v = x.v + 100;
        return *this;
    }
    auto operator=(Val&& x) noexcept -> Wrap&
    {
        v   = x.v + 100;
        x.v = kDamaged;
        return *this;
    }
    friend bool operator==(Wrap const& a, Wrap const& b) { return a.v == b.v; }
};
long long enc(Val const& x) { return x.v; }
long long enc(Wrap const& x) { return x.v; }
using c07::enc;

// ================================================================ optional<Wrap> / optional<Val> / optional<StrLike>
template <typename O>
void obs_opt(Obs& r, char const* nh, char const* nv, O const& o)
{
    r.b(nh, o.has_value());
    r.i(nv, o.has_value() ? enc(*o) : kAbsent);
}
enum OOp { oCtorT, oCtorU, oCtorOpt, oCtorOptU, oAssignT, oAssignU, oAssignOpt, oAssignOptU, oEmplaceT, oEmplaceU, oValueOr, oMakeOptional, oAndThen, kOOps };
constexpr char const* kOOpName[kOOps] = {"ctor(T&)", "ctor(U&) converting", "ctor(optional&)", "ctor(optional<U>&)", "operator=(T&)", "operator=(U&) converting", "operator=(optional&)",
    "operator=(optional<U>&)", "emplace(T&)", "emplace(U&)", "value_or(T&) const&", "make_optional(T&)", "and_then(f taking T by value) &"};

template <typename NS>
void opt_world(Obs& r, OOp op, bool target_engaged, bool source_engaged)
{
    using OW = typename NS::template optional<Wrap>;
    using OV = typename NS::template optional<Val>;
    OW o     = target_engaged ? OW(NS::in_place, 1) : OW();
    Wrap t(5);                                                  // T& source
    Val u(6);                                                   // U& source
    OW so = source_engaged ? OW(NS::in_place, 7) : OW();         // optional& source
    OV su = source_engaged ? OV(NS::in_place, 8) : OV();         // optional<U>& source
    switch (op) {
    case oCtorT: {
        OW c(t);
        obs_opt(r, "constructed.has_value", "constructed.value", c);
        break;
    }
    case oCtorU: {
        OW c(u);
        obs_opt(r, "constructed.has_value", "constructed.value", c);
        break;
    }
    case oCtorOpt: {
        OW c(so);
        obs_opt(r, "constructed.has_value", "constructed.value", c);
        break;
    }
    case oCtorOptU: {
        OW c(su);
        obs_opt(r, "constructed.has_value", "constructed.value", c);
        break;
    }
    case oAssignT: o = t; break;
    case oAssignU: o = u; break;
    case oAssignOpt: o = so; break;
    case oAssignOptU: o = su; break;
    case oEmplaceT: o.emplace(t); break;
    case oEmplaceU: o.emplace(u); break;
    case oValueOr: {
        Wrap got = o.value_or(t);
        r.i("value_or", enc(got));
        break;
    }
    case oMakeOptional: {
        auto m = NS::make_optional(t);
        obs_opt(r, "make_optional.has_value", "make_optional.value", m);
        break;
    }
    default: {
        using OL = typename NS::template optional<long>;
        OL ret   = o.and_then([](Wrap w) { return OL(w.v + 1L); });
        obs_opt(r, "ret.has_value", "ret.value", ret);
        break;
    }
    }
    obs_opt(r, "target.has_value", "target.value", o);
    r.i("source T after", enc(t));
    r.i("source U after", enc(u));
    obs_opt(r, "source optional.has_value after", "source optional.value after", so);
    obs_opt(r, "source optional<U>.has_value after", "source optional<U>.value after", su);
    // use the sources again
    OW again(t);
    OW again2;
    again2 = u;
    OW again3;
    again3 = so;
    obs_opt(r, "second use of T.has_value", "second use of T.value", again);
    obs_opt(r, "second use of U.has_value", "second use of U.value", again2);
    obs_opt(r, "second use of optional.has_value", "second use of optional.value", again3);
}
// string-like payload: a damaged source is an empty string
template <typename NS>
void opt_str_world(Obs& r, int op, bool target_engaged)
{
    using OS = typename NS::template optional<StrLike>;
    OS o     = target_engaged ? OS(NS::in_place, 1) : OS();
    StrLike t(2);
    OS so(NS::in_place, 3);
    switch (op) {
    case 0: o = t; break;
    case 1: o = so; break;
    case 2: o.emplace(t); break;
    case 3: {
        StrLike got = o.value_or(t);
        r.i("value_or", enc(got));
        break;
    }
    default: {
        OS c(so);
        OS d(t);
        obs_opt(r, "constructed.has_value", "constructed.value", c);
        obs_opt(r, "constructed2.has_value", "constructed2.value", d);
        break;
    }
    }
    obs_opt(r, "target.has_value", "target.value", o);
    r.i("source T after", enc(t));
    obs_opt(r, "source optional.has_value after", "source optional.value after", so);
}

// ================================================================ variant<int, Wrap, Val>
template <typename NS>
struct VarW {
    using V = typename NS::template variant<int, Wrap, Val>;
    static V mk(int j) { return j == 0 ? V(NS::template ipi<0>, 1) : j == 1 ? V(NS::template ipi<1>, 2) : V(NS::template ipi<2>, 3); }
    static void obs(Obs& r, char const* ni, char const* nv, V const& v)
    {
        r.i(ni, (long long)v.index());
        long long e = kAbsent;
        if (auto const* p = NS::template get_if<0>(&v)) { e = *p; }
        if (auto const* p = NS::template get_if<1>(&v)) { e = enc(*p); }
        if (auto const* p = NS::template get_if<2>(&v)) { e = enc(*p); }
        r.i(nv, e);
    }
};
enum VOp { vCtorWrap, vCtorVal, vCtorVariant, vAssignWrap, vAssignVal, vAssignVariant, vEmplaceIdxWrap, vEmplaceTypeVal, vEmplaceWrapFromVal, vInPlaceIndex, vInPlaceType, vVisitByValue, kVOps };
constexpr char const* kVOpName[kVOps] = {"ctor(T&) converting", "ctor(T&) converting", "ctor(variant&)", "operator=(T&) converting", "operator=(T&) converting", "operator=(variant&)",
    "emplace<I>(T&)", "emplace<T>(T&)", "emplace<I>(U&)", "ctor(in_place_index<I>, T&)", "ctor(in_place_type<T>, T&)", "visit(f taking by value, variant&)"};

template <typename NS>
void var_world(Obs& r, VOp op, int target_index, int source_index)
{
    using W = VarW<NS>;
    using V = typename W::V;
    V v     = W::mk(target_index);
    Wrap t(5);
    Val u(6);
    V sv = W::mk(source_index);
    switch (op) {
    case vCtorWrap: {
        V c(t);
        W::obs(r, "constructed.index", "constructed.value", c);
        break;
    }
    case vCtorVal: {
        V c(u);
        W::obs(r, "constructed.index", "constructed.value", c);
        break;
    }
    case vCtorVariant: {
        V c(sv);
        W::obs(r, "constructed.index", "constructed.value", c);
        break;
    }
    case vAssignWrap: v = t; break;
    case vAssignVal: v = u; break;
    case vAssignVariant: v = sv; break;
    case vEmplaceIdxWrap: v.template emplace<1>(t); break;
    case vEmplaceTypeVal: v.template emplace<Val>(u); break;
    case vEmplaceWrapFromVal: v.template emplace<1>(u); break;
    case vInPlaceIndex: {
        V c(NS::template ipi<1>, t);
        V d(NS::template ipi<1>, u);
        W::obs(r, "constructed.index", "constructed.value", c);
        W::obs(r, "constructed2.index", "constructed2.value", d);
        break;
    }
    case vInPlaceType: {
        V c(NS::template ipt<Val>, u);
        W::obs(r, "constructed.index", "constructed.value", c);
        break;
    }
    default: {
        long long seen = kAbsent;
        NS::visit([&](auto x) { seen = enc(x); }, sv); // by-value parameter: copies out of the lvalue variant
        r.i("visitor saw", seen);
        break;
    }
    }
    W::obs(r, "target.index", "target.value", v);
    r.i("source T after", enc(t));
    r.i("source U after", enc(u));
    W::obs(r, "source variant.index after", "source variant.value after", sv);
    // use the sources again, onto targets that hold the same and another alternative
    V w1 = W::mk(1);
    w1   = t;
    V w0 = W::mk(0);
    w0   = t;
    V w2 = W::mk(2);
    w2   = u;
    V w3 = W::mk(1);
    w3   = sv;
    W::obs(r, "second use of T (same alternative).index", "second use of T (same alternative).value", w1);
    W::obs(r, "third use of T (other alternative).index", "third use of T (other alternative).value", w0);
    W::obs(r, "second use of U.index", "second use of U.value", w2);
    W::obs(r, "second use of variant.index", "second use of variant.value", w3);
    r.i("source T at the end", enc(t));
    r.i("source U at the end", enc(u));
}

// ================================================================ expected<Wrap, Val>
enum EOp { eCtorInPlace, eCtorUnexpect, eCtorExpected, eAssignExpected, eEmplace, eValueOr, eAndThen, eOrElse, kEOps };
constexpr char const* kEOpName[kEOps] = {"ctor(in_place, T&)", "ctor(unexpect, E&)", "ctor(expected&)", "operator=(expected&)", "emplace(T&)", "value_or(T&) const&",
    "and_then(f taking T by value) &", "or_else(f taking E by value) &"};
template <typename X>
void obs_exp(Obs& r, char const* nh, char const* nv, char const* ne, X const& x)
{
    r.b(nh, x.has_value());
    r.i(nv, x.has_value() ? enc(*x) : kAbsent);
    r.i(ne, x.has_value() ? kAbsent : enc(x.error()));
}
template <typename NS>
void exp_world(Obs& r, EOp op, bool target_has, bool source_has)
{
    using X  = typename NS::template expected<Wrap, Val>;
    using XL = typename NS::template expected<long, Val>;
    using XG = typename NS::template expected<Wrap, long>;
    X x      = target_has ? X(NS::in_place, 1) : X(NS::unexpect, 2);
    Wrap t(5);
    Val e(6);
    X sx = source_has ? X(NS::in_place, 7) : X(NS::unexpect, 8);
    switch (op) {
    case eCtorInPlace: {
        X c(NS::in_place, t);
        obs_exp(r, "constructed.has_value", "constructed.value", "constructed.error", c);
        break;
    }
    case eCtorUnexpect: {
        X c(NS::unexpect, e);
        obs_exp(r, "constructed.has_value", "constructed.value", "constructed.error", c);
        break;
    }
    case eCtorExpected: {
        X c(sx);
        obs_exp(r, "constructed.has_value", "constructed.value", "constructed.error", c);
        break;
    }
    case eAssignExpected: x = sx; break;
    case eEmplace: x.emplace(t); break;
    case eValueOr: {
        X const& cx = x;
        Wrap got    = cx.value_or(t);
        r.i("value_or", enc(got));
        break;
    }
    case eAndThen: {
        auto f = [](Wrap w) { return XL(NS::in_place, w.v + 1L); };
        XL ret = [&] {
            if constexpr (NS::is_etl) {
                return sx.and_then(f);
            } else { // [expected.object.monadic] for an lvalue: invoke(f, **this) / U(unexpect, error())
                return sx.has_value() ? f(*sx) : XL(std::unexpect, sx.error());
            }
        }();
        r.b("ret.has_value", ret.has_value());
        break;
    }
    default: {
        auto f = [](Val v) { return XG(NS::unexpect, v.v + 1L); };
        XG ret = [&] {
            if constexpr (NS::is_etl) {
                return sx.or_else(f);
            } else {
                return sx.has_value() ? XG(std::in_place, *sx) : f(sx.error());
            }
        }();
        r.b("ret.has_value", ret.has_value());
        break;
    }
    }
    obs_exp(r, "target.has_value", "target.value", "target.error", x);
    r.i("source T after", enc(t));
    r.i("source E after", enc(e));
    obs_exp(r, "source expected.has_value after", "source expected.value after", "source expected.error after", sx);
    X again(NS::in_place, t);
    X again2 = target_has ? X(NS::in_place, 1) : X(NS::unexpect, 2);
    again2   = sx;
    obs_exp(r, "second use of T.has_value", "second use of T.value", "second use of T.error", again);
    obs_exp(r, "second use of expected.has_value", "second use of expected.value", "second use of expected.error", again2);
}

void run_all()
{
    for (int op = 0; op < kOOps; ++op) {
        for (int te = 0; te < 2; ++te) {
            for (int se = 0; se < 2; ++se) {
                char sit[64];
                std::snprintf(sit, sizeof sit, "target-%s,source-%s", te ? "engaged" : "empty", se ? "engaged" : "empty");
                vf::crumb("optional<wrap>", kOOpName[op], sit, "non-const lvalue sources: T=Wrap(5), U=Val(6), optional<Wrap>, optional<Val>");
                Obs so, eo;
                opt_world<Std>(so, (OOp)op, te != 0, se != 0);
                opt_world<Etl>(eo, (OOp)op, te != 0, se != 0);
                vf::cover("copy-style operations leave an lvalue source unchanged: optional", vf::mix(op, te * 2 + se), true);
                compare(eo, so);
            }
        }
    }
    for (int op = 0; op < 5; ++op) {
        for (int te = 0; te < 2; ++te) {
            static constexpr char const* on[5] = {"operator=(T&)", "operator=(optional&)", "emplace(T&)", "value_or(T&) const&", "ctor(optional&) / ctor(T&)"};
            vf::crumb("optional<string-like>", on[op], te ? "target-engaged" : "target-empty", "-");
            Obs so, eo;
            opt_str_world<Std>(so, op, te != 0);
            opt_str_world<Etl>(eo, op, te != 0);
            vf::cover("copy-style operations leave an lvalue source unchanged: optional", vf::mix(100 + op, te), true);
            compare(eo, so);
        }
    }
    for (int op = 0; op < kVOps; ++op) {
        for (int ti = 0; ti < 3; ++ti) {
            for (int si = 0; si < 3; ++si) {
                char sit[64];
                std::snprintf(sit, sizeof sit, "from-index-%d,source-index-%d", ti, si);
                vf::crumb("variant<int,wrap,val>", kVOpName[op], sit, "op#%d; non-const lvalue sources: Wrap(5), Val(6), variant", op);
                Obs so, eo;
                var_world<Std>(so, (VOp)op, ti, si);
                var_world<Etl>(eo, (VOp)op, ti, si);
                vf::cover("copy-style operations leave an lvalue source unchanged: variant", vf::mix(op, ti * 3 + si), true);
                compare(eo, so);
            }
        }
    }
    for (int op = 0; op < kEOps; ++op) {
        for (int th = 0; th < 2; ++th) {
            for (int sh = 0; sh < 2; ++sh) {
                char sit[64];
                std::snprintf(sit, sizeof sit, "target-%s,source-%s", th ? "has-value" : "has-error", sh ? "has-value" : "has-error");
                vf::crumb("expected<wrap,val>", kEOpName[op], sit, "non-const lvalue sources: Wrap(5), Val(6), expected");
                Obs so, eo;
                exp_world<Std>(so, (EOp)op, th != 0, sh != 0);
                exp_world<Etl>(eo, (EOp)op, th != 0, sh != 0);
                vf::cover("copy-style operations leave an lvalue source unchanged: expected", vf::mix(op, th * 2 + sh), true);
                compare(eo, so);
            }
        }
    }
    vf::sample("copy-style operations leave an lvalue source unchanged", "optional: 13 operations x target engaged/empty x source engaged/empty (+ string-like payload); variant<int,Wrap,Val>: 12 operations x target index x source index; "
                                                                         "expected<Wrap,Val>: 8 operations x value/error^2; the sources are non-const lvalues whose rvalue overloads would set them to -777 / empty, and are used a second and third time");
}

vf::Spec spec(vf::Tier)
{
    vf::Spec s;
    s.n_enum     = 1;
    s.n_random   = 0;
    s.batch      = 1;
    s.exhaustive = true;
    return s;
}
void run_case(vf::Case&) { run_all(); }
} // namespace

VF_MAIN("C07", "C07_sources", spec, run_case)
