// C08 - views whose size does not fit in 32 bits (DESIGN 4, C08; added after adversary round 3)
// A region of 6 GiB is reserved with mmap(MAP_NORESERVE); only a handful of pages are ever touched, because every operation
// issued here reads O(small) characters in both implementations (comparisons against a short view, arithmetic on pos/count,
// searches that start next to the end).  What is monitored: size arithmetic that is narrowed to int/unsigned somewhere.
#include "vf.hpp"
#include "vf_contract.hpp"

#include <etl/string_view.hpp>

#include <string_view>
#include <sys/mman.h>

namespace {
using E = etl::basic_string_view<char>;
using S = std::basic_string_view<char>;
constexpr char const* SUBJ = "string_view<char>";
constexpr auto NPOS        = static_cast<std::size_t>(-1);
constexpr std::size_t kRegion = (std::size_t{6} << 30) + (std::size_t{1} << 20);

constexpr std::size_t kBig[] = {
    (std::size_t{1} << 31) - 1, std::size_t{1} << 31, (std::size_t{1} << 31) + 1, (std::size_t{1} << 32) - 1, std::size_t{1} << 32,
    (std::size_t{1} << 32) + 1, (std::size_t{1} << 32) + (std::size_t{1} << 31), (std::size_t{1} << 32) + 5, std::size_t{5} << 30,
};
constexpr std::size_t kNBig   = sizeof(kBig) / sizeof(kBig[0]);
constexpr std::size_t kSmall[] = {0, 1, 3, 7};
constexpr std::size_t kNSmall = sizeof(kSmall) / sizeof(kSmall[0]);

char* region()
{
    static char* p = [] {
        void* r = ::mmap(nullptr, kRegion, PROT_READ | PROT_WRITE, MAP_PRIVATE | MAP_ANONYMOUS | MAP_NORESERVE, -1, 0);
        return r == MAP_FAILED ? nullptr : static_cast<char*>(r);
    }();
    return p;
}

vf::Spec spec(vf::Tier)
{
    vf::Spec s;
    s.n_enum     = kNBig * kNSmall;
    s.n_random   = 0;
    s.batch      = 4;
    s.exhaustive = true;
    return s;
}

long long P(std::size_t v) { return v == NPOS ? -1 : (long long)v; }

struct Ctx {
    char const* sit;
    std::uint64_t h;
    std::size_t big, k;
};

#define SIGN(OP, EEXPR, SEXPR)                                                                                         \
    do {                                                                                                               \
        int sv_ = (SEXPR);                                                                                             \
        vf::crumb(SUBJ, OP, c.sit, "size-difference=%zu small=%zu", c.big, c.k);                                       \
        int ev_ = (EEXPR);                                                                                             \
        vf::cover(OP, vf::mix(c.h, vf::fnv(OP)));                                                                      \
        vf::eq_sign("ret", ev_, sv_);                                                                                  \
    } while (0)
#define BOOL(OP, EEXPR, SEXPR)                                                                                         \
    do {                                                                                                               \
        bool sv_ = (SEXPR);                                                                                            \
        vf::crumb(SUBJ, OP, c.sit, "size-difference=%zu small=%zu", c.big, c.k);                                       \
        bool ev_ = (EEXPR);                                                                                            \
        vf::cover(OP, vf::mix(c.h, vf::fnv(OP)));                                                                      \
        vf::eq_bool("ret", ev_, sv_);                                                                                  \
    } while (0)
#define SIZE(OP, EEXPR, SEXPR)                                                                                         \
    do {                                                                                                               \
        auto sv_ = (SEXPR);                                                                                            \
        vf::crumb(SUBJ, OP, c.sit, "size-difference=%zu small=%zu", c.big, c.k);                                       \
        auto ev_ = (EEXPR);                                                                                            \
        vf::cover(OP, vf::mix(c.h, vf::fnv(OP)));                                                                      \
        vf::eq_int("ret", P(ev_), P(sv_), true);                                                                       \
    } while (0)

void run_case(vf::Case& cs)
{
    char* p = region();
    if (p == nullptr) {
        if (vf::want_sample("huge-view")) { vf::sample("huge-view", "mmap of %zu bytes with MAP_NORESERVE failed: scenario skipped", kRegion); }
        return;
    }
    std::size_t big = kBig[cs.index / kNSmall];
    std::size_t k   = kSmall[cs.index % kNSmall];
    // contents: 'a' 'b' 'c' ... at the start (the common prefix), a marker next to the end of the long view
    for (std::size_t i = 0; i < 8; ++i) { p[i] = static_cast<char>('a' + i); }
    std::size_t const longsz = big + k;
    if (longsz >= 2) { p[longsz - 2] = 'x'; }
    p[longsz] = 'y'; // first character behind the long view

    char sit[64];
    std::snprintf(sit, sizeof sit, "size-difference%s,short-size=%zu", big >= (std::size_t{1} << 32) ? ">=2^32" : (big >= (std::size_t{1} << 31) ? ">=2^31" : "<2^31"), k);
    Ctx c{sit, vf::mix(big, k), big, k};
    if (vf::want_sample("huge-view")) { vf::sample("huge-view", "long view of %zu characters against its own prefix of %zu characters", longsz, k); }

    E const el(p, longsz), es(p, k);
    S const sl(p, longsz), ss(p, k);

    SIZE("size()", el.size(), sl.size());
    SIZE("length()", el.length(), sl.length());
    SIZE("end()-begin()", (std::size_t)(el.end() - el.begin()), (std::size_t)(sl.end() - sl.begin()));
    BOOL("empty()", el.empty(), sl.empty());

    SIGN("compare(sv)", el.compare(es), sl.compare(ss));
    SIGN("compare(sv):reversed", es.compare(el), ss.compare(sl));
    SIGN("compare(pos1,count1,sv)", el.compare(0, NPOS, es), sl.compare(0, NPOS, ss));
    SIGN("compare(pos1,count1,sv):count1=size", el.compare(0, longsz, es), sl.compare(0, longsz, ss));
    SIGN("compare(pos1,count1,sv):reversed", es.compare(0, NPOS, el), ss.compare(0, NPOS, sl));
    SIGN("compare(pos1,count1,sv,pos2,count2)", el.compare(0, NPOS, es, 0, NPOS), sl.compare(0, NPOS, ss, 0, NPOS));
    SIGN("compare(pos1,count1,sv,pos2,count2):reversed", es.compare(0, k, el, 0, longsz), ss.compare(0, k, sl, 0, longsz));
    SIGN("compare(pos1,count1,ptr,count2)", el.compare(0, longsz, p, k), sl.compare(0, longsz, p, k));
    SIGN("compare(pos1,count1,ptr,count2):reversed", es.compare(0, k, p, longsz), ss.compare(0, k, p, longsz));
    // equal long views (nothing but the size decides nothing: same pointer, so implementations that compare read the common part -
    // restricted to a short common part by comparing tails)
    if (longsz >= 4) {
        E const et(p + longsz - 3, 3);
        S const st(p + longsz - 3, 3);
        SIGN("compare(pos1,count1,sv):tail", el.compare(longsz - 3, NPOS, et), sl.compare(longsz - 3, NPOS, st));
        SIGN("compare(pos1,count1,sv):tail,count1-large", el.compare(longsz - 3, big, et), sl.compare(longsz - 3, big, st));
        BOOL("ends_with(sv)", el.ends_with(et), sl.ends_with(st));
        BOOL("ends_with(ch)", el.ends_with('x'), sl.ends_with('x'));
        BOOL("ends_with(ch):second-to-last", el.ends_with(p[longsz - 1]), sl.ends_with(p[longsz - 1]));
        SIZE("find(ch,pos):pos-near-end", el.find('x', longsz - 3), sl.find('x', longsz - 3));
        SIZE("find(sv,pos):pos-near-end", el.find(et, longsz - 3), sl.find(st, longsz - 3));
        SIZE("find(ch,pos):pos=size", el.find('x', longsz), sl.find('x', longsz));
        SIZE("find_first_of(sv,pos):pos-near-end", el.find_first_of(E("xq", 2), longsz - 3), sl.find_first_of(S("xq", 2), longsz - 3));
        SIZE("find_first_not_of(ch,pos):pos-near-end", el.find_first_not_of('\0', longsz - 3), sl.find_first_not_of('\0', longsz - 3));
        SIZE("find_last_of(ch)", el.find_last_of('x'), sl.find_last_of('x'));
        SIZE("find_last_of(ch,pos):pos>size", el.find_last_of('x', longsz + 7), sl.find_last_of('x', longsz + 7));
        SIZE("find_last_not_of(ch)", el.find_last_not_of('\0'), sl.find_last_not_of('\0'));
        SIZE("rfind(ch)", el.rfind('x'), sl.rfind('x'));
        SIZE("rfind(ch,pos):pos=npos-1", el.rfind('x', NPOS - 1), sl.rfind('x', NPOS - 1));
        SIZE("back()", (std::size_t)(unsigned char)el.back(), (std::size_t)(unsigned char)sl.back());
        SIZE("operator[](size-2)", (std::size_t)(unsigned char)el[longsz - 2], (std::size_t)(unsigned char)sl[longsz - 2]);
    }
    BOOL("starts_with(sv)", el.starts_with(es), sl.starts_with(ss));
    BOOL("starts_with(sv):reversed", es.starts_with(el), ss.starts_with(sl));
    BOOL("ends_with(sv):reversed", es.ends_with(el), ss.ends_with(sl));
    BOOL("operator==", el == es, sl == ss);
    BOOL("operator!=", el != es, sl != ss);
    BOOL("operator<", el < es, sl < ss);
    BOOL("operator<=", el <= es, sl <= ss);
    BOOL("operator>", el > es, sl > ss);
    BOOL("operator>=", el >= es, sl >= ss);
    BOOL("operator<:reversed", es < el, ss < sl);
    BOOL("operator>:reversed", es > el, ss > sl);

    // substr / remove_prefix / remove_suffix / copy with positions and counts beyond 2^31 / 2^32
    for (std::size_t pos : {std::size_t{0}, std::size_t{2}, big, longsz}) {
        if (pos > longsz) { continue; }
        for (std::size_t cnt : {std::size_t{0}, std::size_t{3}, big, longsz, NPOS - 1, NPOS}) {
            vf::crumb(SUBJ, "substr(pos,count)", c.sit, "size=%zu pos=%zu count=%lld", longsz, pos, P(cnt));
            auto es2 = el.substr(pos, cnt);
            auto ss2 = sl.substr(pos, cnt);
            vf::cover("substr(pos,count)", vf::mix(c.h, vf::mix(pos, cnt)));
            vf::eq_int("size", P(es2.size()), P(ss2.size()), true);
            vf::eq_int("data-offset", (long long)(es2.data() - el.data()), (long long)(ss2.data() - sl.data()));
            char de[4] = {}, ds[4] = {};
            std::size_t want = cnt < 3 ? cnt : 3;
            vf::crumb(SUBJ, "copy(dest,count,pos)", c.sit, "size=%zu pos=%zu count=%zu", longsz, pos, want);
            auto re = el.copy(de, want, pos);
            auto rs = sl.copy(ds, want, pos);
            vf::cover("copy(dest,count,pos)", vf::mix(c.h, vf::mix(pos, cnt)));
            vf::eq_int("ret", P(re), P(rs), true);
            if (std::memcmp(de, ds, 4) != 0) { vf::diverge("dest-bytes", "differ", "equal"); }
        }
        E e2 = el;
        S s2 = sl;
        vf::crumb(SUBJ, "remove_prefix(n)", c.sit, "size=%zu n=%zu", longsz, pos);
        e2.remove_prefix(pos);
        s2.remove_prefix(pos);
        vf::cover("remove_prefix(n)", vf::mix(c.h, pos));
        vf::eq_int("size", P(e2.size()), P(s2.size()), true);
        vf::eq_int("data-offset", (long long)(e2.data() - el.data()), (long long)(s2.data() - sl.data()));
        E e3 = el;
        S s3 = sl;
        vf::crumb(SUBJ, "remove_suffix(n)", c.sit, "size=%zu n=%zu", longsz, pos);
        e3.remove_suffix(pos);
        s3.remove_suffix(pos);
        vf::cover("remove_suffix(n)", vf::mix(c.h, pos));
        vf::eq_int("size", P(e3.size()), P(s3.size()), true);
    }
    // restore the touched far bytes so that the next scenario starts from zeros there
    if (longsz >= 2) { p[longsz - 2] = 0; }
    p[longsz] = 0;
}
} // namespace

VF_MAIN("C08", "C08_huge", spec, run_case)
