// C19 - etl::span first/last/subspan (static and dynamic forms), constructors, element access, as_bytes,
// and etl::array addressing, against pointer arithmetic on the original guarded range.
// Build: -DVF_ELEM=0..3 (element type: uchar, int, 12-byte struct, const int)
// Enumerated: presentation (exact block / embedded) x length 0..6 x {dynamic span, span<T,N>} ; each case runs
// ALL (offset,count) pairs through the run-time forms and the template forms (index_sequence cross product).
#include "vf.hpp"
#include "vf_contract.hpp"

#include <etl/array.hpp>
#include <etl/span.hpp>

#include <string>
#include <utility>

#ifndef VF_ELEM
    #define VF_ELEM 1
#endif

namespace {
#define NOINL __attribute__((noinline))
using LL                  = long long;
constexpr std::size_t dyn = etl::dynamic_extent;
constexpr std::size_t MAXN = 6;

struct Tri {
    int a;
    int b;
    int c;
};
#if VF_ELEM == 0
using T                     = unsigned char;
constexpr char const* TNAME = "uchar";
#elif VF_ELEM == 1
using T                     = int;
constexpr char const* TNAME = "int";
#elif VF_ELEM == 2
using T                     = Tri;
constexpr char const* TNAME = "tri12";
#else
using T                     = int const;
constexpr char const* TNAME = "const-int";
#endif
using V = std::remove_const_t<T>; // storage type

inline void set_value(Tri& t, LL k) { t = Tri{(int)k, (int)(k * 3), -1}; }
inline void set_value(unsigned char& t, LL k) { t = (unsigned char)k; }
inline void set_value(int& t, LL k) { t = (int)k; }
inline LL value_of(Tri const& v) { return v.a; }
inline LL value_of(unsigned char v) { return v; }
inline LL value_of(int v) { return v; }
V make_value(LL k)
{
    V v{};
    set_value(v, k);
    return v;
}

vf::Spec spec(vf::Tier t)
{
    vf::Spec s;
    s.n_enum     = 2 * (MAXN + 1) * 2;
    s.n_random   = t == vf::Tier::thorough ? 20000 : 2000;
    s.batch      = 16;
    s.exhaustive = true;
    return s;
}

struct Ctx {
    V* block;      // start of the guarded block
    LL total;      // elements in the block
    LL lead;       // the viewed range is block[lead, lead+n)
    LL n;
    std::string subj;
    char const* pres;
    std::uint64_t h;
};

char const* cls(LL v, LL n) { return v == 0 ? "0" : (v == n ? "all" : "mid"); }

// what a resulting view looks like: offset of data() from the block start, size, static extent, and whether
// reading every element through it yields the block's own indices
struct Seen {
    LL off;
    LL size;
    LL extent; // -1 == dynamic_extent
    LL bad_at; // first index whose value differs (-1: none)
    LL bad_val;
};
template <typename S>
NOINL Seen look(Ctx const& c, S const& r)
{
    Seen s{};
    s.off    = (LL)(r.data() - c.block);
    s.size   = (LL)r.size();
    s.extent = S::extent == dyn ? -1 : (LL)S::extent;
    s.bad_at = -1;
    // only read when the view lies inside the block (otherwise the address check already fails; do not crash the harness itself)
    if (s.off >= 0 && s.off + s.size <= c.total) {
        for (LL i = 0; i < s.size; ++i) {
            LL const v = value_of(r[(std::size_t)i]);
            if (v != value_of(make_value(s.off + i))) {
                s.bad_at  = i;
                s.bad_val = v;
                break;
            }
        }
    }
    return s;
}
NOINL void judge(Ctx const& c, char const* op, std::string const& sit, std::string const& args, Seen const& s, LL exp_off, LL exp_size, LL exp_extent, std::uint64_t salt)
{
    // (the library call itself ran under the breadcrumb set by the caller)
    vf::crumb(c.subj.c_str(), op, sit.c_str(), "%s n=%lld %s", c.pres, c.n, args.c_str());
    vf::cover(op, vf::mix(c.h, salt), c.n > 0);
    vf::eq_int("data()-offset", s.off, c.lead + exp_off);
    vf::eq_int("size()", s.size, exp_size);
    if (s.extent != exp_extent) {
        vf::diverge(exp_extent == -1 ? "extent:static-for-dynamic" : (s.extent == -1 ? "extent:dynamic-for-static" : "extent:wrong-static"), vf::to_s(s.extent), vf::to_s(exp_extent));
    }
    if (s.bad_at >= 0) { vf::diverge("element-value", "view[" + vf::to_s(s.bad_at) + "]=" + vf::to_s(s.bad_val), "block[" + vf::to_s(s.off + s.bad_at) + "]"); }
}
NOINL void pre(Ctx const& c, char const* op, std::string const& sit, std::string const& args)
{
    vf::crumb(c.subj.c_str(), op, sit.c_str(), "%s n=%lld %s", c.pres, c.n, args.c_str());
}
std::string sit_oc(LL n, LL o, LL cnt) // offset / count classes
{
    std::string s = n == 0 ? "empty" : "nonempty";
    s += std::string(",offset=") + cls(o, n);
    s += cnt < 0 ? ",count=dynamic_extent" : (std::string(",count=") + (cnt == 0 ? "0" : (cnt == n - o ? "rest" : "mid")));
    return s;
}
std::string sit_c(LL n, LL cnt) { return std::string(n == 0 ? "empty" : "nonempty") + ",count=" + cls(cnt, n); }
std::string args_oc(LL o, LL cnt) { return "offset=" + std::to_string(o) + " count=" + (cnt < 0 ? std::string("dynamic_extent") : std::to_string(cnt)); }

// expected static extent of subspan<O,C> on a span with static extent N (-1: dynamic)
constexpr LL subspan_extent(std::size_t N, std::size_t O, std::size_t C) { return C != dyn ? (LL)C : (N != dyn ? (LL)(N - O) : -1); }

// ---------------------------------------------------------------- run-time forms (any span type)
template <typename S>
NOINL void runtime_forms(Ctx const& c, S const& sp)
{
    LL const n = c.n;
    for (LL k = 0; k <= n; ++k) {
        pre(c, "first(count)", sit_c(n, k), "count=" + std::to_string(k));
        auto f = sp.first((std::size_t)k);
        judge(c, "first(count)", sit_c(n, k), "count=" + std::to_string(k), look(c, f), 0, k, -1, (std::uint64_t)k);
        pre(c, "last(count)", sit_c(n, k), "count=" + std::to_string(k));
        auto l = sp.last((std::size_t)k);
        judge(c, "last(count)", sit_c(n, k), "count=" + std::to_string(k), look(c, l), n - k, k, -1, (std::uint64_t)k);
    }
    for (LL o = 0; o <= n; ++o) {
        pre(c, "subspan(offset)", sit_oc(n, o, -1), args_oc(o, -1));
        auto s1 = sp.subspan((std::size_t)o);
        judge(c, "subspan(offset)", sit_oc(n, o, -1), args_oc(o, -1), look(c, s1), o, n - o, -1, (std::uint64_t)o);
        pre(c, "subspan(offset,count)", sit_oc(n, o, -1), args_oc(o, -1));
        auto s2 = sp.subspan((std::size_t)o, dyn);
        judge(c, "subspan(offset,count)", sit_oc(n, o, -1), args_oc(o, -1), look(c, s2), o, n - o, -1, (std::uint64_t)(o * 64 + 63));
        for (LL k = 0; k <= n - o; ++k) {
            pre(c, "subspan(offset,count)", sit_oc(n, o, k), args_oc(o, k));
            auto s3 = sp.subspan((std::size_t)o, (std::size_t)k);
            judge(c, "subspan(offset,count)", sit_oc(n, o, k), args_oc(o, k), look(c, s3), o, k, -1, (std::uint64_t)(o * 64 + k));
        }
    }
}

// ---------------------------------------------------------------- template forms
template <typename S, std::size_t C>
NOINL void first_last_static(Ctx const& c, S const& sp)
{
    if constexpr (S::extent == dyn || C <= S::extent) {
        if ((LL)C > c.n) { return; } // run-time precondition of the dynamic-extent span
        pre(c, "first<Count>()", sit_c(c.n, (LL)C), "Count=" + std::to_string(C));
        auto f = sp.template first<C>();
        judge(c, "first<Count>()", sit_c(c.n, (LL)C), "Count=" + std::to_string(C), look(c, f), 0, (LL)C, (LL)C, C);
        pre(c, "last<Count>()", sit_c(c.n, (LL)C), "Count=" + std::to_string(C));
        auto l = sp.template last<C>();
        judge(c, "last<Count>()", sit_c(c.n, (LL)C), "Count=" + std::to_string(C), look(c, l), c.n - (LL)C, (LL)C, (LL)C, C);
    }
}
template <typename S, std::size_t O, std::size_t C> // C == MAXN+1 stands for "Count defaulted (dynamic_extent)"
NOINL void subspan_static(Ctx const& c, S const& sp)
{
    constexpr std::size_t N = S::extent;
    if constexpr (C == MAXN + 1) {
        if constexpr (N == dyn || O <= N) {
            if ((LL)O > c.n) { return; }
            pre(c, "subspan<Offset>()", sit_oc(c.n, (LL)O, -1), args_oc((LL)O, -1));
            auto s = sp.template subspan<O>();
            judge(c, "subspan<Offset>()", sit_oc(c.n, (LL)O, -1), args_oc((LL)O, -1), look(c, s), (LL)O, c.n - (LL)O, subspan_extent(N, O, dyn), O * 64 + 63);
            pre(c, "subspan<Offset,dynamic_extent>()", sit_oc(c.n, (LL)O, -1), args_oc((LL)O, -1));
            auto s2 = sp.template subspan<O, dyn>();
            judge(c, "subspan<Offset,dynamic_extent>()", sit_oc(c.n, (LL)O, -1), args_oc((LL)O, -1), look(c, s2), (LL)O, c.n - (LL)O, subspan_extent(N, O, dyn), O * 64 + 62);
        }
    } else {
        if constexpr (N == dyn || O + C <= N) {
            if ((LL)(O + C) > c.n) { return; }
            pre(c, "subspan<Offset,Count>()", sit_oc(c.n, (LL)O, (LL)C), args_oc((LL)O, (LL)C));
            auto s = sp.template subspan<O, C>();
            judge(c, "subspan<Offset,Count>()", sit_oc(c.n, (LL)O, (LL)C), args_oc((LL)O, (LL)C), look(c, s), (LL)O, (LL)C, (LL)C, O * 64 + C);
        }
    }
}
template <typename S>
NOINL void template_forms(Ctx const& c, S const& sp)
{
    [&]<std::size_t... Cs>(std::index_sequence<Cs...>) { (first_last_static<S, Cs>(c, sp), ...); }(std::make_index_sequence<MAXN + 1>{});
    [&]<std::size_t... Os>(std::index_sequence<Os...>) {
        (([&]<std::size_t O, std::size_t... Cs>(std::integral_constant<std::size_t, O>, std::index_sequence<Cs...>) { (subspan_static<S, O, Cs>(c, sp), ...); }(
             std::integral_constant<std::size_t, Os>{}, std::make_index_sequence<MAXN + 2>{})),
            ...);
    }(std::make_index_sequence<MAXN + 1>{});
}

// ---------------------------------------------------------------- observers / element access / bytes
template <typename S>
NOINL void observers(Ctx const& c, S const& sp)
{
    std::string const sit = c.n == 0 ? "empty" : "nonempty";
    T* const b            = c.block + c.lead;
    pre(c, "observers", sit, "");
    vf::cover("observers", c.h, c.n > 0);
    vf::eq_bool("data()", sp.data() == b, true);
    vf::eq_int("size()", (LL)sp.size(), c.n);
    vf::eq_int("size_bytes()", (LL)sp.size_bytes(), c.n * (LL)sizeof(T));
    vf::eq_bool("empty()", sp.empty(), c.n == 0);
    vf::eq_bool("begin()", sp.begin() == b, true);
    vf::eq_bool("end()", sp.end() == b + c.n, true);
    vf::eq_bool("rbegin().base()", sp.rbegin().base() == b + c.n, true);
    vf::eq_bool("rend().base()", sp.rend().base() == b, true);
    if (c.n > 0) {
        pre(c, "front()", sit, "");
        vf::eq_bool("&front()", &sp.front() == b, true);
        pre(c, "back()", sit, "");
        vf::eq_bool("&back()", &sp.back() == b + c.n - 1, true);
        vf::cover("front()/back()", c.h, true);
    }
    for (LL i = 0; i < c.n; ++i) {
        pre(c, "operator[](idx)", sit, "idx=" + std::to_string(i));
        vf::eq_int("&operator[]-offset", (LL)(&sp[(std::size_t)i] - c.block), c.lead + i);
        vf::cover("operator[](idx)", vf::mix(c.h, (std::uint64_t)i), true);
    }
    // reverse iteration reads the same elements backwards
    {
        LL k = c.n;
        for (auto it = sp.rbegin(); it != sp.rend(); ++it) {
            --k;
            if (value_of(*it) != value_of(make_value(c.lead + k))) {
                vf::diverge("reverse-iteration:value", vf::to_s(value_of(*it)), vf::to_s(value_of(make_value(c.lead + k))));
                break;
            }
        }
        vf::eq_int("reverse-iteration:count", c.n - k, c.n);
    }
    // object representation (static-extent spans: as_bytes does not compile on the unfixed tree -> unit C19_probe_span_bytes)
    if constexpr (S::extent == dyn) {
        pre(c, "as_bytes(span)", sit, "");
        auto by = etl::as_bytes(sp);
        vf::cover("as_bytes(span)", c.h, c.n > 0);
        vf::eq_bool("as_bytes:data()", static_cast<void const*>(by.data()) == static_cast<void const*>(b), true);
        vf::eq_int("as_bytes:size()", (LL)by.size(), c.n * (LL)sizeof(T));
        constexpr LL expext = S::extent == dyn ? -1 : (LL)(S::extent * sizeof(T));
        vf::eq_int("as_bytes:extent", decltype(by)::extent == dyn ? -1 : (LL)decltype(by)::extent, expext);
        if constexpr (!std::is_const_v<T>) {
            pre(c, "as_writable_bytes(span)", sit, "");
            auto wb = etl::as_writable_bytes(sp);
            vf::cover("as_writable_bytes(span)", c.h, c.n > 0);
            vf::eq_bool("as_writable_bytes:data()", static_cast<void const*>(wb.data()) == static_cast<void const*>(b), true);
            vf::eq_int("as_writable_bytes:size()", (LL)wb.size(), c.n * (LL)sizeof(T));
        }
    }
    // write through a sub-view, verify in the block
    if constexpr (!std::is_const_v<T>) {
        if (c.n >= 2) {
            pre(c, "write-through", sit, "subspan(1)[0]");
            auto s = sp.subspan(1);
            V const old = c.block[c.lead + 1];
            s[0]        = make_value(200);
            vf::cover("write-through", c.h, true);
            vf::eq_int("write-through:block-cell", value_of(c.block[c.lead + 1]), value_of(make_value(200)));
            c.block[c.lead + 1] = old;
            for (LL k = 0; k < c.total; ++k) {
                if (value_of(c.block[k]) != value_of(make_value(k))) {
                    vf::diverge("write-through:other-cell-changed", vf::to_s(k), "none");
                    break;
                }
            }
        }
    }
}

template <typename S>
NOINL void all_forms(Ctx const& c, S const& sp)
{
    observers(c, sp);
    runtime_forms(c, sp);
    template_forms(c, sp);
}

// ---------------------------------------------------------------- construction of span<T,N> (static N)
template <std::size_t N>
struct Static {
    static void run(Ctx& c)
    {
        using S = etl::span<T, N>;
        T* const b = c.block + c.lead;
        c.subj     = std::string("span<") + TNAME + ",static>";
        std::string const sit = N == 0 ? "empty" : "nonempty";
        pre(c, "span(It,count)", sit, "");
        S const sp(b, N);
        vf::cover("span(It,count)", c.h, N > 0);
        all_forms(c, sp);
        // copy, conversions: static -> dynamic (implicit), dynamic -> static (explicit), -> const
        {
            pre(c, "span(span const&)", sit, "");
            S const cp(sp);
            judge(c, "span(span const&)", sit, "", look(c, cp), 0, N, N, 1);
            static_assert(std::is_convertible_v<S, etl::span<T>>);
            pre(c, "span(span<U,N>):static->dynamic", sit, "");
            etl::span<T> const d(sp);
            judge(c, "span(span<U,N>):static->dynamic", sit, "", look(c, d), 0, N, -1, 2);
            static_assert(std::is_constructible_v<S, etl::span<T>> && !std::is_convertible_v<etl::span<T>, S>);
            pre(c, "span(span<U,N>):dynamic->static", sit, "");
            S const back(d);
            judge(c, "span(span<U,N>):dynamic->static", sit, "", look(c, back), 0, N, N, 3);
            pre(c, "span(span<U,N>):->const", sit, "");
            etl::span<T const, N> const cs(sp);
            judge(c, "span(span<U,N>):->const", sit, "", look(c, cs), 0, N, N, 4);
        }
        if constexpr (N == 0) {
            pre(c, "span()", sit, "");
            S const d{};
            vf::cover("span()", c.h, false);
            vf::eq_bool("span():data()==nullptr", d.data() == nullptr, true);
            vf::eq_int("span():size()", (LL)d.size(), 0);
        }
        // from a C array and from etl::array (copies of the viewed elements; addresses relative to the copy)
        if constexpr (N > 0) {
            V raw[N];
            etl::array<V, N> arr{};
            for (std::size_t i = 0; i < N; ++i) {
                raw[i] = make_value((LL)i);
                arr[i] = make_value((LL)i);
            }
            Ctx c2   = c;
            c2.block = raw;
            c2.total = N;
            c2.lead  = 0;
            c2.pres  = "c-array";
            pre(c2, "span(T(&)[N])", sit, "");
            S const fromraw(raw);
            judge(c2, "span(T(&)[N])", sit, "", look(c2, fromraw), 0, N, N, 5);
            pre(c2, "span(T(&)[N]) deduction", sit, "");
            auto const g = etl::span(raw);
            static_assert(std::is_same_v<decltype(g), etl::span<V, N> const>);
            judge(c2, "span(T(&)[N]) deduction", sit, "", look(c2, g), 0, N, N, 6);
            pre(c2, "span(T(&)[N]):dynamic", sit, "");
            etl::span<T> const dynraw(raw);
            judge(c2, "span(T(&)[N]):dynamic", sit, "", look(c2, dynraw), 0, N, -1, 7);

            c2.block = arr.data();
            c2.pres  = "etl::array";
            if constexpr (!std::is_const_v<T>) {
                pre(c2, "span(array<U,N>&)", sit, "");
                S const froma(arr);
                judge(c2, "span(array<U,N>&)", sit, "", look(c2, froma), 0, N, N, 8);
                pre(c2, "span(array<U,N>&) deduction", sit, "");
                auto const ga = etl::span(arr);
                static_assert(std::is_same_v<decltype(ga), etl::span<V, N> const>);
                judge(c2, "span(array<U,N>&) deduction", sit, "", look(c2, ga), 0, N, N, 9);
            }
            etl::array<V, N> const& carr = arr;
            pre(c2, "span(array<U,N> const&)", sit, "");
            etl::span<V const, N> const fromc(carr);
            judge(c2, "span(array<U,N> const&)", sit, "", look(c2, fromc), 0, N, N, 10);
            pre(c2, "span(array<U,N> const&):dynamic", sit, "");
            etl::span<V const> const fromcd(carr);
            judge(c2, "span(array<U,N> const&):dynamic", sit, "", look(c2, fromcd), 0, N, -1, 11);
            // etl::array addressing (the anchor container): data()+i
            pre(c2, "array::operator[]", sit, "");
            for (std::size_t i = 0; i < N; ++i) { vf::eq_int("array:&operator[]-offset", (LL)(&arr[i] - arr.data()), (LL)i); }
            vf::eq_bool("array:begin()", arr.begin() == arr.data(), true);
            vf::eq_bool("array:end()", arr.end() == arr.data() + N, true);
            vf::eq_bool("array:&front()", &arr.front() == arr.data(), true);
            vf::eq_bool("array:&back()", &arr.back() == arr.data() + N - 1, true);
            vf::eq_int("array:size()", (LL)arr.size(), (LL)N);
            vf::cover("array::operator[]", c.h, true);
        }
    }
};

void dynamic_span(Ctx& c)
{
    using S = etl::span<T>;
    T* const b = c.block + c.lead;
    c.subj     = std::string("span<") + TNAME + ",dynamic>";
    std::string const sit = c.n == 0 ? "empty" : "nonempty";
    pre(c, "span(It,count)", sit, "");
    S const sp(b, (std::size_t)c.n);
    vf::cover("span(It,count)", c.h, c.n > 0);
    all_forms(c, sp);
    pre(c, "span(span const&)", sit, "");
    S const cp(sp);
    judge(c, "span(span const&)", sit, "", look(c, cp), 0, c.n, -1, 1);
    pre(c, "span(span<U,N>):->const", sit, "");
    etl::span<T const> const cs(sp);
    judge(c, "span(span<U,N>):->const", sit, "", look(c, cs), 0, c.n, -1, 2);
    if (c.n == 0) {
        pre(c, "span()", sit, "");
        S const d{};
        vf::cover("span()", c.h, false);
        vf::eq_bool("span():data()==nullptr", d.data() == nullptr, true);
        vf::eq_int("span():size()", (LL)d.size(), 0);
    }
}

void run_case(vf::Case& c)
{
    Ctx x{};
    bool embedded = false;
    bool is_static = false;
    if (c.enumerated) {
        std::uint64_t id = c.index;
        is_static        = id % 2;
        id /= 2;
        x.n = (LL)(id % (MAXN + 1));
        id /= (MAXN + 1);
        embedded = id % 2;
    } else {
        x.n      = c.rng.range(0, 64);
        embedded = c.rng.coin();
    }
    x.lead  = embedded ? 2 : 0;
    x.total = x.n + (embedded ? 5 : 0);
    x.pres  = embedded ? "embedded" : "exact";
    x.h     = vf::mix(vf::mix((std::uint64_t)x.n + 1, embedded ? 2 : 1), is_static ? 11 : 12);
    vf::Buf<V> block((std::size_t)x.total);
    for (LL k = 0; k < x.total; ++k) { block[(std::size_t)k] = make_value(k); }
    x.block = block.data();
    if (vf::want_sample("range")) { vf::sample("range", "span<%s> over %lld elements (%s, block of %lld): every (offset,count) pair, run-time and template forms", TNAME, x.n, x.pres, x.total); }
    if (c.enumerated) {
        if (is_static) {
            [&]<std::size_t... Ns>(std::index_sequence<Ns...>) {
                using fn_t              = void (*)(Ctx&);
                static fn_t const tab[] = {&Static<Ns>::run...};
                tab[x.n](x);
            }(std::make_index_sequence<MAXN + 1>{});
        } else {
            dynamic_span(x);
        }
    } else {
        // seeded part: longer dynamic spans, random (offset,count)
        using S = etl::span<T>;
        x.subj  = std::string("span<") + TNAME + ",dynamic>";
        S const sp(x.block + x.lead, (std::size_t)x.n);
        observers(x, sp);
        for (int k = 0; k < 24; ++k) {
            LL const o   = c.rng.range(0, x.n);
            LL const cnt = c.rng.range(0, x.n - o);
            pre(x, "subspan(offset,count)", sit_oc(x.n, o, cnt), args_oc(o, cnt));
            auto s = sp.subspan((std::size_t)o, (std::size_t)cnt);
            judge(x, "subspan(offset,count)", sit_oc(x.n, o, cnt), args_oc(o, cnt), look(x, s), o, cnt, -1, (std::uint64_t)(o * 128 + cnt));
            pre(x, "subspan(offset)", sit_oc(x.n, o, -1), args_oc(o, -1));
            auto s1 = sp.subspan((std::size_t)o);
            judge(x, "subspan(offset)", sit_oc(x.n, o, -1), args_oc(o, -1), look(x, s1), o, x.n - o, -1, (std::uint64_t)o);
            pre(x, "first(count)", sit_c(x.n, cnt), "count=" + std::to_string(cnt));
            auto f = sp.first((std::size_t)cnt);
            judge(x, "first(count)", sit_c(x.n, cnt), "count=" + std::to_string(cnt), look(x, f), 0, cnt, -1, (std::uint64_t)cnt);
            pre(x, "last(count)", sit_c(x.n, cnt), "count=" + std::to_string(cnt));
            auto l = sp.last((std::size_t)cnt);
            judge(x, "last(count)", sit_c(x.n, cnt), "count=" + std::to_string(cnt), look(x, l), x.n - cnt, cnt, -1, (std::uint64_t)cnt);
            // chained: a sub-view of a sub-view still addresses the original range
            LL const o2 = c.rng.range(0, cnt);
            pre(x, "subspan(offset,count).subspan(offset)", sit_oc(cnt, o2, -1), args_oc(o2, -1));
            auto s2 = s.subspan((std::size_t)o2);
            judge(x, "subspan(offset,count).subspan(offset)", sit_oc(cnt, o2, -1), args_oc(o2, -1), look(x, s2), o + o2, cnt - o2, -1, (std::uint64_t)(o * 8192 + cnt * 64 + o2));
        }
    }
    block.check("span block");
}
} // namespace

#define VF_STR2(x) #x
#define VF_STR(x) VF_STR2(x)
VF_MAIN("C19", "C19_span_e" VF_STR(VF_ELEM), spec, run_case)
