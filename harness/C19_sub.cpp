// C19 - submdspan_extents: every slice-specifier kind in every position of rank 1-3 sources with static, dynamic
// and mixed extents; the TYPE-level result (rank, static_extent(r)) and the run-time extents against the closed form
// of [mdspan.sub.extents]: an index drops the dimension, full_extent keeps extent and static extent, an index pair
// [first,last) gives last-first, static only when both bounds are integral constants.
// submdspan / submdspan_mapping are not provided by tetl (detected, reported as absent); strided_slice slices are a
// static_assert(false) upstream and cannot be probed without breaking the build.
// Build: -DVF_IDX=<index type> -DVF_IDX_NAME="..." -DVF_SUBPART=1 (rank 1+2) | 2 (rank 3)
//        -DVF_SUB_STRICT=1: require the static extent the standard gives for a pair of constants on a DYNAMIC source
//        extent too (tetl keeps it dynamic: proposed/C19/findings5.jsonl)
#include "vf.hpp"
#include "vf_contract.hpp"

#include <etl/mdspan.hpp>
#include <etl/tuple.hpp>
#include <etl/type_traits.hpp>
#include <etl/utility.hpp>

#include <array>
#include <string>
#include <vector>

#ifndef VF_IDX
    #define VF_IDX int
    #define VF_IDX_NAME "int32"
#endif
#ifndef VF_SUBPART
    #define VF_SUBPART 1
#endif
#ifndef VF_SUB_STRICT
    #define VF_SUB_STRICT 0
#endif

namespace {
#define NOINL __attribute__((noinline))
using Idx                  = VF_IDX;
constexpr char const* IDXN = VF_IDX_NAME;
using LL                   = long long;
constexpr std::size_t dyn  = etl::dynamic_extent;
constexpr std::size_t MAXR = 3;

// ---------------------------------------------------------------- slice kinds
enum Kind : int { I_ = 0, C_, F_, Prr, Pcr, Prc, Pcc, Trr, Tcr, Trc, Tcc, NKIND };
constexpr char const* KNAME[NKIND] = {"index", "integral_constant-index", "full_extent", "pair<rt,rt>", "pair<ic,rt>", "pair<rt,ic>", "pair<ic,ic>", "tuple<rt,rt>",
    "tuple<ic,rt>", "tuple<rt,ic>", "tuple<ic,ic>"};
constexpr bool is_pair(int k) { return k >= Prr; }
constexpr bool const_first(int k) { return k == Pcr || k == Pcc || k == Tcr || k == Tcc; }
constexpr bool const_last(int k) { return k == Prc || k == Pcc || k == Trc || k == Tcc; }
constexpr bool drops(int k) { return k == I_ || k == C_; }

template <LL V>
using ic = etl::integral_constant<Idx, static_cast<Idx>(V)>;

// the slice object of kind K with compile-time bounds A (first / index) and B (last) and run-time values a, b
template <int K, LL A, LL B>
auto make_slice(LL a, LL b)
{
    if constexpr (K == I_) {
        return static_cast<Idx>(a);
    } else if constexpr (K == C_) {
        return ic<A>{};
    } else if constexpr (K == F_) {
        return etl::full_extent;
    } else if constexpr (K == Prr) {
        return etl::pair<Idx, Idx>{static_cast<Idx>(a), static_cast<Idx>(b)};
    } else if constexpr (K == Pcr) {
        return etl::pair<ic<A>, Idx>{ic<A>{}, static_cast<Idx>(b)};
    } else if constexpr (K == Prc) {
        return etl::pair<Idx, ic<B>>{static_cast<Idx>(a), ic<B>{}};
    } else if constexpr (K == Pcc) {
        return etl::pair<ic<A>, ic<B>>{};
    } else if constexpr (K == Trr) {
        return etl::tuple<Idx, Idx>{static_cast<Idx>(a), static_cast<Idx>(b)};
    } else if constexpr (K == Tcr) {
        return etl::tuple<ic<A>, Idx>{ic<A>{}, static_cast<Idx>(b)};
    } else if constexpr (K == Trc) {
        return etl::tuple<Idx, ic<B>>{static_cast<Idx>(a), ic<B>{}};
    } else {
        return etl::tuple<ic<A>, ic<B>>{};
    }
}

// ---------------------------------------------------------------- sources
// static extents are 4 or 5; the compile-time bounds rotate with the source so that every position sees first = 0, 1, 2
template <std::size_t S>
struct src;
// clang-format off
template <> struct src<0> { using type = etl::extents<Idx, 5>; };
template <> struct src<1> { using type = etl::extents<Idx, dyn>; };
template <> struct src<2> { using type = etl::extents<Idx, 4, 5>; };
template <> struct src<3> { using type = etl::extents<Idx, dyn, dyn>; };
template <> struct src<4> { using type = etl::extents<Idx, 4, dyn>; };
template <> struct src<5> { using type = etl::extents<Idx, dyn, 5>; };
template <> struct src<6> { using type = etl::extents<Idx, 4, 5, 4>; };
template <> struct src<7> { using type = etl::extents<Idx, dyn, 5, dyn>; };
template <> struct src<8> { using type = etl::extents<Idx, 4, dyn, dyn>; };
// clang-format on
constexpr LL cfirst(std::size_t s, std::size_t pos) { return (LL)((pos + s) % 3); }       // 0, 1, 2
constexpr LL clast(std::size_t s, std::size_t pos) { return 3 + (LL)((pos + s / 3) % 2); } // 3, 4  (<= every source extent)

struct Ctx {
    std::string subj;
    std::uint64_t h;
};
struct Expect {
    std::size_t rank{};
    LL ext[MAXR]{};
    std::size_t st[MAXR]{};      // expected static extent
    bool either[MAXR]{};         // dynamic is tolerated where the standard says static (see VF_SUB_STRICT)
    int kind[MAXR]{};            // slice kind that produced result dimension r
    std::size_t srcpos[MAXR]{};  // source position
    bool srcstatic[MAXR]{};
};
struct Got {
    std::size_t rank{};
    LL ext[MAXR]{};
    std::size_t st[MAXR]{};
};

NOINL void judge(Ctx const& c, std::size_t R, Got const& g, Expect const& x, std::string const& args, std::uint64_t salt)
{
    if (g.rank != x.rank) {
        vf::crumb(c.subj.c_str(), "submdspan_extents:rank", ("rank" + std::to_string(R)).c_str(), "%s", args.c_str());
        vf::eq_int("rank", (LL)g.rank, (LL)x.rank);
        return;
    }
    if (x.rank == 0) { vf::cover("submdspan_extents:all-dimensions-dropped", vf::mix(c.h, salt), true); }
    for (std::size_t r = 0; r < x.rank; ++r) {
        std::string const op  = std::string("submdspan_extents:") + KNAME[x.kind[r]];
        std::string const sit = "rank" + std::to_string(R) + ",pos" + std::to_string(x.srcpos[r]) + (x.srcstatic[r] ? ",source-static" : ",source-dynamic");
        vf::crumb(c.subj.c_str(), op.c_str(), sit.c_str(), "%s", args.c_str());
        vf::cover(op.c_str(), vf::mix(c.h, salt * 4 + r), true);
        vf::eq_int("extent", g.ext[r], x.ext[r]);
        if (g.st[r] != x.st[r]) {
            if (x.either[r] && g.st[r] == dyn) { continue; } // conservative: dynamic where the standard derives a static extent
            char const* sym = x.st[r] == dyn ? "static_extent:static-for-dynamic" : (g.st[r] == dyn ? "static_extent:dynamic-for-static" : "static_extent:wrong-static-value");
            vf::diverge(sym, g.st[r] == dyn ? std::string("dynamic_extent") : std::to_string(g.st[r]), x.st[r] == dyn ? std::string("dynamic_extent") : std::to_string(x.st[r]));
        }
    }
}

// run-time candidates for a bound on a source extent e: {0,1,2,e-1,e}
std::vector<LL> cand(LL e)
{
    std::vector<LL> v;
    for (LL x : {(LL)0, (LL)1, (LL)2, e - 1, e}) {
        bool dup = false;
        for (LL y : v) { dup = dup || y == x; }
        if (x >= 0 && x <= e && !dup) { v.push_back(x); }
    }
    return v;
}

// ---------------------------------------------------------------- one (source, kinds...) combination
// the only type-dependent part: build the source extents and the slices, call submdspan_extents, read the result type
struct Desc {
    std::size_t source;
    std::size_t R;
    int kinds[MAXR];
    std::size_t st[MAXR]; // static extents of the source
};
using call_t = void (*)(std::array<LL, MAXR> const& shape, LL const* a, LL const* b, Got& g);

template <std::size_t S, int... Ks>
struct Combo {
    using E                        = typename src<S>::type;
    static constexpr std::size_t R = E::rank();
    static_assert(sizeof...(Ks) == R);
    static constexpr int kinds[R] = {Ks...};

    template <std::size_t... Ps>
    static void call_impl(std::array<LL, MAXR> const& shape, LL const* a, LL const* b, Got& g, std::index_sequence<Ps...>)
    {
        std::array<LL, MAXR> d{};
        std::size_t n = 0;
        for (std::size_t r = 0; r < R; ++r) {
            if (E::static_extent(r) == dyn) { d[n++] = shape[r]; }
        }
        E const e      = [&]<std::size_t... Is>(std::index_sequence<Is...>) { return E(static_cast<Idx>(d[Is])...); }(std::make_index_sequence<E::rank_dynamic()>{});
        auto const sub = etl::submdspan_extents(e, make_slice<kinds[Ps], cfirst(S, Ps), clast(S, Ps)>(a[Ps], b[Ps])...);
        using Sub      = std::remove_cv_t<decltype(sub)>;
        g.rank         = Sub::rank();
        for (std::size_t r = 0; r < Sub::rank() && r < MAXR; ++r) {
            g.ext[r] = (LL)sub.extent(r);
            g.st[r]  = Sub::static_extent(r);
        }
    }
    static void call(std::array<LL, MAXR> const& shape, LL const* a, LL const* b, Got& g) { call_impl(shape, a, b, g, std::make_index_sequence<R>{}); }
    static Desc desc()
    {
        Desc d{};
        d.source = S;
        d.R      = R;
        for (std::size_t r = 0; r < R; ++r) {
            d.kinds[r] = kinds[r];
            d.st[r]    = E::static_extent(r);
        }
        return d;
    }
};

// everything else is shared code: enumerate the run-time bounds, build the model, judge
NOINL void drive(Ctx& c, Desc const& d, call_t call, std::array<LL, MAXR> const& shape)
{
    std::size_t const R = d.R;
    std::size_t const S = d.source;
    std::vector<LL> va[MAXR], vb[MAXR];
    for (std::size_t p = 0; p < R; ++p) {
        LL const ext = shape[p];
        int const k  = d.kinds[p];
        LL const A   = cfirst(S, p), B = clast(S, p);
        if (k == F_) {
            va[p] = {0};
            vb[p] = {ext};
        } else if (k == C_) {
            va[p] = {A};
            vb[p] = {A + 1};
        } else if (k == I_) {
            for (LL x : cand(ext)) {
                if (x < ext) { va[p].push_back(x); }
            }
            vb[p] = {0};
        } else {
            va[p] = const_first(k) ? std::vector<LL>{A} : cand(ext);
            vb[p] = const_last(k) ? std::vector<LL>{B} : cand(ext);
        }
    }
    std::size_t ia[MAXR] = {0, 0, 0}, ib[MAXR] = {0, 0, 0};
    std::uint64_t n = 0;
    for (;;) {
        LL a[MAXR] = {0, 0, 0}, b[MAXR] = {0, 0, 0};
        bool ok = true;
        for (std::size_t p = 0; p < R; ++p) {
            a[p] = va[p][ia[p]];
            b[p] = d.kinds[p] == I_ ? a[p] + 1 : vb[p][ib[p]];
            ok   = ok && a[p] <= b[p] && b[p] <= shape[p];
        }
        if (ok) {
            Expect x;
            std::string args = "E=<";
            for (std::size_t p = 0; p < R; ++p) { args += (d.st[p] == dyn ? std::string("d") : std::to_string(d.st[p])) + (p + 1 < R ? "," : ""); }
            args += "> shape=(";
            for (std::size_t p = 0; p < R; ++p) { args += std::to_string(shape[p]) + (p + 1 < R ? "," : ""); }
            args += ") slices=";
            for (std::size_t p = 0; p < R; ++p) {
                int const k = d.kinds[p];
                args += std::string(KNAME[k]) + (drops(k) ? "[" + std::to_string(a[p]) + "]" : (k == F_ ? std::string("") : "[" + std::to_string(a[p]) + "," + std::to_string(b[p]) + ")")) + " ";
                if (drops(k)) { continue; }
                std::size_t const r = x.rank++;
                x.kind[r]      = k;
                x.srcpos[r]    = p;
                x.srcstatic[r] = d.st[p] != dyn;
                x.ext[r]       = b[p] - a[p];
                if (k == F_) {
                    x.st[r] = d.st[p];
                } else if (const_first(k) && const_last(k)) {
                    x.st[r]     = (std::size_t)(b[p] - a[p]);
                    x.either[r] = !VF_SUB_STRICT && d.st[p] == dyn;
                } else {
                    x.st[r] = dyn;
                }
            }
            vf::crumb(c.subj.c_str(), "submdspan_extents", ("rank" + std::to_string(R)).c_str(), "%s", args.c_str());
            Got g;
            call(shape, a, b, g);
            judge(c, R, g, x, args, ++n);
        }
        std::size_t p = R;
        bool carry    = true;
        while (carry && p-- > 0) {
            if (++ib[p] < vb[p].size()) {
                carry = false;
            } else {
                ib[p] = 0;
                if (++ia[p] < va[p].size()) {
                    carry = false;
                } else {
                    ia[p] = 0;
                }
            }
        }
        if (carry) { break; }
    }
}

// ---------------------------------------------------------------- combination tables
struct Entry {
    call_t fn;
    Desc d;
};

// rank 1: all kinds; rank 2: all kinds x all kinds; rank 3: a 6-kind subset cubed
constexpr int K3[6] = {I_, F_, Prr, Pcr, Prc, Tcc};

template <std::size_t S, std::size_t... Js>
void add_rank1(std::vector<Entry>& v, std::index_sequence<Js...>)
{
    (v.push_back(Entry{&Combo<S, (int)Js>::call, Combo<S, (int)Js>::desc()}), ...);
}
template <std::size_t S, std::size_t... Js>
void add_rank2(std::vector<Entry>& v, std::index_sequence<Js...>)
{
    (v.push_back(Entry{&Combo<S, (int)(Js / NKIND), (int)(Js % NKIND)>::call, Combo<S, (int)(Js / NKIND), (int)(Js % NKIND)>::desc()}), ...);
}
template <std::size_t S, std::size_t... Js>
void add_rank3(std::vector<Entry>& v, std::index_sequence<Js...>)
{
    (v.push_back(Entry{&Combo<S, K3[Js / 36], K3[(Js / 6) % 6], K3[Js % 6]>::call, Combo<S, K3[Js / 36], K3[(Js / 6) % 6], K3[Js % 6]>::desc()}), ...);
}
std::vector<Entry> const& table()
{
    static std::vector<Entry> const t = [] {
        std::vector<Entry> v;
#if VF_SUBPART == 1
        add_rank1<0>(v, std::make_index_sequence<NKIND>{});
        add_rank1<1>(v, std::make_index_sequence<NKIND>{});
        add_rank2<2>(v, std::make_index_sequence<NKIND * NKIND>{});
        add_rank2<3>(v, std::make_index_sequence<NKIND * NKIND>{});
        add_rank2<4>(v, std::make_index_sequence<NKIND * NKIND>{});
        add_rank2<5>(v, std::make_index_sequence<NKIND * NKIND>{});
#else
        add_rank3<6>(v, std::make_index_sequence<216>{});
        add_rank3<7>(v, std::make_index_sequence<216>{});
        add_rank3<8>(v, std::make_index_sequence<216>{});
#endif
        return v;
    }();
    return t;
}
// detection through ADL in a dependent context (naming a non-existent etl::submdspan directly would not compile)
template <typename M>
constexpr bool has_submdspan_v = requires(M m) { submdspan(m, etl::full_extent); };
template <typename M>
constexpr bool has_submdspan_mapping_v = requires(M m) { submdspan_mapping(m, etl::full_extent); };

vf::Spec spec(vf::Tier)
{
    vf::Spec s;
    s.n_enum     = table().size() * 2; // x two values of the dynamic extents
    s.n_random   = 0;
    s.batch      = 32;
    s.exhaustive = true;
    return s;
}

void run_case(vf::Case& c)
{
    Entry const& en = table()[(std::size_t)(c.index / 2)];
    std::array<LL, MAXR> shape{};
    for (std::size_t r = 0; r < en.d.R; ++r) { shape[r] = en.d.st[r] == dyn ? (c.index % 2 ? 5 : 4) : (LL)en.d.st[r]; }
    Ctx x;
    x.subj = std::string("submdspan_extents<") + IDXN + ">";
    x.h    = vf::mix(c.index + 1, 4242);
    if (vf::want_sample("slices")) {
        vf::sample("slices", "submdspan_extents<%s>: one (source pattern, slice kind per position) combination x all run-time bounds from {0,1,2,e-1,e}: rank, extent(r), static_extent(r) of the result type", IDXN);
    }
    if (vf::want_sample("absent")) {
        constexpr bool has_submdspan = has_submdspan_v<etl::mdspan<int, etl::dextents<Idx, 1>>>;
        constexpr bool has_mapping   = has_submdspan_mapping_v<etl::layout_left::mapping<etl::dextents<Idx, 1>>>;
        vf::sample("absent", "submdspan provided: %s, submdspan_mapping provided: %s (not provided = not exercised, not counted as passed); strided_slice slices are static_assert(false) upstream",
            has_submdspan ? "yes" : "no", has_mapping ? "yes" : "no");
    }
    drive(x, en.d, en.fn, shape);
}
} // namespace

#define VF_STR2(x) #x
#define VF_STR(x) VF_STR2(x)
VF_MAIN("C19", "C19_sub_" VF_IDX_NAME "_part" VF_STR(VF_SUBPART), spec, run_case)
