// C04 - basic_inplace_string vs std::basic_string, null termination after every step (DESIGN 4, C04)
// Build: -DVF_CHAR=char -DVF_CHAR_NAME="char" -DVF_CAPS=0,1,3,4  (list of capacities in this unit)
#include "vf.hpp"
#include "vf_contract.hpp"

#include <etl/string.hpp>
#include <etl/string_view.hpp>

#include <string>
#include <new>
#include <string_view>
#include <type_traits>

#ifndef VF_CHAR
    #define VF_CHAR char
    #define VF_CHAR_NAME "char"
#endif
#ifndef VF_CAPS
    #define VF_CAPS 0, 1, 3, 4
#endif

namespace {
// every modifier that returns basic_inplace_string& must hand back *this itself: an lvalue, and the very object it was called on
template <typename R, typename X>
void ret_self(X&& r, void const* self)
{
    if constexpr (!std::is_lvalue_reference_v<R>) {
        (void)r;
        (void)self;
        vf::diverge("returns:not-a-reference", "a prvalue (copy of the string)", "lvalue reference to *this");
    } else if (static_cast<void const*>(&r) != self) {
        vf::diverge("returns:another-object", "reference to another object", "reference to *this");
    }
}
#define RS(...) ret_self<decltype((__VA_ARGS__))>((__VA_ARGS__), static_cast<void const*>(&e))

// a genuinely single-pass source (like istream_iterator): every copy shares ONE read position, so a range can be walked exactly once
template <typename C>
struct SharedSrc {
    C const* data;
    std::size_t n;
    std::size_t pos;
};
template <typename C>
struct SinglePass {
    using iterator_category = etl::input_iterator_tag;
    using value_type        = C;
    using difference_type   = std::ptrdiff_t;
    using pointer           = C const*;
    using reference         = C;
    SharedSrc<C>* s         = nullptr; // nullptr: the end iterator
    bool at_end() const { return s == nullptr || s->pos >= s->n; }
    C operator*() const { return at_end() ? C('#') : s->data[s->pos]; }
    SinglePass& operator++()
    {
        if (!at_end()) { ++s->pos; }
        return *this;
    }
    struct Post {
        C v;
        C operator*() const { return v; }
    };
    Post operator++(int)
    {
        Post p{**this};
        ++*this;
        return p;
    }
    friend bool operator==(SinglePass const& a, SinglePass const& b) { return a.at_end() == b.at_end(); }
    friend bool operator!=(SinglePass const& a, SinglePass const& b) { return a.at_end() != b.at_end(); }
};
using Ch  = VF_CHAR;
using Str = std::basic_string<Ch>;
using SV  = std::basic_string_view<Ch>;
using EV  = etl::basic_string_view<Ch>;
constexpr auto NPOS = static_cast<std::size_t>(-1);
#if defined(TETL_ENABLE_CONTRACT_CHECKS) || defined(TETL_ENABLE_CONTRACT_CHECKS_SAFE)
constexpr bool kChecksOff = false;
#else
constexpr bool kChecksOff = true; // contract checks compiled out: the appends built on push_back clamp instead of firing its precondition
#endif
constexpr std::size_t kCaps[] = {VF_CAPS};
constexpr std::size_t kNCaps  = sizeof(kCaps) / sizeof(kCaps[0]);

Ch alpha(unsigned i)
{
    switch (i) {
    case 0: return Ch('a');
    case 1: return sizeof(Ch) == 1 ? static_cast<Ch>(0xE9) : static_cast<Ch>(~Ch(0x16)); // top bit set: sign of compare for every character type
    case 2: return Ch('b');
    case 3: return Ch(0);
    default: return sizeof(Ch) == 1 ? Ch('x') : static_cast<Ch>(Ch('a') + 0x100);
    }
}
std::string show(SV s)
{
    std::string o = "'";
    for (Ch c : s) {
        if (c == Ch('a') || c == Ch('b') || c == Ch('x')) {
            o += (char)c;
        } else if (c == Ch(0)) {
            o += "\\0";
        } else {
            char b[16];
            std::snprintf(b, sizeof b, "\\x%X", (unsigned)static_cast<std::make_unsigned_t<Ch>>(c));
            o += b;
        }
    }
    return o + "'";
}
long long P(std::size_t v) { return v == NPOS ? -1 : (long long)v; }

// an argument string in exact-size caller memory, null-terminated (terminator is the last element)
struct Arg {
    Str s;
    vf::Buf<Ch> z;
    explicit Arg(Str const& v) : s(v), z(v.size() + 1)
    {
        for (std::size_t i = 0; i < v.size(); ++i) { z[i] = v[i]; }
        z[v.size()] = Ch(0);
    }
    Ch const* ptr() const { return z.data(); }
    std::size_t len() const { return s.size(); }
    std::size_t zlen() const { return std::char_traits<Ch>::length(z.data()); } // what a (ptr) overload sees
    Str zstr() const { return Str(z.data(), zlen()); }
};

// pool of argument strings for the enumerated part
Str pool_string(unsigned i)
{
    switch (i) {
    case 0: return Str();
    case 1: return Str(1, alpha(0));
    case 2: return Str(1, alpha(1));
    case 3: return Str{alpha(0), alpha(1)};
    case 4: return Str{alpha(1), alpha(0)};
    case 5: return Str{alpha(0), alpha(0), alpha(0)};
    case 6: return Str{alpha(0), Ch(0), alpha(1)};
    default: return Str{alpha(1), alpha(1), alpha(0), alpha(0)};
    }
}
constexpr unsigned kPool = 8;

template <std::size_t N>
struct Env {
    using E  = etl::basic_inplace_string<Ch, N>;
    static constexpr std::size_t N2 = (N >= 16 ? 12 : N + 16); // a second capacity on the other side of the 15/16 boundary
    using E2 = etl::basic_inplace_string<Ch, N2>;

    vf::Chooser& ch;
    Str m;              // model
    vf::Buf<E> ebuf{1}; // the subject lives alone in an exact-size heap block: an overrun of the object itself is an ASan report
    E& e;               // subject
    char subj[64];
    char stcls[32];
    bool diverged = false;

    Env(vf::Chooser& c, Str const& start) : ch(c), m(start), e(*::new (static_cast<void*>(ebuf.data())) E(mk(start)))
    {
        std::snprintf(subj, sizeof subj, "inplace_string<%s,%zu>", VF_CHAR_NAME, N);
        restate();
    }
    static E mk(Str const& s)
    {
        vf::Buf<Ch> b(s.size());
        for (std::size_t i = 0; i < s.size(); ++i) { b[i] = s[i]; }
        return E(b.data(), s.size());
    }
    static E2 mk2(Str const& s)
    {
        vf::Buf<Ch> b(s.size());
        for (std::size_t i = 0; i < s.size(); ++i) { b[i] = s[i]; }
        return E2(b.data(), s.size());
    }
    void restate() { std::snprintf(stcls, sizeof stcls, "%s", m.empty() ? (N == 0 ? "empty-full" : "empty") : (m.size() == N ? "full" : "partial")); }

    // --- argument drawing -------------------------------------------------
    Str draw_string(std::size_t maxlen_hint)
    {
        if (!ch.random()) { return pool_string(ch.pick(kPool)); }
        std::size_t len = ch.rng->below(3) == 0 ? (std::size_t)ch.rng->below(maxlen_hint + 3) : (std::size_t)ch.rng->below(5);
        unsigned A      = 2 + (unsigned)ch.rng->below(4);
        Str s;
        for (std::size_t i = 0; i < len; ++i) { s += alpha((unsigned)ch.rng->below(A)); }
        return s;
    }
    Ch draw_char() { return alpha(ch.pick(3)); }
    // a position in [0, limit] (inclusive)
    std::size_t draw_pos(std::size_t limit) { return ch.pick((unsigned)limit + 1); }
    // a count: 0,1,2,.. up to `interesting`+1 and npos
    std::size_t draw_count(std::size_t interesting)
    {
        // 0 .. interesting+1, npos, and large-but-not-npos values (a count narrowed to 8/16 bits would wrap to something small)
        unsigned k = ch.pick((unsigned)interesting + 6);
        if (k == interesting + 2) { return NPOS; }
        if (k == interesting + 3) { return 256 + (interesting ? 1 : 0); }
        if (k == interesting + 4) { return 65536 + 1; }
        if (k == interesting + 5) { return NPOS / 2 + 2; }
        return k;
    }
    static char const* poscls(std::size_t pos, std::size_t size)
    {
        if (pos == NPOS) { return "pos=npos"; }
        if (pos < size) { return "pos<size"; }
        if (pos == size) { return "pos=size"; }
        return "pos>size";
    }

    // --- state comparison -------------------------------------------------
    Str contents() const { return Str(e.data(), e.size() <= N ? e.size() : N); }
    // the two invariants alone, for a result object of a clamping operation
    static void check_inv(E const& x)
    {
        if (x.size() > x.capacity()) {
            vf::diverge("result-invariant:size>capacity", vf::to_su(x.size()), vf::to_su(N));
        } else if (x.data()[x.size()] != Ch(0)) {
            vf::diverge("result-invariant:no-terminator-at-size", "data()[size()] != 0", "null character");
        }
    }
    void check_state(bool compare_contents = true)
    {
        bool ok = true;
        if (e.size() > e.capacity()) {
            vf::diverge("invariant:size>capacity", vf::to_su(e.size()), vf::to_su(N));
            ok = false;
        } else if (e.data()[e.size()] != Ch(0)) {
            vf::diverge("invariant:no-terminator-at-size", "data()[size()] != 0", "null character");
            ok = false;
        }
        ok &= vf::eq_int("capacity", e.capacity(), N);
        ok &= vf::eq_int("max_size", e.max_size(), N);
        if (compare_contents) {
            ok &= vf::eq_int("size", e.size(), m.size());
            if (ok) { ok &= vf::eq_str("contents", show(contents()), show(m)); }
            if (ok) {
                ok &= vf::eq_bool("empty", e.empty(), m.empty());
                ok &= vf::eq_bool("full", e.full(), m.size() == N);
                ok &= vf::eq_int("length", e.length(), m.size());
            }
            if (ok) {
                ok &= vf::eq_int("end-begin", e.end() - e.begin(), (long long)m.size());
                ok &= vf::eq_bool("c_str==data", e.c_str() == e.data(), true);
                if (!m.empty()) {
                    ok &= vf::eq_int("front", (long long)e.front(), (long long)m.front());
                    ok &= vf::eq_int("back", (long long)e.back(), (long long)m.back());
                    ok &= vf::eq_int("operator[]", (long long)e[m.size() / 2], (long long)m[m.size() / 2]);
                    Str r;
                    for (auto it = e.rbegin(); it != e.rend(); ++it) { r += *it; }
                    ok &= vf::eq_str("reverse-iteration", show(r), show(Str(m.rbegin(), m.rend())));
                }
            }
        }
        if (!ok || !compare_contents) {
            diverged = !ok;
            if (m.size() > N) { m.resize(N); }
            e = mk(m); // resynchronise
        }
        restate();
    }
    std::uint64_t state_hash() const { return vf::mix(vf::fnv_bytes(m.data(), m.size() * sizeof(Ch)), N * 1315423911u + sizeof(Ch)); }

    char sitbuf[96];
    char const* sit(char const* a) { std::snprintf(sitbuf, sizeof sitbuf, "%s,%s", stcls, a); return sitbuf; }
    char const* sit(char const* a, char const* b) { std::snprintf(sitbuf, sizeof sitbuf, "%s,%s,%s", stcls, a, b); return sitbuf; }

#define CRUMB(OP, SIT, ...) vf::crumb(subj, OP, SIT, __VA_ARGS__)
#define COVER(OP, H) vf::cover(OP, vf::mix(state_hash(), (H)), true)

    // ======================================================================
    // mutators.  Each returns after at most one library mutation + check_state.
    // `fits` = model result fits the capacity (otherwise the call is out of the property's domain,
    // except for the documented clamping appends where only the invariants are checked).
    // ======================================================================
    void op_assign_family()
    {
        unsigned which = ch.pick(14);
        Str t          = draw_string(N);
        Arg a(t);
        std::uint64_t h = vf::mix(which, vf::fnv_bytes(t.data(), t.size() * sizeof(Ch)));
        char const* fit = "fits";
        switch (which) {
        case 0: { // operator=(ptr)
            if (a.zlen() > N) { return; }
            Str r = a.zstr();
            CRUMB("operator=(ptr)", sit(fit), "m=%s s=%s", show(m).c_str(), show(t).c_str());
            RS(e = a.ptr());
            m = r;
            COVER("operator=(ptr)", h);
            break;
        }
        case 1: { // operator=(ch)
            if (N < 1) { return; }
            Ch c = draw_char();
            CRUMB("operator=(ch)", sit(fit), "m=%s ch=%u", show(m).c_str(), (unsigned)c);
            RS(e = c);
            m = Str(1, c);
            COVER("operator=(ch)", vf::mix(h, (unsigned)c));
            break;
        }
        case 2: { // operator=(view)
            if (t.size() > N) { return; }
            CRUMB("operator=(view)", sit(fit), "m=%s s=%s", show(m).c_str(), show(t).c_str());
            RS(e = EV(a.ptr(), a.len()));
            m = t;
            COVER("operator=(view)", h);
            break;
        }
        case 3: { // operator=(copy) / independence
            if (t.size() > N) { return; }
            E src = mk(t);
            CRUMB("operator=(string const&)", sit(fit), "m=%s s=%s", show(m).c_str(), show(t).c_str());
            RS(e = src);
            m = t;
            // copy is independent of its source
            if (!t.empty()) {
                Ch const before = e[0];
                src[0]          = before == Ch('q') ? Ch('r') : Ch('q');
                if (e[0] != before) { vf::diverge("copy-aliases-source", "changed", "unchanged"); }
            }
            COVER("operator=(string const&)", h);
            break;
        }
        case 4: { // operator=(move)
            if (t.size() > N) { return; }
            E src = mk(t);
            CRUMB("operator=(string&&)", sit(fit), "m=%s s=%s", show(m).c_str(), show(t).c_str());
            RS(e = static_cast<E&&>(src));
            m = t;
            COVER("operator=(string&&)", h);
            break;
        }
        case 5: { // assign(count, ch)
            std::size_t cnt = draw_pos(N);
            Ch c            = draw_char();
            CRUMB("assign(count,ch)", sit(cnt == N ? "count=cap" : "count<cap"), "m=%s count=%zu ch=%u", show(m).c_str(), cnt, (unsigned)c);
            RS(e.assign(cnt, c));
            m.assign(cnt, c);
            COVER("assign(count,ch)", vf::mix(cnt, (unsigned)c));
            break;
        }
        case 6: { // assign(str)
            if (t.size() > N) { return; }
            E src = mk(t);
            CRUMB("assign(string)", sit(fit), "m=%s s=%s", show(m).c_str(), show(t).c_str());
            RS(e.assign(src));
            m.assign(t);
            COVER("assign(string)", h);
            break;
        }
        case 7: { // assign(str,pos,count) ; pos <= str.size()
            if (t.size() > N) { return; }
            E src            = mk(t);
            std::size_t pos  = draw_pos(t.size());
            std::size_t cnt  = draw_count(t.size());
            bool use_default = cnt == NPOS && ch.flag();
            CRUMB("assign(string,pos,count)", sit(poscls(pos, t.size()), use_default ? "count-defaulted" : (cnt == NPOS ? "count=npos" : "count")),
                "m=%s s=%s pos=%zu count=%lld", show(m).c_str(), show(t).c_str(), pos, P(cnt));
            if (use_default) {
                RS(e.assign(src, pos));
                m.assign(t, pos);
            } else {
                RS(e.assign(src, pos, cnt));
                m.assign(t, pos, cnt);
            }
            COVER("assign(string,pos,count)", vf::mix(h, vf::mix(pos, cnt + use_default)));
            break;
        }
        case 8: { // assign(ptr,count)
            std::size_t cnt = draw_pos(t.size());
            if (cnt > N) { return; }
            CRUMB("assign(ptr,count)", sit(cnt == N ? "count=cap" : "count<cap"), "m=%s s=%s count=%zu", show(m).c_str(), show(t).c_str(), cnt);
            RS(e.assign(a.ptr(), cnt));
            m.assign(a.ptr(), cnt);
            COVER("assign(ptr,count)", vf::mix(h, cnt));
            break;
        }
        case 9: { // assign(ptr)
            if (a.zlen() > N) { return; }
            CRUMB("assign(ptr)", sit(fit), "m=%s s=%s", show(m).c_str(), show(t).c_str());
            RS(e.assign(a.ptr()));
            m.assign(a.ptr());
            COVER("assign(ptr)", h);
            break;
        }
        case 10: { // assign(first,last)
            if (t.size() > N) { return; }
            CRUMB("assign(first,last)", sit(fit), "m=%s s=%s", show(m).c_str(), show(t).c_str());
            RS(e.assign(a.ptr(), a.ptr() + a.len()));
            m.assign(a.ptr(), a.ptr() + a.len());
            COVER("assign(first,last)", h);
            break;
        }
        case 11: { // assign(view)
            if (t.size() > N) { return; }
            CRUMB("assign(view)", sit(fit), "m=%s s=%s", show(m).c_str(), show(t).c_str());
            RS(e.assign(EV(a.ptr(), a.len())));
            m.assign(SV(a.ptr(), a.len()));
            COVER("assign(view)", h);
            break;
        }
        case 12: { // assign(view,pos,count)
            std::size_t pos = draw_pos(t.size());
            std::size_t cnt = draw_count(t.size());
            Str r           = t.substr(pos, cnt);
            if (r.size() > N) { return; }
            bool use_default = cnt == NPOS && ch.flag();
            CRUMB("assign(view,pos,count)", sit(poscls(pos, t.size()), use_default ? "count-defaulted" : (cnt == NPOS ? "count=npos" : "count")),
                "m=%s s=%s pos=%zu count=%lld", show(m).c_str(), show(t).c_str(), pos, P(cnt));
            if (use_default) {
                RS(e.assign(EV(a.ptr(), a.len()), pos));
            } else {
                RS(e.assign(EV(a.ptr(), a.len()), pos, cnt));
            }
            m = r;
            COVER("assign(view,pos,count)", vf::mix(h, vf::mix(pos, cnt + use_default)));
            break;
        }
        default: { // clear
            CRUMB("clear()", sit("-"), "m=%s", show(m).c_str());
            e.clear();
            m.clear();
            COVER("clear()", 0);
            break;
        }
        }
        check_state();
        a.z.check("argument string");
    }

    void op_construct_family()
    {
        unsigned which = ch.pick(10);
        Str t          = draw_string(N);
        Arg a(t);
        std::uint64_t h = vf::mix(which + 100, vf::fnv_bytes(t.data(), t.size() * sizeof(Ch)));
        char const* op  = "";
        Str r;
        E x;
        switch (which) {
        case 0: {
            op = "ctor()";
            CRUMB(op, "-", "-");
            E y;
            x = y;
            r = Str();
            break;
        }
        case 1: {
            if (t.size() > N) { return; }
            op = "ctor(ptr,len)";
            CRUMB(op, t.size() == N ? "len=cap" : "len<cap", "s=%s", show(t).c_str());
            E y(a.ptr(), a.len());
            x = y;
            r = t;
            break;
        }
        case 2: {
            if (a.zlen() > N) { return; }
            op = "ctor(ptr)";
            CRUMB(op, a.zlen() == N ? "len=cap" : "len<cap", "s=%s", show(t).c_str());
            E y(a.ptr());
            x = y;
            r = a.zstr();
            break;
        }
        case 3: {
            std::size_t cnt = draw_pos(N);
            Ch c            = draw_char();
            op              = "ctor(count,ch)";
            CRUMB(op, cnt == N ? "count=cap" : "count<cap", "count=%zu ch=%u", cnt, (unsigned)c);
            E y(cnt, c);
            x = y;
            r = Str(cnt, c);
            h = vf::mix(h, vf::mix(cnt, (unsigned)c));
            break;
        }
        case 4: {
            if (t.size() > N) { return; }
            op = "ctor(first,last)";
            CRUMB(op, t.size() == N ? "len=cap" : "len<cap", "s=%s", show(t).c_str());
            E y(a.ptr(), a.ptr() + a.len());
            x = y;
            r = t;
            break;
        }
        case 5: {
            if (t.size() > N) { return; }
            std::size_t pos = draw_pos(t.size());
            std::size_t cnt = draw_count(t.size());
            op              = "ctor(string,pos,count)";
            E src           = mk(t);
            CRUMB(op, poscls(pos, t.size()), "s=%s pos=%zu count=%lld", show(t).c_str(), pos, P(cnt));
            E y(src, pos, cnt);
            x = y;
            r = Str(t, pos, cnt);
            h = vf::mix(h, vf::mix(pos, cnt));
            break;
        }
        case 6: {
            if (t.size() > N) { return; }
            std::size_t pos = draw_pos(t.size());
            op              = "ctor(string,pos)";
            E src           = mk(t);
            CRUMB(op, poscls(pos, t.size()), "s=%s pos=%zu", show(t).c_str(), pos);
            E y(src, pos);
            x = y;
            r = Str(t, pos);
            h = vf::mix(h, pos);
            break;
        }
        case 7: {
            if (t.size() > N) { return; }
            op = "ctor(view)";
            CRUMB(op, t.size() == N ? "len=cap" : "len<cap", "s=%s", show(t).c_str());
            E y(EV(a.ptr(), a.len()));
            x = y;
            r = t;
            break;
        }
        case 8: {
            std::size_t pos = draw_pos(t.size());
            std::size_t cnt = draw_count(t.size());
            r               = t.substr(pos, cnt);
            if (r.size() > N) { return; }
            op = "ctor(view,pos,n)";
            CRUMB(op, poscls(pos, t.size()), "s=%s pos=%zu n=%lld", show(t).c_str(), pos, P(cnt));
            E y(EV(a.ptr(), a.len()), pos, cnt);
            x = y;
            h = vf::mix(h, vf::mix(pos, cnt));
            break;
        }
        default: {
            if (t.size() > N) { return; }
            op    = "ctor(copy/move)";
            E src = mk(t);
            CRUMB(op, t.size() == N ? "len=cap" : "len<cap", "s=%s", show(t).c_str());
            E y(src);
            E z(static_cast<E&&>(y));
            x = z;
            r = t;
            break;
        }
        }
        // observe the constructed object by installing it as the subject
        RS(e = x);
        m = r;
        vf::cover(op, h, true);
        check_state();
        a.z.check("argument string");
    }

    void op_append_family()
    {
        unsigned which = ch.pick(13);
        Str t          = draw_string(N);
        Arg a(t);
        std::uint64_t h = vf::mix(which + 200, vf::fnv_bytes(t.data(), t.size() * sizeof(Ch)));
        std::size_t room = N - m.size();
        auto fitcls = [&](std::size_t add) { return add < room ? "fits" : (add == room ? "fills" : "clamped"); };
        bool clamped = false;
        switch (which) {
        case 0: { // push_back (pre: size < capacity)
            if (room == 0) { return; }
            Ch c = draw_char();
            CRUMB("push_back(ch)", sit(fitcls(1)), "m=%s ch=%u", show(m).c_str(), (unsigned)c);
            e.push_back(c);
            m.push_back(c);
            COVER("push_back(ch)", (unsigned)c);
            break;
        }
        case 1: { // pop_back
            if (m.empty()) { return; }
            CRUMB("pop_back()", sit("-"), "m=%s", show(m).c_str());
            e.pop_back();
            m.pop_back();
            COVER("pop_back()", 0);
            break;
        }
        case 2: { // append(count,ch) - clamps
            std::size_t cnt = draw_pos(room + 1);
            Ch c            = draw_char();
            clamped         = cnt > room;
            CRUMB("append(count,ch)", sit(fitcls(cnt)), "m=%s count=%zu ch=%u", show(m).c_str(), cnt, (unsigned)c);
            RS(e.append(cnt, c));
            m.append(cnt, c);
            COVER("append(count,ch)", vf::mix(cnt, (unsigned)c));
            break;
        }
        case 3: { // append(ptr)
            clamped = a.zlen() > room;
            CRUMB("append(ptr)", sit(fitcls(a.zlen())), "m=%s s=%s", show(m).c_str(), show(t).c_str());
            RS(e.append(a.ptr()));
            m.append(a.ptr());
            COVER("append(ptr)", h);
            break;
        }
        case 4: { // append(ptr,count)
            std::size_t cnt = draw_pos(t.size());
            clamped         = cnt > room;
            CRUMB("append(ptr,count)", sit(fitcls(cnt)), "m=%s s=%s count=%zu", show(m).c_str(), show(t).c_str(), cnt);
            RS(e.append(a.ptr(), cnt));
            m.append(a.ptr(), cnt);
            COVER("append(ptr,count)", vf::mix(h, cnt));
            break;
        }
        case 5: { // append(first,last) -> push_back per element: with contract checks on its precondition fires when the range does not fit;
                  // with the checks compiled out the call clamps like the other appends (then only the invariants are demanded)
            if (t.size() > room) {
                if (!kChecksOff) { return; }
                clamped = true;
            }
            if (ch.flag()) { // a single-pass input range: may be walked once only
                CRUMB("append(first,last):single-pass-input-iterators", sit(fitcls(t.size())), "m=%s s=%s", show(m).c_str(), show(t).c_str());
                SharedSrc<Ch> src{a.ptr(), a.len(), 0};
                RS(e.append(SinglePass<Ch>{&src}, SinglePass<Ch>{}));
                m.append(a.ptr(), a.ptr() + a.len());
                COVER("append(first,last):single-pass-input-iterators", h);
                break;
            }
            CRUMB("append(first,last)", sit(fitcls(t.size())), "m=%s s=%s", show(m).c_str(), show(t).c_str());
            RS(e.append(a.ptr(), a.ptr() + a.len()));
            m.append(a.ptr(), a.ptr() + a.len());
            COVER("append(first,last)", h);
            break;
        }
        case 6: { // append(string)
            if (t.size() > N) { return; }
            if (t.size() > room) {
                if (!kChecksOff) { return; }
                clamped = true;
            }
            E src = mk(t);
            CRUMB("append(string)", sit(fitcls(t.size())), "m=%s s=%s", show(m).c_str(), show(t).c_str());
            RS(e.append(src));
            m.append(t);
            COVER("append(string)", h);
            break;
        }
        case 7: { // append(string,pos,count)
            if (t.size() > N) { return; }
            std::size_t pos = draw_pos(t.size());
            std::size_t cnt = draw_count(t.size());
            Str sub         = t.substr(pos, cnt);
            if (sub.size() > room) {
                if (!kChecksOff) { return; }
                clamped = true;
            }
            E src            = mk(t);
            bool use_default = cnt == NPOS && ch.flag();
            CRUMB("append(string,pos,count)", sit(fitcls(sub.size()), poscls(pos, t.size())), "m=%s s=%s pos=%zu count=%lld", show(m).c_str(),
                show(t).c_str(), pos, P(cnt));
            if (use_default) {
                RS(e.append(src, pos));
            } else {
                RS(e.append(src, pos, cnt));
            }
            m.append(sub);
            COVER("append(string,pos,count)", vf::mix(h, vf::mix(pos, cnt + use_default)));
            break;
        }
        case 8: { // append(view)
            clamped = t.size() > room;
            CRUMB("append(view)", sit(fitcls(t.size())), "m=%s s=%s", show(m).c_str(), show(t).c_str());
            RS(e.append(EV(a.ptr(), a.len())));
            m.append(t);
            COVER("append(view)", h);
            break;
        }
        case 9: { // append(view,pos,count)
            std::size_t pos = draw_pos(t.size());
            std::size_t cnt = draw_count(t.size());
            Str sub         = t.substr(pos, cnt);
            clamped         = sub.size() > room;
            bool use_default = cnt == NPOS && ch.flag();
            CRUMB("append(view,pos,count)", sit(fitcls(sub.size()), poscls(pos, t.size())), "m=%s s=%s pos=%zu count=%lld", show(m).c_str(),
                show(t).c_str(), pos, P(cnt));
            if (use_default) {
                RS(e.append(EV(a.ptr(), a.len()), pos));
            } else {
                RS(e.append(EV(a.ptr(), a.len()), pos, cnt));
            }
            m.append(sub);
            COVER("append(view,pos,count)", vf::mix(h, vf::mix(pos, cnt + use_default)));
            break;
        }
        case 10: { // operator+=(ch)
            Ch c    = draw_char();
            clamped = room == 0;
            CRUMB("operator+=(ch)", sit(fitcls(1)), "m=%s ch=%u", show(m).c_str(), (unsigned)c);
            RS(e += c);
            m += c;
            COVER("operator+=(ch)", (unsigned)c);
            break;
        }
        case 11: { // operator+=(ptr)
            clamped = a.zlen() > room;
            CRUMB("operator+=(ptr)", sit(fitcls(a.zlen())), "m=%s s=%s", show(m).c_str(), show(t).c_str());
            RS(e += a.ptr());
            m += a.ptr();
            COVER("operator+=(ptr)", h);
            break;
        }
        default: { // operator+=(string) / (view)
            if (t.size() > N) { return; }
            if (t.size() > room) {
                if (!kChecksOff) { return; }
                clamped = true;
            }
            bool view = ch.flag();
            E src     = mk(t);
            CRUMB(view ? "operator+=(view)" : "operator+=(string)", sit(fitcls(t.size())), "m=%s s=%s", show(m).c_str(), show(t).c_str());
            if (view) {
                RS(e += EV(a.ptr(), a.len()));
            } else {
                RS(e += src);
            }
            m += t;
            COVER(view ? "operator+=(view)" : "operator+=(string)", h);
            break;
        }
        }
        // clamped appends: the property only demands the invariants (size<=capacity, terminator)
        check_state(!clamped);
        a.z.check("argument string");
    }

    void op_insert_erase_family()
    {
        unsigned which = ch.pick(13);
        Str t          = draw_string(N);
        Arg a(t);
        std::uint64_t h  = vf::mix(which + 300, vf::fnv_bytes(t.data(), t.size() * sizeof(Ch)));
        std::size_t room = N - m.size();
        std::size_t L    = m.size();
        bool clamped     = false;
        switch (which) {
        case 0: { // insert(index,count,ch) - like the appends it is built on, it clamps to the capacity (then only the invariants are checked)
            std::size_t idx = draw_pos(L);
            std::size_t cnt = draw_pos(room + 2);
            Ch c            = draw_char();
            clamped         = cnt > room;
            CRUMB("insert(index,count,ch)", sit(poscls(idx, L), clamped ? "clamped" : (cnt == room ? "fills" : "fits")), "m=%s index=%zu count=%zu ch=%u",
                show(m).c_str(), idx, cnt, (unsigned)c);
            RS(e.insert(idx, cnt, c));
            m.insert(idx, cnt, c);
            COVER("insert(index,count,ch)", vf::mix(idx, vf::mix(cnt, (unsigned)c)));
            break;
        }
        case 1: { // insert(index,ptr)
            if (a.zlen() > room) { return; }
            std::size_t idx = draw_pos(L);
            CRUMB("insert(index,ptr)", sit(poscls(idx, L), a.zlen() == room ? "fills" : "fits"), "m=%s index=%zu s=%s", show(m).c_str(), idx, show(t).c_str());
            RS(e.insert(idx, a.ptr()));
            m.insert(idx, a.ptr());
            COVER("insert(index,ptr)", vf::mix(h, idx));
            break;
        }
        case 2: { // insert(index,ptr,count) (clamps like append)
            std::size_t cnt = draw_pos(t.size());
            clamped         = cnt > room;
            std::size_t idx = draw_pos(L);
            CRUMB("insert(index,ptr,count)", sit(poscls(idx, L), clamped ? "clamped" : (cnt == room ? "fills" : "fits")), "m=%s index=%zu s=%s count=%zu",
                show(m).c_str(), idx, show(t).c_str(), cnt);
            RS(e.insert(idx, a.ptr(), cnt));
            m.insert(idx, a.ptr(), cnt);
            COVER("insert(index,ptr,count)", vf::mix(h, vf::mix(idx, cnt)));
            break;
        }
        case 3: { // insert(index,string)
            if (t.size() > room || t.size() > N) { return; }
            std::size_t idx = draw_pos(L);
            E src           = mk(t);
            CRUMB("insert(index,string)", sit(poscls(idx, L), t.size() == room ? "fills" : "fits"), "m=%s index=%zu s=%s", show(m).c_str(), idx, show(t).c_str());
            RS(e.insert(idx, src));
            m.insert(idx, t);
            COVER("insert(index,string)", vf::mix(h, idx));
            break;
        }
        case 4: { // insert(index,string,index_str,count)
            if (t.size() > N) { return; }
            std::size_t is  = draw_pos(t.size());
            std::size_t cnt = draw_count(t.size());
            Str sub         = t.substr(is, cnt);
            if (sub.size() > room) { return; }
            std::size_t idx  = draw_pos(L);
            E src            = mk(t);
            bool use_default = cnt == NPOS && ch.flag();
            CRUMB("insert(index,string,index_str,count)", sit(poscls(idx, L), poscls(is, t.size())), "m=%s index=%zu s=%s index_str=%zu count=%lld",
                show(m).c_str(), idx, show(t).c_str(), is, P(cnt));
            if (use_default) {
                RS(e.insert(idx, src, is));
            } else {
                RS(e.insert(idx, src, is, cnt));
            }
            m.insert(idx, sub);
            COVER("insert(index,string,index_str,count)", vf::mix(h, vf::mix(idx, vf::mix(is, cnt + use_default))));
            break;
        }
        case 5: { // insert(index,view)
            if (t.size() > room) { return; }
            std::size_t idx = draw_pos(L);
            CRUMB("insert(index,view)", sit(poscls(idx, L), t.size() == room ? "fills" : "fits"), "m=%s index=%zu s=%s", show(m).c_str(), idx, show(t).c_str());
            RS(e.insert(idx, EV(a.ptr(), a.len())));
            m.insert(idx, t);
            COVER("insert(index,view)", vf::mix(h, idx));
            break;
        }
        case 6: { // insert(index,view,index_str,count)
            std::size_t is  = draw_pos(t.size());
            std::size_t cnt = draw_count(t.size());
            Str sub         = t.substr(is, cnt);
            if (sub.size() > room) { return; }
            std::size_t idx  = draw_pos(L);
            bool use_default = cnt == NPOS && ch.flag();
            CRUMB("insert(index,view,index_str,count)", sit(poscls(idx, L), poscls(is, t.size())), "m=%s index=%zu s=%s index_str=%zu count=%lld",
                show(m).c_str(), idx, show(t).c_str(), is, P(cnt));
            if (use_default) {
                RS(e.insert(idx, EV(a.ptr(), a.len()), is));
            } else {
                RS(e.insert(idx, EV(a.ptr(), a.len()), is, cnt));
            }
            m.insert(idx, sub);
            COVER("insert(index,view,index_str,count)", vf::mix(h, vf::mix(idx, vf::mix(is, cnt + use_default))));
            break;
        }
        case 7: { // erase(index,count) ; index <= size
            std::size_t idx = draw_pos(L);
            std::size_t cnt = draw_count(L);
            unsigned form   = ch.pick(3); // 0: both args, 1: count defaulted, 2: both defaulted
            if (form == 2) { idx = 0; }
            if (form >= 1) { cnt = NPOS; }
            bool all = idx == 0 && cnt >= L;
            CRUMB("erase(index,count)", sit(poscls(idx, L), all ? "erases-all" : (form ? "defaulted" : "some")), "m=%s index=%zu count=%lld form=%u",
                show(m).c_str(), idx, P(cnt), form);
            if (form == 0) {
                RS(e.erase(idx, cnt));
            } else if (form == 1) {
                RS(e.erase(idx));
            } else {
                RS(e.erase());
            }
            m.erase(idx, cnt);
            COVER("erase(index,count)", vf::mix(idx, vf::mix(cnt, form)));
            break;
        }
        case 8: { // erase(it)
            if (L == 0) { return; }
            std::size_t idx = draw_pos(L - 1);
            CRUMB("erase(iterator)", sit(idx + 1 == L ? "last" : "inner", L == 1 ? "erases-all" : "some"), "m=%s at=%zu", show(m).c_str(), idx);
            auto it  = e.erase(e.cbegin() + idx);
            auto off = it - e.begin();
            m.erase(m.begin() + (std::ptrdiff_t)idx);
            COVER("erase(iterator)", idx);
            vf::eq_int("ret-offset", off, (long long)idx);
            break;
        }
        case 9: { // erase(first,last)
            std::size_t f = draw_pos(L);
            std::size_t l = f + draw_pos(L - f);
            bool all      = f == 0 && l == L && L > 0;
            CRUMB("erase(first,last)", sit(f == l ? "empty-range" : (all ? "erases-all" : "some"), l == L ? "to-end" : "inner"), "m=%s first=%zu last=%zu",
                show(m).c_str(), f, l);
            auto it  = e.erase(e.cbegin() + f, e.cbegin() + l);
            auto off = it - e.begin();
            m.erase(m.begin() + (std::ptrdiff_t)f, m.begin() + (std::ptrdiff_t)l);
            COVER("erase(first,last)", vf::mix(f, l));
            vf::eq_int("ret-offset", off, (long long)f);
            break;
        }
        case 10: { // free erase(c, value)
            Ch c = draw_char();
            CRUMB("erase(c,value)", sit(m.find(c) == Str::npos ? "absent" : "present"), "m=%s ch=%u", show(m).c_str(), (unsigned)c);
            auto re = etl::erase(e, c);
            auto rs = std::erase(m, c);
            COVER("erase(c,value)", (unsigned)c);
            vf::eq_int("ret", re, rs);
            break;
        }
        case 11: { // free erase_if
            Ch c = draw_char();
            CRUMB("erase_if(c,pred)", sit(m.find(c) == Str::npos ? "none-match" : "some-match"), "m=%s keep!=%u", show(m).c_str(), (unsigned)c);
            auto re = etl::erase_if(e, [c](Ch x) { return x == c; });
            auto rs = std::erase_if(m, [c](Ch x) { return x == c; });
            COVER("erase_if(c,pred)", (unsigned)c);
            vf::eq_int("ret", re, rs);
            break;
        }
        default: { // resize(count,ch) / resize(count)
            std::size_t cnt = draw_pos(N);
            bool with_ch    = ch.flag();
            Ch c            = with_ch ? draw_char() : Ch(0);
            char const* cls = cnt < L ? "shrink" : (cnt == L ? "same" : (cnt == N ? "grow-to-cap" : "grow"));
            CRUMB(with_ch ? "resize(count,ch)" : "resize(count)", sit(cls), "m=%s count=%zu ch=%u", show(m).c_str(), cnt, (unsigned)c);
            if (with_ch) {
                e.resize(cnt, c);
                m.resize(cnt, c);
            } else {
                e.resize(cnt);
                m.resize(cnt);
            }
            COVER(with_ch ? "resize(count,ch)" : "resize(count)", vf::mix(cnt, (unsigned)c));
            break;
        }
        }
        check_state(!clamped);
        a.z.check("argument string");
    }

    void op_replace_family()
    {
        unsigned which = ch.pick(7);
        Str t          = draw_string(N);
        Arg a(t);
        std::uint64_t h = vf::mix(which + 400, vf::fnv_bytes(t.data(), t.size() * sizeof(Ch)));
        std::size_t L   = m.size();
        std::size_t pos = draw_pos(L);
        std::size_t cnt = draw_count(L);
        std::size_t rc  = std::min(cnt, L - pos); // characters actually replaced
        auto lencls = [&](std::size_t newlen) { return newlen == rc ? "len-same" : (newlen > rc ? "len-grow" : "len-shrink"); };
        auto fits   = [&](std::size_t newlen) { return L - rc + newlen <= N; };
        char const* pc = pos + rc == L ? "to-end" : "inner";
        switch (which) {
        case 0: { // replace(pos,count,string)
            if (t.size() > N || !fits(t.size())) { return; }
            E src = mk(t);
            CRUMB("replace(pos,count,string)", sit(lencls(t.size()), pc), "m=%s pos=%zu count=%lld s=%s", show(m).c_str(), pos, P(cnt), show(t).c_str());
            RS(e.replace(pos, cnt, src));
            m.replace(pos, cnt, t);
            COVER("replace(pos,count,string)", vf::mix(h, vf::mix(pos, cnt)));
            break;
        }
        case 1: { // replace(first,last,string)
            if (t.size() > N || !fits(t.size())) { return; }
            E src = mk(t);
            CRUMB("replace(first,last,string)", sit(lencls(t.size()), pc), "m=%s first=%zu last=%zu s=%s", show(m).c_str(), pos, pos + rc, show(t).c_str());
            RS(e.replace(e.cbegin() + pos, e.cbegin() + pos + rc, src));
            m.replace(m.cbegin() + (std::ptrdiff_t)pos, m.cbegin() + (std::ptrdiff_t)(pos + rc), t);
            COVER("replace(first,last,string)", vf::mix(h, vf::mix(pos, rc)));
            break;
        }
        case 2: { // replace(pos,count,string,pos2,count2)
            if (t.size() > N) { return; }
            std::size_t p2 = draw_pos(t.size());
            std::size_t c2 = draw_count(t.size());
            Str sub        = t.substr(p2, c2);
            if (!fits(sub.size())) { return; }
            E src            = mk(t);
            bool use_default = c2 == NPOS && ch.flag();
            CRUMB("replace(pos,count,string,pos2,count2)", sit(lencls(sub.size()), pc), "m=%s pos=%zu count=%lld s=%s pos2=%zu count2=%lld", show(m).c_str(),
                pos, P(cnt), show(t).c_str(), p2, P(c2));
            if (use_default) {
                RS(e.replace(pos, cnt, src, p2));
            } else {
                RS(e.replace(pos, cnt, src, p2, c2));
            }
            m.replace(pos, cnt, t, p2, c2);
            COVER("replace(pos,count,string,pos2,count2)", vf::mix(h, vf::mix(vf::mix(pos, cnt), vf::mix(p2, c2 + use_default))));
            break;
        }
        case 3: { // replace(pos,count,ptr,count2)
            std::size_t c2 = draw_pos(t.size());
            if (!fits(c2)) { return; }
            CRUMB("replace(pos,count,ptr,count2)", sit(lencls(c2), pc), "m=%s pos=%zu count=%lld s=%s count2=%zu", show(m).c_str(), pos, P(cnt), show(t).c_str(),
                c2);
            RS(e.replace(pos, cnt, a.ptr(), c2));
            m.replace(pos, cnt, a.ptr(), c2);
            COVER("replace(pos,count,ptr,count2)", vf::mix(h, vf::mix(vf::mix(pos, cnt), c2)));
            break;
        }
        case 4: { // replace(first,last,ptr,count2)
            std::size_t c2 = draw_pos(t.size());
            if (!fits(c2)) { return; }
            CRUMB("replace(first,last,ptr,count2)", sit(lencls(c2), pc), "m=%s first=%zu last=%zu s=%s count2=%zu", show(m).c_str(), pos, pos + rc,
                show(t).c_str(), c2);
            RS(e.replace(e.cbegin() + pos, e.cbegin() + pos + rc, a.ptr(), c2));
            m.replace(m.cbegin() + (std::ptrdiff_t)pos, m.cbegin() + (std::ptrdiff_t)(pos + rc), a.ptr(), c2);
            COVER("replace(first,last,ptr,count2)", vf::mix(h, vf::mix(vf::mix(pos, rc), c2)));
            break;
        }
        case 5: { // replace(pos,count,ptr) / replace(first,last,ptr)
            if (!fits(a.zlen())) { return; }
            bool iters = ch.flag();
            CRUMB(iters ? "replace(first,last,ptr)" : "replace(pos,count,ptr)", sit(lencls(a.zlen()), pc), "m=%s pos=%zu count=%lld s=%s", show(m).c_str(), pos,
                P(cnt), show(t).c_str());
            if (iters) {
                RS(e.replace(e.cbegin() + pos, e.cbegin() + pos + rc, a.ptr()));
                m.replace(m.cbegin() + (std::ptrdiff_t)pos, m.cbegin() + (std::ptrdiff_t)(pos + rc), a.ptr());
            } else {
                RS(e.replace(pos, cnt, a.ptr()));
                m.replace(pos, cnt, a.ptr());
            }
            COVER(iters ? "replace(first,last,ptr)" : "replace(pos,count,ptr)", vf::mix(h, vf::mix(pos, cnt)));
            break;
        }
        default: { // replace(first,last,count2,ch)
            std::size_t c2 = draw_pos(N);
            if (!fits(c2)) { return; }
            Ch c = draw_char();
            CRUMB("replace(first,last,count2,ch)", sit(lencls(c2), pc), "m=%s first=%zu last=%zu count2=%zu ch=%u", show(m).c_str(), pos, pos + rc, c2,
                (unsigned)c);
            RS(e.replace(e.cbegin() + pos, e.cbegin() + pos + rc, c2, c));
            m.replace(m.cbegin() + (std::ptrdiff_t)pos, m.cbegin() + (std::ptrdiff_t)(pos + rc), c2, c);
            COVER("replace(first,last,count2,ch)", vf::mix(vf::mix(pos, rc), vf::mix(c2, (unsigned)c)));
            break;
        }
        }
        check_state();
        a.z.check("argument string");
    }

    void op_swap_substr_copy_plus()
    {
        unsigned which = ch.pick(9);
        Str t          = draw_string(N);
        Arg a(t);
        std::uint64_t h = vf::mix(which + 500, vf::fnv_bytes(t.data(), t.size() * sizeof(Ch)));
        std::size_t L   = m.size();
        switch (which) {
        case 0: { // member swap / free swap
            if (t.size() > N) { return; }
            E o       = mk(t);
            bool free_ = ch.flag();
            char const* cls = (L == N || t.size() == N) ? (L == N && t.size() == N ? "both-full" : "one-side-full") : "none-full";
            CRUMB(free_ ? "swap(a,b)" : "swap(other)", sit(cls), "m=%s other=%s", show(m).c_str(), show(t).c_str());
            if (free_) {
                using etl::swap;
                swap(e, o);
            } else {
                e.swap(o);
            }
            COVER(free_ ? "swap(a,b)" : "swap(other)", h);
            // the other side must hold the old contents and be a valid string too
            bool ok = vf::eq_int("other.size", o.size() <= N ? o.size() : N + 1, L);
            if (ok) { ok = vf::eq_str("other.contents", show(Str(o.data(), o.size())), show(m)); }
            if (ok && o.data()[o.size()] != Ch(0)) { vf::diverge("other:no-terminator-at-size", "data()[size()] != 0", "null character"); }
            m = t;
            break;
        }
        case 1: { // self swap
            CRUMB("swap(self)", sit("-"), "m=%s", show(m).c_str());
            e.swap(e);
            COVER("swap(self)", 0);
            break;
        }
        case 2: { // substr(pos,count), pos <= size
            std::size_t pos  = draw_pos(L);
            std::size_t cnt  = draw_count(L);
            unsigned form    = ch.pick(3);
            Str r            = form == 2 ? m.substr() : (form == 1 ? m.substr(pos) : m.substr(pos, cnt));
            CRUMB("substr(pos,count)", sit(poscls(pos, L), form == 2 ? "all-defaulted" : (form == 1 ? "count-defaulted" : "explicit")),
                "m=%s pos=%zu count=%lld form=%u", show(m).c_str(), pos, P(cnt), form);
            E x = form == 2 ? e.substr() : (form == 1 ? e.substr(pos) : e.substr(pos, cnt));
            COVER("substr(pos,count)", vf::mix(vf::mix(pos, cnt), form));
            bool ok = vf::eq_int("size", x.size(), r.size());
            if (ok) { ok = vf::eq_str("contents", show(Str(x.data(), x.size())), show(r)); }
            if (ok && x.data()[x.size()] != Ch(0)) { vf::diverge("result:no-terminator-at-size", "data()[size()] != 0", "null character"); }
            break;
        }
        case 3: { // copy(dest,count,pos), pos <= size
            std::size_t pos = draw_pos(L);
            std::size_t cnt = draw_count(L);
            bool dflt       = ch.flag();
            if (dflt) { pos = 0; }
            std::size_t rc = std::min(cnt, L - pos);
            vf::Buf<Ch> de(rc), ds(rc);
            CRUMB("copy(dest,count,pos)", sit(poscls(pos, L), dflt ? "pos-defaulted" : "explicit"), "m=%s count=%lld pos=%zu", show(m).c_str(), P(cnt), pos);
            auto rs = dflt ? m.copy(ds.data(), cnt) : m.copy(ds.data(), cnt, pos);
            auto re = dflt ? e.copy(de.data(), cnt) : e.copy(de.data(), cnt, pos);
            COVER("copy(dest,count,pos)", vf::mix(vf::mix(pos, cnt), dflt));
            vf::eq_int("ret", re, rs);
            if (rc && std::memcmp(de.data(), ds.data(), rc * sizeof(Ch)) != 0) { vf::diverge("dest-bytes", "differ", "equal"); }
            de.check("copy destination");
            break;
        }
        case 4: { // operator+(string,string) with the same and another capacity
            if (t.size() > N) { return; }
            bool over = L + t.size() > N;
            if (over && !kChecksOff) { return; }
            bool other_cap = ch.flag() && t.size() <= N2;
            CRUMB(other_cap ? "operator+(string,string<N2>)" : "operator+(string,string)", sit(over ? "clamped" : (L + t.size() == N ? "fills" : "fits")), "m=%s s=%s", show(m).c_str(),
                show(t).c_str());
            E x = other_cap ? (e + mk2(t)) : (e + mk(t));
            COVER(other_cap ? "operator+(string,string<N2>)" : "operator+(string,string)", h);
            Str r = m + t;
            if (over) {
                check_inv(x);
                break;
            }
            if (vf::eq_int("size", x.size(), r.size())) { vf::eq_str("contents", show(Str(x.data(), x.size())), show(r)); }
            break;
        }
        case 5: { // operator+(string,ptr) / (ptr,string)
            bool over = L + a.zlen() > N;
            if (over && !kChecksOff) { return; }
            bool rev = ch.flag();
            if (rev && a.zlen() > N) { return; } // the left operand alone must fit (constructor precondition)
            CRUMB(rev ? "operator+(ptr,string)" : "operator+(string,ptr)", sit(over ? "clamped" : (L + a.zlen() == N ? "fills" : "fits")), "m=%s s=%s", show(m).c_str(),
                show(t).c_str());
            E x = rev ? (a.ptr() + e) : (e + a.ptr());
            COVER(rev ? "operator+(ptr,string)" : "operator+(string,ptr)", h);
            Str r = rev ? (a.zstr() + m) : (m + a.zstr());
            if (over) {
                check_inv(x);
                break;
            }
            if (vf::eq_int("size", x.size(), r.size())) { vf::eq_str("contents", show(Str(x.data(), x.size())), show(r)); }
            break;
        }
        case 6: { // operator+(string,ch) / (ch,string)
            bool over = L + 1 > N;
            if (over && !kChecksOff) { return; }
            bool rev = ch.flag();
            if (rev && N == 0) { return; } // the left operand alone must fit (constructor precondition)
            Ch c     = draw_char();
            CRUMB(rev ? "operator+(ch,string)" : "operator+(string,ch)", sit(over ? "clamped" : (L + 1 == N ? "fills" : "fits")), "m=%s ch=%u", show(m).c_str(), (unsigned)c);
            E x = rev ? (c + e) : (e + c);
            COVER(rev ? "operator+(ch,string)" : "operator+(string,ch)", (unsigned)c);
            Str r = rev ? (Str(1, c) + m) : (m + Str(1, c));
            if (over) {
                check_inv(x);
                break;
            }
            if (vf::eq_int("size", x.size(), r.size())) { vf::eq_str("contents", show(Str(x.data(), x.size())), show(r)); }
            break;
        }
        case 7: { // copy construction is independent of its source
            CRUMB("copy-independence", sit("-"), "m=%s", show(m).c_str());
            E cp(e);
            if (!m.empty()) { e[0] = Ch('x'); }
            COVER("copy-independence", 0);
            if (vf::eq_int("copy.size", cp.size(), m.size())) { vf::eq_str("copy.contents", show(Str(cp.data(), cp.size())), show(m)); }
            if (!m.empty()) { m[0] = Ch('x'); }
            break;
        }
        default: { // element write through operator[] / front / back / iterators
            if (L == 0) { return; }
            std::size_t i = draw_pos(L - 1);
            CRUMB("operator[]-write", sit("-"), "m=%s i=%zu", show(m).c_str(), i);
            e[i]       = Ch('b');
            m[i]       = Ch('b');
            e.front()  = m.front();
            *(e.end() - 1) = m.back();
            COVER("operator[]-write", i);
            break;
        }
        }
        check_state();
        a.z.check("argument string");
    }

    // ======================================================================
    // observers: searches and comparisons (no state change)
    // ======================================================================
#define SEARCH(OPNAME, POS, CNT, DEFLT, EEXPR, SEXPR)                                                                  \
    do {                                                                                                               \
        auto sv_ = (SEXPR);                                                                                            \
        char s_[96];                                                                                                   \
        std::snprintf(s_, sizeof s_, "%s,%s,%s,%s%s", stcls, ncls, (DEFLT) ? "pos-defaulted" : poscls((POS), L),       \
            sv_ == Str::npos ? "absent" : "present", "");                                                              \
        CRUMB(OPNAME, s_, "m=%s s=%s pos=%lld count=%lld", ms.c_str(), ts.c_str(), P(POS), P(CNT));                    \
        auto ev_ = (EEXPR);                                                                                            \
        COVER(OPNAME, vf::mix(h, vf::mix((POS), (CNT))));                                                              \
        vf::eq_int("ret", P(ev_), P(sv_), true);                                                                       \
    } while (0)

    void op_search_family()
    {
        Str t = draw_string(N);
        if (t.size() > N) { t.resize(N); }
        Arg a(t);
        E es              = mk(t);
        EV ev(a.ptr(), a.len());
        SV sv(a.ptr(), a.len());
        std::uint64_t h   = vf::fnv_bytes(t.data(), t.size() * sizeof(Ch));
        std::size_t L     = m.size();
        std::string ms = show(m), ts = show(t);
        char const* ncls  = t.empty() ? "n-empty" : (t.size() > L ? "n-longer" : "n-fits");
        Ch const c        = t.empty() ? alpha(0) : t[0];
        std::size_t poss[6];
        unsigned np = 0;
        if (ch.random()) {
            poss[np++] = (std::size_t)ch.rng->below(L + 3);
            poss[np++] = L;
            poss[np++] = NPOS;
        } else {
            poss[np++] = 0;
            if (L >= 1) { poss[np++] = L - 1; }
            if (L >= 2) { poss[np++] = 1; }
            poss[np++] = L;
            poss[np++] = L + 1;
            poss[np++] = NPOS;
        }
        for (unsigned pi = 0; pi < np; ++pi) {
            std::size_t pos = poss[pi];
            SEARCH("find(string,pos)", pos, NPOS, false, e.find(es, pos), m.find(t, pos));
            SEARCH("find(ptr,pos)", pos, NPOS, false, e.find(a.ptr(), pos), m.find(a.ptr(), pos));
            SEARCH("find(ch,pos)", pos, NPOS, false, e.find(c, pos), m.find(c, pos));
            SEARCH("rfind(string,pos)", pos, NPOS, false, e.rfind(es, pos), m.rfind(t, pos));
            SEARCH("rfind(ptr,pos)", pos, NPOS, false, e.rfind(a.ptr(), pos), m.rfind(a.ptr(), pos));
            SEARCH("rfind(ch,pos)", pos, NPOS, false, e.rfind(c, pos), m.rfind(c, pos));
            SEARCH("find_first_of(string,pos)", pos, NPOS, false, e.find_first_of(es, pos), m.find_first_of(t, pos));
            SEARCH("find_first_of(ptr,pos)", pos, NPOS, false, e.find_first_of(a.ptr(), pos), m.find_first_of(a.ptr(), pos));
            SEARCH("find_first_of(ch,pos)", pos, NPOS, false, e.find_first_of(c, pos), m.find_first_of(c, pos));
            SEARCH("find_first_of(view,pos)", pos, NPOS, false, e.find_first_of(ev, pos), m.find_first_of(sv, pos));
            SEARCH("find_first_not_of(string,pos)", pos, NPOS, false, e.find_first_not_of(es, pos), m.find_first_not_of(t, pos));
            SEARCH("find_first_not_of(ptr,pos)", pos, NPOS, false, e.find_first_not_of(a.ptr(), pos), m.find_first_not_of(a.ptr(), pos));
            SEARCH("find_first_not_of(ch,pos)", pos, NPOS, false, e.find_first_not_of(c, pos), m.find_first_not_of(c, pos));
            SEARCH("find_last_of(string,pos)", pos, NPOS, false, e.find_last_of(es, pos), m.find_last_of(t, pos));
            SEARCH("find_last_of(ptr,pos)", pos, NPOS, false, e.find_last_of(a.ptr(), pos), m.find_last_of(a.ptr(), pos));
            SEARCH("find_last_of(ch,pos)", pos, NPOS, false, e.find_last_of(c, pos), m.find_last_of(c, pos));
            SEARCH("find_last_not_of(string,pos)", pos, NPOS, false, e.find_last_not_of(es, pos), m.find_last_not_of(t, pos));
            SEARCH("find_last_not_of(ptr,pos)", pos, NPOS, false, e.find_last_not_of(a.ptr(), pos), m.find_last_not_of(a.ptr(), pos));
            SEARCH("find_last_not_of(ch,pos)", pos, NPOS, false, e.find_last_not_of(c, pos), m.find_last_not_of(c, pos));
            for (std::size_t cnt = 0; cnt <= t.size(); ++cnt) {
                SEARCH("find(ptr,pos,count)", pos, cnt, false, e.find(a.ptr(), pos, cnt), m.find(a.ptr(), pos, cnt));
                SEARCH("rfind(ptr,pos,count)", pos, cnt, false, e.rfind(a.ptr(), pos, cnt), m.rfind(a.ptr(), pos, cnt));
                SEARCH("find_first_of(ptr,pos,count)", pos, cnt, false, e.find_first_of(a.ptr(), pos, cnt), m.find_first_of(a.ptr(), pos, cnt));
                SEARCH("find_first_not_of(ptr,pos,count)", pos, cnt, false, e.find_first_not_of(a.ptr(), pos, cnt),
                    m.find_first_not_of(a.ptr(), pos, cnt));
                SEARCH("find_last_of(ptr,pos,count)", pos, cnt, false, e.find_last_of(a.ptr(), pos, cnt), m.find_last_of(a.ptr(), pos, cnt));
                SEARCH("find_last_not_of(ptr,pos,count)", pos, cnt, false, e.find_last_not_of(a.ptr(), pos, cnt),
                    m.find_last_not_of(a.ptr(), pos, cnt));
            }
        }
        // defaulted pos (what a user writes most often)
        SEARCH("find(string)", 0, NPOS, true, e.find(es), m.find(t));
        SEARCH("find(ptr)", 0, NPOS, true, e.find(a.ptr()), m.find(a.ptr()));
        SEARCH("find(ch)", 0, NPOS, true, e.find(c), m.find(c));
        SEARCH("rfind(string)", NPOS, NPOS, true, e.rfind(es), m.rfind(t));
        SEARCH("rfind(ptr)", NPOS, NPOS, true, e.rfind(a.ptr()), m.rfind(a.ptr()));
        SEARCH("rfind(ch)", NPOS, NPOS, true, e.rfind(c), m.rfind(c));
        SEARCH("find_first_of(string)", 0, NPOS, true, e.find_first_of(es), m.find_first_of(t));
        SEARCH("find_first_of(ptr)", 0, NPOS, true, e.find_first_of(a.ptr()), m.find_first_of(a.ptr()));
        SEARCH("find_first_of(ch)", 0, NPOS, true, e.find_first_of(c), m.find_first_of(c));
        SEARCH("find_first_of(view)", 0, NPOS, true, e.find_first_of(ev), m.find_first_of(sv));
        SEARCH("find_first_not_of(string)", 0, NPOS, true, e.find_first_not_of(es), m.find_first_not_of(t));
        SEARCH("find_first_not_of(ch)", 0, NPOS, true, e.find_first_not_of(c), m.find_first_not_of(c));
        SEARCH("find_last_of(string)", NPOS, NPOS, true, e.find_last_of(es), m.find_last_of(t));
        SEARCH("find_last_of(ptr)", NPOS, NPOS, true, e.find_last_of(a.ptr()), m.find_last_of(a.ptr()));
        SEARCH("find_last_of(ch)", NPOS, NPOS, true, e.find_last_of(c), m.find_last_of(c));
        SEARCH("find_last_not_of(string)", NPOS, NPOS, true, e.find_last_not_of(es), m.find_last_not_of(t));
        SEARCH("find_last_not_of(ptr)", NPOS, NPOS, true, e.find_last_not_of(a.ptr()), m.find_last_not_of(a.ptr()));
        SEARCH("find_last_not_of(ch)", NPOS, NPOS, true, e.find_last_not_of(c), m.find_last_not_of(c));
        a.z.check("argument string");
    }

#define BOOLOP(OPNAME, EEXPR, SEXPR)                                                                                   \
    do {                                                                                                               \
        bool sv_ = (SEXPR);                                                                                            \
        char s_[96];                                                                                                   \
        std::snprintf(s_, sizeof s_, "%s,%s,%s", stcls, ncls, sv_ ? "true" : "false");                                 \
        CRUMB(OPNAME, s_, "m=%s s=%s", ms.c_str(), ts.c_str());                                                        \
        bool ev_ = (EEXPR);                                                                                            \
        COVER(OPNAME, h);                                                                                              \
        vf::eq_bool("ret", ev_, sv_);                                                                                  \
    } while (0)
#define SIGNOP(OPNAME, P1, C1, P2, C2, EEXPR, SEXPR)                                                                   \
    do {                                                                                                               \
        int sv_ = (SEXPR);                                                                                             \
        char s_[96];                                                                                                   \
        std::snprintf(s_, sizeof s_, "%s,%s,%s,exp%+d", stcls, ncls, poscls((P1), L), vf::sgn(sv_));                   \
        CRUMB(OPNAME, s_, "m=%s s=%s pos1=%lld count1=%lld pos2=%lld count2=%lld", ms.c_str(), ts.c_str(), P(P1),      \
            P(C1), P(P2), P(C2));                                                                                      \
        int ev_ = (EEXPR);                                                                                             \
        COVER(OPNAME, vf::mix(vf::mix(h, vf::mix((P1), (C1))), vf::mix((P2), (C2))));                                  \
        vf::eq_sign("ret", ev_, sv_);                                                                                  \
    } while (0)

    void op_compare_family()
    {
        Str t = draw_string(N);
        if (t.size() > N) { t.resize(N); }
        Arg a(t);
        E es  = mk(t);
        bool const have2 = t.size() <= N2;
        E2 e2 = mk2(have2 ? t : Str());
        EV ev(a.ptr(), a.len());
        SV sv(a.ptr(), a.len());
        std::uint64_t h   = vf::fnv_bytes(t.data(), t.size() * sizeof(Ch)) + 17;
        std::size_t L     = m.size();
        std::string ms = show(m), ts = show(t);
        char const* ncls  = t.empty() ? "n-empty" : (t.size() > L ? "n-longer" : (t.size() == L ? "n-same-length" : "n-shorter"));
        Ch const c        = t.empty() ? alpha(0) : t[0];

        BOOLOP("starts_with(view)", e.starts_with(ev), m.starts_with(sv));
        BOOLOP("starts_with(ch)", e.starts_with(c), m.starts_with(c));
        BOOLOP("starts_with(ptr)", e.starts_with(a.ptr()), m.starts_with(a.ptr()));
        BOOLOP("ends_with(view)", e.ends_with(ev), m.ends_with(sv));
        BOOLOP("ends_with(ch)", e.ends_with(c), m.ends_with(c));
        BOOLOP("ends_with(ptr)", e.ends_with(a.ptr()), m.ends_with(a.ptr()));
        BOOLOP("contains(view)", e.contains(ev), m.find(sv) != Str::npos);
        BOOLOP("contains(ch)", e.contains(c), m.find(c) != Str::npos);
        BOOLOP("contains(ptr)", e.contains(a.ptr()), m.find(a.ptr()) != Str::npos);
        BOOLOP("operator==(string,string)", e == es, m == t);
        BOOLOP("operator!=(string,string)", e != es, m != t);
        BOOLOP("operator<(string,string)", e < es, m < t);
        BOOLOP("operator<=(string,string)", e <= es, m <= t);
        BOOLOP("operator>(string,string)", e > es, m > t);
        BOOLOP("operator>=(string,string)", e >= es, m >= t);
        if (have2) { BOOLOP("operator==(string,string<N2>)", e == e2, m == t); }
        if (have2) { BOOLOP("operator!=(string,string<N2>)", e != e2, m != t); }
        if (have2) { BOOLOP("operator<(string,string<N2>)", e < e2, m < t); }
        if (have2) { BOOLOP("operator<=(string,string<N2>)", e <= e2, m <= t); }
        if (have2) { BOOLOP("operator>(string,string<N2>)", e > e2, m > t); }
        if (have2) { BOOLOP("operator>=(string,string<N2>)", e >= e2, m >= t); }
        BOOLOP("operator==(string,ptr)", e == a.ptr(), m == a.ptr());
        BOOLOP("operator!=(string,ptr)", e != a.ptr(), m != a.ptr());
        BOOLOP("operator<(string,ptr)", e < a.ptr(), m < a.ptr());
        BOOLOP("operator<=(string,ptr)", e <= a.ptr(), m <= a.ptr());
        BOOLOP("operator>(string,ptr)", e > a.ptr(), m > a.ptr());
        BOOLOP("operator>=(string,ptr)", e >= a.ptr(), m >= a.ptr());
        BOOLOP("operator==(ptr,string)", a.ptr() == e, a.ptr() == m);
        BOOLOP("operator!=(ptr,string)", a.ptr() != e, a.ptr() != m);
        BOOLOP("operator<(ptr,string)", a.ptr() < e, a.ptr() < m);
        BOOLOP("operator<=(ptr,string)", a.ptr() <= e, a.ptr() <= m);
        BOOLOP("operator>(ptr,string)", a.ptr() > e, a.ptr() > m);
        BOOLOP("operator>=(ptr,string)", a.ptr() >= e, a.ptr() >= m);

        SIGNOP("compare(string)", 0, NPOS, 0, NPOS, e.compare(es), m.compare(t));
        if (have2) { SIGNOP("compare(string<N2>)", 0, NPOS, 0, NPOS, e.compare(e2), m.compare(t)); }
        SIGNOP("compare(ptr)", 0, NPOS, 0, NPOS, e.compare(a.ptr()), m.compare(a.ptr()));
        SIGNOP("compare(view)", 0, NPOS, 0, NPOS, e.compare(ev), m.compare(sv));
        std::size_t p1s[3] = {0, L / 2, L};
        std::size_t c1s[4] = {0, 1, L, NPOS};
        for (std::size_t p1 : p1s) {
            for (std::size_t c1 : c1s) {
                SIGNOP("compare(pos,count,string)", p1, c1, 0, NPOS, e.compare(p1, c1, es), m.compare(p1, c1, t));
                SIGNOP("compare(pos,count,ptr)", p1, c1, 0, NPOS, e.compare(p1, c1, a.ptr()), m.compare(p1, c1, a.ptr()));
                SIGNOP("compare(pos,count,view)", p1, c1, 0, NPOS, e.compare(p1, c1, ev), m.compare(p1, c1, sv));
                for (std::size_t c2 = 0; c2 <= t.size(); ++c2) {
                    SIGNOP("compare(pos,count,ptr,count2)", p1, c1, 0, c2, e.compare(p1, c1, a.ptr(), c2), m.compare(p1, c1, a.ptr(), c2));
                }
                for (std::size_t p2 = 0; p2 <= t.size(); ++p2) {
                    SIGNOP("compare(pos1,count1,string,pos2)", p1, c1, p2, NPOS, e.compare(p1, c1, es, p2), m.compare(p1, c1, t, p2));
                    SIGNOP("compare(pos1,count1,view,pos2)", p1, c1, p2, NPOS, e.compare(p1, c1, ev, p2), m.compare(p1, c1, sv, p2));
                    std::size_t c2s[3] = {0, 1, NPOS};
                    for (std::size_t c2 : c2s) {
                        SIGNOP("compare(pos1,count1,string,pos2,count2)", p1, c1, p2, c2, e.compare(p1, c1, es, p2, c2), m.compare(p1, c1, t, p2, c2));
                        SIGNOP("compare(pos1,count1,view,pos2,count2)", p1, c1, p2, c2, e.compare(p1, c1, ev, p2, c2), m.compare(p1, c1, sv, p2, c2));
                    }
                }
            }
        }
        a.z.check("argument string");
    }

    // arguments that alias the string's own buffer (std::basic_string supports all of these)
    void op_self_alias()
    {
        unsigned which  = ch.pick(16);
        std::size_t L   = m.size();
        std::size_t room = N - L;
        std::size_t k   = draw_pos(L);          // offset into own buffer
        std::size_t cnt = draw_pos(L - k);      // characters taken from there
        std::uint64_t h = vf::mix(which + 900, vf::mix(k, cnt));
        char const* kc  = k == 0 ? "offset=0" : (k == L ? "offset=size" : "offset>0");
        switch (which) {
        case 0:
            CRUMB("assign(ptr,count) own buffer", sit(kc), "m=%s k=%zu count=%zu", show(m).c_str(), k, cnt);
            RS(e.assign(e.data() + k, cnt));
            m.assign(m.data() + k, cnt);
            break;
        case 1: {
            Str r(m.c_str() + k);
            CRUMB("operator=(ptr) own buffer", sit(kc), "m=%s k=%zu", show(m).c_str(), k);
            RS(e = e.c_str() + k);
            m = r;
            break;
        }
        case 2: {
            Str r(m.c_str() + k);
            CRUMB("assign(ptr) own buffer", sit(kc), "m=%s k=%zu", show(m).c_str(), k);
            RS(e.assign(e.c_str() + k));
            m = r;
            break;
        }
        case 3:
            if (cnt > room) { return; }
            CRUMB("append(ptr,count) own buffer", sit(kc, cnt == room ? "fills" : "fits"), "m=%s k=%zu count=%zu", show(m).c_str(), k, cnt);
            RS(e.append(e.data() + k, cnt));
            m.append(Str(m.data() + k, cnt));
            break;
        case 4: {
            if (cnt > room) { return; }
            std::size_t idx = draw_pos(L);
            Str piece(m.data() + k, cnt);
            CRUMB("insert(index,ptr,count) own buffer", sit(kc, poscls(idx, L)), "m=%s index=%zu k=%zu count=%zu", show(m).c_str(), idx, k, cnt);
            RS(e.insert(idx, e.data() + k, cnt));
            m.insert(idx, piece);
            h = vf::mix(h, idx);
            break;
        }
        case 5:
            CRUMB("assign(self)", sit("-"), "m=%s", show(m).c_str());
            RS(e.assign(e));
            break;
        case 6:
            if (L > room) { return; }
            CRUMB("append(self)", sit(L == room ? "fills" : "fits"), "m=%s", show(m).c_str());
            RS(e.append(e));
            m.append(Str(m));
            break;
        case 7: {
            if (L > room) { return; }
            std::size_t idx = draw_pos(L);
            CRUMB("insert(index,self)", sit(poscls(idx, L)), "m=%s index=%zu", show(m).c_str(), idx);
            RS(e.insert(idx, e));
            m.insert(idx, Str(m));
            h = vf::mix(h, idx);
            break;
        }
        case 8:
            if (L > room) { return; }
            CRUMB("operator+=(self)", sit(L == room ? "fills" : "fits"), "m=%s", show(m).c_str());
            RS(e += e);
            m += Str(m);
            break;
        case 9:
            CRUMB("assign(view of self)", sit(kc), "m=%s k=%zu count=%zu", show(m).c_str(), k, cnt);
            RS(e.assign(EV(e.data() + k, cnt)));
            m = Str(m.data() + k, cnt);
            break;
        // the CHARACTER argument is an element of the string itself (an lvalue such as s[k] or s.back()): a by-value parameter keeps its
        // value while the string is being modified
        case 10: {
            if (k >= L) { return; }
            std::size_t n2 = draw_pos(room < 3 ? room : 3);
            std::size_t idx = draw_pos(L);
            Ch c0 = m[k];
            CRUMB("insert(index,count,ch) ch=own element", sit(poscls(idx, L), idx <= k ? "element-behind-index" : "element-before-index"), "m=%s index=%zu count=%zu k=%zu",
                show(m).c_str(), idx, n2, k);
            RS(e.insert(idx, n2, e[k]));
            m.insert(idx, n2, c0);
            h = vf::mix(h, vf::mix(idx, n2));
            break;
        }
        case 11: {
            if (k >= L) { return; }
            std::size_t n2 = draw_pos(room < 3 ? room : 3);
            Ch c0 = m[k];
            CRUMB("append(count,ch) ch=own element", sit(kc), "m=%s count=%zu k=%zu", show(m).c_str(), n2, k);
            RS(e.append(n2, e[k]));
            m.append(n2, c0);
            h = vf::mix(h, n2);
            break;
        }
        case 12: {
            if (k >= L) { return; }
            std::size_t n2 = draw_pos(N < 3 ? N : 3);
            Ch c0 = m[k];
            CRUMB("assign(count,ch) ch=own element", sit(kc), "m=%s count=%zu k=%zu", show(m).c_str(), n2, k);
            RS(e.assign(n2, e[k]));
            m.assign(n2, c0);
            h = vf::mix(h, n2);
            break;
        }
        case 13: {
            if (k >= L) { return; }
            std::size_t n2 = draw_pos(N);
            Ch c0 = m[k];
            CRUMB("resize(n,ch) ch=own element", sit(n2 < L ? "shrink" : (n2 == L ? "same" : "grow")), "m=%s n=%zu k=%zu", show(m).c_str(), n2, k);
            e.resize(n2, e[k]);
            m.resize(n2, c0);
            h = vf::mix(h, n2);
            break;
        }
        case 14: {
            if (k >= L || room == 0) { return; }
            Ch c0 = m[k];
            bool pb = ch.flag();
            CRUMB(pb ? "push_back(ch) ch=own element" : "operator+=(ch) ch=own element", sit(kc), "m=%s k=%zu", show(m).c_str(), k);
            if (pb) {
                e.push_back(e[k]);
            } else {
                RS(e += e[k]);
            }
            m.push_back(c0);
            h = vf::mix(h, pb);
            break;
        }
        default: {
            if (k >= L) { return; }
            Ch c0 = m[k];
            CRUMB("operator=(ch) ch=own element", sit(kc), "m=%s k=%zu", show(m).c_str(), k);
            RS(e = e[k]);
            m = Str(1, c0);
            if (N == 0) { m.clear(); }
            break;
        }
        }
        COVER("self-alias", h);
        check_state();
    }

    static constexpr unsigned kFamilies = 9;
    void apply(unsigned family)
    {
        switch (family) {
        case 8: op_self_alias(); break;
        case 0: op_assign_family(); break;
        case 1: op_construct_family(); break;
        case 2: op_append_family(); break;
        case 3: op_insert_erase_family(); break;
        case 4: op_replace_family(); break;
        case 5: op_swap_substr_copy_plus(); break;
        case 6: op_search_family(); break;
        default: op_compare_family(); break;
        }
    }
};

// enumerated start strings: all strings over {a, 0xE9} with length <= min(N, 3)
std::uint64_t n_start(std::size_t N)
{
    std::size_t maxl = N < 3 ? N : 3;
    return (1ull << (maxl + 1)) - 1;
}
Str start_string(std::uint64_t k)
{
    std::uint64_t cnt = 1;
    for (unsigned len = 0;; ++len, cnt *= 2) {
        if (k < cnt) {
            Str s(len, Ch('a'));
            for (unsigned i = 0; i < len; ++i) {
                s[len - 1 - i] = alpha((unsigned)(k & 1));
                k >>= 1;
            }
            return s;
        }
        k -= cnt;
    }
}

template <std::size_t N>
void enum_case(std::uint64_t local)
{
    using EnvN        = Env<N>;
    unsigned family   = (unsigned)(local % EnvN::kFamilies);
    Str start         = start_string(local / EnvN::kFamilies);
    vf::Chooser ch;
    if (vf::want_sample("enumerated-case")) { vf::sample("enumerated-case", "cap=%zu start=%s op-family=%u: every argument tuple of the family", N, show(start).c_str(), family); }
    do {
        ch.begin();
        EnvN env(ch, start);
        env.apply(family);
    } while (ch.next());
}
template <std::size_t N>
void random_case(vf::Rng& rng)
{
    using EnvN = Env<N>;
    vf::Chooser ch(&rng);
    Str start;
    std::size_t len = rng.chance(1, 2) ? N - (std::size_t)rng.below(N < 3 ? N + 1 : 3) : (std::size_t)rng.below(N + 1);
    if (len > N) { len = N; }
    for (std::size_t i = 0; i < len; ++i) { start += alpha((unsigned)rng.below(5)); }
    EnvN env(ch, start);
    unsigned steps = 40;
    for (unsigned s = 0; s < steps; ++s) { env.apply((unsigned)rng.below(EnvN::kFamilies)); }
    if (vf::want_sample("random-history")) { vf::sample("random-history", "cap=%zu start=%s then %u random operations (all families)", N, show(start).c_str(), steps); }
}

template <std::size_t... Ns>
struct CapList {
    static std::uint64_t n_enum_for(std::size_t i)
    {
        std::uint64_t r = 0;
        std::size_t k   = 0;
        ((k++ == i ? (r = (Ns <= 4 ? n_start(Ns) * Env<Ns>::kFamilies : 0)) : 0), ...);
        return r;
    }
    static void run_enum(std::size_t i, std::uint64_t local)
    {
        std::size_t k = 0;
        ((k++ == i ? (enum_case<Ns>(local), 0) : 0), ...);
    }
    static void run_random(std::size_t i, vf::Rng& rng)
    {
        std::size_t k = 0;
        ((k++ == i ? (random_case<Ns>(rng), 0) : 0), ...);
    }
};
using Caps = CapList<VF_CAPS>;

vf::Spec spec(vf::Tier t)
{
    vf::Spec s;
    for (std::size_t i = 0; i < kNCaps; ++i) { s.n_enum += Caps::n_enum_for(i); }
    s.n_random   = (t == vf::Tier::thorough ? 6000 : 400) * kNCaps;
    s.batch      = 8;
    s.exhaustive = true;
    return s;
}
void run_case(vf::Case& c)
{
    if (c.enumerated) {
        std::uint64_t k = c.index;
        for (std::size_t i = 0; i < kNCaps; ++i) {
            std::uint64_t n = Caps::n_enum_for(i);
            if (k < n) {
                Caps::run_enum(i, k);
                return;
            }
            k -= n;
        }
    } else {
        Caps::run_random(c.index % kNCaps, c.rng);
    }
}
} // namespace

VF_MAIN("C04", "C04_string_" VF_CHAR_NAME, spec, run_case)
