// C12 - duration (op) tick-count value where the scalar's type differs from the duration's representation.   (DESIGN 4, C12)
//
// [time.duration.arithmetic]: the member operators *=, /=, %= take `const rep&` - the scalar is converted to rep FIRST
// (minutes{-10} /= 2u is -5, seconds{10} *= 1.5 is 10); the free operators d*s, s*d, d/s, d%s compute in
// common_type<Rep, S> and return duration<common_type<Rep, S>, Period>.
// Cells = representation of the duration {i16, i32, i64, u32, u64, f32, f64} x scalar type {bool, signed/unsigned char,
// short, unsigned short, int, unsigned, long, unsigned long, float, double, long double}; for every cell: well-formedness and
// declared result type (compile-time booleans recorded at run time), reference identity, and the value for a grid of
// counts (negative, zero, positive, near the limits) x scalar values (incl. the scalar type's extremes, fractional floats),
// compared with std::chrono using the same types and with exact arithmetic after the conversion the standard prescribes.
// Only calls whose conversions are value-preserving (integers) or in range after truncation (floating -> integer rep)
// and whose exact result is representable are issued.  Free operators tetl does not declare are listed, not reported.
#include "vf.hpp"
#include "vf_contract.hpp"

#include <etl/chrono.hpp>
#include <etl/ratio.hpp>

#include <chrono>
#include <cmath>
#include <limits>
#include <ratio>
#include <type_traits>
#include <vector>

namespace {
namespace ec = etl::chrono;
namespace sc = std::chrono;
using i128   = __int128;
using ld     = long double; // holds every 64-bit integer and every double exactly

template <typename T> struct TN;
#define TNAME(T, S) template <> struct TN<T> { static constexpr char const* s = S; };
TNAME(bool, "bool") TNAME(signed char, "i8") TNAME(unsigned char, "u8") TNAME(short, "i16") TNAME(unsigned short, "u16") TNAME(int, "i32")
TNAME(unsigned, "u32") TNAME(long, "i64") TNAME(unsigned long, "u64") TNAME(float, "f32") TNAME(double, "f64") TNAME(long double, "f80")
#undef TNAME

// ------------------------------------------------------------------ tiny type-dependent operations (D: duration type, S: scalar type)
template <typename D, typename S> ld m_muleq(ld c, ld s) { D d{(typename D::rep)c}; d *= (S)s; return (ld)d.count(); }
template <typename D, typename S> ld m_diveq(ld c, ld s) { D d{(typename D::rep)c}; d /= (S)s; return (ld)d.count(); }
template <typename D, typename S> ld m_modeq(ld c, ld s)
{
    if constexpr (std::is_integral_v<typename D::rep> && requires(D& d, S v) { d %= v; }) {
        D d{(typename D::rep)c};
        d %= (S)s;
        return (ld)d.count();
    } else {
        return 0;
    }
}
// reference identity of the three members, as a bit mask (auto&& : an operator returning a copy still compiles)
template <typename D, typename S> ld m_ident(ld c, ld s)
{
    D d{(typename D::rep)c};
    int mask   = 0;
    auto&& r1 = (d *= (S)s);
    mask |= (static_cast<void const*>(&r1) == static_cast<void const*>(&d)) << 0;
    auto&& r2 = (d /= (S)s);
    mask |= (static_cast<void const*>(&r2) == static_cast<void const*>(&d)) << 1;
    if constexpr (std::is_integral_v<typename D::rep> && requires(D& x, S v) { x %= v; }) {
        D e{(typename D::rep)c};
        auto&& r3 = (e %= (S)s);
        mask |= (static_cast<void const*>(&r3) == static_cast<void const*>(&e)) << 2;
    } else {
        mask |= 4;
    }
    return mask;
}
// chained use: ((d *= s) /= s) - the final state of d is the observable
template <typename D, typename S> ld m_chain(ld c, ld s)
{
    D d{(typename D::rep)c};
    (d *= (S)s) /= (S)s;
    return (ld)d.count();
}
template <typename D, typename S> constexpr bool has_mul_ds = requires(D d, S s) { d * s; };
template <typename D, typename S> constexpr bool has_mul_sd = requires(D d, S s) { s * d; };
template <typename D, typename S> constexpr bool has_div_ds = requires(D d, S s) { d / s; };
// % only for an integral common type (libstdc++ declares d % s unconstrained for floating types: ill-formed only when instantiated)
template <typename D, typename S> constexpr bool has_mod_ds = std::is_integral_v<std::common_type_t<typename D::rep, S>> && requires(D d, S s) { d % s; };
template <typename D, typename S> ld f_mul_ds(ld c, ld s) { if constexpr (has_mul_ds<D, S>) { return (ld)(D{(typename D::rep)c} * (S)s).count(); } else { return 0; } }
template <typename D, typename S> ld f_mul_sd(ld c, ld s) { if constexpr (has_mul_sd<D, S>) { return (ld)((S)s * D{(typename D::rep)c}).count(); } else { return 0; } }
template <typename D, typename S> ld f_div_ds(ld c, ld s) { if constexpr (has_div_ds<D, S>) { return (ld)(D{(typename D::rep)c} / (S)s).count(); } else { return 0; } }
template <typename D, typename S> ld f_mod_ds(ld c, ld s) { if constexpr (has_mod_ds<D, S>) { return (ld)(D{(typename D::rep)c} % (S)s).count(); } else { return 0; } }
template <typename D, typename S, typename CR> constexpr bool free_rep_ok()
{
    bool ok = true;
    if constexpr (has_mul_ds<D, S>) { ok = ok && std::is_same_v<typename decltype(std::declval<D>() * std::declval<S>())::rep, CR>; }
    if constexpr (has_mul_sd<D, S>) { ok = ok && std::is_same_v<typename decltype(std::declval<S>() * std::declval<D>())::rep, CR>; }
    if constexpr (has_div_ds<D, S>) { ok = ok && std::is_same_v<typename decltype(std::declval<D>() / std::declval<S>())::rep, CR>; }
    if constexpr (has_mod_ds<D, S>) { ok = ok && std::is_same_v<typename decltype(std::declval<D>() % std::declval<S>())::rep, CR>; }
    return ok;
}

using Fn = ld (*)(ld, ld);
enum Op { O_MULEQ, O_DIVEQ, O_MODEQ, O_IDENT, O_CHAIN, O_MUL_DS, O_MUL_SD, O_DIV_DS, O_MOD_DS, O_N };
char const* const kOpName[O_N] = {"d*=s", "d/=s", "d%=s", "&(d op= s)==&d", "(d*=s)/=s", "d*s", "s*d", "d/s", "d%s"};
struct Fact {
    char const* what;
    bool e, s;
};
struct Desc {
    char subj[96];
    char const* scalar_class; // relative to the representation
    bool rep_float, rep_signed, s_float, s_signed, s_bool;
    ld rep_lo, rep_hi, s_lo, s_hi, cr_lo, cr_hi; // limits of rep, scalar, common_type<rep, scalar>
    bool cr_float;
    bool modeq;           // d %= s is well-formed in std::chrono
    bool epresent[O_N];   // the operation exists in tetl
    bool spresent[O_N];   // ... and in std::chrono
    Fn e[O_N], s[O_N];
    ld (*to_scalar)(ld); // the value after conversion to the scalar type (argument already inside the type's range)
    std::vector<Fact> facts;
};

template <typename T> constexpr int rank_of() { return std::is_same_v<T, bool> ? 0 : (int)sizeof(T); }

template <typename Rep, typename S>
Desc const& desc()
{
    using ED = ec::duration<Rep, etl::ratio<60>>;
    using SD = sc::duration<Rep, std::ratio<60>>;
    using CR = std::common_type_t<Rep, S>;
    static Desc const d = [] {
        Desc x{};
        std::snprintf(x.subj, sizeof x.subj, "duration<%s> (op) scalar<%s>", TN<Rep>::s, TN<S>::s);
        x.rep_float  = std::is_floating_point_v<Rep>;
        x.rep_signed = std::is_signed_v<Rep>;
        x.s_float    = std::is_floating_point_v<S>;
        x.s_signed   = std::is_signed_v<S>;
        x.s_bool     = std::is_same_v<S, bool>;
        x.cr_float   = std::is_floating_point_v<CR>;
        x.rep_lo = (ld)std::numeric_limits<Rep>::lowest(); x.rep_hi = (ld)std::numeric_limits<Rep>::max();
        x.s_lo   = (ld)std::numeric_limits<S>::lowest();   x.s_hi   = (ld)std::numeric_limits<S>::max();
        x.cr_lo  = (ld)std::numeric_limits<CR>::lowest();  x.cr_hi  = (ld)std::numeric_limits<CR>::max();
        x.scalar_class = std::is_same_v<S, Rep>     ? "scalar=rep"
                       : x.s_bool                   ? "scalar-bool"
                       : (x.s_float && x.rep_float) ? "scalar-other-float"
                       : x.s_float                  ? "scalar-float,rep-integer"
                       : x.rep_float                ? "scalar-integer,rep-float"
                       : (!x.s_signed && x.rep_signed && rank_of<S>() >= rank_of<Rep>()) ? "scalar-unsigned-rank>=rep,rep-signed"
                       : (!x.s_signed && x.rep_signed)  ? "scalar-unsigned-narrower,rep-signed"
                       : (x.s_signed && !x.rep_signed)  ? "scalar-signed,rep-unsigned"
                       : rank_of<S>() > rank_of<Rep>()  ? "scalar-wider-same-signedness"
                                                        : "scalar-narrower-same-signedness";
        // %= only exists for integral representations; tetl declares the member unconditionally (ill-formed only when used),
        // std::chrono constrains it away - that difference in overload-set visibility is not part of the property and is not compared
        x.to_scalar = [](ld v) -> ld { return (ld)(S)v; };
        x.modeq = std::is_integral_v<Rep> && requires(SD& v, S s) { v %= s; };
        x.e[O_MULEQ] = &m_muleq<ED, S>; x.s[O_MULEQ] = &m_muleq<SD, S>;
        x.e[O_DIVEQ] = &m_diveq<ED, S>; x.s[O_DIVEQ] = &m_diveq<SD, S>;
        x.e[O_MODEQ] = &m_modeq<ED, S>; x.s[O_MODEQ] = &m_modeq<SD, S>;
        x.e[O_IDENT] = &m_ident<ED, S>; x.s[O_IDENT] = &m_ident<SD, S>;
        x.e[O_CHAIN] = &m_chain<ED, S>; x.s[O_CHAIN] = &m_chain<SD, S>;
        x.e[O_MUL_DS] = &f_mul_ds<ED, S>; x.s[O_MUL_DS] = &f_mul_ds<SD, S>;
        x.e[O_MUL_SD] = &f_mul_sd<ED, S>; x.s[O_MUL_SD] = &f_mul_sd<SD, S>;
        x.e[O_DIV_DS] = &f_div_ds<ED, S>; x.s[O_DIV_DS] = &f_div_ds<SD, S>;
        x.e[O_MOD_DS] = &f_mod_ds<ED, S>; x.s[O_MOD_DS] = &f_mod_ds<SD, S>;
        for (int i = 0; i < O_N; ++i) { x.epresent[i] = x.spresent[i] = true; }
        x.epresent[O_MUL_DS] = has_mul_ds<ED, S>; x.spresent[O_MUL_DS] = has_mul_ds<SD, S>;
        x.epresent[O_MUL_SD] = has_mul_sd<ED, S>; x.spresent[O_MUL_SD] = has_mul_sd<SD, S>;
        x.epresent[O_DIV_DS] = has_div_ds<ED, S>; x.spresent[O_DIV_DS] = has_div_ds<SD, S>;
        x.epresent[O_MOD_DS] = has_mod_ds<ED, S>; x.spresent[O_MOD_DS] = has_mod_ds<SD, S>;
        x.epresent[O_MODEQ]  = std::is_integral_v<Rep> ? requires(ED& v, S s) { v %= s; } : false;
        x.spresent[O_MODEQ]  = x.modeq;
#define LREF(X, T_) std::is_same_v<decltype(X), T_&>
        x.facts = {
            {"d*=s is well-formed", requires(ED& v, S s) { v *= s; }, requires(SD& v, S s) { v *= s; }},
            {"d/=s is well-formed", requires(ED& v, S s) { v /= s; }, requires(SD& v, S s) { v /= s; }},
            {"d%=s is well-formed", x.epresent[O_MODEQ], x.spresent[O_MODEQ]},
            {"decltype(d*=s) is duration&", LREF(std::declval<ED&>() *= std::declval<S const&>(), ED), LREF(std::declval<SD&>() *= std::declval<S const&>(), SD)},
            {"decltype(d/=s) is duration&", LREF(std::declval<ED&>() /= std::declval<S const&>(), ED), LREF(std::declval<SD&>() /= std::declval<S const&>(), SD)},
            // the free operators: where tetl declares them the result representation must be common_type<Rep, S> as in std
            {"rep of d*s, s*d, d/s, d%s is common_type<Rep,S>", free_rep_ok<ED, S, CR>(), free_rep_ok<SD, S, CR>()},
        };
#undef LREF
        return x;
    }();
    return d;
}

// ------------------------------------------------------------------ driver (ordinary code)
bool integral_value(ld v) { return std::truncl(v) == v; }

void run_cell(Desc const& D, vf::Case& cs)
{
    std::uint64_t const h0 = vf::fnv(D.subj);
    bool const random      = !cs.enumerated;
    if (!random) {
        for (Fact const& f : D.facts) {
            vf::crumb(D.subj, f.what, "type-level", "compile-time boolean");
            vf::cover("type-level", vf::mix(h0, vf::fnv(f.what)), true);
            vf::eq_bool("value", f.e, f.s);
        }
    }
    // ---- counts
    std::vector<ld> counts;
    auto addc = [&](ld v) {
        if (v >= D.rep_lo && v <= D.rep_hi) { counts.push_back(v); }
    };
    if (random) {
        for (int i = 0; i < 48; ++i) {
            ld mag = (ld)(cs.rng.next() >> cs.rng.below(64));
            addc(cs.rng.coin() ? mag : -mag);
        }
        for (int i = 0; i < 16; ++i) { addc((ld)cs.rng.range(-5000, 5000)); }
    } else {
        int const dense = cs.tier == vf::Tier::thorough ? 300 : 40;
        for (int k = -dense; k <= dense; ++k) { addc(k); }
        ld const more[] = {-2000, -1001, -1000, -999, 999, 1000, 1001, 2000, 32767, -32768, 65535, 65536, 2147483647.0L, -2147483648.0L, 4294967295.0L,
            4294967296.0L, 4611686018427387904.0L, -4611686018427387904.0L, 9223372036854775807.0L, -9223372036854775807.0L - 1};
        for (ld m : more) {
            addc(m);
            addc(m / 2);
            addc(std::truncl(m / 3));
            addc(std::truncl(m / 7));
        }
        if (D.rep_float) {
            ld const fr[] = {0.5L, -0.5L, 1.25L, -7.75L, 1000.125L};
            for (ld f : fr) { addc(f); }
        }
    }
    // ---- scalar values (every one exactly representable in S)
    std::vector<ld> svals;
    auto adds = [&](ld v) {
        if (D.s_bool) { v = v != 0 ? 1 : 0; }
        if (v < D.s_lo || v > D.s_hi) { return; }
        if (!D.s_float && !integral_value(v)) { return; }
        v = D.to_scalar(v); // exactly the value the scalar type holds (f32 cannot hold every 64-bit integer)
        for (ld o : svals) {
            if (o == v) { return; }
        }
        svals.push_back(v);
    };
    if (random) {
        for (int i = 0; i < 6; ++i) { adds((ld)cs.rng.range(-300, 300)); }
        adds((ld)(cs.rng.next() >> cs.rng.below(64)));
        if (D.s_float) { adds((ld)cs.rng.range(-4000, 4000) / 8); }
    } else {
        ld const sv[] = {-100, -7, -3, -2, -1, 0, 1, 2, 3, 7, 10, 100, 1000};
        for (ld v : sv) { adds(v); }
        adds(D.s_hi > 1e30L ? 1e6L : D.s_hi);
        adds(D.s_lo < -1e30L ? -1e6L : D.s_lo);
        if (D.s_float) {
            ld const fr[] = {0.5L, 1.5L, 2.5L, -2.5L, 3.75L, 0.25L, 1000.25L, -0.75L};
            for (ld f : fr) { adds(f); }
        }
    }

    for (ld c : counts) {
        for (ld s : svals) {
            // ---- the conversion the standard prescribes for the members: scalar -> rep
            ld r = 0;
            bool conv_ok;
            if (D.rep_float) {
                r       = D.rep_hi < 1e39L ? (ld)(float)s : (ld)(double)s;
                conv_ok = true;
            } else {
                r       = std::truncl(s); // floating -> integer truncates; integers: must be value-preserving
                conv_ok = r >= D.rep_lo && r <= D.rep_hi;
            }
            char args[96];
            std::snprintf(args, sizeof args, "count=%.21Lg scalar=%.21Lg", c, s);
            char sit[96];
            std::snprintf(sit, sizeof sit, "%s,count-%s,scalar-%s%s", D.scalar_class, c < 0 ? "neg" : (c == 0 ? "zero" : "pos"), s < 0 ? "neg" : (s == 0 ? "zero" : "pos"),
                (D.s_float && !D.rep_float && !integral_value(s)) ? ",fractional(truncates-to-rep)" : "");
            std::uint64_t const h = vf::mix(h0, vf::mix(vf::fnv_bytes(&c, 10), vf::fnv_bytes(&s, 10) + 17)); // 10 value bytes of an x87 long double
            auto cmp = [&](Op op, bool has_exact, ld exact) {
                ld const sv_ = D.s[op](c, s);
                if (has_exact && sv_ != exact) {
                    vf::crumb("oracle", kOpName[op], "std-vs-exact", "%s %s", D.subj, args);
                    char o[64], e[64];
                    std::snprintf(o, sizeof o, "std=%.21Lg", sv_);
                    std::snprintf(e, sizeof e, "exact=%.21Lg", exact);
                    vf::diverge("oracles-disagree", o, e);
                }
                vf::crumb(D.subj, kOpName[op], sit, "%s", args);
                ld const ev = D.e[op](c, s);
                vf::cover(kOpName[op], h, true);
                if (ev != sv_ && !(std::isnan(ev) && std::isnan(sv_))) {
                    char o[64], e[64];
                    std::snprintf(o, sizeof o, "%.21Lg", ev);
                    std::snprintf(e, sizeof e, "%.21Lg", sv_);
                    ld const dlt = ev - sv_;
                    char sym[48];
                    std::snprintf(sym, sizeof sym, "count:%s", dlt == 1 ? "+1" : (dlt == -1 ? "-1" : (ev == 0 ? "zero" : (dlt > 0 ? "greater" : "less"))));
                    vf::diverge(sym, o, e);
                }
            };
            if (conv_ok) {
                if (D.rep_float) {
                    // same single floating operation in both libraries: bit-identical results required
                    cmp(O_MULEQ, false, 0);
                    if (r != 0) { cmp(O_DIVEQ, false, 0); }
                    if (r != 0) { cmp(O_CHAIN, false, 0); }
                    if (r != 0) { cmp(O_IDENT, true, 7); }
                } else {
                    i128 const ci = (i128)c, ri = (i128)r;
                    i128 pi = 0;
                    bool const pi_fits = !__builtin_mul_overflow(ci, ri, &pi); // both factors can be close to 2^64
                    bool const prod_ok = pi_fits && (ld)pi >= D.rep_lo && (ld)pi <= D.rep_hi && (pi <= ((i128)1 << 64)) && (pi >= -((i128)1 << 64));
                    if (prod_ok) { cmp(O_MULEQ, true, (ld)pi); }
                    bool const div_ok = ri != 0 && (ld)(ci / (ri == 0 ? 1 : ri)) <= D.rep_hi && (ld)(ci / (ri == 0 ? 1 : ri)) >= D.rep_lo;
                    if (div_ok) {
                        cmp(O_DIVEQ, true, (ld)(ci / ri));
                        if (D.modeq) { cmp(O_MODEQ, true, (ld)(ci % ri)); }
                    }
                    if (prod_ok && ri != 0) {
                        cmp(O_CHAIN, true, (ld)ci);
                        cmp(O_IDENT, true, 7);
                    }
                }
            }
            // ---- free operators (computed in common_type<Rep, S>), only where tetl declares them
            for (int op = O_MUL_DS; op <= O_MOD_DS; ++op) {
                if (!D.epresent[op] || !D.spresent[op]) { continue; }
                if (D.cr_float) {
                    if (op == O_MOD_DS) { continue; }
                    if (op == O_DIV_DS && s == 0) { continue; }
                    cmp((Op)op, false, 0);
                } else {
                    // integral common type: both operands must be value-preserved in it and the exact result representable
                    if (c < D.cr_lo || c > D.cr_hi || s < D.cr_lo || s > D.cr_hi) { continue; }
                    i128 const ci = (i128)c, si = (i128)s;
                    if ((op == O_DIV_DS || op == O_MOD_DS) && si == 0) { continue; }
                    i128 prod = 0;
                    if (op != O_DIV_DS && op != O_MOD_DS && __builtin_mul_overflow(ci, si, &prod)) { continue; } // both factors can be close to 2^64
                    i128 const res = op == O_DIV_DS ? ci / si : (op == O_MOD_DS ? ci % si : prod);
                    if ((ld)res < D.cr_lo || (ld)res > D.cr_hi || res > ((i128)1 << 64) || res < -((i128)1 << 64)) { continue; }
                    if ((op == O_DIV_DS || op == O_MOD_DS) && ((ld)(ci / si) < D.cr_lo || (ld)(ci / si) > D.cr_hi)) { continue; } // INT_MIN / -1 and INT_MIN % -1
                    cmp((Op)op, true, (ld)res);
                }
            }
        }
    }
    if (vf::want_sample("scalar-cell")) { vf::sample("scalar-cell", "%s [%s]: %zu counts x %zu scalar values x {*=, /=, %%=, identity, chain}", D.subj, D.scalar_class, counts.size(), svals.size()); }
}

// ------------------------------------------------------------------ cell table
using CellFn = void (*)(vf::Case&);
template <typename Rep, typename S> void cell(vf::Case& c) { run_cell(desc<Rep, S>(), c); }
template <typename Rep> void add_rep(std::vector<CellFn>& v)
{
    v.push_back(&cell<Rep, bool>);
    v.push_back(&cell<Rep, signed char>);
    v.push_back(&cell<Rep, unsigned char>);
    v.push_back(&cell<Rep, short>);
    v.push_back(&cell<Rep, unsigned short>);
    v.push_back(&cell<Rep, int>);
    v.push_back(&cell<Rep, unsigned>);
    v.push_back(&cell<Rep, long>);
    v.push_back(&cell<Rep, unsigned long>);
    v.push_back(&cell<Rep, float>);
    v.push_back(&cell<Rep, double>);
    v.push_back(&cell<Rep, long double>);
}
std::vector<CellFn> const& table()
{
    static std::vector<CellFn> v = [] {
        std::vector<CellFn> r;
        add_rep<short>(r);
        add_rep<int>(r);
        add_rep<long>(r);
        add_rep<unsigned>(r);
        add_rep<unsigned long>(r);
        add_rep<float>(r);
        add_rep<double>(r);
        return r;
    }();
    return v;
}

vf::Spec spec(vf::Tier t)
{
    vf::Spec s;
    s.n_enum     = table().size();
    s.n_random   = (t == vf::Tier::thorough ? 20 : 3) * table().size();
    s.batch      = 2;
    s.timeout_s  = 300;
    s.exhaustive = true;
    return s;
}
void run_case(vf::Case& c) { table()[c.index % table().size()](c); }
} // namespace

VF_MAIN("C12", "C12_scalar", spec, run_case)
