// C13_het.cpp - HETEROGENEOUS element / value types and heterogeneous element ranges.
// Run-time-only fast paths behind is_constant_evaluated() typically dispatch on type conditions such as "pointer to a
// byte-sized integer and any integral value" (memchr), "both ranges byte-sized" (memcmp) or "trivially copyable"
// (memcpy).  They agree with the portable loop only while the VALUE is representable in the element type / while both
// element types have the same value for the same byte.  The tables therefore pair byte-sized element ranges
//   -DC13_HEL=0 unsigned char   1 signed char   2 char8_t   3 bool
// (a) with searched / assigned values of int, unsigned, long long, short, unsigned char, signed char and double that
//     are out of the element range while their LOW BYTE matches an element (0x141 vs 0x41, 0xE9 (233) vs (signed char)-23,
//     2^32 + 0x20 vs 0x20, -191 vs 0x41, 257 vs true) in find, count, search_n, remove(_copy), replace, fill(_n),
//     lower/upper_bound, equal_range, binary_search;
// (b) with a second range of another element type holding the same BYTES (value differs: (signed char)-23 vs
//     (unsigned char)0xE9, zero-extended int) or the same VALUES, in equal, mismatch, search, find_end, find_first_of,
//     lexicographical_compare, is_permutation and the converting copy / copy_n / copy_backward / move.
#include "vf.hpp"
#include "vf_contract.hpp"

#include "vf_c13.hpp"

#include <etl/algorithm.hpp>
#include <etl/functional.hpp>
#include <etl/iterator.hpp>
#include <etl/utility.hpp>

#ifndef C13_HEL
    #define C13_HEL 0
#endif

namespace {
using namespace c13;

#if C13_HEL == 0
using EL                    = unsigned char;
constexpr char const* elname = "unsigned char";
#elif C13_HEL == 1
using EL                    = signed char;
constexpr char const* elname = "signed char";
#elif C13_HEL == 2
using EL                    = char8_t;
constexpr char const* elname = "char8_t";
#else
using EL                    = bool;
constexpr char const* elname = "bool";
#endif
constexpr bool el_is_bool = std::is_same_v<EL, bool>;

template <typename T>
constexpr char const* tname()
{
    if constexpr (std::is_same_v<T, int>) { return "int"; }
    else if constexpr (std::is_same_v<T, unsigned>) { return "unsigned"; }
    else if constexpr (std::is_same_v<T, long long>) { return "long long"; }
    else if constexpr (std::is_same_v<T, short>) { return "short"; }
    else if constexpr (std::is_same_v<T, unsigned char>) { return "unsigned char"; }
    else if constexpr (std::is_same_v<T, signed char>) { return "signed char"; }
    else if constexpr (std::is_same_v<T, char8_t>) { return "char8_t"; }
    else if constexpr (std::is_same_v<T, bool>) { return "bool"; }
    else { return "double"; }
}

struct HArg {
    EL a[8];
    long long v; // the value, converted to the value type V by the functor (rows where it does not fit V are skipped)
    int n;
    int row;
    int bvar; // second range: 0 same bytes, 1 same values (modular where not representable), 2 same bytes but last differs
};
constexpr unsigned char byte_rows[2][8] = {
    {0x41, 0xE9, 0x20, 0x00, 0xFF, 0x80, 0x7F, 0x01}, // one of each
    {0x20, 0x20, 0x41, 0x41, 0xE9, 0xE9, 0xE9, 0x00}, // runs
};
constexpr unsigned char bool_rows[2][8] = {
    {1, 0, 1, 1, 0, 0, 1, 0},
    {1, 1, 1, 1, 1, 1, 1, 1},
};
constexpr char const* row_names[] = {"mixed", "runs"};
constexpr long long values[]      = {0, 1, 2, 0x20, 0x41, 0x7F, 0x80, 0xE9, 0xFF, 0x100, 0x101, 0x120, 0x141, 0x1E9, 0x1FF, 257, 65536 + 0x41, -1, -23, -128, -129, -191, -224,
    (1LL << 32) + 0x20, (1LL << 32) + 0xE9, (1LL << 32) + 1, -(1LL << 32) + 0x41};
constexpr int ns[]                = {0, 1, 3, 8};
template <typename T = EL>
constexpr T from_byte(unsigned char b)
{
    if constexpr (std::is_same_v<T, bool>) {
        return b != 0;
    } else {
        return static_cast<T>(b); // modular: 0xE9 -> -23 for signed char
    }
}
constexpr auto build_table()
{
    constexpr std::size_t NV = sizeof values / sizeof values[0];
    std::array<HArg, 2 * 4 * NV * 3> t{};
    std::size_t o = 0;
    for (int r = 0; r < 2; ++r) {
        for (int n : ns) {
            for (long long v : values) {
                for (int bv = 0; bv < 3; ++bv) {
                    HArg p{};
                    for (int i = 0; i < 8; ++i) { p.a[i] = from_byte(el_is_bool ? bool_rows[r][i] : byte_rows[r][i]); }
                    p.v    = v;
                    p.n    = n;
                    p.row  = r;
                    p.bvar = bv;
                    t[o++] = p;
                }
            }
        }
    }
    return t;
}
inline constexpr auto tabH = build_table();

template <typename V>
constexpr bool fits_v(long long v)
{
    if constexpr (std::is_same_v<V, double>) {
        return true; // every table value is exactly representable
    } else if constexpr (std::is_same_v<V, bool>) {
        return v == 0 || v == 1;
    } else {
        return static_cast<__int128>(v) >= static_cast<__int128>(std::numeric_limits<V>::min())
            && static_cast<__int128>(v) <= static_cast<__int128>(std::numeric_limits<V>::max());
    }
}

template <typename V>
struct ClsV {
    static char const* sit(HArg const& p)
    {
        static char buf[120];
        bool const in_range = el_is_bool ? (p.v == 0 || p.v == 1) : fits_v<EL>(p.v);
        bool byte_match = false, value_match = false;
        V const val = static_cast<V>(p.v);
        for (int i = 0; i < p.n; ++i) {
            byte_match |= static_cast<unsigned char>(p.a[i]) == static_cast<unsigned char>(p.v);
            value_match |= (p.a[i] == val);
        }
        std::snprintf(buf, sizeof buf, "%s,%s,%s,%s", row_names[p.row], p.n == 0 ? "n=0" : p.n == 1 ? "n=1" : p.n == 8 ? "n=8" : "n=3",
            in_range ? "value-representable-in-element" : (byte_match ? "value-out-of-range+low-byte-matches-an-element" : "value-out-of-range+low-byte-absent"),
            value_match ? "present" : "absent");
        return buf;
    }
    static std::string show(HArg const& p)
    {
        std::string s = "a={";
        for (int i = 0; i < p.n; ++i) { s += (i ? "," : "") + std::to_string(static_cast<long long>(p.a[i])); }
        return s + "} value=" + std::to_string(p.v);
    }
    static std::uint64_t hash(HArg const& p) { return vf::mix(vf::mix(vf::mix((std::uint64_t)p.row, (std::uint64_t)p.n), (std::uint64_t)p.v), 77); }
    static void const* arg0(HArg const&) { return nullptr; }
};
struct ClsR {
    static char const* sit(HArg const& p)
    {
        static char buf[96];
        constexpr char const* bn[] = {"b=same-bytes", "b=same-values", "b=same-bytes-last-differs"};
        std::snprintf(buf, sizeof buf, "%s,%s,%s", row_names[p.row], p.n == 0 ? "n=0" : p.n == 1 ? "n=1" : p.n == 8 ? "n=8" : "n=3", bn[p.bvar]);
        return buf;
    }
    static std::string show(HArg const& p)
    {
        std::string s = "a={";
        for (int i = 0; i < p.n; ++i) { s += (i ? "," : "") + std::to_string(static_cast<long long>(p.a[i])); }
        return s + "} bvar=" + std::to_string(p.bvar);
    }
    static std::uint64_t hash(HArg const& p) { return vf::mix(vf::mix((std::uint64_t)p.row, (std::uint64_t)p.n), (std::uint64_t)p.bvar + 1000); }
    static void const* arg0(HArg const&) { return nullptr; }
};

struct Acc {
    std::uint64_t h = 0xcbf29ce484222325ull;
    constexpr void add(long long v) { h = (h ^ static_cast<std::uint64_t>(v)) * 0x100000001b3ull + 0x9E37ull; }
    template <typename It>
    constexpr void range(It f, It l)
    {
        add(0x7777);
        for (; f != l; ++f) { add(static_cast<long long>(*f)); }
    }
};
using D2 = Digest<2>;

// ------------------------------------------------------------------ (a) heterogeneous value
// the value kernels only use bvar == 0 rows (the second range is irrelevant for them)
template <typename V>
struct K_search {
    static constexpr char const* name = "find/count/search_n";
    static bool in_domain(HArg const& p) { return p.bvar == 0 && fits_v<V>(p.v); }
    constexpr auto operator()(HArg const& p) const
    {
        if (!(p.bvar == 0 && fits_v<V>(p.v))) { return D2{}; }
        V const val       = static_cast<V>(p.v);
        EL va[8]          = {p.a[0], p.a[1], p.a[2], p.a[3], p.a[4], p.a[5], p.a[6], p.a[7]};
        EL const* const c = p.a;
        int const n       = p.n;
        long long ret     = (etl::find(c, c + n, val) - c);
        ret               = ret * 10 + (etl::find(va, va + n, val) - va);
        ret               = ret * 10 + etl::count(c, c + n, val);
        ret               = ret * 10 + (etl::search_n(c, c + n, 1, val) - c);
        ret               = ret * 10 + (etl::search_n(va, va + n, 2, val) - va);
        ret               = ret * 10 + (etl::find_if(c, c + n, [val](EL x) { return x == val; }) - c);
        return D2{{0, static_cast<std::uint64_t>(ret)}};
    }
};
template <typename V>
struct K_modify {
    static constexpr char const* name = "remove/remove_copy/replace/fill/fill_n";
    // fill assigns the value: integral -> element is modular / boolean and well defined; a floating value outside the
    // element range would be undefined behaviour, so those rows are out of the domain
    static constexpr bool dom(HArg const& p)
    {
        return p.bvar == 0 && fits_v<V>(p.v) && (!std::is_floating_point_v<V> || el_is_bool || fits_v<EL>(p.v));
    }
    static bool in_domain(HArg const& p) { return dom(p); }
    constexpr auto operator()(HArg const& p) const
    {
        if (!dom(p)) { return D2{}; }
        V const val       = static_cast<V>(p.v);
        EL const* const c = p.a;
        int const n       = p.n;
        Acc acc;
        EL w[8]{};
        auto r1 = etl::remove_copy(c, c + n, w, val);
        acc.range(w, r1);
        EL v1[8] = {p.a[0], p.a[1], p.a[2], p.a[3], p.a[4], p.a[5], p.a[6], p.a[7]};
        auto r2  = etl::remove(v1, v1 + n, val);
        acc.range(v1, r2);
        EL v2[8] = {p.a[0], p.a[1], p.a[2], p.a[3], p.a[4], p.a[5], p.a[6], p.a[7]};
        etl::replace(v2, v2 + n, val, static_cast<V>(p.a[7])); // std signature: old and new value share one type
        acc.range(v2, v2 + 8);
        EL v3[8] = {p.a[0], p.a[1], p.a[2], p.a[3], p.a[4], p.a[5], p.a[6], p.a[7]};
        etl::fill(v3, v3 + n, val); // *first = value: modular / boolean conversion, well defined
        acc.range(v3, v3 + 8);
        EL v4[8]{};
        auto f = etl::fill_n(v4, n, val);
        acc.range(v4, v4 + 8);
        return D2{{acc.h, static_cast<std::uint64_t>((r1 - w) * 100 + (r2 - v1) * 10 + (f - v4))}};
    }
};
template <typename V>
struct K_bounds {
    static constexpr char const* name = "lower_bound/upper_bound/equal_range/binary_search";
    // the sorted range must be partitioned with respect to `e < value` and `!(value < e)` evaluated with the usual
    // arithmetic conversions (signed element vs unsigned value is not monotone): decided with the very expressions
    static constexpr bool partitioned(HArg const& p)
    {
        if (!(p.bvar == 0 && fits_v<V>(p.v))) { return false; }
        V const val = static_cast<V>(p.v);
        EL s[8]     = {p.a[0], p.a[1], p.a[2], p.a[3], p.a[4], p.a[5], p.a[6], p.a[7]};
        for (int i = 1; i < p.n; ++i) { // insertion sort, harness side
            for (int j = i; j > 0 && s[j] < s[j - 1]; --j) {
                EL t     = s[j];
                s[j]     = s[j - 1];
                s[j - 1] = t;
            }
        }
        bool seen_not_less = false, seen_greater = false;
        for (int i = 0; i < p.n; ++i) {
            bool const less    = s[i] < val;
            bool const greater = val < s[i];
            if (less && greater) { return false; }
            if (!less) { seen_not_less = true; }
            if (less && seen_not_less) { return false; }
            if (greater) { seen_greater = true; }
            if (!greater && seen_greater) { return false; }
        }
        return true;
    }
    static bool in_domain(HArg const& p) { return partitioned(p); }
    constexpr auto operator()(HArg const& p) const
    {
        if (!partitioned(p)) { return D2{}; }
        V const val = static_cast<V>(p.v);
        EL s[8]     = {p.a[0], p.a[1], p.a[2], p.a[3], p.a[4], p.a[5], p.a[6], p.a[7]};
        int const n = p.n;
        etl::stable_sort(s, s + n);
        auto er       = etl::equal_range(s, s + n, val);
        long long ret = (etl::lower_bound(s, s + n, val) - s) * 1000 + (etl::upper_bound(s, s + n, val) - s) * 100 + (er.first - s) * 10 + (er.second - s);
        ret           = ret * 2 + (etl::binary_search(s, s + n, val) ? 1 : 0);
        return D2{{0, static_cast<std::uint64_t>(ret)}};
    }
};

// ------------------------------------------------------------------ (b) heterogeneous ranges
template <typename E2>
constexpr E2 second(EL x, int bvar, bool last)
{
    E2 r{};
    if (bvar == 1) {
        r = static_cast<E2>(x); // same value where representable
    } else {
        r = from_byte<E2>(static_cast<unsigned char>(x)); // same byte (zero-extended for a wider E2)
    }
    if (bvar == 2 && last) { r = static_cast<E2>(r == E2{} ? E2(1) : E2{}); }
    return r;
}
template <typename E2>
struct K_ranges {
    static constexpr char const* name = "equal/mismatch/search/find_end/find_first_of/lexicographical_compare/is_permutation";
    constexpr auto operator()(HArg const& p) const
    {
        int const n = p.n;
        int const m = n < 2 ? n : 2;
        E2 b[8]{};
        for (int i = 0; i < 8; ++i) { b[i] = second<E2>(p.a[i], p.bvar, i == n - 1); }
        EL const* const c  = p.a;
        E2 const* const c2 = b;
        EL va[8]           = {p.a[0], p.a[1], p.a[2], p.a[3], p.a[4], p.a[5], p.a[6], p.a[7]};
        long long ret = (etl::equal(c, c + n, c2) ? 1 : 0) | (etl::equal(va, va + n, b) ? 2 : 0) | (etl::equal(c, c + n, c2, c2 + n) ? 4 : 0) | (etl::equal(c2, c2 + n, c) ? 8 : 0)
                      | (etl::lexicographical_compare(c, c + n, c2, c2 + n) ? 16 : 0) | (etl::lexicographical_compare(c2, c2 + n, c, c + n) ? 32 : 0)
                      | (etl::is_permutation(c, c + n, c2) ? 64 : 0) | (etl::lexicographical_compare(va, va + n, b, b + m) ? 128 : 0);
        auto m3 = etl::mismatch(c, c + n, c2);
        auto m4 = etl::mismatch(c2, c2 + n, c, c + n);
        Acc acc;
        acc.add(m3.first - c);
        acc.add(m4.first - c2);
        acc.add(etl::search(c, c + n, c2 + (n - m), c2 + n) - c);
        acc.add(etl::find_end(c, c + n, c2, c2 + m) - c);
        acc.add(etl::find_first_of(c, c + n, c2 + (n - m), c2 + n) - c);
        acc.add(etl::search(c2, c2 + n, c, c + m) - c2);
        return D2{{acc.h, static_cast<std::uint64_t>(ret)}};
    }
};
template <typename E2>
struct K_convcopy {
    static constexpr char const* name = "copy/copy_n/copy_backward/move (converting)";
    constexpr auto operator()(HArg const& p) const
    {
        int const n        = p.n;
        EL const* const c  = p.a;
        EL va[8]           = {p.a[0], p.a[1], p.a[2], p.a[3], p.a[4], p.a[5], p.a[6], p.a[7]};
        E2 o1[8]{};
        E2 o2[8]{};
        E2 o3[8]{};
        E2 o4[8]{};
        Acc acc;
        long long ret = etl::copy(c, c + n, o1) - o1;
        ret           = ret * 10 + (etl::copy_n(va, n, o2) - o2);
        etl::copy_backward(c, c + n, o3 + 8);
        ret = ret * 10 + (etl::move(va, va + n, o4) - o4);
        acc.range(o1, o1 + 8);
        acc.range(o2, o2 + 8);
        acc.range(o3, o3 + 8);
        acc.range(o4, o4 + 8);
        // and back: E2 -> EL (bool <- byte: any non-zero value is true)
        E2 src[8]{};
        for (int i = 0; i < 8; ++i) { src[i] = second<E2>(p.a[i], p.bvar, i == n - 1); }
        EL back[8]{};
        ret = ret * 10 + (etl::copy(src, src + n, back) - back);
        acc.range(back, back + 8);
        return D2{{acc.h, static_cast<std::uint64_t>(ret)}};
    }
};

// ------------------------------------------------------------------ registry
template <typename K, typename Cls>
Entry entry_for(char const* other)
{
    return make_entry<K, tabH, Cls, 81>(std::string(K::name) + "<" + elname + "," + other + ">");
}
template <typename V>
void add_value(std::vector<Entry>& es)
{
    es.push_back(entry_for<K_search<V>, ClsV<V>>(tname<V>()));
    es.push_back(entry_for<K_modify<V>, ClsV<V>>(tname<V>()));
    es.push_back(entry_for<K_bounds<V>, ClsV<V>>(tname<V>()));
}
template <typename E2>
void add_range(std::vector<Entry>& es)
{
    if constexpr (!std::is_same_v<E2, EL>) {
        es.push_back(entry_for<K_ranges<E2>, ClsR>(tname<E2>()));
        es.push_back(entry_for<K_convcopy<E2>, ClsR>(tname<E2>()));
    }
}
std::vector<Entry> const& entries()
{
    static std::vector<Entry> const es = [] {
        std::vector<Entry> v;
        add_value<int>(v);
        add_value<unsigned>(v);
        add_value<long long>(v);
        add_value<short>(v);
        add_value<unsigned char>(v);
        add_value<signed char>(v);
        add_value<double>(v);
        add_range<unsigned char>(v);
        add_range<signed char>(v);
        add_range<int>(v);
        add_range<bool>(v);
        return v;
    }();
    return es;
}

vf::Spec spec(vf::Tier)
{
    vf::Spec s;
    s.n_enum     = total_cases(entries());
    s.n_random   = 0;
    s.batch      = 1;
    s.exhaustive = true;
    return s;
}
void run_case(vf::Case& c) { run_case_index(entries(), c.index); }

} // namespace

VF_MAIN("C13", "C13_het", spec, run_case)
