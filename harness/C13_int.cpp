// C13_int.cpp - twin tables for bit utilities, saturating / integer numeric utilities, integer comparison and
// <cctype>.  -DC13_W=8|16|32|64 (operand width) -DC13_GRP=0..5
//   0 bit unary     popcount countl_zero countl_one countr_zero countr_one bit_width bit_ceil bit_floor has_single_bit byteswap(u,s)
//   1 bit binary    rotl rotr set_bit reset_bit flip_bit test_bit
//   2 sat signed    add_sat div_sat
//   3 sat unsigned  add_sat div_sat
//   4 numeric       gcd lcm midpoint abs cmp_* in_range saturate_cast
//   5 cctype        (width ignored) isalnum ... toupper over EOF and all unsigned char values
// 8-bit operands: ALL values / ALL pairs.  Wider operands: boundary tables (2^k-1, 2^k, 2^k+1, complements, patterns, limits).
#include "vf.hpp"
#include "vf_contract.hpp"

#include "vf_c13.hpp"

#include <etl/bit.hpp>
#include <etl/cctype.hpp>
#include <etl/cstdlib.hpp>
#include <etl/numeric.hpp>
#include <etl/utility.hpp>

#include <climits>

#ifndef C13_W
    #define C13_W 8
#endif
#ifndef C13_GRP
    #define C13_GRP 0
#endif

namespace {
using namespace c13;

template <int W>
struct IntOf;
template <>
struct IntOf<8> {
    using U = unsigned char;
    using S = signed char;
};
template <>
struct IntOf<16> {
    using U = unsigned short;
    using S = short;
};
template <>
struct IntOf<32> {
    using U = unsigned int;
    using S = int;
};
template <>
struct IntOf<64> {
    using U = unsigned long long;
    using S = long long;
};
using U              = IntOf<C13_W>::U;
using S              = IntOf<C13_W>::S;
constexpr int W      = C13_W;
constexpr char const* uname = C13_W == 8 ? "uint8" : C13_W == 16 ? "uint16" : C13_W == 32 ? "uint32" : "uint64";
constexpr char const* sname = C13_W == 8 ? "int8" : C13_W == 16 ? "int16" : C13_W == 32 ? "int32" : "int64";

// ------------------------------------------------------------------ value axes
template <typename I, std::size_t CAP>
struct IBag {
    I v[CAP]{};
    std::size_t n = 0;
    constexpr void add(I x)
    {
        for (std::size_t i = 0; i < n; ++i) {
            if (v[i] == x) { return; }
        }
        v[n++] = x;
    }
};
// unsigned boundary values of width W (all 256 for W == 8)
constexpr auto build_u()
{
    IBag<U, 512> b;
    if constexpr (W == 8) {
        for (unsigned i = 0; i < 256; ++i) { b.add(static_cast<U>(i)); }
    } else {
        for (int k = 0; k < W; ++k) {
            U const p = static_cast<U>(U{1} << k);
            b.add(p);
            b.add(static_cast<U>(p - 1));
            b.add(static_cast<U>(p + 1));
            b.add(static_cast<U>(~p));
            b.add(static_cast<U>(~p + 1));
        }
        unsigned long long const pats[] = {0x5555555555555555ull, 0xAAAAAAAAAAAAAAAAull, 0x0F0F0F0F0F0F0F0Full, 0xF0F0F0F0F0F0F0F0ull,
            0x00FF00FF00FF00FFull, 0xFF00FF00FF00FF00ull, 0x0123456789ABCDEFull, 0xFEDCBA9876543210ull, 0x8000000000000001ull,
            0xDEADBEEFCAFEBABEull, 0x9E3779B97F4A7C15ull, 0x00000000FFFFFFFFull, 0xFFFFFFFF00000000ull, 0x0000FFFFFFFF0000ull};
        for (auto p : pats) {
            b.add(static_cast<U>(p));
            b.add(static_cast<U>(p >> 7));
            b.add(static_cast<U>(p >> 33));
        }
    }
    return b;
}
// smaller axis for the pair tables of wide operands (all 256 for W == 8)
constexpr auto build_u_small()
{
    if constexpr (W == 8 && C13_GRP != 4) {
        return build_u(); // all 256 x 256 pairs
    } else if constexpr (W == 8) {
        IBag<U, 512> b; // 64 x 64 pairs around 0, the sign boundary and the top
        for (unsigned i = 0; i < 16; ++i) { b.add(static_cast<U>(i)); }
        for (unsigned i = 112; i < 144; ++i) { b.add(static_cast<U>(i)); }
        for (unsigned i = 240; i < 256; ++i) { b.add(static_cast<U>(i)); }
        return b;
    } else {
        IBag<U, 512> b;
        U const top = static_cast<U>(U{1} << (W - 1));
        U const mx  = static_cast<U>(~U{0});
        U const vs[] = {0, 1, 2, 3, 5, 7, 10, 100, 127, 128, 255, static_cast<U>(256), static_cast<U>(top - 2), static_cast<U>(top - 1), top,
            static_cast<U>(top + 1), static_cast<U>(top + 2), static_cast<U>(mx - 2), static_cast<U>(mx - 1), mx, static_cast<U>(mx / 2),
            static_cast<U>(mx / 3), static_cast<U>(mx / 3 + 1), static_cast<U>(U{1} << (W / 2)), static_cast<U>((U{1} << (W / 2)) - 1),
            static_cast<U>((U{1} << (W / 2)) + 1), static_cast<U>(top / 2), static_cast<U>(top / 2 + 1), static_cast<U>(top + top / 2),
            static_cast<U>(0x5555555555555555ull), static_cast<U>(0xAAAAAAAAAAAAAAAAull), static_cast<U>(0xDEADBEEFCAFEBABEull)};
        for (U v : vs) { b.add(v); }
        return b;
    }
}

constexpr auto ubag  = build_u();
constexpr auto usbag = build_u_small();

template <typename I>
struct A1 {
    I x;
};
template <typename I, typename J = I>
struct A2 {
    I x;
    J y;
};

template <typename I>
constexpr auto unary_table()
{
    std::array<A1<I>, ubag.n> r{};
    for (std::size_t i = 0; i < ubag.n; ++i) { r[i].x = static_cast<I>(ubag.v[i]); }
    return r;
}
template <typename I, typename J = I>
constexpr auto pair_table()
{
    std::array<A2<I, J>, usbag.n * usbag.n> r{};
    for (std::size_t i = 0; i < usbag.n; ++i) {
        for (std::size_t j = 0; j < usbag.n; ++j) {
            r[i * usbag.n + j].x = static_cast<I>(usbag.v[i]);
            r[i * usbag.n + j].y = static_cast<J>(usbag.v[j]);
        }
    }
    return r;
}
constexpr int shifts[] = {INT_MIN, -2 * W, -W - 1, -W, -W + 1, -9, -8, -7, -1, 0, 1, 7, 8, 9, W - 1, W, W + 1, 2 * W, 2 * W + 3, INT_MAX};
constexpr auto shift_table()
{
    constexpr std::size_t NS = sizeof shifts / sizeof shifts[0];
    std::array<A2<U, int>, ubag.n * NS> r{};
    for (std::size_t i = 0; i < ubag.n; ++i) {
        for (std::size_t j = 0; j < NS; ++j) {
            r[i * NS + j].x = ubag.v[i];
            r[i * NS + j].y = shifts[j];
        }
    }
    return r;
}
constexpr auto pos_table()
{
    std::array<A2<U, U>, ubag.n * W> r{};
    for (std::size_t i = 0; i < ubag.n; ++i) {
        for (int j = 0; j < W; ++j) {
            r[i * W + j].x = ubag.v[i];
            r[i * W + j].y = static_cast<U>(j);
        }
    }
    return r;
}
constexpr auto ctype_table()
{
    std::array<A1<int>, 257> r{};
    r[0].x = -1; // EOF
    for (int i = 0; i < 256; ++i) { r[i + 1].x = i; }
    return r;
}

// only the tables of the selected group are materialised (a 65536-entry table costs seconds of constant evaluation)
#if C13_GRP == 0 || C13_GRP == 4
inline constexpr auto tabU = unary_table<U>();
inline constexpr auto tabS = unary_table<S>();
#endif
#if C13_GRP == 3 || C13_GRP == 4
inline constexpr auto tabUU = pair_table<U>();
#endif
#if C13_GRP == 2 || C13_GRP == 4
inline constexpr auto tabSS = pair_table<S>();
#endif
#if C13_GRP == 4
inline constexpr auto tabSU = pair_table<S, U>();
inline constexpr auto tabUS = pair_table<U, S>();
#endif
#if C13_GRP == 1
inline constexpr auto tabSh  = shift_table();
inline constexpr auto tabPos = pos_table();
#endif
#if C13_GRP == 5
inline constexpr auto tabC = ctype_table();
#endif

// ------------------------------------------------------------------ argument classes
template <typename I>
inline char const* int_class(I x)
{
    using L = std::numeric_limits<I>;
    if (x == 0) { return "0"; }
    if constexpr (std::is_signed_v<I>) {
        if (x == L::min()) { return "min"; }
        if (x == -1) { return "-1"; }
        if (x < 0) { return "neg"; }
    }
    if (x == L::max()) { return "max"; }
    if (x == 1) { return "1"; }
    using UI = std::make_unsigned_t<I>;
    UI const u = static_cast<UI>(x);
    if ((u & (u - 1)) == 0) { return "pow2"; }
    if (((u + 1) & u) == 0) { return "pow2-1"; }
    return "pos";
}
template <typename I>
inline std::string int_show(I x)
{
    if constexpr (std::is_signed_v<I>) {
        return std::to_string((long long)x);
    } else {
        return std::to_string((unsigned long long)x);
    }
}
struct ClsI1 {
    template <typename I>
    static char const* sit(A1<I> const& a)
    {
        return int_class(a.x);
    }
    template <typename I>
    static std::string show(A1<I> const& a)
    {
        return int_show(a.x);
    }
    template <typename I>
    static std::uint64_t hash(A1<I> const& a)
    {
        return vf::mix(0x11, (std::uint64_t)a.x);
    }
    template <typename I>
    static I const* arg0(A1<I> const& a)
    {
        return &a.x;
    }
};
struct ClsI2 {
    template <typename I, typename J>
    static char const* sit(A2<I, J> const& a)
    {
        static char buf[48];
        std::snprintf(buf, sizeof buf, "%s,%s", int_class(a.x), int_class(a.y));
        return buf;
    }
    template <typename I, typename J>
    static std::string show(A2<I, J> const& a)
    {
        return int_show(a.x) + ", " + int_show(a.y);
    }
    template <typename I, typename J>
    static std::uint64_t hash(A2<I, J> const& a)
    {
        return vf::mix((std::uint64_t)a.x, (std::uint64_t)a.y);
    }
    template <typename I, typename J>
    static I const* arg0(A2<I, J> const& a)
    {
        return &a.x;
    }
};
struct ClsShift {
    static char const* sit(A2<U, int> const& a)
    {
        static char buf[48];
        int const s    = a.y;
        char const* sc = s == 0 ? "s=0" : s == INT_MIN ? "s=INT_MIN" : s == INT_MAX ? "s=INT_MAX" : (s % W == 0) ? "s=k*width"
                       : s < -W                        ? "s<-width"
                       : s < 0                         ? "-width<s<0"
                       : s < W                         ? "0<s<width"
                                                       : "s>width";
        std::snprintf(buf, sizeof buf, "%s,%s", int_class(a.x), sc);
        return buf;
    }
    static std::string show(A2<U, int> const& a) { return int_show(a.x) + ", " + int_show(a.y); }
    static std::uint64_t hash(A2<U, int> const& a) { return vf::mix((std::uint64_t)a.x, (std::uint64_t)(unsigned)a.y); }
    static U const* arg0(A2<U, int> const& a) { return &a.x; }
};
struct ClsPos {
    static char const* sit(A2<U, U> const& a)
    {
        static char buf[48];
        std::snprintf(buf, sizeof buf, "%s,%s", int_class(a.x), a.y == 0 ? "pos=0" : a.y == W - 1 ? "pos=width-1" : "pos=mid");
        return buf;
    }
    static std::string show(A2<U, U> const& a) { return int_show(a.x) + ", " + int_show(a.y); }
    static std::uint64_t hash(A2<U, U> const& a) { return vf::mix((std::uint64_t)a.x, (std::uint64_t)a.y); }
    static U const* arg0(A2<U, U> const& a) { return &a.x; }
};
struct ClsC {
    static char const* sit(A1<int> const& a)
    {
        int const c = a.x;
        if (c == -1) { return "EOF"; }
        if (c >= 0x80) { return "high(>=0x80)"; }
        if (c < 0x20 || c == 0x7f) { return "control"; }
        if (c >= '0' && c <= '9') { return "digit"; }
        if (c >= 'a' && c <= 'z') { return "lower"; }
        if (c >= 'A' && c <= 'Z') { return "upper"; }
        if (c == ' ') { return "space"; }
        return "punct";
    }
    static std::string show(A1<int> const& a) { return int_show(a.x); }
    static std::uint64_t hash(A1<int> const& a) { return vf::mix(0xc7, (std::uint64_t)(unsigned)a.x); }
    static int const* arg0(A1<int> const& a) { return &a.x; }
};

// ------------------------------------------------------------------ functions
#define FN1(ID, I, CALL)                                                                                               \
    struct ID {                                                                                                        \
        static constexpr char const* name = #CALL;                                                                     \
        constexpr auto operator()(A1<I> const& p) const { return etl::CALL(p.x); }                                     \
    };
#define FN2(ID, I, J, CALL)                                                                                            \
    struct ID {                                                                                                        \
        static constexpr char const* name = #CALL;                                                                     \
        constexpr auto operator()(A2<I, J> const& p) const { return etl::CALL(p.x, p.y); }                             \
    };

FN1(F_popcount, U, popcount)
FN1(F_countl_zero, U, countl_zero)
FN1(F_countl_one, U, countl_one)
FN1(F_countr_zero, U, countr_zero)
FN1(F_countr_one, U, countr_one)
FN1(F_bit_width, U, bit_width)
FN1(F_bit_floor, U, bit_floor)
FN1(F_has_single_bit, U, has_single_bit)
FN1(F_byteswap_u, U, byteswap)
FN1(F_byteswap_s, S, byteswap)
struct F_bit_ceil {
    static constexpr char const* name = "bit_ceil";
    // domain: the result is representable
    static bool in_domain(A1<U> const& p) { return p.x <= static_cast<U>(U{1} << (W - 1)); }
    constexpr auto operator()(A1<U> const& p) const { return etl::bit_ceil(p.x); }
};

FN2(F_rotl, U, int, rotl)
FN2(F_rotr, U, int, rotr)
FN2(F_set_bit, U, U, set_bit)
FN2(F_reset_bit, U, U, reset_bit)
FN2(F_flip_bit, U, U, flip_bit)
FN2(F_test_bit, U, U, test_bit)

FN2(F_add_sat_s, S, S, add_sat)
FN2(F_add_sat_u, U, U, add_sat)
struct F_div_sat_s {
    static constexpr char const* name = "div_sat";
    static bool in_domain(A2<S, S> const& p) { return p.y != 0; }
    constexpr auto operator()(A2<S, S> const& p) const { return etl::div_sat(p.x, p.y); }
};
struct F_div_sat_u {
    static constexpr char const* name = "div_sat";
    static bool in_domain(A2<U, U> const& p) { return p.y != 0; }
    constexpr auto operator()(A2<U, U> const& p) const { return etl::div_sat(p.x, p.y); }
};

// gcd / lcm: domain per [numeric.ops.gcd]/[numeric.ops.lcm]: |m|, |n| representable in the common type, lcm representable
template <typename I>
inline bool abs_ok(I v)
{
    return !std::is_signed_v<I> || v != std::numeric_limits<I>::min();
}
struct F_gcd_s {
    static constexpr char const* name = "gcd";
    static bool in_domain(A2<S, S> const& p) { return abs_ok(p.x) && abs_ok(p.y); }
    constexpr auto operator()(A2<S, S> const& p) const { return etl::gcd(p.x, p.y); }
};
struct F_gcd_u {
    static constexpr char const* name = "gcd";
    constexpr auto operator()(A2<U, U> const& p) const { return etl::gcd(p.x, p.y); }
};
template <typename I>
inline bool lcm_ok(I a, I b)
{
    if (!abs_ok(a) || !abs_ok(b)) { return false; }
    using W2 = unsigned __int128; // |a| / gcd * |b| < 2^128 for 64-bit operands
    W2 x = a < 0 ? W2(0) - (W2)(__int128)a : (W2)a, y = b < 0 ? W2(0) - (W2)(__int128)b : (W2)b;
    if (x == 0 || y == 0) { return true; }
    W2 g = x, h = y;
    while (h != 0) {
        W2 t = g % h;
        g    = h;
        h    = t;
    }
    using CT = std::common_type_t<I, I>;
    return x / g * y <= (W2)std::numeric_limits<CT>::max();
}
struct F_lcm_s {
    static constexpr char const* name = "lcm";
    static bool in_domain(A2<S, S> const& p) { return lcm_ok(p.x, p.y); }
    constexpr auto operator()(A2<S, S> const& p) const { return etl::lcm(p.x, p.y); }
};
struct F_lcm_u {
    static constexpr char const* name = "lcm";
    static bool in_domain(A2<U, U> const& p) { return lcm_ok(p.x, p.y); }
    constexpr auto operator()(A2<U, U> const& p) const { return etl::lcm(p.x, p.y); }
};
FN2(F_midpoint_s, S, S, midpoint)
FN2(F_midpoint_u, U, U, midpoint)
FN2(F_cmp_equal, S, U, cmp_equal)
FN2(F_cmp_not_equal, S, U, cmp_not_equal)
FN2(F_cmp_less, S, U, cmp_less)
FN2(F_cmp_less_r, U, S, cmp_less)
FN2(F_cmp_greater, S, U, cmp_greater)
FN2(F_cmp_less_equal, U, S, cmp_less_equal)
FN2(F_cmp_greater_equal, S, U, cmp_greater_equal)
struct F_in_range_u_of_s {
    static constexpr char const* name = "in_range<unsigned>(signed)";
    constexpr auto operator()(A1<S> const& p) const { return etl::in_range<U>(p.x); }
};
struct F_in_range_s_of_u {
    static constexpr char const* name = "in_range<signed>(unsigned)";
    constexpr auto operator()(A1<U> const& p) const { return etl::in_range<S>(p.x); }
};
struct F_sat_cast_u_of_s {
    static constexpr char const* name = "saturate_cast<unsigned>(signed)";
    constexpr auto operator()(A1<S> const& p) const { return etl::saturate_cast<U>(p.x); }
};
struct F_sat_cast_s_of_u {
    static constexpr char const* name = "saturate_cast<signed>(unsigned)";
    constexpr auto operator()(A1<U> const& p) const { return etl::saturate_cast<S>(p.x); }
};
struct F_sat_cast_narrow {
    static constexpr char const* name = "saturate_cast<int8>(signed)";
    constexpr auto operator()(A1<S> const& p) const { return etl::saturate_cast<signed char>(p.x); }
};
struct F_sat_cast_narrow_u {
    static constexpr char const* name = "saturate_cast<uint8>(signed)";
    constexpr auto operator()(A1<S> const& p) const { return etl::saturate_cast<unsigned char>(p.x); }
};
#if C13_W >= 32
struct F_abs {
    static constexpr char const* name = "abs";
    static bool in_domain(A1<S> const& p) { return abs_ok(p.x); }
    constexpr auto operator()(A1<S> const& p) const { return etl::abs(p.x); }
};
#endif

#define CT1(ID, CALL)                                                                                                  \
    struct ID {                                                                                                        \
        static constexpr char const* name = #CALL;                                                                     \
        constexpr auto operator()(A1<int> const& p) const { return etl::CALL(p.x); }                                   \
    };
CT1(F_isalnum, isalnum)
CT1(F_isalpha, isalpha)
CT1(F_isblank, isblank)
CT1(F_iscntrl, iscntrl)
CT1(F_isdigit, isdigit)
CT1(F_isgraph, isgraph)
CT1(F_islower, islower)
CT1(F_isprint, isprint)
CT1(F_ispunct, ispunct)
CT1(F_isspace, isspace)
CT1(F_isupper, isupper)
CT1(F_isxdigit, isxdigit)
CT1(F_tolower, tolower)
CT1(F_toupper, toupper)

#define EN(FN, TY, F, TAB, CLS) make_entry<F, TAB, CLS, 256>(std::string(FN) + "<" + TY + ">")

std::vector<Entry> const& entries()
{
    static std::vector<Entry> const es = {
#if C13_GRP == 0
    EN("popcount", uname, F_popcount, tabU, ClsI1),
    EN("countl_zero", uname, F_countl_zero, tabU, ClsI1),
    EN("countl_one", uname, F_countl_one, tabU, ClsI1),
    EN("countr_zero", uname, F_countr_zero, tabU, ClsI1),
    EN("countr_one", uname, F_countr_one, tabU, ClsI1),
    EN("bit_width", uname, F_bit_width, tabU, ClsI1),
    EN("bit_ceil", uname, F_bit_ceil, tabU, ClsI1),
    EN("bit_floor", uname, F_bit_floor, tabU, ClsI1),
    EN("has_single_bit", uname, F_has_single_bit, tabU, ClsI1),
    EN("byteswap", uname, F_byteswap_u, tabU, ClsI1),
    EN("byteswap", sname, F_byteswap_s, tabS, ClsI1),
#elif C13_GRP == 1
    EN("rotl", uname, F_rotl, tabSh, ClsShift),
    EN("rotr", uname, F_rotr, tabSh, ClsShift),
    EN("set_bit", uname, F_set_bit, tabPos, ClsPos),
    EN("reset_bit", uname, F_reset_bit, tabPos, ClsPos),
    EN("flip_bit", uname, F_flip_bit, tabPos, ClsPos),
    EN("test_bit", uname, F_test_bit, tabPos, ClsPos),
#elif C13_GRP == 2
    EN("add_sat", sname, F_add_sat_s, tabSS, ClsI2),
    EN("div_sat", sname, F_div_sat_s, tabSS, ClsI2),
#elif C13_GRP == 3
    EN("add_sat", uname, F_add_sat_u, tabUU, ClsI2),
    EN("div_sat", uname, F_div_sat_u, tabUU, ClsI2),
#elif C13_GRP == 4
    EN("gcd", sname, F_gcd_s, tabSS, ClsI2),
    EN("gcd", uname, F_gcd_u, tabUU, ClsI2),
    EN("lcm", sname, F_lcm_s, tabSS, ClsI2),
    EN("lcm", uname, F_lcm_u, tabUU, ClsI2),
    EN("midpoint", sname, F_midpoint_s, tabSS, ClsI2),
    EN("midpoint", uname, F_midpoint_u, tabUU, ClsI2),
    EN("cmp_equal", sname, F_cmp_equal, tabSU, ClsI2),
    EN("cmp_not_equal", sname, F_cmp_not_equal, tabSU, ClsI2),
    EN("cmp_less", sname, F_cmp_less, tabSU, ClsI2),
    EN("cmp_less", uname, F_cmp_less_r, tabUS, ClsI2),
    EN("cmp_greater", sname, F_cmp_greater, tabSU, ClsI2),
    EN("cmp_less_equal", uname, F_cmp_less_equal, tabUS, ClsI2),
    EN("cmp_greater_equal", sname, F_cmp_greater_equal, tabSU, ClsI2),
    EN("in_range<unsigned>", sname, F_in_range_u_of_s, tabS, ClsI1),
    EN("in_range<signed>", uname, F_in_range_s_of_u, tabU, ClsI1),
    EN("saturate_cast<unsigned>", sname, F_sat_cast_u_of_s, tabS, ClsI1),
    EN("saturate_cast<signed>", uname, F_sat_cast_s_of_u, tabU, ClsI1),
    EN("saturate_cast<int8>", sname, F_sat_cast_narrow, tabS, ClsI1),
    EN("saturate_cast<uint8>", sname, F_sat_cast_narrow_u, tabS, ClsI1),
    #if C13_W >= 32
    EN("abs", sname, F_abs, tabS, ClsI1),
    #endif
#elif C13_GRP == 5
    EN("isalnum", "int", F_isalnum, tabC, ClsC),
    EN("isalpha", "int", F_isalpha, tabC, ClsC),
    EN("isblank", "int", F_isblank, tabC, ClsC),
    EN("iscntrl", "int", F_iscntrl, tabC, ClsC),
    EN("isdigit", "int", F_isdigit, tabC, ClsC),
    EN("isgraph", "int", F_isgraph, tabC, ClsC),
    EN("islower", "int", F_islower, tabC, ClsC),
    EN("isprint", "int", F_isprint, tabC, ClsC),
    EN("ispunct", "int", F_ispunct, tabC, ClsC),
    EN("isspace", "int", F_isspace, tabC, ClsC),
    EN("isupper", "int", F_isupper, tabC, ClsC),
    EN("isxdigit", "int", F_isxdigit, tabC, ClsC),
    EN("tolower", "int", F_tolower, tabC, ClsC),
    EN("toupper", "int", F_toupper, tabC, ClsC),
#endif
};
    return es;
}

vf::Spec spec(vf::Tier)
{
    vf::Spec s;
    s.n_enum     = total_cases(entries());
    s.n_random   = 0;
    s.batch      = 1;
    s.exhaustive = true;
    return s;
}

void run_case(vf::Case& c) { run_case_index(entries(), c.index); }

} // namespace

VF_MAIN("C13", "C13_int", spec, run_case)
