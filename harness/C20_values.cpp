// C20 - pair / tuple values vs std::pair / std::tuple (DESIGN 4, C20 part 1).
// Enumerated: every ordered pair (x, y) of 3-tuples over {0,1,2} (729 cases, incl. all first-element ties): pair
// construction (values, other pairs, converting, make_pair, CTAD), copy / move / converting / self assignment, all six
// relations plus !=, member / free / self swap, get; tuple construction, ==, != (same and mixed element types), member
// and self swap, get in every value category, apply, make_from_tuple, tuple_cat, make_tuple, tie, forward_as_tuple,
// structured bindings (pair).  Element types int, long/short/char mixes, copy-only, move-only and Spy (an element
// that logs its special members and == so that forwarding - copy vs move, how often - is compared with std as well).
// Random part: boundary integers (INT_MIN/INT_MAX/-1/0/1) and wider tuples.
#include "vf.hpp"
#include "vf_contract.hpp"

#include "vf_c20.hpp"

#include <algorithm>
#include <climits>
#include <compare>
#include <limits>

namespace {
using namespace c20;

struct Ctx {
    int x[3];
    int y[3];
    char desc[96];
    std::uint64_t h;
    bool enumerated;
};
char const* g_subj = "?";
char const* g_sit  = "?";
Ctx* g_c           = nullptr;

void crumb(char const* op) { vf::crumb(g_subj, op, g_sit, "%s", g_c->desc); }
void cover(char const* op, bool nontrivial = true) { vf::cover(op, vf::mix(g_c->h, vf::fnv(g_subj) ^ vf::fnv(g_sit)), nontrivial); }

// reference first, then breadcrumb, then the etl call, then compare
#define EQ_INT(OP, NAME, EEXPR, SEXPR)                                                                                  \
    do {                                                                                                               \
        long long s_ = static_cast<long long>(SEXPR);                                                                  \
        crumb(OP);                                                                                                     \
        long long e_ = static_cast<long long>(EEXPR);                                                                  \
        vf::eq_int(NAME, e_, s_);                                                                                      \
        cover(OP);                                                                                                     \
    } while (0)
#define EQ_BOOL(OP, NAME, EEXPR, SEXPR)                                                                                 \
    do {                                                                                                               \
        bool s_ = static_cast<bool>(SEXPR);                                                                            \
        crumb(OP);                                                                                                     \
        bool e_ = static_cast<bool>(EEXPR);                                                                            \
        vf::eq_bool(NAME, e_, s_);                                                                                     \
        cover(OP);                                                                                                     \
    } while (0)

char const* cmp3(int a, int b) { return a < b ? "less" : (a > b ? "greater" : "tie"); }

// element factories
template <typename T>
struct elem {
    static T make(int v) { return static_cast<T>(v); }
};
template <>
struct elem<Mo> {
    static Mo make(int v) { return Mo(v); }
};
template <>
struct elem<Co> {
    static Co make(int v) { return Co(v); }
};
template <>
struct elem<Spy> {
    static Spy make(int v) { return Spy(v); }
};
template <typename T>
long long v_of(T const& t)
{
    if constexpr (std::is_arithmetic_v<T>) {
        return static_cast<long long>(t);
    } else {
        return t.v;
    }
}

// sorted multiset of the Spy log tokens (the order in which elements are initialised is not specified)
std::string sorted_tokens(std::string const& s)
{
    std::vector<std::string> t;
    std::size_t b = 0;
    while (b < s.size()) {
        auto e = s.find(')', b);
        if (e == std::string::npos) { break; }
        t.push_back(s.substr(b, e - b + 1));
        b = e + 1;
    }
    std::sort(t.begin(), t.end());
    std::string o;
    for (auto const& x : t) { o += x; }
    return o;
}
// run `e` (etl side) and `s` (std side) and compare the element special-member logs
template <typename E, typename S>
void spy_compare(char const* op, E&& e, S&& s, bool ordered = false)
{
    spylog().s.clear();
    s();
    std::string ls = spylog().s;
    spylog().s.clear();
    crumb(op);
    e();
    std::string le = spylog().s;
    spylog().s.clear();
    if (!ordered) {
        ls = sorted_tokens(ls);
        le = sorted_tokens(le);
    }
    if (le != ls) {
        char const* sym = "element-operations";
        auto cnt        = [](std::string const& l, char const* tok) {
            std::size_t n = 0;
            for (auto p = l.find(tok); p != std::string::npos; p = l.find(tok, p + 1)) { ++n; }
            return n;
        };
        if (cnt(le, "cc(") + cnt(le, "ca(") > cnt(ls, "cc(") + cnt(ls, "ca(")) {
            sym = "element-operations:copies-where-std-moves-or-fewer";
        } else if (cnt(le, "eq(") != cnt(ls, "eq(")) {
            sym = "element-operations:comparisons";
        } else if (le.size() != ls.size()) {
            sym = "element-operations:count";
        }
        vf::diverge(sym, le, ls);
    }
    cover(op);
}

// ------------------------------------------------------------------------------------------------ pair
template <typename T1, typename T2>
void pair_relations(Ctx& c, char const* subj)
{
    using EP = etl::pair<T1, T2>;
    using SP = std::pair<T1, T2>;
    g_subj   = subj;
    char sit[64];
    std::snprintf(sit, sizeof sit, "first-%s,second-%s", cmp3(c.x[0], c.y[0]), cmp3(c.x[1], c.y[1]));
    g_sit = sit;
    EP const ea(elem<T1>::make(c.x[0]), elem<T2>::make(c.x[1]));
    EP const eb(elem<T1>::make(c.y[0]), elem<T2>::make(c.y[1]));
    SP const sa(elem<T1>::make(c.x[0]), elem<T2>::make(c.x[1]));
    SP const sb(elem<T1>::make(c.y[0]), elem<T2>::make(c.y[1]));
    EQ_BOOL("operator==", "==", ea == eb, sa == sb);
    EQ_BOOL("operator!=", "!=", ea != eb, sa != sb);
    EQ_BOOL("operator<", "<", ea < eb, sa < sb);
    EQ_BOOL("operator<=", "<=", ea <= eb, sa <= sb);
    EQ_BOOL("operator>", ">", ea > eb, sa > sb);
    EQ_BOOL("operator>=", ">=", ea >= eb, sa >= sb);
    // reflexive forms (same object on both sides)
    EQ_BOOL("operator==", "==(self)", ea == ea, sa == sa);
    EQ_BOOL("operator<", "<(self)", ea < ea, sa < sa);
    EQ_BOOL("operator<=", "<=(self)", ea <= ea, sa <= sa);
}

template <typename P>
long long p_first(P const& p)
{
    return v_of(p.first);
}
template <typename P>
long long p_second(P const& p)
{
    return v_of(p.second);
}
#define EQ_PAIR(OP, EP_, SP_)                                                                                           \
    do {                                                                                                               \
        vf::eq_int("first", p_first(EP_), p_first(SP_));                                                               \
        vf::eq_int("second", p_second(EP_), p_second(SP_));                                                            \
        cover(OP);                                                                                                     \
    } while (0)

template <typename T1, typename T2>
void pair_copyable_ops(Ctx& c, char const* subj)
{
    using EP = etl::pair<T1, T2>;
    using SP = std::pair<T1, T2>;
    g_subj   = subj;
    g_sit    = "values";
    T1 const a0 = elem<T1>::make(c.x[0]);
    T2 const a1 = elem<T2>::make(c.x[1]);
    T1 const b0 = elem<T1>::make(c.y[0]);
    T2 const b1 = elem<T2>::make(c.y[1]);
    // construction from values
    {
        crumb("pair(T1 const&,T2 const&)");
        EP e(a0, a1);
        SP s(a0, a1);
        EQ_PAIR("pair(T1 const&,T2 const&)", e, s);
        crumb("pair(U1&&,U2&&)");
        EP e2(elem<T1>::make(c.x[0]), elem<T2>::make(c.x[1]));
        SP s2(elem<T1>::make(c.x[0]), elem<T2>::make(c.x[1]));
        EQ_PAIR("pair(U1&&,U2&&)", e2, s2);
        crumb("pair{a,b}");
        EP e3{a0, a1};
        EQ_PAIR("pair{a,b}", e3, s);
        crumb("make_pair(a,b)");
        auto e4 = etl::make_pair(a0, a1);
        auto s4 = std::make_pair(a0, a1);
        same_type<decltype(e4), decltype(s4)>();
        EQ_PAIR("make_pair(a,b)", e4, s4);
        crumb("pair p{a,b} (CTAD)");
        etl::pair e5{a0, a1};
        std::pair s5{a0, a1};
        same_type<decltype(e5), decltype(s5)>();
        EQ_PAIR("pair p{a,b} (CTAD)", e5, s5);
        crumb("pair(pair const&)");
        EP e6(e);
        SP s6(s);
        EQ_PAIR("pair(pair const&)", e6, s6);
        EQ_PAIR("pair(pair const&)/source", e, s);
        crumb("pair(pair&&)");
        EP e7(std::move(e2));
        SP s7(std::move(s2));
        EQ_PAIR("pair(pair&&)", e7, s7);
    }
    // default construction on dirty storage: both elements value-initialised
    if constexpr (std::is_default_constructible_v<SP>) {
        g_sit = "dirty-storage";
        alignas(EP) unsigned char buf[sizeof(EP)];
        std::memset(buf, 0xAB, sizeof buf);
        crumb("pair()");
        EP* e = ::new (static_cast<void*>(buf)) EP;
        SP s;
        EQ_PAIR("pair()", *e, s);
        e->~EP();
    }
    // assignment
    {
        char sit[64];
        std::snprintf(sit, sizeof sit, "first-%s,second-%s", cmp3(c.x[0], c.y[0]), cmp3(c.x[1], c.y[1]));
        g_sit = sit;
        EP ea(a0, a1), eb(b0, b1);
        SP sa(a0, a1), sb(b0, b1);
        crumb("operator=(pair const&)");
        EP& r = (ea = eb);
        sa    = sb;
        vf::eq_bool("returns-*this", &r == &ea, true);
        EQ_PAIR("operator=(pair const&)", ea, sa);
        EQ_PAIR("operator=(pair const&)/source", eb, sb);
        crumb("operator=(pair&&)");
        EP ec(a0, a1);
        SP sc(a0, a1);
        EP& r2 = (ec = std::move(eb));
        sc     = std::move(sb);
        vf::eq_bool("returns-*this", &r2 == &ec, true);
        EQ_PAIR("operator=(pair&&)", ec, sc);
        g_sit = "self";
        crumb("operator=(pair const&)");
        EP& self = ec;
        ec       = self;
        EQ_PAIR("operator=(self)", ec, sc);
    }
    // swap
    {
        char sit[64];
        std::snprintf(sit, sizeof sit, "first-%s,second-%s", cmp3(c.x[0], c.y[0]), cmp3(c.x[1], c.y[1]));
        g_sit = sit;
        EP ea(a0, a1), eb(b0, b1);
        SP sa(a0, a1), sb(b0, b1);
        crumb("swap(pair&)");
        ea.swap(eb);
        sa.swap(sb);
        EQ_PAIR("swap(pair&)/lhs", ea, sa);
        EQ_PAIR("swap(pair&)/rhs", eb, sb);
        crumb("swap(a,b)");
        swap(ea, eb); // ADL
        swap(sa, sb);
        EQ_PAIR("swap(a,b)/lhs", ea, sa);
        EQ_PAIR("swap(a,b)/rhs", eb, sb);
        g_sit = "self";
        crumb("swap(pair&)");
        ea.swap(ea);
        sa.swap(sa);
        EQ_PAIR("swap(self)", ea, sa);
    }
    // get
    {
        g_sit = "values";
        EP e(a0, a1);
        SP s(a0, a1);
        EQ_INT("get<0>(pair&)", "value", v_of(etl::get<0>(e)), v_of(std::get<0>(s)));
        EQ_INT("get<1>(pair const&)", "value", v_of(etl::get<1>(std::as_const(e))), v_of(std::get<1>(std::as_const(s))));
        EQ_INT("get<1>(pair&&)", "value", v_of(etl::get<1>(std::move(e))), v_of(std::get<1>(std::move(s))));
        EQ_BOOL("get<0>(pair&)", "identity", &etl::get<0>(e) == &e.first, true);
        EQ_BOOL("get<1>(pair&)", "identity", &etl::get<1>(e) == &e.second, true);
        // structured bindings (pair exposes public members)
        crumb("auto& [a,b] = p");
        auto& [ba, bb] = e;
        vf::eq_bool("binding-identity", &ba == &e.first && &bb == &e.second, true);
        cover("auto& [a,b] = p");
        crumb("auto [a,b] = p");
        auto [ca, cb] = e;
        vf::eq_int("a", v_of(ca), v_of(s.first));
        vf::eq_int("b", v_of(cb), v_of(s.second));
        cover("auto [a,b] = p");
    }
}

// converting construction / assignment between pairs of different element types
template <typename T1, typename T2, typename U1, typename U2>
void pair_converting_ops(Ctx& c, char const* subj)
{
    using EP = etl::pair<T1, T2>;
    using SP = std::pair<T1, T2>;
    using EU = etl::pair<U1, U2>;
    using SU = std::pair<U1, U2>;
    g_subj   = subj;
    g_sit    = "converting";
    EU const eu(elem<U1>::make(c.x[0]), elem<U2>::make(c.x[1]));
    SU const su(elem<U1>::make(c.x[0]), elem<U2>::make(c.x[1]));
    crumb("pair(pair<U1,U2> const&)");
    EP e(eu);
    SP s(su);
    EQ_PAIR("pair(pair<U1,U2> const&)", e, s);
    crumb("pair(pair<U1,U2>&&)");
    EP e2(EU(elem<U1>::make(c.y[0]), elem<U2>::make(c.y[1])));
    SP s2(SU(elem<U1>::make(c.y[0]), elem<U2>::make(c.y[1])));
    EQ_PAIR("pair(pair<U1,U2>&&)", e2, s2);
    crumb("operator=(pair<U1,U2> const&)");
    EP& r = (e2 = eu);
    s2    = su;
    vf::eq_bool("returns-*this", &r == &e2, true);
    EQ_PAIR("operator=(pair<U1,U2> const&)", e2, s2);
    crumb("operator=(pair<U1,U2>&&)");
    e = EU(elem<U1>::make(c.y[1]), elem<U2>::make(c.y[0]));
    s = SU(elem<U1>::make(c.y[1]), elem<U2>::make(c.y[0]));
    EQ_PAIR("operator=(pair<U1,U2>&&)", e, s);
}

void pair_move_only(Ctx& c)
{
    using EP = etl::pair<Mo, int>;
    using SP = std::pair<Mo, int>;
    g_subj   = "pair<Mo,int>";
    g_sit    = "move-only-first";
    crumb("pair(U1&&,U2&&)");
    EP e(Mo(c.x[0]), c.x[1]);
    SP s(Mo(c.x[0]), c.x[1]);
    EQ_PAIR("pair(U1&&,U2&&)", e, s);
    crumb("pair(pair&&)");
    EP e2(std::move(e));
    SP s2(std::move(s));
    EQ_PAIR("pair(pair&&)", e2, s2);
    EQ_BOOL("pair(pair&&)", "source-moved-from", e.first.moved_from, s.first.moved_from);
    crumb("operator=(pair&&)");
    EP e3(Mo(c.y[0]), c.y[1]);
    SP s3(Mo(c.y[0]), c.y[1]);
    e3 = std::move(e2);
    s3 = std::move(s2);
    EQ_PAIR("operator=(pair&&)", e3, s3);
    EQ_BOOL("operator=(pair&&)", "source-moved-from", e2.first.moved_from, s2.first.moved_from);
    crumb("swap(pair&)");
    EP e4(Mo(c.y[0]), c.y[1]);
    SP s4(Mo(c.y[0]), c.y[1]);
    e3.swap(e4);
    s3.swap(s4);
    EQ_PAIR("swap(pair&)/lhs", e3, s3);
    EQ_PAIR("swap(pair&)/rhs", e4, s4);
    EQ_BOOL("swap(pair&)", "not-moved-from", e3.first.moved_from || e4.first.moved_from, false);
    crumb("get<0>(pair&&)");
    Mo taken  = etl::get<0>(std::move(e3));
    Mo staken = std::get<0>(std::move(s3));
    vf::eq_int("value", taken.v, staken.v);
    vf::eq_bool("source-moved-from", e3.first.moved_from, s3.first.moved_from);
    cover("get<0>(pair&&)");
    constexpr bool ecc = std::is_copy_constructible_v<EP>, scc = std::is_copy_constructible_v<SP>;
    constexpr bool eca = std::is_copy_assignable_v<EP>, sca = std::is_copy_assignable_v<SP>;
    EQ_BOOL("is_copy_constructible", "trait", ecc, scc);
    EQ_BOOL("is_copy_assignable", "trait", eca, sca);
}

void pair_spy(Ctx& c)
{
    using EP = etl::pair<Spy, Spy>;
    using SP = std::pair<Spy, Spy>;
    g_subj   = "pair<Spy,Spy>";
    g_sit    = "element-forwarding";
    Spy a(c.x[0]), b(c.x[1]);
    spy_compare("pair(T1 const&,T2 const&)", [&] { EP e(a, b); }, [&] { SP s(a, b); });
    spy_compare("pair(U1&&,U2 const&)", [&] { EP e(Spy(1), b); }, [&] { SP s(Spy(1), b); });
    spy_compare("pair(U1 const&,U2&&)", [&] { EP e(a, Spy(2)); }, [&] { SP s(a, Spy(2)); });
    spy_compare("pair(U1&&,U2&&)", [&] { EP e(Spy(1), Spy(2)); }, [&] { SP s(Spy(1), Spy(2)); });
    spy_compare("pair()", [&] { EP e; }, [&] { SP s; });
    {
        EP e(a, b);
        SP s(a, b);
        spy_compare("pair(pair const&)", [&] { EP e2(e); }, [&] { SP s2(s); });
        spy_compare("pair(pair&&)", [&] { EP e2(std::move(e)); }, [&] { SP s2(std::move(s)); });
    }
    { // converting construction from pairs with REFERENCE members: an rvalue pair<T&,T&> must copy from the referenced objects (std: forward<U>),
      // an rvalue pair<T&&,T&&> must move
        Spy r1(c.x[0]), r2(c.x[1]), q1(c.x[0]), q2(c.x[1]);
        spy_compare("pair(pair<T&,T&>&&)", [&] { etl::pair<Spy&, Spy&> pr(r1, r2); EP e2(std::move(pr)); vf::eq_int("converted.first", e2.first.v, c.x[0]); },
            [&] { std::pair<Spy&, Spy&> pr(q1, q2); SP s2(std::move(pr)); });
        vf::eq_int("referenced-object-untouched", r1.v, q1.v);
        spy_compare("pair(pair<T&,T&> const&)", [&] { etl::pair<Spy&, Spy&> const pr(r1, r2); EP e2(pr); }, [&] { std::pair<Spy&, Spy&> const pr(q1, q2); SP s2(pr); });
        spy_compare("pair(pair<T const&,T&>&&)", [&] { etl::pair<Spy const&, Spy&> pr(r1, r2); EP e2(std::move(pr)); },
            [&] { std::pair<Spy const&, Spy&> pr(q1, q2); SP s2(std::move(pr)); });
        spy_compare("pair(pair<T&&,T&&>&&)", [&] { etl::pair<Spy&&, Spy&&> pr(std::move(r1), std::move(r2)); EP e2(std::move(pr)); },
            [&] { std::pair<Spy&&, Spy&&> pr(std::move(q1), std::move(q2)); SP s2(std::move(pr)); });
        vf::eq_int("moved-from-referenced-object", r1.v, q1.v);
    }
    {
        etl::pair<SpySrc, SpySrc> eu{SpySrc{c.x[0]}, SpySrc{c.x[1]}};
        std::pair<SpySrc, SpySrc> su{SpySrc{c.x[0]}, SpySrc{c.x[1]}};
        EP e(a, b);
        SP s(a, b);
        spy_compare("pair(pair<U1,U2> const&)", [&] { EP e2(eu); vf::eq_int("converted-from", e2.first.v, c.x[0] + 100); }, [&] { SP s2(su); });
        spy_compare("pair(pair<U1,U2>&&)", [&] { EP e2(std::move(eu)); vf::eq_int("converted-from", e2.first.v, c.x[0] + 200); }, [&] { SP s2(std::move(su)); });
        spy_compare("operator=(pair<U1,U2> const&)", [&] { e = eu; }, [&] { s = su; });
        spy_compare("operator=(pair<U1,U2>&&)", [&] { e = std::move(eu); }, [&] { s = std::move(su); });
        vf::eq_int("first", e.first.v, s.first.v);
    }
    {
        EP e(a, b), e2(Spy(c.y[0]), Spy(c.y[1]));
        SP s(a, b), s2(Spy(c.y[0]), Spy(c.y[1]));
        spy_compare("operator=(pair const&)", [&] { e = e2; }, [&] { s = s2; });
        spy_compare("operator=(pair&&)", [&] { e = std::move(e2); }, [&] { s = std::move(s2); });
        EP e3(Spy(c.y[0]), Spy(c.y[1]));
        SP s3(Spy(c.y[0]), Spy(c.y[1]));
        spy_compare("swap(pair&)", [&] { e.swap(e3); }, [&] { s.swap(s3); });
        spy_compare("swap(a,b)", [&] { swap(e, e3); }, [&] { swap(s, s3); });
        spy_compare("swap(self)", [&] { e.swap(e); }, [&] { s.swap(s); });
        vf::eq_int("first", e.first.v, s.first.v);
        vf::eq_int("second", e.second.v, s.second.v);
        EP const f(Spy(c.x[0]), Spy(c.x[1])), g(Spy(c.y[0]), Spy(c.y[1]));
        SP const sf(Spy(c.x[0]), Spy(c.x[1])), sg(Spy(c.y[0]), Spy(c.y[1]));
        char sit[64];
        std::snprintf(sit, sizeof sit, "first-%s,second-%s", cmp3(c.x[0], c.y[0]), cmp3(c.x[1], c.y[1]));
        g_sit = sit;
        spy_compare("operator==", [&] { (void)(f == g); }, [&] { (void)(sf == sg); }, true);
    }
}

// ------------------------------------------------------------------------------------------------ tuple
template <typename ET, typename ST, std::size_t... I>
void eq_tuple_impl(char const* op, ET const& e, ST const& s, std::index_sequence<I...>)
{
    char nm[24];
    ((std::snprintf(nm, sizeof nm, "element%zu", I), vf::eq_int(nm, v_of(etl::get<I>(e)), v_of(std::get<I>(s)))), ...);
    cover(op);
}
template <typename... Ts, typename... Us>
void eq_tuple(char const* op, etl::tuple<Ts...> const& e, std::tuple<Us...> const& s)
{
    static_assert(sizeof...(Ts) == sizeof...(Us), "tuple sizes");
    eq_tuple_impl(op, e, s, std::index_sequence_for<Ts...>{});
}
char const* first_diff(int const* x, int const* y, int n)
{
    static char const* nm[] = {"differ-at-0", "differ-at-1", "differ-at-2", "differ-at-3", "differ-at-4"};
    for (int i = 0; i < n; ++i) {
        if (x[i] != y[i]) { return nm[i]; }
    }
    return "all-equal";
}
struct S3 {
    long long a, b, c;
    S3(long long x, long long y, long long z) : a(x), b(y), c(z) { }
};

template <typename A, typename B, typename C>
void tuple3_ops(Ctx& c, char const* subj)
{
    using ET = etl::tuple<A, B, C>;
    using ST = std::tuple<A, B, C>;
    g_subj   = subj;
    g_sit    = first_diff(c.x, c.y, 3);
    A const a0 = elem<A>::make(c.x[0]);
    B const a1 = elem<B>::make(c.x[1]);
    C const a2 = elem<C>::make(c.x[2]);
    ET const ea(a0, a1, a2);
    ST const sa(a0, a1, a2);
    ET const eb(elem<A>::make(c.y[0]), elem<B>::make(c.y[1]), elem<C>::make(c.y[2]));
    ST const sb(elem<A>::make(c.y[0]), elem<B>::make(c.y[1]), elem<C>::make(c.y[2]));
    crumb("tuple(Ts const&...)");
    eq_tuple("tuple(Ts const&...)", ea, sa);
    crumb("tuple(Us&&...)");
    eq_tuple("tuple(Us&&...)", eb, sb);
    EQ_BOOL("operator==", "==", ea == eb, sa == sb);
    EQ_BOOL("operator!=", "!=", ea != eb, sa != sb);
    EQ_BOOL("operator==", "==(self)", ea == ea, true);
    // copy / move construction
    crumb("tuple(tuple const&)");
    ET ec(ea);
    ST sc(sa);
    eq_tuple("tuple(tuple const&)", ec, sc);
    crumb("tuple(tuple&&)");
    ET em(std::move(ec));
    ST sm(std::move(sc));
    eq_tuple("tuple(tuple&&)", em, sm);
    // braces / CTAD / make_tuple
    crumb("tuple{a,b,c}");
    ET e3{a0, a1, a2};
    eq_tuple("tuple{a,b,c}", e3, sa);
    crumb("tuple t{a,b,c} (CTAD)");
    etl::tuple e4{a0, a1, a2};
    std::tuple s4{a0, a1, a2};
    same_type<decltype(e4), decltype(s4)>();
    eq_tuple("tuple t{a,b,c} (CTAD)", e4, s4);
    crumb("make_tuple(a,b,c)");
    auto e5 = etl::make_tuple(a0, a1, a2);
    auto s5 = std::make_tuple(a0, a1, a2);
    same_type<decltype(e5), decltype(s5)>();
    eq_tuple("make_tuple(a,b,c)", e5, s5);
    // swap
    {
        ET x(ea), y(eb);
        ST sx(sa), sy(sb);
        crumb("swap(tuple&)");
        x.swap(y);
        sx.swap(sy);
        eq_tuple("swap(tuple&)/lhs", x, sx);
        eq_tuple("swap(tuple&)/rhs", y, sy);
        g_sit = "self";
        crumb("swap(tuple&)");
        x.swap(x);
        eq_tuple("swap(self)", x, sx);
        g_sit = first_diff(c.x, c.y, 3);
    }
    // get in every value category
    {
        ET x(ea);
        ST sx(sa);
        EQ_INT("get<0>(tuple&)", "value", v_of(etl::get<0>(x)), v_of(std::get<0>(sx)));
        EQ_INT("get<1>(tuple const&)", "value", v_of(etl::get<1>(std::as_const(x))), v_of(std::get<1>(std::as_const(sx))));
        EQ_INT("get<2>(tuple&&)", "value", v_of(etl::get<2>(std::move(x))), v_of(std::get<2>(std::move(sx))));
        EQ_INT("get<1>(tuple const&&)", "value", v_of(etl::get<1>(std::move(std::as_const(x)))), v_of(std::get<1>(std::move(std::as_const(sx)))));
        crumb("get<I>(tuple&) =");
        etl::get<1>(x) = elem<B>::make(c.y[1]);
        std::get<1>(sx) = elem<B>::make(c.y[1]);
        eq_tuple("get<I>(tuple&) =", x, sx);
        bool distinct = static_cast<void const*>(&etl::get<0>(x)) != static_cast<void const*>(&etl::get<1>(x))
                     && static_cast<void const*>(&etl::get<1>(x)) != static_cast<void const*>(&etl::get<2>(x));
        EQ_BOOL("get<I>(tuple&)", "elements-distinct", distinct, true);
    }
    // apply / make_from_tuple
    {
        auto weigh = [](auto const& p, auto const& q, auto const& r) { return v_of(p) * 100 + v_of(q) * 10 + v_of(r); };
        EQ_INT("apply(f,t)", "result", etl::apply(weigh, ea), std::apply(weigh, sa));
        EQ_INT("apply(f,t&&)", "result", etl::apply(weigh, ET(eb)), std::apply(weigh, ST(sb)));
        if constexpr (std::is_arithmetic_v<A> && std::is_arithmetic_v<B> && std::is_arithmetic_v<C>) {
            crumb("make_from_tuple<S>(t)");
            S3 es = etl::make_from_tuple<S3>(ea);
            S3 ss = std::make_from_tuple<S3>(sa);
            vf::eq_int("arg0", es.a, ss.a);
            vf::eq_int("arg1", es.b, ss.b);
            vf::eq_int("arg2", es.c, ss.c);
            cover("make_from_tuple<S>(t)");
        }
    }
    // tuple_cat
    {
        crumb("tuple_cat(t&&,u&&)");
        auto e = etl::tuple_cat(ET(ea), ET(eb));
        auto s = std::tuple_cat(ST(sa), ST(sb));
        same_type<decltype(e), decltype(s)>();
        eq_tuple("tuple_cat(t&&,u&&)", e, s);
        // tuple_cat of lvalue tuples / tuple-like mixes: probe cells (C20_probe family 7/8) - hard errors on older trees
    }
}

void tuple_misc(Ctx& c)
{
    g_subj = "tuple<int,int>";
    g_sit  = first_diff(c.x, c.y, 2);
    {
        etl::tuple<int, int> const ea(c.x[0], c.x[1]), eb(c.y[0], c.y[1]);
        std::tuple<int, int> const sa(c.x[0], c.x[1]), sb(c.y[0], c.y[1]);
        EQ_BOOL("operator==", "==", ea == eb, sa == sb);
        EQ_BOOL("operator!=", "!=", ea != eb, sa != sb);
        etl::tuple<int, int> x(ea), y(eb);
        std::tuple<int, int> sx(sa), sy(sb);
        crumb("swap(tuple&)");
        x.swap(y);
        sx.swap(sy);
        eq_tuple("swap(tuple&)/lhs", x, sx);
        eq_tuple("swap(tuple&)/rhs", y, sy);
    }
    // mixed element types on the two sides of ==
    g_subj = "tuple<int,long,short>==tuple<long,short,int>";
    g_sit  = first_diff(c.x, c.y, 3);
    {
        etl::tuple<int, long, short> const ea(c.x[0], c.x[1], (short)c.x[2]);
        etl::tuple<long, short, int> const eb(c.y[0], (short)c.y[1], c.y[2]);
        std::tuple<int, long, short> const sa(c.x[0], c.x[1], (short)c.x[2]);
        std::tuple<long, short, int> const sb(c.y[0], (short)c.y[1], c.y[2]);
        EQ_BOOL("operator==", "==", ea == eb, sa == sb);
        EQ_BOOL("operator!=", "!=", ea != eb, sa != sb);
        EQ_BOOL("operator==", "==(swapped)", eb == ea, sb == sa);
    }
    // converting construction from values
    g_subj = "tuple<long,short,char>";
    g_sit  = "converting";
    {
        crumb("tuple(Us&&...)");
        etl::tuple<long, short, char> e(c.x[0], c.x[1], c.x[2] + 'a');
        std::tuple<long, short, char> s(c.x[0], c.x[1], c.x[2] + 'a');
        eq_tuple("tuple(Us&&...)", e, s);
        crumb("tuple()");
        alignas(etl::tuple<long, short, char>) unsigned char buf[sizeof(etl::tuple<long, short, char>)];
        std::memset(buf, 0xAB, sizeof buf);
        auto* d = ::new (static_cast<void*>(buf)) etl::tuple<long, short, char>;
        std::tuple<long, short, char> sd;
        eq_tuple("tuple()", *d, sd);
    }
    // tie / forward_as_tuple: references to the caller's objects
    g_subj = "tie/forward_as_tuple";
    g_sit  = "references";
    {
        int a = c.x[0], b = c.x[1];
        int const k = c.x[2];
        crumb("tie(a,b,k)");
        auto t = etl::tie(a, b, k);
        auto s = std::tie(a, b, k);
        same_type<decltype(t), decltype(s)>();
        vf::eq_bool("identity", &etl::get<0>(t) == &a && &etl::get<1>(t) == &b && &etl::get<2>(t) == &k, true);
        etl::get<1>(t) = c.y[1] + 10;
        vf::eq_int("write-through", b, c.y[1] + 10);
        cover("tie(a,b,k)");
        EQ_BOOL("operator==", "tie==tuple", (etl::tie(a, b) == etl::tuple<int, int>(c.y[0], c.y[1] + 10)), (std::tie(a, b) == std::tuple<int, int>(c.y[0], c.y[1] + 10)));
        crumb("forward_as_tuple(a,move(b),k)");
        auto f  = etl::forward_as_tuple(a, std::move(b), k);
        auto sf = std::forward_as_tuple(a, std::move(b), k);
        same_type<decltype(f), decltype(sf)>();
        vf::eq_bool("identity", &etl::get<0>(f) == &a && &etl::get<1>(f) == &b && &etl::get<2>(f) == &k, true);
        cover("forward_as_tuple(a,move(b),k)");
        // apply on the rvalue tuple of references: probe cell (hard error on older trees)
    }
    // array and pair as tuple-like sources of apply / make_from_tuple
    g_subj = "tuple-like(array,pair)";
    g_sit  = "values";
    {
        etl::array<int, 3> ea{{c.x[0], c.x[1], c.x[2]}};
        std::array<int, 3> sa{{c.x[0], c.x[1], c.x[2]}};
        auto weigh = [](int p, int q, int r) { return p * 100 + q * 10 + r; };
        EQ_INT("apply(f,array)", "result", etl::apply(weigh, ea), std::apply(weigh, sa));
        crumb("make_from_tuple<S>(array)");
        S3 es = etl::make_from_tuple<S3>(ea);
        vf::eq_int("arg0", es.a, c.x[0]);
        vf::eq_int("arg1", es.b, c.x[1]);
        vf::eq_int("arg2", es.c, c.x[2]);
        cover("make_from_tuple<S>(array)");
    }
}

void tuple_move_only(Ctx& c)
{
    using ET = etl::tuple<Mo, int, Co>;
    using ST = std::tuple<Mo, int, Co>;
    g_subj   = "tuple<Mo,int,Co>";
    g_sit    = "move-only-element";
    Co const k(c.x[2]);
    crumb("tuple(Us&&...)");
    ET e(Mo(c.x[0]), c.x[1], k);
    ST s(Mo(c.x[0]), c.x[1], k);
    eq_tuple("tuple(Us&&...)", e, s);
    crumb("tuple(tuple&&)");
    ET e2(std::move(e));
    ST s2(std::move(s));
    eq_tuple("tuple(tuple&&)", e2, s2);
    EQ_BOOL("tuple(tuple&&)", "source-moved-from", etl::get<0>(e).moved_from, std::get<0>(s).moved_from);
    crumb("swap(tuple&)");
    ET e3(Mo(c.y[0]), c.y[1], Co(c.y[2]));
    ST s3(Mo(c.y[0]), c.y[1], Co(c.y[2]));
    e2.swap(e3);
    s2.swap(s3);
    eq_tuple("swap(tuple&)/lhs", e2, s2);
    eq_tuple("swap(tuple&)/rhs", e3, s3);
    EQ_BOOL("swap(tuple&)", "not-moved-from", etl::get<0>(e2).moved_from || etl::get<0>(e3).moved_from, false);
    EQ_BOOL("operator==", "==", e2 == e3, s2 == s3);
    crumb("get<0>(tuple&&)");
    Mo taken  = etl::get<0>(std::move(e2));
    Mo staken = std::get<0>(std::move(s2));
    vf::eq_int("value", taken.v, staken.v);
    vf::eq_bool("source-moved-from", etl::get<0>(e2).moved_from, std::get<0>(s2).moved_from);
    cover("get<0>(tuple&&)");
    // tuple_cat / apply with move-only elements: probe cells (C20_probe family 5/7/8)
}

void tuple_spy(Ctx& c)
{
    using ET = etl::tuple<Spy, Spy, Spy>;
    using ST = std::tuple<Spy, Spy, Spy>;
    g_subj   = "tuple<Spy,Spy,Spy>";
    g_sit    = "element-forwarding";
    Spy a(c.x[0]), b(c.x[1]), k(c.x[2]);
    spy_compare("tuple(Ts const&...)", [&] { ET e(a, b, k); }, [&] { ST s(a, b, k); });
    spy_compare("tuple(U&&,U const&,U&&)", [&] { ET e(Spy(1), b, Spy(2)); }, [&] { ST s(Spy(1), b, Spy(2)); });
    spy_compare("tuple(Us&&...)", [&] { ET e(Spy(1), Spy(2), Spy(3)); }, [&] { ST s(Spy(1), Spy(2), Spy(3)); });
    spy_compare("tuple()", [&] { ET e; }, [&] { ST s; });
    spy_compare("make_tuple(a,Spy,b)", [&] { auto e = etl::make_tuple(a, Spy(5), b); }, [&] { auto s = std::make_tuple(a, Spy(5), b); });
    ET e(a, b, k);
    ST s(a, b, k);
    spy_compare("tuple(tuple const&)", [&] { ET e2(e); }, [&] { ST s2(s); });
    spy_compare("tuple(tuple&&)", [&] { ET e2(std::move(e)); }, [&] { ST s2(std::move(s)); });
    ET x(a, b, k), y(Spy(c.y[0]), Spy(c.y[1]), Spy(c.y[2]));
    ST sx(a, b, k), sy(Spy(c.y[0]), Spy(c.y[1]), Spy(c.y[2]));
    spy_compare("swap(tuple&)", [&] { x.swap(y); }, [&] { sx.swap(sy); });
    spy_compare("swap(self)", [&] { x.swap(x); }, [&] { sx.swap(sx); });
    eq_tuple("swap(tuple&)/lhs", x, sx);
    g_sit = first_diff(c.x, c.y, 3);
    ET const f(Spy(c.x[0]), Spy(c.x[1]), Spy(c.x[2])), g(Spy(c.y[0]), Spy(c.y[1]), Spy(c.y[2]));
    ST const sf(Spy(c.x[0]), Spy(c.x[1]), Spy(c.x[2])), sg(Spy(c.y[0]), Spy(c.y[1]), Spy(c.y[2]));
    // the standard fixes order and short-circuit of the elementary comparisons
    spy_compare("operator==", [&] { (void)(f == g); }, [&] { (void)(sf == sg); }, true);
    g_sit = "element-forwarding";
    spy_compare("get<I>(t)", [&] { (void)etl::get<0>(x); (void)etl::get<1>(std::move(x)); (void)etl::get<2>(std::as_const(x)); },
        [&] { (void)std::get<0>(sx); (void)std::get<1>(std::move(sx)); (void)std::get<2>(std::as_const(sx)); });
    auto sink = [](Spy p, Spy const& q, Spy&& r) { return p.v + q.v + r.v; };
    spy_compare("apply(f,t&&)", [&] { (void)etl::apply(sink, ET(a, b, k)); }, [&] { (void)std::apply(sink, ST(a, b, k)); });
    spy_compare("apply(f,t&)", [&] {
        auto lv = [](Spy p, Spy const& q, Spy& r) { return p.v + q.v + r.v; };
        (void)etl::apply(lv, x);
    }, [&] {
        auto lv = [](Spy p, Spy const& q, Spy& r) { return p.v + q.v + r.v; };
        (void)std::apply(lv, sx);
    });
    struct Tri {
        Spy p, q, r;
        Tri(Spy a1, Spy const& a2, Spy&& a3) : p(std::move(a1)), q(a2), r(std::move(a3)) { }
    };
    spy_compare("make_from_tuple<S>(t&&)", [&] { (void)etl::make_from_tuple<Tri>(ET(a, b, k)); }, [&] { (void)std::make_from_tuple<Tri>(ST(a, b, k)); });
    spy_compare("tuple_cat(t&&,u&&)", [&] { auto r = etl::tuple_cat(ET(a, b, k), ET(a, b, k)); }, [&] { auto r = std::tuple_cat(ST(a, b, k), ST(a, b, k)); });
}

// ------------------------------------------------------------------------------------------------ element types with their own (ADL) swap
// std::pair::swap / std::tuple::swap / swap(pair,pair) / swap on arrays are specified through an unqualified swap of the
// elements: an element type whose own namespace-scope swap differs observably from move-swapping (keeps its identity,
// exchanges only the payload, marks and counts) must end in the same state, with the same number of calls of its own swap
// and of its move/copy members, as with std.
using c20adl::Sw;
// run the std side, then the etl side; compare the counters of the element type's operations
template <typename E, typename S>
void adl_compare(char const* op, E&& e, S&& s)
{
    c20adl::counters().clear();
    s();
    c20adl::Counters cs = c20adl::counters();
    c20adl::counters().clear();
    crumb(op);
    e();
    c20adl::Counters ce = c20adl::counters();
    c20adl::counters().clear();
    if (ce.swaps != cs.swaps) {
        vf::diverge(ce.swaps < cs.swaps ? "element-swap-calls:fewer(own-swap-bypassed)" : "element-swap-calls:more", c20adl::show(ce), c20adl::show(cs));
    } else if (ce.move_ctor != cs.move_ctor || ce.move_assign != cs.move_assign || ce.copy_ctor != cs.copy_ctor || ce.copy_assign != cs.copy_assign) {
        vf::diverge("element-move/copy-calls", c20adl::show(ce), c20adl::show(cs));
    }
    cover(op);
}
void eq_sw(char const* name, Sw const& e, Sw const& s)
{
    if (e.id != s.id || e.payload != s.payload || e.marks != s.marks) {
        char sym[96];
        std::snprintf(sym, sizeof sym, "%s:%s", name, e.id != s.id ? "identity-moved" : (e.payload != s.payload ? "payload" : "marks"));
        vf::diverge(sym, c20adl::show(e), c20adl::show(s));
    }
}
template <typename Sw = c20adl::Sw> // a template so that the `requires` probes below are SFINAE contexts
void swap_adl(Ctx& c)
{
    g_sit = "element-with-own-swap";
    // ---- pair
    g_subj = "pair<Sw,int>";
    {
        etl::pair<Sw, int> ea(Sw(100, c.x[0]), c.x[1]), eb(Sw(200, c.y[0]), c.y[1]);
        std::pair<Sw, int> sa(Sw(100, c.x[0]), c.x[1]), sb(Sw(200, c.y[0]), c.y[1]);
        adl_compare("swap(pair&)", [&] { ea.swap(eb); }, [&] { sa.swap(sb); });
        eq_sw("lhs.first", ea.first, sa.first);
        eq_sw("rhs.first", eb.first, sb.first);
        vf::eq_int("lhs.second", ea.second, sa.second);
        adl_compare("swap(a,b)", [&] { swap(ea, eb); }, [&] { swap(sa, sb); });
        eq_sw("lhs.first", ea.first, sa.first);
        eq_sw("rhs.first", eb.first, sb.first);
        vf::eq_int("rhs.second", eb.second, sb.second);
        g_sit = "element-with-own-swap,self";
        adl_compare("swap(pair&)", [&] { ea.swap(ea); }, [&] { sa.swap(sa); });
        eq_sw("lhs.first", ea.first, sa.first);
        g_sit = "element-with-own-swap";
    }
    g_subj = "pair<Sw,Sw>";
    {
        etl::pair<Sw, Sw> ea(Sw(1, c.x[0]), Sw(2, c.x[1])), eb(Sw(3, c.y[0]), Sw(4, c.y[1]));
        std::pair<Sw, Sw> sa(Sw(1, c.x[0]), Sw(2, c.x[1])), sb(Sw(3, c.y[0]), Sw(4, c.y[1]));
        adl_compare("swap(pair&)", [&] { ea.swap(eb); }, [&] { sa.swap(sb); });
        eq_sw("lhs.first", ea.first, sa.first);
        eq_sw("lhs.second", ea.second, sa.second);
        eq_sw("rhs.first", eb.first, sb.first);
        eq_sw("rhs.second", eb.second, sb.second);
    }
    // arrays of such elements inside a pair: swap of arrays is element-wise unqualified swap as well
    g_subj = "pair<Sw[2],int>";
    if constexpr (requires(etl::pair<Sw[2], int>& p) { p.swap(p); }) {
        etl::pair<Sw[2], int> ea, eb;
        std::pair<Sw[2], int> sa, sb;
        for (int i = 0; i < 2; ++i) {
            ea.first[i] = sa.first[i] = Sw(10 + i, c.x[i]);
            eb.first[i] = sb.first[i] = Sw(20 + i, c.y[i]);
        }
        ea.second = sa.second = c.x[2];
        eb.second = sb.second = c.y[2];
        adl_compare("swap(pair&)", [&] { ea.swap(eb); }, [&] { sa.swap(sb); });
        for (int i = 0; i < 2; ++i) {
            eq_sw("lhs.first[i]", ea.first[i], sa.first[i]);
            eq_sw("rhs.first[i]", eb.first[i], sb.first[i]);
        }
        vf::eq_int("lhs.second", ea.second, sa.second);
    }
    // ---- tuple
    g_subj = "tuple<Sw,int,Sw>";
    {
        etl::tuple<Sw, int, Sw> ea(Sw(1, c.x[0]), c.x[1], Sw(2, c.x[2])), eb(Sw(3, c.y[0]), c.y[1], Sw(4, c.y[2]));
        std::tuple<Sw, int, Sw> sa(Sw(1, c.x[0]), c.x[1], Sw(2, c.x[2])), sb(Sw(3, c.y[0]), c.y[1], Sw(4, c.y[2]));
        adl_compare("swap(tuple&)", [&] { ea.swap(eb); }, [&] { sa.swap(sb); });
        eq_sw("lhs.element0", etl::get<0>(ea), std::get<0>(sa));
        eq_sw("lhs.element2", etl::get<2>(ea), std::get<2>(sa));
        eq_sw("rhs.element0", etl::get<0>(eb), std::get<0>(sb));
        eq_sw("rhs.element2", etl::get<2>(eb), std::get<2>(sb));
        vf::eq_int("lhs.element1", etl::get<1>(ea), std::get<1>(sa));
        vf::eq_int("rhs.element1", etl::get<1>(eb), std::get<1>(sb));
        // free swap(tuple&, tuple&): only where etl provides it (detected, otherwise skipped like every absent API)
        if constexpr (requires(etl::tuple<Sw, int, Sw>& a, etl::tuple<Sw, int, Sw>& b) { swap(a, b); }) {
            adl_compare("swap(a,b)", [&] { swap(ea, eb); }, [&] { swap(sa, sb); });
            eq_sw("lhs.element0", etl::get<0>(ea), std::get<0>(sa));
            eq_sw("rhs.element2", etl::get<2>(eb), std::get<2>(sb));
        }
        g_sit = "element-with-own-swap,self";
        adl_compare("swap(tuple&)", [&] { ea.swap(ea); }, [&] { sa.swap(sa); });
        eq_sw("lhs.element0", etl::get<0>(ea), std::get<0>(sa));
        g_sit = "element-with-own-swap";
    }
    g_subj = "tuple<Sw&,int>";
    {
        Sw a1(1, c.x[0]), b1(2, c.y[0]), a2(1, c.x[0]), b2(2, c.y[0]);
        etl::tuple<Sw&, int> ea(a1, c.x[1]), eb(b1, c.y[1]);
        std::tuple<Sw&, int> sa(a2, c.x[1]), sb(b2, c.y[1]);
        adl_compare("swap(tuple&)", [&] { ea.swap(eb); }, [&] { sa.swap(sb); });
        eq_sw("referred-lhs", a1, a2);
        eq_sw("referred-rhs", b1, b2);
    }
    // the generic etl::swap itself on such a type called the way generic code does (two-step): the type's own swap wins
    g_subj = "swap(T&,T&)";
    {
        Sw a1(1, c.x[0]), b1(2, c.y[0]), a2(1, c.x[0]), b2(2, c.y[0]);
        adl_compare("using etl::swap; swap(a,b)", [&] { using etl::swap; swap(a1, b1); }, [&] { using std::swap; swap(a2, b2); });
        eq_sw("lhs", a1, a2);
        eq_sw("rhs", b1, b2);
        Sw ar1[2] = {Sw(1, c.x[0]), Sw(2, c.x[1])}, br1[2] = {Sw(3, c.y[0]), Sw(4, c.y[1])};
        Sw ar2[2] = {Sw(1, c.x[0]), Sw(2, c.x[1])}, br2[2] = {Sw(3, c.y[0]), Sw(4, c.y[1])};
        adl_compare("using etl::swap; swap(a[2],b[2])", [&] { using etl::swap; swap(ar1, br1); }, [&] { using std::swap; swap(ar2, br2); });
        eq_sw("lhs[0]", ar1[0], ar2[0]);
        eq_sw("rhs[1]", br1[1], br2[1]);
    }
}

// ------------------------------------------------------------------------------------------------ heterogeneous element types
// pair / tuple relations (every operator both libraries provide, both operand orders) and converting construction /
// assignment between pairs / tuples whose element types DIFFER at an index, over a value table that contains values not
// representable in the other side's type (1.5 vs int, 256 vs unsigned char, 2^32+1 vs int, 2^53+1 vs double, 0.1f vs 0.1,
// -1 vs unsigned): the comparison must be the built-in mixed comparison std performs, never a comparison after converting
// one side to the other side's element type.
// (a class element comparable with int - c20::CI - is swept in its own probe cell, C20_probe family 21, so that a tree on
// which that comparison does not compile cannot take the arithmetic sweeps below with it)
template <typename T>
struct hv {
    using rep = T;
    static T make(long double v) { return static_cast<T>(v); }
    static long double val(T const& t) { return static_cast<long double>(t); }
    static constexpr char const* name = "?";
};
template <typename Rep>
bool representable(long double v)
{
    if constexpr (std::is_floating_point_v<Rep>) {
        return static_cast<long double>(static_cast<Rep>(v)) == v;
    } else {
        if (!(v >= static_cast<long double>(std::numeric_limits<Rep>::lowest()) && v <= static_cast<long double>(std::numeric_limits<Rep>::max()))) { return false; }
        return v == static_cast<long double>(static_cast<Rep>(v)); // in range, so the conversion is defined; equal only for integral values
    }
}
// is static_cast<To>(value of type From) defined behaviour?
template <typename To, typename From>
bool conv_defined(From v)
{
    if constexpr (std::is_floating_point_v<From> && std::is_integral_v<To>) {
        long double t = static_cast<long double>(v);
        t             = t < 0 ? -static_cast<long double>(static_cast<unsigned long long>(-t)) : static_cast<long double>(static_cast<unsigned long long>(t));
        return t >= static_cast<long double>(std::numeric_limits<To>::lowest()) && t <= static_cast<long double>(std::numeric_limits<To>::max());
    } else {
        return true;
    }
}
std::vector<long double> const& hetero_values()
{
    static std::vector<long double> const v = {-2147483649.0L, -2147483648.0L, -65536.0L, -257.0L, -256.0L, -129.0L, -128.0L, -1.0L, -0.5L, 0.0L, 0.5L, 1.0L, 1.5L, 2.0L, 127.0L,
        128.0L, 255.0L, 256.0L, 257.0L, 65535.0L, 65536.0L, 16777216.0L, 16777217.0L, 2147483647.0L, 2147483648.0L, 4294967295.0L, 4294967296.0L, 4294967297.0L,
        9007199254740992.0L, 9007199254740993.0L, 18446744073709551615.0L, static_cast<long double>(0.1f), static_cast<long double>(0.1)};
    return v;
}
char const* sgn3(long double a, long double b) { return a < b ? "less" : (a > b ? "greater" : "equal"); }

// all relations that BOTH libraries provide for these operand types, both operand orders
template <typename E1, typename E2, typename S1, typename S2>
void hetero_relations(E1 const& e1, E2 const& e2, S1 const& s1, S2 const& s2)
{
    if constexpr (requires { s1 == s2; } && requires { e1 == e2; }) {
        EQ_BOOL("operator==", "==", e1 == e2, s1 == s2);
        EQ_BOOL("operator!=", "!=", e1 != e2, s1 != s2);
        EQ_BOOL("operator==", "==(swapped)", e2 == e1, s2 == s1);
        EQ_BOOL("operator!=", "!=(swapped)", e2 != e1, s2 != s1);
    }
    if constexpr (requires { s1 < s2; } && requires { e1 < e2; }) {
        EQ_BOOL("operator<", "<", e1 < e2, s1 < s2);
        EQ_BOOL("operator<=", "<=", e1 <= e2, s1 <= s2);
        EQ_BOOL("operator>", ">", e1 > e2, s1 > s2);
        EQ_BOOL("operator>=", ">=", e1 >= e2, s1 >= s2);
        EQ_BOOL("operator<", "<(swapped)", e2 < e1, s2 < s1);
        EQ_BOOL("operator>=", ">=(swapped)", e2 >= e1, s2 >= s1);
    }
    if constexpr (requires { s1 <=> s2; } && requires { e1 <=> e2; }) {
        EQ_BOOL("operator<=>", "<=>:less", (e1 <=> e2) < 0, (s1 <=> s2) < 0);
        EQ_BOOL("operator<=>", "<=>:equal", (e1 <=> e2) == 0, (s1 <=> s2) == 0);
        EQ_BOOL("operator<=>", "<=>:less(swapped)", (e2 <=> e1) < 0, (s2 <=> s1) < 0);
    }
}
template <typename L, typename R>
void hetero_pair_of_types(Ctx& c, char const* lname, char const* rname)
{
    using LR = typename hv<L>::rep;
    using RR = typename hv<R>::rep;
    std::vector<long double> lv, rv;
    for (long double v : hetero_values()) {
        if (representable<LR>(v)) { lv.push_back(v); }
        if (representable<RR>(v)) { rv.push_back(v); }
    }
    static char subj_t[96], subj_t2[96], subj_p[96];
    std::snprintf(subj_t, sizeof subj_t, "tuple<%s,int> vs tuple<%s,int>", lname, rname);
    std::snprintf(subj_t2, sizeof subj_t2, "tuple<int,%s> vs tuple<int,%s>", lname, rname);
    std::snprintf(subj_p, sizeof subj_p, "pair<%s,int> vs pair<%s,int>", lname, rname);
    std::uint64_t n = 0;
    for (long double av : lv) {
        for (long double bv : rv) {
            L const a = hv<L>::make(av);
            R const b = hv<R>::make(bv);
            // classification from the mathematical values; "lossy" = equal only after converting one side to the other's type
            bool to_l = conv_defined<LR>(static_cast<RR>(bv)) && static_cast<long double>(static_cast<LR>(static_cast<RR>(bv))) == av && av != bv;
            bool to_r = conv_defined<RR>(static_cast<LR>(av)) && static_cast<long double>(static_cast<RR>(static_cast<LR>(av))) == bv && av != bv;
            for (int tail = 0; tail < 2; ++tail) {
                char sit[96];
                std::snprintf(sit, sizeof sit, "hetero-%s%s%s,int-%s", sgn3(av, bv), to_l ? ",equal-after-conversion-to-lhs" : "", to_r ? ",equal-after-conversion-to-rhs" : "",
                    tail ? "differs" : "equal");
                g_sit = sit;
                std::snprintf(c.desc, sizeof c.desc, "lhs=%.20Lg rhs=%.20Lg tail=%d", av, bv, tail);
                c.h = vf::mix(0xE7E0, ++n);
                g_subj = subj_t;
                hetero_relations(etl::tuple<L, int>(a, 1), etl::tuple<R, int>(b, 1 + tail), std::tuple<L, int>(a, 1), std::tuple<R, int>(b, 1 + tail));
                g_subj = subj_t2;
                hetero_relations(etl::tuple<int, L>(1, a), etl::tuple<int, R>(1 + tail, b), std::tuple<int, L>(1, a), std::tuple<int, R>(1 + tail, b));
                g_subj = subj_p;
                hetero_relations(etl::pair<L, int>(a, 1), etl::pair<R, int>(b, 1 + tail), std::pair<L, int>(a, 1), std::pair<R, int>(b, 1 + tail));
            }
            // converting construction / assignment R -> L (only where the conversion of this value is defined)
            if constexpr (std::is_constructible_v<L, R const&>) {
                if (conv_defined<LR>(static_cast<RR>(bv))) {
                    g_sit  = to_l ? "converting,lossy" : "converting";
                    g_subj = subj_p;
                    crumb("pair(pair<U1,U2> const&)");
                    etl::pair<R, int> const esrc(b, 3);
                    std::pair<R, int> const ssrc(b, 3);
                    etl::pair<L, int> ec(esrc);
                    std::pair<L, int> sc(ssrc);
                    if (hv<L>::val(ec.first) != hv<L>::val(sc.first)) { vf::diverge("first:value-after-conversion", std::to_string(hv<L>::val(ec.first)), std::to_string(hv<L>::val(sc.first))); }
                    cover("pair(pair<U1,U2> const&)");
                    crumb("pair(pair<U1,U2>&&)");
                    etl::pair<L, int> em(etl::pair<R, int>(b, 3));
                    if (hv<L>::val(em.first) != hv<L>::val(sc.first)) { vf::diverge("first:value-after-conversion", std::to_string(hv<L>::val(em.first)), std::to_string(hv<L>::val(sc.first))); }
                    cover("pair(pair<U1,U2>&&)");
                    if constexpr (std::is_assignable_v<L&, R const&>) {
                        crumb("operator=(pair<U1,U2> const&)");
                        etl::pair<L, int> ea(a, 0);
                        std::pair<L, int> sa(a, 0);
                        ea = esrc;
                        sa = ssrc;
                        if (hv<L>::val(ea.first) != hv<L>::val(sa.first)) { vf::diverge("first:value-after-conversion", std::to_string(hv<L>::val(ea.first)), std::to_string(hv<L>::val(sa.first))); }
                        vf::eq_int("second", ea.second, sa.second);
                        cover("operator=(pair<U1,U2> const&)");
                    }
                    g_subj = subj_t;
                    crumb("tuple(Us&&...)");
                    etl::tuple<L, int> et(b, 3);
                    std::tuple<L, int> st(b, 3);
                    if (hv<L>::val(etl::get<0>(et)) != hv<L>::val(std::get<0>(st))) {
                        vf::diverge("element0:value-after-conversion", std::to_string(hv<L>::val(etl::get<0>(et))), std::to_string(hv<L>::val(std::get<0>(st))));
                    }
                    cover("tuple(Us&&...)");
                    if constexpr (std::is_constructible_v<etl::tuple<L, int>, etl::tuple<R, int> const&> && std::is_constructible_v<std::tuple<L, int>, std::tuple<R, int> const&>) {
                        crumb("tuple(tuple<Us...> const&)");
                        etl::tuple<R, int> const es2(b, 3);
                        std::tuple<R, int> const ss2(b, 3);
                        etl::tuple<L, int> et2(es2);
                        std::tuple<L, int> st2(ss2);
                        if (hv<L>::val(etl::get<0>(et2)) != hv<L>::val(std::get<0>(st2))) { vf::diverge("element0:value-after-conversion", "differs", "std value"); }
                        cover("tuple(tuple<Us...> const&)");
                    }
                }
            }
        }
    }
}
constexpr unsigned kHetero = 8;
template <typename A, typename B>
void hetero_both_orders(Ctx& c, char const* an, char const* bn)
{
    hetero_pair_of_types<A, B>(c, an, bn);
    hetero_pair_of_types<B, A>(c, bn, an);
}
void hetero_case(Ctx& c, unsigned k)
{
    switch (k) {
    case 0: hetero_both_orders<int, double>(c, "int", "double"); break;
    case 1: hetero_both_orders<unsigned char, int>(c, "unsigned char", "int"); break;
    case 2: hetero_both_orders<long long, int>(c, "long long", "int"); break;
    case 3: hetero_both_orders<int, unsigned>(c, "int", "unsigned"); break;
    case 4: hetero_both_orders<signed char, unsigned char>(c, "signed char", "unsigned char"); break;
    case 5: hetero_both_orders<float, double>(c, "float", "double"); break;
    case 6: hetero_both_orders<long long, double>(c, "long long", "double"); break;
    default: hetero_both_orders<short, unsigned long long>(c, "short", "unsigned long long"); break;
    }
}

// ------------------------------------------------------------------------------------------------ inconsistent / partial element comparisons
// std::pair's ordering is defined through the elements' < only (C++20: synth-three-way falls back to < when the element
// has no <=>), its equality through == only; std::tuple's equality through == only.  Element types whose == disagrees
// with the equivalence implied by < (RT), that have only one of the two (OnlyEq here, OnlyLess in its own probe cell),
// or that count the calls of each operator (Cnt) make that observable.
template <typename E1, typename E2, typename S1, typename S2>
void all_relations_both_orders(E1 const& e1, E2 const& e2, S1 const& s1, S2 const& s2)
{
    hetero_relations(e1, e2, s1, s2);
}
// the set of element operators a relation used (and, for equality, how often) must be the one std uses
template <typename E, typename S>
void cnt_compare(char const* op, E&& e, S&& s, bool exact_counts)
{
    cmpcounts().clear();
    bool rs = s();
    CmpCounts cs = cmpcounts();
    cmpcounts().clear();
    crumb(op);
    bool re = e();
    CmpCounts ce = cmpcounts();
    cmpcounts().clear();
    vf::eq_bool("result", re, rs);
    if (ce.kinds() != cs.kinds()) {
        std::string sym = "element-operators:" + ce.kinds() + "-for-" + cs.kinds();
        vf::diverge(sym.c_str(), ce.show(), cs.show());
    } else if (exact_counts && (ce.eq != cs.eq || ce.ne != cs.ne)) {
        vf::diverge(ce.eq + ce.ne > cs.eq + cs.ne ? "element-comparisons:more" : "element-comparisons:fewer", ce.show(), cs.show());
    }
    cover(op);
}
void inconsistent_ops(Ctx& c)
{
    // ---- (a) ordered by rank, equal on rank+tag: first element of a pair, second as the tie-breaker
    {
        RT const a{c.x[0], c.x[1]}, b{c.y[0], c.y[1]};
        int const sa = c.x[2], sb = c.y[2];
        char sit[96];
        std::snprintf(sit, sizeof sit, "rank-%s,tag-%s,second-%s", cmp3(a.rank, b.rank), a.tag == b.tag ? "same" : "differs", cmp3(sa, sb));
        g_sit  = sit;
        g_subj = "pair<RT,int>";
        all_relations_both_orders(etl::pair<RT, int>(a, sa), etl::pair<RT, int>(b, sb), std::pair<RT, int>(a, sa), std::pair<RT, int>(b, sb));
        g_subj = "pair<int,RT>";
        all_relations_both_orders(etl::pair<int, RT>(sa, a), etl::pair<int, RT>(sb, b), std::pair<int, RT>(sa, a), std::pair<int, RT>(sb, b));
        g_subj = "pair<RT,RT>";
        RT const a2{c.x[2], c.x[0]}, b2{c.y[2], c.y[0]};
        all_relations_both_orders(etl::pair<RT, RT>(a, a2), etl::pair<RT, RT>(b, b2), std::pair<RT, RT>(a, a2), std::pair<RT, RT>(b, b2));
        // tuples with 1-3 elements, the inconsistent element at every position (== / != today; ordering where provided)
        g_subj = "tuple<RT>";
        all_relations_both_orders(etl::tuple<RT>(a), etl::tuple<RT>(b), std::tuple<RT>(a), std::tuple<RT>(b));
        g_subj = "tuple<RT,int>";
        all_relations_both_orders(etl::tuple<RT, int>(a, sa), etl::tuple<RT, int>(b, sb), std::tuple<RT, int>(a, sa), std::tuple<RT, int>(b, sb));
        g_subj = "tuple<int,RT>";
        all_relations_both_orders(etl::tuple<int, RT>(sa, a), etl::tuple<int, RT>(sb, b), std::tuple<int, RT>(sa, a), std::tuple<int, RT>(sb, b));
        g_subj = "tuple<RT,int,RT>";
        all_relations_both_orders(etl::tuple<RT, int, RT>(a, sa, a2), etl::tuple<RT, int, RT>(b, sb, b2), std::tuple<RT, int, RT>(a, sa, a2), std::tuple<RT, int, RT>(b, sb, b2));
        g_subj = "tuple<int,RT,int>";
        all_relations_both_orders(etl::tuple<int, RT, int>(c.x[2], a, c.x[0]), etl::tuple<int, RT, int>(c.y[2], b, c.y[0]), std::tuple<int, RT, int>(c.x[2], a, c.x[0]),
            std::tuple<int, RT, int>(c.y[2], b, c.y[0]));
    }
    // ---- (b) an element with == only: equality of pairs and tuples (ordering is ill-formed in both libraries)
    {
        char sit[64];
        std::snprintf(sit, sizeof sit, "first-%s,second-%s", c.x[0] == c.y[0] ? "tie" : "differs", c.x[1] == c.y[1] ? "tie" : "differs");
        g_sit  = sit;
        g_subj = "pair<OnlyEq,int>";
        etl::pair<OnlyEq, int> const ea(OnlyEq{c.x[0]}, c.x[1]), eb(OnlyEq{c.y[0]}, c.y[1]);
        std::pair<OnlyEq, int> const sa(OnlyEq{c.x[0]}, c.x[1]), sb(OnlyEq{c.y[0]}, c.y[1]);
        EQ_BOOL("operator==", "==", ea == eb, sa == sb);
        EQ_BOOL("operator!=", "!=", ea != eb, sa != sb);
        EQ_BOOL("operator==", "==(swapped)", eb == ea, sb == sa);
        g_subj = "tuple<int,OnlyEq,OnlyEq>";
        etl::tuple<int, OnlyEq, OnlyEq> const ta(c.x[0], OnlyEq{c.x[1]}, OnlyEq{c.x[2]}), tb(c.y[0], OnlyEq{c.y[1]}, OnlyEq{c.y[2]});
        std::tuple<int, OnlyEq, OnlyEq> const ua(c.x[0], OnlyEq{c.x[1]}, OnlyEq{c.x[2]}), ub(c.y[0], OnlyEq{c.y[1]}, OnlyEq{c.y[2]});
        g_sit = first_diff(c.x, c.y, 3);
        EQ_BOOL("operator==", "==", ta == tb, ua == ub);
        EQ_BOOL("operator!=", "!=", ta != tb, ua != ub);
        EQ_BOOL("operator==", "==(swapped)", tb == ta, ub == ua);
    }
    // ---- (c) which element operators a relation uses, and how often for equality
    {
        char sit[64];
        std::snprintf(sit, sizeof sit, "first-%s,second-%s", cmp3(c.x[0], c.y[0]), cmp3(c.x[1], c.y[1]));
        g_sit  = sit;
        g_subj = "pair<Cnt,Cnt>";
        etl::pair<Cnt, Cnt> const ea(Cnt{c.x[0]}, Cnt{c.x[1]}), eb(Cnt{c.y[0]}, Cnt{c.y[1]});
        std::pair<Cnt, Cnt> const sa(Cnt{c.x[0]}, Cnt{c.x[1]}), sb(Cnt{c.y[0]}, Cnt{c.y[1]});
        cnt_compare("operator==", [&] { return ea == eb; }, [&] { return sa == sb; }, true);
        cnt_compare("operator!=", [&] { return ea != eb; }, [&] { return sa != sb; }, true);
        cnt_compare("operator<", [&] { return ea < eb; }, [&] { return sa < sb; }, false);
        cnt_compare("operator<=", [&] { return ea <= eb; }, [&] { return sa <= sb; }, false);
        cnt_compare("operator>", [&] { return ea > eb; }, [&] { return sa > sb; }, false);
        cnt_compare("operator>=", [&] { return ea >= eb; }, [&] { return sa >= sb; }, false);
        cnt_compare("operator<", [&] { return eb < ea; }, [&] { return sb < sa; }, false);
        g_sit = first_diff(c.x, c.y, 1);
        g_subj = "tuple<Cnt>";
        {
            etl::tuple<Cnt> const ta(Cnt{c.x[0]}), tb(Cnt{c.y[0]});
            std::tuple<Cnt> const ua(Cnt{c.x[0]}), ub(Cnt{c.y[0]});
            cnt_compare("operator==", [&] { return ta == tb; }, [&] { return ua == ub; }, true);
            cnt_compare("operator!=", [&] { return ta != tb; }, [&] { return ua != ub; }, true);
        }
        g_sit  = first_diff(c.x, c.y, 2);
        g_subj = "tuple<Cnt,Cnt>";
        {
            etl::tuple<Cnt, Cnt> const ta(Cnt{c.x[0]}, Cnt{c.x[1]}), tb(Cnt{c.y[0]}, Cnt{c.y[1]});
            std::tuple<Cnt, Cnt> const ua(Cnt{c.x[0]}, Cnt{c.x[1]}), ub(Cnt{c.y[0]}, Cnt{c.y[1]});
            cnt_compare("operator==", [&] { return ta == tb; }, [&] { return ua == ub; }, true);
            cnt_compare("operator!=", [&] { return ta != tb; }, [&] { return ua != ub; }, true);
        }
        g_sit  = first_diff(c.x, c.y, 3);
        g_subj = "tuple<Cnt,int,Cnt>";
        {
            etl::tuple<Cnt, int, Cnt> const ta(Cnt{c.x[0]}, c.x[1], Cnt{c.x[2]}), tb(Cnt{c.y[0]}, c.y[1], Cnt{c.y[2]});
            std::tuple<Cnt, int, Cnt> const ua(Cnt{c.x[0]}, c.x[1], Cnt{c.x[2]}), ub(Cnt{c.y[0]}, c.y[1], Cnt{c.y[2]});
            cnt_compare("operator==", [&] { return ta == tb; }, [&] { return ua == ub; }, true);
            cnt_compare("operator!=", [&] { return tb != ta; }, [&] { return ub != ua; }, true);
        }
    }
    // ---- (d) partially ordered elements: == / != with NaN always; <=> and the ordering through it only where etl provides <=>
    {
        double const nan = std::numeric_limits<double>::quiet_NaN();
        double const d[4] = {nan, 0.0, 1.0, -0.0};
        double const a = d[c.x[0] + (c.x[1] == 2 ? 1 : 0)], b = d[c.y[0] + (c.y[1] == 2 ? 1 : 0)];
        char sit[64];
        std::snprintf(sit, sizeof sit, "lhs-%s,rhs-%s,second-%s", a != a ? "nan" : "number", b != b ? "nan" : "number", cmp3(c.x[2], c.y[2]));
        g_sit  = sit;
        g_subj = "pair<double,int>";
        etl::pair<double, int> const ea(a, c.x[2]), eb(b, c.y[2]);
        std::pair<double, int> const sa(a, c.x[2]), sb(b, c.y[2]);
        EQ_BOOL("operator==", "==", ea == eb, sa == sb);
        EQ_BOOL("operator!=", "!=", ea != eb, sa != sb);
        EQ_BOOL("operator==", "==(self)", ea == ea, sa == sa);
        auto three_way = [&]<typename P = etl::pair<double, int>>(P const& p, P const& q) {
            if constexpr (requires { p <=> q; }) {
                EQ_BOOL("operator<=>", "<=>:less", (p <=> q) < 0, (sa <=> sb) < 0);
                EQ_BOOL("operator<=>", "<=>:equivalent", (p <=> q) == 0, (sa <=> sb) == 0);
                EQ_BOOL("operator<=>", "<=>:unordered", (p <=> q) == std::partial_ordering::unordered, (sa <=> sb) == std::partial_ordering::unordered);
                EQ_BOOL("operator<", "<", p < q, sa < sb);
                EQ_BOOL("operator>=", ">=", p >= q, sa >= sb);
            }
        };
        three_way(ea, eb);
        g_subj = "tuple<int,double>";
        etl::tuple<int, double> const ta(c.x[2], a), tb(c.y[2], b);
        std::tuple<int, double> const ua(c.x[2], a), ub(c.y[2], b);
        EQ_BOOL("operator==", "==", ta == tb, ua == ub);
        EQ_BOOL("operator!=", "!=", ta != tb, ua != ub);
        EQ_BOOL("operator==", "==(self)", ta == ta, ua == ua);
    }
}

// ------------------------------------------------------------------------------------------------ random part
int boundary_int(vf::Rng& r)
{
    static int const b[] = {INT_MIN, INT_MIN + 1, -2, -1, 0, 1, 2, INT_MAX - 1, INT_MAX};
    return r.chance(2, 3) ? r.pick(b) : (int)r.range(-1000, 1000);
}
void random_case(Ctx& c, vf::Rng& r)
{
    // wide tuple with mixed element types
    using ET = etl::tuple<int, long long, unsigned char, short, bool>;
    using ST = std::tuple<int, long long, unsigned char, short, bool>;
    int v[5], w[5];
    for (int i = 0; i < 5; ++i) {
        v[i] = boundary_int(r);
        w[i] = r.chance(1, 2) ? v[i] : boundary_int(r);
    }
    auto mk = [](auto tag, int const* p) {
        using T = typename decltype(tag)::type;
        return T(p[0], (long long)p[1] * 3, (unsigned char)p[2], (short)p[3], (p[4] & 1) != 0);
    };
    ET ea = mk(std::type_identity<ET>{}, v), eb = mk(std::type_identity<ET>{}, w);
    ST sa = mk(std::type_identity<ST>{}, v), sb = mk(std::type_identity<ST>{}, w);
    g_subj = "tuple<int,long long,unsigned char,short,bool>";
    int nv[5], nw[5];
    for (int i = 0; i < 5; ++i) {
        nv[i] = i == 2 ? (unsigned char)v[i] : (i == 3 ? (short)v[i] : (i == 4 ? (v[i] & 1) : v[i]));
        nw[i] = i == 2 ? (unsigned char)w[i] : (i == 3 ? (short)w[i] : (i == 4 ? (w[i] & 1) : w[i]));
    }
    g_sit = first_diff(nv, nw, 5);
    EQ_BOOL("operator==", "==", ea == eb, sa == sb);
    EQ_BOOL("operator!=", "!=", ea != eb, sa != sb);
    crumb("swap(tuple&)");
    ea.swap(eb);
    sa.swap(sb);
    eq_tuple("swap(tuple&)/lhs", ea, sa);
    eq_tuple("swap(tuple&)/rhs", eb, sb);
    auto fold = [](int p, long long q, unsigned char rr, short s, bool t) { return (long long)p ^ (q * 31) ^ (rr * 131) ^ (s * 1031) ^ (t ? 7 : 0); };
    EQ_INT("apply(f,t)", "result", etl::apply(fold, ea), std::apply(fold, sa));
    crumb("tuple_cat(t&&,u&&)");
    auto ec = etl::tuple_cat(ET(ea), ET(eb));
    auto sc = std::tuple_cat(ST(sa), ST(sb));
    same_type<decltype(ec), decltype(sc)>();
    eq_tuple("tuple_cat(t&&,u&&)", ec, sc);
    // pair relations on boundary values and mixed element types
    g_subj = "pair<long long,unsigned>";
    {
        long long a0 = (long long)v[0] * 2, b0 = r.chance(1, 2) ? a0 : (long long)w[0] * 2;
        unsigned a1 = (unsigned)v[1], b1 = r.chance(1, 2) ? a1 : (unsigned)w[1];
        char sit[64];
        std::snprintf(sit, sizeof sit, "first-%s,second-%s", a0 < b0 ? "less" : (a0 > b0 ? "greater" : "tie"), a1 < b1 ? "less" : (a1 > b1 ? "greater" : "tie"));
        g_sit = sit;
        etl::pair<long long, unsigned> const pa(a0, a1), pb(b0, b1);
        std::pair<long long, unsigned> const qa(a0, a1), qb(b0, b1);
        EQ_BOOL("operator==", "==", pa == pb, qa == qb);
        EQ_BOOL("operator!=", "!=", pa != pb, qa != qb);
        EQ_BOOL("operator<", "<", pa < pb, qa < qb);
        EQ_BOOL("operator<=", "<=", pa <= pb, qa <= qb);
        EQ_BOOL("operator>", ">", pa > pb, qa > qb);
        EQ_BOOL("operator>=", ">=", pa >= pb, qa >= qb);
    }
    g_subj = "pair<int,int>";
    {
        c.x[0] = v[0];
        c.x[1] = v[1];
        c.y[0] = w[0];
        c.y[1] = w[1];
        pair_relations<int, int>(c, "pair<int,int>");
        pair_copyable_ops<int, int>(c, "pair<int,int>");
    }
}

// std APIs of pair/tuple that etl does not provide: detected (SFINAE-friendly), listed in the evidence, not compared
template <typename I = int>
std::string absent_apis()
{
    using ET2 = etl::tuple<I, long>;
    using EP2 = etl::pair<I, long>;
    std::string s;
    auto add = [&](bool present, char const* what) {
        if (!present) {
            s += s.empty() ? "" : "; ";
            s += what;
        }
    };
    add(std::is_constructible_v<etl::tuple<long, long>, ET2 const&>, "tuple(tuple<Us...> const&)");
    add(std::is_constructible_v<ET2, EP2 const&>, "tuple(pair<U1,U2> const&)");
    add(std::is_copy_assignable_v<ET2>, "tuple::operator=(tuple const&)");
    add(std::is_move_assignable_v<ET2>, "tuple::operator=(tuple&&)");
    add(requires(ET2 a, ET2 b) { a < b; }, "operator<(tuple,tuple)");
    add(requires(ET2 a, ET2 b) { a <=> b; }, "operator<=>(tuple,tuple)");
    add(requires(ET2 a, ET2 b) { swap(a, b); }, "swap(tuple&,tuple&)");
    add(requires(ET2 a) { etl::get<I>(a); }, "get<T>(tuple)");
    add(requires(EP2 a) { etl::get<I>(a); }, "get<T>(pair)");
    add(requires(EP2 a, EP2 b) { a <=> b; }, "operator<=>(pair,pair)");
    add(requires(EP2 a, etl::pair<long, I> b) { a == b; }, "operator==(pair<T1,T2>,pair<U1,U2>)");
    return s.empty() ? "none" : s;
}

vf::Spec spec(vf::Tier t)
{
    vf::Spec s;
    s.n_enum     = 729 + kHetero; // every ordered pair of 3-tuples over {0,1,2} + one case per heterogeneous element-type pair
    s.n_random   = t == vf::Tier::thorough ? 200000 : 4000;
    s.batch      = t == vf::Tier::thorough ? 256 : 32;
    s.exhaustive = true;
    return s;
}
void run_case(vf::Case& c)
{
    Ctx x{};
    g_c          = &x;
    x.enumerated = c.enumerated;
    if (c.enumerated && c.index >= 729) {
        unsigned k = (unsigned)(c.index - 729);
        if (vf::want_sample("heterogeneous")) { vf::sample("heterogeneous", "element-type pair #%u: every value pair of the table representable in the two types, both operand orders", k); }
        hetero_case(x, k);
    } else if (c.enumerated) {
        unsigned a = (unsigned)(c.index / 27), b = (unsigned)(c.index % 27);
        for (int i = 2; i >= 0; --i) {
            x.x[i] = (int)(a % 3);
            a /= 3;
            x.y[i] = (int)(b % 3);
            b /= 3;
        }
        x.h = vf::mix(0xC20, c.index);
        std::snprintf(x.desc, sizeof x.desc, "x=(%d,%d,%d) y=(%d,%d,%d)", x.x[0], x.x[1], x.x[2], x.y[0], x.y[1], x.y[2]);
        if (vf::want_sample("enumerated")) { vf::sample("enumerated", "%s: every pair/tuple operation of the unit on these values", x.desc); }
        if (c.index == 0) { vf::sample("std-api-not-provided-by-etl(skipped)", "%s", absent_apis().c_str()); }
        pair_relations<int, int>(x, "pair<int,int>");
        pair_relations<long, unsigned char>(x, "pair<long,unsigned char>");
        pair_relations<Co, int>(x, "pair<Co,int>");
        pair_relations<int const, Mo>(x, "pair<int const,Mo>");
        pair_copyable_ops<int, int>(x, "pair<int,int>");
        pair_copyable_ops<Co, long>(x, "pair<Co,long>");
        pair_converting_ops<int, int, short, long>(x, "pair<int,int><-pair<short,long>");
        pair_converting_ops<long, Co, int, Co>(x, "pair<long,Co><-pair<int,Co>");
        pair_move_only(x);
        pair_spy(x);
        tuple3_ops<int, int, int>(x, "tuple<int,int,int>");
        tuple3_ops<long, Co, short>(x, "tuple<long,Co,short>");
        tuple_misc(x);
        tuple_move_only(x);
        tuple_spy(x);
        swap_adl(x);
        inconsistent_ops(x);
    } else {
        x.h = vf::mix(0xC20F, c.rng.next());
        std::snprintf(x.desc, sizeof x.desc, "random case %llu", (unsigned long long)c.index);
        random_case(x, c.rng);
        if (vf::want_sample("random")) { vf::sample("random", "wide tuple / boundary-value pair, case %llu", (unsigned long long)c.index); }
    }
}
} // namespace

VF_MAIN("C20", "C20_values", spec, run_case)
