// C07 - relational operators over UNORDERED payload values: std::optional / std::variant forward each of the six
// relations to the SAME operator of the contained value, so with a NaN (or a partially ordered type) `<=` is not
// `!(>)`.  Subjects: optional<double>, optional<PO>, mixed optional<double>/optional<float>|optional<int>,
// optional<double&> (model: std::optional<double> built from the pointer), variant<int,double>, variant<PO,double,int>.
// PO is a partially ordered instrumented type: its six operators are independent functions that log their calls,
// value 2 is unordered with everything.  All ordered pairs of states x six relations x both argument orders, in the
// optional-optional / optional-nullopt / optional-value and variant-variant forms; besides the results, the number
// of calls of PO's <, <=, >, >= is compared (a relation derived from another operator shows up there even for
// ordered values).  expected has no relational operators in tetl.
// Third part ("mixed" cells): optional<T> against optional<U> / U / T with T != U and the values where the usual
// arithmetic conversions bite: signed/unsigned of equal and different width (negative values, values above the signed
// maximum), integer/floating (fractions, 2^53+1), char/int.  std applies the builtin operator to the two payloads.
// Second part ("self" cells): the SAME object on both sides of every relation (optional, optional<T&>, variant), the
// optional compared with its own contained object, and <=> where both libraries provide it, for payloads whose
// comparisons are not reflexive / not consistent (NaN, PO's unordered value, `Weird`: == and != both false, < and >
// both true, <= and >= both false).  std compares the payloads even then; an identity shortcut is a divergence.
#include "vf.hpp"
#include "vf_contract.hpp"
#include "vf_tracked.hpp"

#include "vf_c07.hpp"

#include <cmath>
#include <limits>

namespace {
using namespace c07;

struct PO {
    int v; // 0, 1 ordered; 2 unordered with everything (like a NaN)
    static inline long calls[6] = {0, 0, 0, 0, 0, 0};
    static bool ord(PO a, PO b) { return a.v != 2 && b.v != 2; }
    friend bool operator==(PO a, PO b) { return (++calls[0], ord(a, b) && a.v == b.v); }
    friend bool operator!=(PO a, PO b) { return (++calls[1], !(ord(a, b) && a.v == b.v)); }
    friend bool operator<(PO a, PO b) { return (++calls[2], ord(a, b) && a.v < b.v); }
    friend bool operator<=(PO a, PO b) { return (++calls[3], ord(a, b) && a.v <= b.v); }
    friend bool operator>(PO a, PO b) { return (++calls[4], ord(a, b) && a.v > b.v); }
    friend bool operator>=(PO a, PO b) { return (++calls[5], ord(a, b) && a.v >= b.v); }
};

template <typename T>
T val(int k)
{
    if constexpr (std::is_same_v<T, PO>) {
        return PO{k};
    } else if constexpr (std::is_floating_point_v<T>) {
        return k == 2 ? std::numeric_limits<T>::quiet_NaN() : static_cast<T>(k);
    } else {
        return static_cast<T>(k);
    }
}
char const* vname(int y) { return y == 0 ? "empty" : y == 3 ? "unordered" : "ordered"; }

void obs_calls(Obs& r)
{
    // == and != are not compared by call count: tetl synthesises != from == (C++20 rewriting), same result for any
    // type whose != is the negation of ==
    r.i("payload operator< calls", PO::calls[2]);
    r.i("payload operator<= calls", PO::calls[3]);
    r.i("payload operator> calls", PO::calls[4]);
    r.i("payload operator>= calls", PO::calls[5]);
    for (long& c : PO::calls) { c = 0; }
}

template <typename A>
void rel_nullopt(Obs& r, A const& a, auto const& n)
{
    r.b("a==nullopt", a == n);
    r.b("a!=nullopt", a != n);
    r.b("a<nullopt", a < n);
    r.b("a<=nullopt", a <= n);
    r.b("a>nullopt", a > n);
    r.b("a>=nullopt", a >= n);
    r.b("nullopt==a", n == a);
    r.b("nullopt!=a", n != a);
    r.b("nullopt<a", n < a);
    r.b("nullopt<=a", n <= a);
    r.b("nullopt>a", n > a);
    r.b("nullopt>=a", n >= a);
}

// ---------------------------------------------------------------- optional<T> vs optional<U> / value / nullopt
template <typename NS, typename T, typename U>
void opt_world(Obs& r, int ya, int yb)
{
    using OA   = typename NS::template optional<T>;
    using OB   = typename NS::template optional<U>;
    OA const a = ya ? OA(val<T>(ya - 1)) : OA();
    OB const b = yb ? OB(val<U>(yb - 1)) : OB();
    for (long& c : PO::calls) { c = 0; }
    rel6(r, a, b);
    obs_calls(r);
    if (yb != 0) {
        U const u = val<U>(yb - 1);
        rel6(r, a, u);
    } else {
        rel_nullopt(r, a, NS::nullopt);
    }
    obs_calls(r);
}
template <typename T, typename U>
void opt_cells(char const* subj, char const* other)
{
    for (int ya = 0; ya <= 3; ++ya) {
        for (int yb = 0; yb <= 3; ++yb) {
            char op[80], sit[64];
            std::snprintf(op, sizeof op, "relational(optional, %s / value / nullopt)", other);
            std::snprintf(sit, sizeof sit, "a-%s,b-%s", vname(ya), vname(yb));
            vf::crumb(subj, op, sit, "ya=%d yb=%d (0 empty, 1..3 = values 0, 1, unordered)", ya, yb);
            Obs so, eo;
            opt_world<Std, T, U>(so, ya, yb);
            opt_world<Etl, T, U>(eo, ya, yb);
            vf::cover("relations over unordered payloads: optional", vf::mix(vf::mix(vf::fnv(subj), vf::fnv(other)), ya * 4 + yb), true);
            compare(eo, so);
        }
    }
}

// ---------------------------------------------------------------- optional<double&>
void optref_cells()
{
    double tg[3] = {0.0, 1.0, std::numeric_limits<double>::quiet_NaN()};
    for (int ya = 0; ya <= 3; ++ya) {
        for (int yb = 0; yb <= 3; ++yb) {
            char sit[64];
            std::snprintf(sit, sizeof sit, "a-%s,b-%s", vname(ya), vname(yb));
            vf::crumb("optional<double&>", "relational(optional<T&>, optional<T&> / optional<T> / value / nullopt)", sit, "ya=%d yb=%d", ya, yb);
            using ER   = etl::optional<double&>;
            using SO   = std::optional<double>;
            ER const a = ya ? ER(tg[ya - 1]) : ER();
            ER const b = yb ? ER(tg[yb - 1]) : ER();
            SO const ma = ya ? SO(tg[ya - 1]) : SO();
            SO const mb = yb ? SO(tg[yb - 1]) : SO();
            etl::optional<double> const bv = yb ? etl::optional<double>(tg[yb - 1]) : etl::optional<double>();
            Obs so, eo;
            rel6(eo, a, b);
            rel6(so, ma, mb);
            rel6(eo, a, bv);
            rel6(so, ma, mb);
            if (yb != 0) {
                rel6(eo, a, tg[yb - 1]);
                rel6(so, ma, tg[yb - 1]);
            } else {
                rel_nullopt(eo, a, etl::nullopt);
                rel_nullopt(so, ma, std::nullopt);
            }
            vf::cover("relations over unordered payloads: optional<T&>", vf::mix(77, ya * 4 + yb), true);
            compare(eo, so);
        }
    }
}

// ---------------------------------------------------------------- variants
template <typename NS, typename... Ts>
struct VarRel {
    using V = typename NS::template variant<Ts...>;
    template <std::size_t I = 0>
    static V mk(std::size_t j, int k)
    {
        if constexpr (I + 1 < sizeof...(Ts)) {
            if (j != I) { return mk<I + 1>(j, k); }
        }
        using T = std::tuple_element_t<I, std::tuple<Ts...>>;
        return V(NS::template ipi<I>, val<T>(k));
    }
    static void run(Obs& r, std::size_t ja, int ka, std::size_t jb, int kb)
    {
        V const a = mk(ja, ka);
        V const b = mk(jb, kb);
        for (long& c : PO::calls) { c = 0; }
        rel6(r, a, b);
        obs_calls(r);
    }
};
template <typename... Ts>
void var_cells(char const* subj)
{
    constexpr std::size_t N = sizeof...(Ts);
    for (std::size_t ja = 0; ja < N; ++ja) {
        for (int ka = 0; ka < 3; ++ka) {
            for (std::size_t jb = 0; jb < N; ++jb) {
                for (int kb = 0; kb < 3; ++kb) {
                    char sit[96];
                    std::snprintf(sit, sizeof sit, "from-index-%zu,to-index-%zu,a-%s,b-%s", ja, jb, vname(ka + 1), vname(kb + 1));
                    vf::crumb(subj, "relational(variant,variant)", sit, "a=(%zu,%d) b=(%zu,%d) (value 2 = NaN / unordered where the alternative has one)", ja, ka, jb, kb);
                    Obs so, eo;
                    VarRel<Std, Ts...>::run(so, ja, ka, jb, kb);
                    VarRel<Etl, Ts...>::run(eo, ja, ka, jb, kb);
                    vf::cover("relations over unordered payloads: variant", vf::mix(vf::fnv(subj), ((ja * 3 + ka) * N + jb) * 3 + kb), true);
                    compare(eo, so);
                }
            }
        }
    }
}

struct Weird { // deliberately inconsistent comparisons, all counted
    int v;
    static inline long calls[6] = {0, 0, 0, 0, 0, 0};
    friend bool operator==(Weird, Weird) { return (++calls[0], false); }
    friend bool operator!=(Weird, Weird) { return (++calls[1], false); }
    friend bool operator<(Weird, Weird) { return (++calls[2], true); }
    friend bool operator<=(Weird, Weird) { return (++calls[3], false); }
    friend bool operator>(Weird, Weird) { return (++calls[4], true); }
    friend bool operator>=(Weird, Weird) { return (++calls[5], false); }
};
template <>
Weird val<Weird>(int k)
{
    return Weird{k};
}
void obs_weird_calls(Obs& r)
{
    r.i("Weird operator< calls", Weird::calls[2]);
    r.i("Weird operator<= calls", Weird::calls[3]);
    r.i("Weird operator> calls", Weird::calls[4]);
    r.i("Weird operator>= calls", Weird::calls[5]);
    r.i("Weird operator==/!= calls", Weird::calls[0] + Weird::calls[1]); // tetl may legitimately use == for !=
    for (long& c : Weird::calls) { c = 0; }
}
template <typename A, typename B>
inline constexpr bool kHasSpaceship = requires(A const& a, B const& b) { a <=> b; };
// three-way result as -1/0/+1/2(unordered); only where BOTH libraries provide <=> for the operand types
template <typename ES, typename SS, typename A, typename B>
void obs_spaceship(Obs& r, A const& a, B const& b)
{
    if constexpr (kHasSpaceship<ES, ES> && kHasSpaceship<SS, SS>) {
        auto c = a <=> b;
        r.i("a<=>b", c < 0 ? -1 : c > 0 ? 1 : c == 0 ? 0 : 2);
    }
}

// same optional object on both sides; the optional against its own contained object; against nullopt
template <typename NS, typename T>
void opt_self_world(Obs& r, int y)
{
    using O   = typename NS::template optional<T>;
    O const a = y ? O(val<T>(y - 1)) : O();
    for (long& c : PO::calls) { c = 0; }
    for (long& c : Weird::calls) { c = 0; }
    rel6(r, a, a);
    obs_spaceship<etl::optional<T>, std::optional<T>>(r, a, a);
    if (y != 0) {
        T const& own = *a; // the optional's own contained object
        rel6(r, a, own);
    } else {
        rel_nullopt(r, a, NS::nullopt);
    }
    rel_nullopt(r, a, NS::nullopt);
    obs_calls(r);
    obs_weird_calls(r);
}
template <typename T>
void opt_self_cells(char const* subj)
{
    for (int y = 0; y <= 3; ++y) {
        vf::crumb(subj, "relational(a,a) same object / a vs its own contained value / nullopt", vname(y), "y=%d (0 empty, 1..3 = values 0, 1, unordered/NaN)", y);
        Obs so, eo;
        opt_self_world<Std, T>(so, y);
        opt_self_world<Etl, T>(eo, y);
        vf::cover("relations with the same object on both sides: optional", vf::mix(vf::fnv(subj), y), true);
        compare(eo, so);
    }
}
void optref_self_cells()
{
    double tg[3] = {0.0, 1.0, std::numeric_limits<double>::quiet_NaN()};
    for (int y = 0; y <= 3; ++y) {
        vf::crumb("optional<double&>", "relational(a,a) same object / a vs the bound object / nullopt", vname(y), "y=%d", y);
        using ER    = etl::optional<double&>;
        using SO    = std::optional<double>;
        ER const a  = y ? ER(tg[y - 1]) : ER();
        SO const ma = y ? SO(tg[y - 1]) : SO();
        Obs so, eo;
        rel6(eo, a, a);
        rel6(so, ma, ma);
        if (y != 0) {
            rel6(eo, a, tg[y - 1]); // the very object it is bound to
            rel6(so, ma, *ma);
        }
        rel_nullopt(eo, a, etl::nullopt);
        rel_nullopt(so, ma, std::nullopt);
        vf::cover("relations with the same object on both sides: optional<T&>", vf::mix(78, y), true);
        compare(eo, so);
    }
}
template <typename... Ts>
void var_self_cells(char const* subj)
{
    constexpr std::size_t N = sizeof...(Ts);
    for (std::size_t j = 0; j < N; ++j) {
        for (int k = 0; k < 3; ++k) {
            char sit[64];
            std::snprintf(sit, sizeof sit, "from-index-%zu,a-%s", j, vname(k + 1));
            vf::crumb(subj, "relational(v,v) same object", sit, "v=(%zu,%d)", j, k);
            Obs so, eo;
            auto run = [&]<typename NS>(NS, Obs& r) {
                auto const a = VarRel<NS, Ts...>::mk(j, k);
                for (long& c : PO::calls) { c = 0; }
                for (long& c : Weird::calls) { c = 0; }
                rel6(r, a, a);
                obs_spaceship<etl::variant<Ts...>, std::variant<Ts...>>(r, a, a);
                obs_calls(r);
                obs_weird_calls(r);
            };
            run(Std{}, so);
            run(Etl{}, eo);
            vf::cover("relations with the same object on both sides: variant", vf::mix(vf::fnv(subj), j * 3 + k), true);
            compare(eo, so);
        }
    }
}

// ---------------------------------------------------------------- mixed payload types
template <typename T>
struct Vals;
template <>
struct Vals<int> {
    static constexpr int v[] = {-1, 0, 1, -2147483647 - 1, 2147483647};
};
template <>
struct Vals<unsigned> {
    static constexpr unsigned v[] = {0U, 1U, 2147483647U, 2147483648U, 4294967295U};
};
template <>
struct Vals<long long> {
    static constexpr long long v[] = {-1LL, 0LL, 1LL, -9223372036854775807LL - 1, 9223372036854775807LL, 9007199254740993LL};
};
template <>
struct Vals<unsigned long long> {
    static constexpr unsigned long long v[] = {0ULL, 1ULL, 9223372036854775807ULL, 9223372036854775808ULL, 18446744073709551615ULL};
};
template <>
struct Vals<long> {
    static constexpr long v[] = {-1L, 0L, 1L, 4294967295L, -4294967296L};
};
template <>
struct Vals<unsigned long> {
    static constexpr unsigned long v[] = {0UL, 1UL, 4294967295UL, 18446744073709551615UL};
};
template <>
struct Vals<short> {
    static constexpr short v[] = {-1, 0, 1, -32768, 32767};
};
template <>
struct Vals<unsigned short> {
    static constexpr unsigned short v[] = {0, 1, 32767, 32768, 65535};
};
template <>
struct Vals<signed char> {
    static constexpr signed char v[] = {-1, 0, 1, -128, 127};
};
template <>
struct Vals<unsigned char> {
    static constexpr unsigned char v[] = {0, 1, 127, 128, 255};
};
template <>
struct Vals<char> {
    static constexpr char v[] = {'a', '\0', static_cast<char>(0xE9)};
};
template <>
struct Vals<double> {
    static constexpr double v[] = {-0.5, 0.0, 0.5, 1.0, 2.5, 9007199254740992.0, 4294967295.5, -1.0};
};
template <>
struct Vals<float> {
    static constexpr float v[] = {-0.5F, 0.5F, 1.0F, 16777216.0F, 4294967296.0F};
};
template <typename T>
constexpr std::size_t nvals = sizeof(Vals<T>::v) / sizeof(Vals<T>::v[0]);

template <typename NS, typename T, typename U>
void mixed_world(Obs& r, std::size_t ia, std::size_t ib) // index 0 = empty, k+1 = value k
{
    using OA   = typename NS::template optional<T>;
    using OB   = typename NS::template optional<U>;
    OA const a = ia ? OA(Vals<T>::v[ia - 1]) : OA();
    OB const b = ib ? OB(Vals<U>::v[ib - 1]) : OB();
    rel6(r, a, b); // optional<T> vs optional<U>, both orders
    if (ib != 0) {
        U const u = Vals<U>::v[ib - 1];
        rel6(r, a, u); // optional<T> vs U value, both orders
    }
    if (ia != 0) {
        T const t = Vals<T>::v[ia - 1];
        rel6(r, b, t); // optional<U> vs T value, both orders
    }
}
template <typename T, typename U>
void mixed_cells(char const* tname, char const* uname)
{
    char subj[64], op[96];
    std::snprintf(subj, sizeof subj, "optional<%s>", tname);
    std::snprintf(op, sizeof op, "relational(optional<%s>, optional<%s> / %s value)", tname, uname, uname);
    for (std::size_t ia = 0; ia <= nvals<T>; ++ia) {
        for (std::size_t ib = 0; ib <= nvals<U>; ++ib) {
            char sit[64];
            std::snprintf(sit, sizeof sit, "a-%s,b-%s", ia ? "engaged" : "empty", ib ? "engaged" : "empty");
            vf::crumb(subj, op, sit, "a=#%zu b=#%zu (0 = empty, k+1 = k-th boundary value of the type)", ia, ib);
            Obs so, eo;
            mixed_world<Std, T, U>(so, ia, ib);
            mixed_world<Etl, T, U>(eo, ia, ib);
            vf::cover("relations between optionals of different payload types", vf::mix(vf::mix(vf::fnv(tname), vf::fnv(uname)), ia * 16 + ib), true);
            compare(eo, so);
        }
    }
}

void run_all()
{
    mixed_cells<int, unsigned>("int", "unsigned");
    mixed_cells<unsigned, int>("unsigned", "int");
    mixed_cells<long long, unsigned long long>("long long", "unsigned long long");
    mixed_cells<int, unsigned long>("int", "unsigned long");
    mixed_cells<long, unsigned>("long", "unsigned");
    mixed_cells<short, unsigned short>("short", "unsigned short");
    mixed_cells<signed char, unsigned char>("signed char", "unsigned char");
    mixed_cells<short, unsigned>("short", "unsigned");
    mixed_cells<int, double>("int", "double");
    mixed_cells<double, long long>("double", "long long");
    mixed_cells<unsigned, float>("unsigned", "float");
    mixed_cells<char, int>("char", "int");
    mixed_cells<unsigned char, int>("unsigned char", "int");
    mixed_cells<unsigned long long, double>("unsigned long long", "double");
    opt_cells<double, double>("optional<double>", "optional<double>");
    opt_cells<double, float>("optional<double>", "optional<float>");
    opt_cells<double, int>("optional<double>", "optional<int>");
    opt_cells<int, double>("optional<int>", "optional<double>");
    opt_cells<PO, PO>("optional<partially-ordered>", "optional<partially-ordered>");
    optref_cells();
    var_cells<int, double>("variant<int,double>");
    var_cells<PO, double, int>("variant<partially-ordered,double,int>");
    var_cells<double>("variant<double>");
    opt_self_cells<double>("optional<double>");
    opt_self_cells<PO>("optional<partially-ordered>");
    opt_self_cells<Weird>("optional<inconsistent-comparisons>");
    opt_self_cells<int>("optional<int>");
    optref_self_cells();
    var_self_cells<int, double>("variant<int,double>");
    var_self_cells<PO, double, int>("variant<partially-ordered,double,int>");
    var_self_cells<Weird, int>("variant<inconsistent-comparisons,int>");
    var_self_cells<double>("variant<double>");
    var_self_cells<Weird, double, Weird>("variant<inconsistent-comparisons,double,inconsistent-comparisons>");
    opt_cells<Weird, Weird>("optional<inconsistent-comparisons>", "optional<inconsistent-comparisons>");
    var_cells<Weird, int>("variant<inconsistent-comparisons,int>");
    vf::sample("relations over unordered payloads", "payload values 0, 1, NaN/unordered; every ordered pair of states; six relations in both argument orders; call counts of the payload's own <, <=, >, >= compared for the instrumented type");
}

vf::Spec spec(vf::Tier)
{
    vf::Spec s;
    s.n_enum     = 1;
    s.n_random   = 0;
    s.batch      = 1;
    s.exhaustive = true;
    return s;
}
void run_case(vf::Case&) { run_all(); }
} // namespace

VF_MAIN("C07", "C07_unordered", spec, run_case)
